/* C07 - DVB demux output depends only on the byte stream and recovers after damage.
 *
 * One case = one byte stream: real multiplexer output (PES or TS), accepted by the
 * independent parser of c06_dvb_parser.h, optionally with Teletext lines on the
 * undefined line 0, optionally damaged (garbage, truncated / over-long packets,
 * foreign stream ids and PIDs, lost / repeated / swapped TS packets, continuity,
 * scrambling / adaptation / error bits, illegal data units, header bit flips),
 * or mutated / random bytes.
 *
 * (a) The stream is demultiplexed once in a single vbi_dvb_demux_feed() call
 *     (reference) and then again under ~12 partitions - random cuts, cuts at
 *     +-0..2 bytes around every structural boundary, fixed sizes, single bytes -
 *     through vbi_dvb_demux_feed() and through vbi_dvb_demux_cor() with random
 *     max_lines.  Every chunk lives in its own exactly sized heap block that is
 *     freed right after the call (ASan sees any access the demultiplexer makes
 *     outside the chunk it was given or after the call).  All runs must produce
 *     the identical frame sequence.
 * (b) Damage: no memory error / abort / hang (sanitizers, watchdog); recovery:
 *     let S be the first intact packet after the damage at which a receiver
 *     following only ISO 13818-1 framing (start code + PES_packet_length for PES,
 *     188 byte packets for TS) is in step again; every frame sent after the one
 *     in S must be delivered exactly, as the last frames of the output.
 */
#include "vf.h"
#include <stdlib.h>
#include <string.h>
#include "c06_dvb_gen.h"

/* ---------------- frames as the demultiplexer delivers them ---------------- */

struct rline { unsigned id, line; uint8_t data[42]; };
struct rframe { int n; int64_t pts; struct rline l[64]; };

#define MAXR 600
static struct rframe ref[MAXR];
static int n_ref, ref_overflow;

static unsigned payload_len(unsigned id)
{
	if (id == VBI_SLICED_TELETEXT_B) return 42;
	if (id == VBI_SLICED_VPS || id == VBI_SLICED_VPS_F2) return 13;
	if (id == VBI_SLICED_WSS_625) return 2;
	if (id == VBI_SLICED_CAPTION_625_F1 || id == VBI_SLICED_CAPTION_625_F2) return 2;
	if (id == VBI_SLICED_CAPTION_525_F1 || id == VBI_SLICED_CAPTION_525_F2) return 2;
	if (id == VBI_SLICED_WSS_CPR1204) return 3;
	return 0;
}

static void to_rline(struct rline *l, const vbi_sliced *s)
{
	memset(l, 0, sizeof *l);
	l->id = s->id; l->line = s->line;
	memcpy(l->data, s->data, payload_len(s->id));
	if (s->id == VBI_SLICED_WSS_625) l->data[1] &= 0x3F;       /* 14 bits */
}

static int same_rline(const struct rline *a, const struct rline *b)
{
	return a->id == b->id && a->line == b->line && !memcmp(a->data, b->data, 42);
}

/* state of one demultiplexing run */
static struct {
	int recording;          /* 1: fill ref[]; 0: compare with ref[] */
	int k;                  /* frames seen so far (callback) / index of next reference frame (coroutine) */
	int n_frames;
	char mismatch[400];
} run;

static vbi_bool demux_cb(vbi_dvb_demux *dx, void *ud, const vbi_sliced *s, unsigned int n, int64_t pts)
{
	unsigned i;
	(void)dx; (void)ud;
	run.n_frames++;
	if (run.recording) {
		struct rframe *f;
		if (n_ref >= MAXR) { ref_overflow = 1; return TRUE; }
		f = &ref[n_ref++];
		f->n = (int)(n > 64 ? 64 : n); f->pts = pts;
		for (i = 0; i < (unsigned)f->n; i++) to_rline(&f->l[i], &s[i]);
		return TRUE;
	}
	if (run.mismatch[0]) return TRUE;
	if (run.k >= n_ref) {
		snprintf(run.mismatch, sizeof run.mismatch, "frame %d (%u lines, PTS 0x%llx) delivered, the single-call run delivered only %d frames", run.k, n, (unsigned long long)pts, n_ref);
	} else {
		const struct rframe *f = &ref[run.k];
		if ((int)n != f->n) snprintf(run.mismatch, sizeof run.mismatch, "frame %d has %u lines, single-call run %d", run.k, n, f->n);
		else if (pts != f->pts) snprintf(run.mismatch, sizeof run.mismatch, "frame %d has PTS 0x%llx, single-call run 0x%llx", run.k, (unsigned long long)pts, (unsigned long long)f->pts);
		else for (i = 0; i < n; i++) {
			struct rline l;
			to_rline(&l, &s[i]);
			if (!same_rline(&l, &f->l[i])) {
				snprintf(run.mismatch, sizeof run.mismatch, "frame %d line %u: id 0x%x line %u %s, single-call run id 0x%x line %u %s", run.k, i,
					l.id, l.line, vf_hex(l.data, 8), f->l[i].id, f->l[i].line, vf_hex(f->l[i].data, 8));
				break;
			}
		}
	}
	run.k++;
	return TRUE;
}

/* ---------------- the stream ---------------- */

#define ARENA (6u << 20)
static uint8_t arena[ARENA];
static size_t arena_used;
static uint8_t *aalloc(size_t n)
{
	uint8_t *p;
	if (arena_used + n > ARENA) return NULL;
	p = arena + arena_used;
	arena_used += n;
	return p;
}

struct item {
	uint8_t *data;
	size_t len;
	int pkt;                /* PES packet (= sent frame) this item belongs to, -1 for inserted bytes */
	int first;              /* first item of its PES packet */
	int damaged;            /* bytes modified / truncated / inserted */
	size_t off;             /* offset in the final stream */
};
#define MAXITEMS 6000
static struct item items[MAXITEMS];
static int n_items;

struct sent { int n; int64_t pts; struct rline l[64]; unsigned pes_size; int n_du; unsigned du_off[64]; };
#define MAXSENT 40
static struct sent sent[MAXSENT];
static int n_sent;

#define STRM_MAX (3u << 20)
static uint8_t strm[STRM_MAX];
static size_t strm_len;

static struct dg_frame frame;
static struct dg_out out;
static struct dp_pes pes;
static struct dp_ts_state tsst;

enum { T_CLEAN, T_LINE0, T_DAMAGE, T_MUTATED, T_RANDOM, T_TRUNC, T_N };
static const char *const type_name[T_N] = { "clean", "line0", "damage", "mutated", "random", "truncated" };

enum { D_NONE, D_GARBAGE, D_OVERWRITE, D_TRUNCATE, D_LENGTH, D_FOREIGN, D_ILLEGAL_DU, D_BITFLIP, D_DROP, D_DUP,
       D_TS_LOST, D_TS_SWAP, D_TS_CC, D_TS_BITS, D_NESTED, D_OVERFULL, D_DU_TAIL, D_N };
static const char *const dmg_name[D_N] = { "none", "garbage", "overwrite", "truncate", "length", "foreign", "illegal-du", "header-bitflip", "drop-packet", "repeat-packet",
	"ts-lost", "ts-swap", "ts-continuity", "ts-flags", "nested-in-foreign", "overfull-frame", "data-unit-at-packet-end" };

static void insert_item(int at, uint8_t *data, size_t len, int damaged)
{
	int i;
	if (n_items >= MAXITEMS) return;
	for (i = n_items; i > at; i--) items[i] = items[i - 1];
	items[at].data = data; items[at].len = len; items[at].pkt = -1; items[at].first = 0; items[at].damaged = damaged; items[at].off = 0;
	n_items++;
}

static void remove_item(int at)
{
	int i;
	for (i = at; i + 1 < n_items; i++) items[i] = items[i + 1];
	n_items--;
}

static uint8_t *own_copy(struct item *it)
{
	uint8_t *c = aalloc(it->len ? it->len : 1);
	if (!c) return it->data;
	memcpy(c, it->data, it->len);
	it->data = c;
	return c;
}

static uint8_t *garbage_blob(struct vf_rng *r, size_t *len, int ts)
{
	size_t n = (size_t)(vf_chance(r, 1, 3) ? vf_range(r, 1, 12) : vf_range(r, 1, 700));
	uint8_t *b = aalloc(n + 8);
	if (!b) { *len = 0; return arena; }
	switch (vf_below(r, 5)) {
	case 0: memset(b, 0x00, n); break;
	case 1: memset(b, 0xFF, n); break;
	case 2: memset(b, ts ? 0x47 : 0x01, n); break;
	default: vf_bytes(r, b, n); break;
	}
	/* tails that look like the beginning of a start code / sync */
	switch (vf_below(r, 6)) {
	case 0: b[n - 1] = 0; break;
	case 1: if (n >= 2) { b[n - 2] = 0; b[n - 1] = 0; } break;
	case 2: if (n >= 3) { b[n - 3] = 0; b[n - 2] = 0; b[n - 1] = 1; } break;
	case 3: if (n >= 4) { b[n - 4] = 0; b[n - 3] = 0; b[n - 2] = 1; b[n - 1] = (uint8_t)vf_range(r, 0, 0xBB); } break;
	default: break;
	}
	*len = n;
	return b;
}

static uint8_t *foreign_pes(struct vf_rng *r, size_t *len)
{
	static const uint8_t sids[] = { 0xBC, 0xBE, 0xBF, 0xC0, 0xDF, 0xE0, 0xEF, 0xF0, 0xFF };
	unsigned plen = (unsigned)(vf_chance(r, 1, 2) ? vf_range(r, 0, 60) : vf_range(r, 0, 2000));
	int kind = (int)vf_below(r, 4);
	uint8_t *b;
	if (kind == 3 && plen < 178) plen = 178 + (unsigned)vf_range(r, 0, 400);
	b = aalloc(plen + 6);
	if (!b) { *len = 0; return arena; }
	vf_bytes(r, b + 6, plen);
	b[0] = 0; b[1] = 0; b[2] = 1;
	b[3] = sids[vf_below(r, sizeof sids)];
	b[4] = (uint8_t)(plen >> 8); b[5] = (uint8_t)plen;
	if (kind == 3) {        /* private_stream_1 that is not VBI: other header length or data_identifier */
		b[3] = 0xBD; b[6] = 0x84; b[7] = 0x80;
		if (vf_chance(r, 1, 2)) { b[8] = (uint8_t)vf_range(r, 5, 0x23); }
		else { b[8] = 0x24; b[9] = 0x21; b[11] = 1; b[13] = 1; b[45] = (uint8_t[]){ 0x00, 0x0F, 0x20, 0x80, 0x98, 0x9C, 0xFF }[vf_below(r, 7)]; }
	}
	*len = plen + 6;
	return b;
}

/* ---------------- stream construction ---------------- */

static int build_clean(struct vf_rng *r, struct dg_cfg *c, int type, int nframes)
{
	vbi_dvb_mux *mx;
	struct dg_opts o = { 5, 0, type == T_LINE0, 0, 1 };
	unsigned min_last = 23;
	int i;
	int64_t base_pts = (int64_t)(vf_u64(r) & 0x1FFFFFFFFll);
	char why[300];

	out.len = 0; out.n_units = 0; out.overflow = 0; out.cb_calls = 0; out.integrity[0] = 0;
	vf_phase("vbi_dvb_mux_new");
	mx = c->ts ? vbi_dvb_ts_mux_new(c->pid, dg_mux_cb, &out) : vbi_dvb_pes_mux_new(dg_mux_cb, &out);
	if (!mx) return 0;
	vbi_dvb_mux_set_data_identifier(mx, c->di);
	vbi_dvb_mux_set_pes_packet_size(mx, c->min_sz, c->max_sz);
	dp_ts_init(&tsst, c->pid);
	n_sent = n_items = 0;

	for (i = 0; i < nframes && n_sent < MAXSENT; i++) {
		int64_t pts = (base_pts + (int64_t)i * 3600 + (vf_chance(r, 1, 10) ? (int64_t)vf_range(r, -5000, 5000) : 0)) & 0x1FFFFFFFFll;
		const char *rule = NULL;
		const uint8_t *pp;
		size_t pn, k;
		struct sent *st;
		int j, complete = 0;
		uint8_t *copy;

		if (type == T_DAMAGE || i == nframes - 1) o.first_line_max = (i == nframes - 1) ? 7 : min_last;
		else o.first_line_max = 0;
		if (i == nframes - 1) { o.allow_raw = 0; o.line0 = 0; }
		dg_gen_accept(r, c, &o, &frame, pts);
		if (i == nframes - 1) { frame.n = frame.n > 3 ? 3 : frame.n; dg_build_expect(&frame, c->di); }
		if (frame.expect != DG_ACCEPT) { dg_frame_free(&frame); continue; }
		if (!dg_fixed(c->di) && frame.n_exp_raw > 0 && i != nframes - 1
		    && (frame.need < c->min_sz ? c->min_sz - frame.need : (184 - frame.need % 184) % 184) == 1) {
			/* The multiplexer is only the stream source here.  Frames that end one byte
			 * short of a legal packet size after raw data are C06's business (they abort
			 * in encode_stuffing on the unchanged tree); not used. */
			vf_count("frames_avoided_one_byte_short_after_raw", 1);
			dg_frame_free(&frame);
			continue;
		}
		out.len = 0; out.n_units = 0; out.cb_calls = 0;
		vf_phase("vbi_dvb_mux_feed");
		if (!vbi_dvb_mux_feed(mx, frame.sl, (unsigned)frame.n, frame.mask, frame.raw_arg, frame.sp_arg, frame.pts) || out.overflow || !out.len) {
			/* C06's business; this stream cannot be trusted */
			dg_frame_free(&frame);
			vbi_dvb_mux_delete(mx);
			return 0;
		}
		/* trust the bytes only after the independent parser accepted them */
		pp = out.buf; pn = out.len;
		if (c->ts) {
			for (k = 0; !rule && k + 188 <= out.len; k += 188) rule = dp_ts_push(&tsst, out.buf + k, &complete, why, sizeof why);
			if (!rule && (!complete || out.len % 188)) rule = "ts-pes-incomplete";
			pp = tsst.pes; pn = tsst.have;
		}
		if (!rule) rule = dp_parse_pes(pp, pn, &pes, why, sizeof why);
		if (!rule) rule = dg_compare(&pes, &frame, c, why, sizeof why);
		if (rule) {
			vf_count("stream_not_conformant", 1);
			dg_frame_free(&frame);
			vbi_dvb_mux_delete(mx);
			return 0;
		}
		st = &sent[n_sent];
		st->n = 0; st->pts = frame.pts & 0x1FFFFFFFFll; st->pes_size = pes.size;
		for (j = 0; j < frame.n_exp && st->n < 64; j++) {
			const struct dp_line *e = &frame.exp[j];
			struct rline *l;
			if (e->kind == DK_RAW) continue;
			l = &st->l[st->n++];
			memset(l, 0, sizeof *l);
			l->line = e->line;
			switch (e->kind) {
			case DK_TTX: l->id = VBI_SLICED_TELETEXT_B; memcpy(l->data, e->data, 42); break;
			case DK_VPS: l->id = VBI_SLICED_VPS; memcpy(l->data, e->data, 13); break;
			case DK_WSS: l->id = VBI_SLICED_WSS_625; l->data[0] = e->data[0]; l->data[1] = e->data[1] & 0x3F; break;
			case DK_CC: l->id = VBI_SLICED_CAPTION_625_F1; memcpy(l->data, e->data, 2); break;
			}
		}
		st->n_du = pes.n_du > 64 ? 64 : pes.n_du;
		for (j = 0; j < st->n_du; j++) st->du_off[j] = pes.du_off[j];
		if (st->n > 0 && st->l[st->n - 1].line && st->l[st->n - 1].line < min_last) min_last = st->l[st->n - 1].line;
		if (min_last < 7) min_last = 7;

		copy = aalloc(out.len);
		if (!copy) { dg_frame_free(&frame); break; }
		memcpy(copy, out.buf, out.len);
		if (c->ts) {
			for (k = 0; k + 188 <= out.len && n_items < MAXITEMS; k += 188) {
				struct item *it = &items[n_items++];
				it->data = copy + k; it->len = 188; it->pkt = n_sent; it->first = (k == 0); it->damaged = 0; it->off = 0;
			}
		} else if (n_items < MAXITEMS) {
			struct item *it = &items[n_items++];
			it->data = copy; it->len = out.len; it->pkt = n_sent; it->first = 1; it->damaged = 0; it->off = 0;
		}
		n_sent++;
		dg_frame_free(&frame);
	}
	vf_phase("vbi_dvb_mux_delete");
	vbi_dvb_mux_delete(mx);
	return n_sent >= 2;
}

static int first_item_of(int pkt)
{
	int i;
	for (i = 0; i < n_items; i++) if (items[i].pkt == pkt && items[i].first) return i;
	return -1;
}

static int last_item_of(int pkt)
{
	int i, l = -1;
	for (i = 0; i < n_items; i++) if (items[i].pkt == pkt) l = i;
	return l;
}

/* offset inside the stream of PES byte `o` of packet pkt (TS: through the 4 byte headers) */
static uint8_t *pes_byte(int pkt, unsigned o, int ts, struct item **itp)
{
	int f = first_item_of(pkt);
	if (f < 0) return NULL;
	if (!ts) {
		if (o >= items[f].len) return NULL;
		*itp = &items[f];
		return own_copy(&items[f]) + o;
	} else {
		int k = f + (int)(o / 184);
		if (k >= n_items || items[k].pkt != pkt) return NULL;
		*itp = &items[k];
		return own_copy(&items[k]) + 4 + o % 184;
	}
}

/* Applies one kind of damage to packet v (or the TS packets of v).  Returns 1 when
 * the damage can make a 188-byte framed receiver lose sync. */
static int apply_damage(struct vf_rng *r, int kind, int v, const struct dg_cfg *c, char *desc, size_t dl)
{
	int f = first_item_of(v), l = last_item_of(v), sync_risk = 0;
	struct item *it = NULL;
	size_t n;
	uint8_t *b;

	desc[0] = 0;
	if (f < 0) return 0;
	switch (kind) {
	case D_GARBAGE: {
		int at = c->ts ? vf_range(r, f, l + 1) : l + 1;
		b = garbage_blob(r, &n, c->ts);
		insert_item(at, b, n, 1);
		snprintf(desc, dl, "%zu garbage bytes inserted %s packet %d", n, at == l + 1 ? "after" : "inside", v);
		sync_risk = c->ts && (n % 188 != 0 || 1);
		break; }
	case D_OVERWRITE: {
		size_t a, m;
		it = &items[vf_range(r, f, l)];
		b = own_copy(it);
		a = vf_below(r, (unsigned)it->len);
		m = (size_t)vf_range(r, 1, 64);
		if (a + m > it->len) m = it->len - a;
		vf_bytes(r, b + a, m);
		it->damaged = 1;
		snprintf(desc, dl, "%zu bytes overwritten at offset %zu of %s of packet %d", m, a, c->ts ? "a TS packet" : "the PES packet", v);
		sync_risk = c->ts && a == 0;
		break; }
	case D_TRUNCATE: {
		size_t k;
		it = &items[vf_range(r, f, l)];
		k = (size_t)vf_range(r, 1, (int)it->len - 1);
		if (vf_chance(r, 1, 3)) k = (size_t)vf_range(r, 1, 4);
		it->len -= k;
		it->damaged = 1;
		snprintf(desc, dl, "last %zu bytes of %s of packet %d removed", k, c->ts ? "a TS packet" : "the PES packet", v);
		sync_risk = c->ts;
		break; }
	case D_LENGTH: {
		unsigned len;
		uint8_t *p4 = pes_byte(v, 4, c->ts, &it), *p5;
		if (!p4) return 0;
		p5 = p4 + 1;
		len = (unsigned)*p4 * 256 + *p5;
		switch (vf_below(r, 4)) {
		case 0: len += (unsigned)vf_range(r, 1, 400); break;
		case 1: len = len > 200 ? len - (unsigned)vf_range(r, 1, 200) : 0; break;
		case 2: len = (unsigned)vf_range(r, 0, 177); break;
		default: len = 0xFFFF - (unsigned)vf_range(r, 0, 3); break;
		}
		*p4 = (uint8_t)(len >> 8); *p5 = (uint8_t)len;
		it->damaged = 1;
		snprintf(desc, dl, "PES_packet_length of packet %d set to %u", v, len & 0xFFFF);
		break; }
	case D_FOREIGN:
		if (c->ts) {
			int cnt = vf_range(r, 1, 5), at = vf_range(r, f, l + 1), k;
			unsigned pid;
			do pid = (unsigned)vf_range(r, 0, 0x1FFF); while (pid == c->pid);
			for (k = 0; k < cnt; k++) {
				b = aalloc(188);
				if (!b) break;
				vf_bytes(r, b, 188);
				b[0] = 0x47; b[1] = (uint8_t)((b[1] & 0x60) | (pid >> 8)); b[2] = (uint8_t)pid; b[3] = (uint8_t)(0x10 | (k & 15));
				if (vf_chance(r, 1, 4)) { b[1] |= 0x40; b[4] = 0; b[5] = 0; b[6] = 1; b[7] = 0xBD; }
				/* another programme may be scrambled, carry adaptation fields of any length, no payload at all,
				 * or count as it likes: none of that is the business of the filtered PID */
				if (vf_chance(r, 1, 2)) b[3] = (uint8_t)vf_u32(r);
				insert_item(at + k, b, 188, 1);
			}
			snprintf(desc, dl, "%d TS packets with PID 0x%x inserted %s packet %d", cnt, pid, at == l + 1 ? "after" : "inside", v);
		} else {
			b = foreign_pes(r, &n);
			insert_item(l + 1, b, n, 1);
			snprintf(desc, dl, "foreign PES packet (stream_id 0x%02x, %zu bytes) inserted after packet %d", b[3], n, v);
		}
		break;
	case D_NESTED: {
		/* PES only: garbage, then a packet of a foreign stream whose payload ends with (or contains) a complete
		   copy of one of the stream's own VBI PES packets.  ISO 13818-1 framing hides the nested packet;
		   where scanning resumes must not depend on how the bytes before it were cut. */
		static const uint8_t sids[] = { 0xBC, 0xBE, 0xBF, 0xC0, 0xDF, 0xE0, 0xEF, 0xF0, 0xFF };
		int src = vf_range(r, 0, n_sent - 1), sf = first_item_of(src);
		size_t g = (size_t)vf_range(r, 0, 400), pre = (size_t)vf_range(r, 0, 300), post = vf_chance(r, 1, 2) ? 0 : (size_t)vf_range(r, 1, 64), plen, k;
		if (c->ts || sf < 0 || items[sf].len > 60000) return 0;
		plen = pre + items[sf].len + post;
		if (plen > 65535) return 0;
		b = aalloc(g + 6 + plen);
		if (!b) return 0;
		switch (vf_below(r, 3)) {
		case 0: memset(b, 0xFF, g); break;
		case 1: memset(b, 0x00, g); if (g) b[g - 1] = 0xFF; break;
		default: vf_bytes(r, b, g); for (k = 0; k + 2 < g; k++) if (b[k] == 0 && b[k + 1] == 0 && b[k + 2] == 1) b[k + 2] = 2; if (g) b[g - 1] |= 0x80; if (g > 1) b[g - 2] |= 0x80; break;
		}
		b[g] = 0; b[g + 1] = 0; b[g + 2] = 1; b[g + 3] = sids[vf_below(r, sizeof sids)];
		b[g + 4] = (uint8_t)(plen >> 8); b[g + 5] = (uint8_t)plen;
		vf_bytes(r, b + g + 6, pre);
		for (k = 0; k + 2 < pre; k++) if (b[g + 6 + k] == 0 && b[g + 6 + k + 1] == 0 && b[g + 6 + k + 2] == 1) b[g + 6 + k + 2] = 3;
		memcpy(b + g + 6 + pre, items[sf].data, items[sf].len);
		vf_bytes(r, b + g + 6 + pre + items[sf].len, post);
		insert_item(l + 1, b, g + 6 + plen, 1);
		snprintf(desc, dl, "%zu garbage bytes and a foreign PES packet (stream_id 0x%02x, %zu bytes payload containing a copy of VBI packet %d at payload offset %zu) inserted after packet %d",
			 g, b[g + 3], plen, src, pre, v);
		break; }
	case D_OVERFULL: {
		/* PES only: a well-formed VBI PES packet with so many Teletext data units of undefined line number
		   (line_offset 0, same field) that the frame in progress grows beyond the 64 lines the demultiplexer
		   holds; "oversized packets" of the statement */
		int units = 4 * vf_range(r, 16, 30) - 1, k;       /* header + units is a multiple of 4 * 46 = 184 */
		size_t total = 46 * (size_t)(units + 1);
		if (c->ts || items[f].len < 46) return 0;
		b = aalloc(total);
		if (!b) return 0;
		memcpy(b, items[f].data, 46);                    /* start code, header with PTS, data_identifier */
		b[4] = (uint8_t)((total - 6) >> 8); b[5] = (uint8_t)(total - 6);
		for (k = 0; k < units; k++) {
			uint8_t *u = b + 46 + 46 * k;
			u[0] = vf_chance(r, 1, 8) ? 0x03 : 0x02; u[1] = 0x2C;
			u[2] = (uint8_t)(0xC0 | (vf_chance(r, 1, 20) ? 0x20 : 0));      /* field parity mostly constant, line_offset 0 */
			u[3] = 0xE4;
			vf_bytes(r, u + 4, 42);
		}
		insert_item(l + 1, b, total, 1);
		snprintf(desc, dl, "VBI PES packet with %d Teletext data units of undefined line number (%zu bytes) inserted after packet %d", units, total, v);
		break; }
	case D_DU_TAIL: {
		/* the last bytes of the PES packet become a data unit of any known (or unknown) id with any length,
		   ending exactly with the packet - also lengths too short for what the unit is supposed to carry: the
		   demultiplexer must not look behind the end of the packet (every feed is an exactly sized heap block) */
		static const uint8_t ids[] = { 0x02, 0x03, 0xC0, 0xC1, 0xC3, 0xC4, 0xC5, 0xC6, 0xB4, 0xB5, 0xB6, 0xFF, 0x00, 0x10 };
		unsigned size = sent[v].pes_size, k, o;
		unsigned id = vf_chance(r, 9, 10) ? ids[vf_below(r, sizeof ids)] : vf_below(r, 256);
		/* lengths around what each kind of unit needs (1 + 42/43 Teletext, 1 + 13 VPS, 1 + 2 WSS and caption, 1 + 3 CPR-1204) */
		unsigned L = (id == 0x02 || id == 0x03 || id == 0xC0 || id == 0xC1) && vf_chance(r, 1, 2) ? (unsigned)vf_range(r, 0x29, 0x2E)
			: id == 0xC3 && vf_chance(r, 1, 2) ? (unsigned)vf_range(r, 0x0B, 0x10)
			: vf_chance(r, 3, 4) ? (unsigned)vf_range(r, 0, 6) : (unsigned)vf_range(r, 0, 0x2E);
		/* a line number that continues the frame: second field, one of the last lines (else the unit is refused for its line) */
		unsigned lofp = vf_chance(r, 2, 3) ? (0xC0u | (unsigned)vf_range(r, 20, 23)) : (0xC0u | vf_below(r, 64));
		uint8_t *q;
		if (size < 46 + 2 + L + 46) return 0;
		o = size - 2 - L;
		{
			/* the data units in front of it stay whole: the one that reaches into the new unit is replaced by a
			   stuffing unit that ends where the new unit begins */
			const struct sent *st = &sent[v];
			int j;
			unsigned from = 0, gap;
			for (j = 0; j < st->n_du; j++) if (st->du_off[j] <= o) from = st->du_off[j];
			if (from < 46) return 0;
			gap = o - from;
			if (gap == 1) { if (L == 0) return 0; L--; o++; gap = 2; }
			if (gap >= 2) {
				if (gap - 2 > 255) return 0;
				q = pes_byte(v, from, c->ts, &it); if (!q) return 0; *q = 0xFF; it->damaged = 1;
				q = pes_byte(v, from + 1, c->ts, &it); if (!q) return 0; *q = (uint8_t)(gap - 2); it->damaged = 1;
				for (k = 2; k < gap; k++) { q = pes_byte(v, from + k, c->ts, &it); if (!q) return 0; *q = 0xFF; it->damaged = 1; }
			}
		}
		q = pes_byte(v, o, c->ts, &it); if (!q) return 0; *q = (uint8_t)id; it->damaged = 1;
		q = pes_byte(v, o + 1, c->ts, &it); if (!q) return 0; *q = (uint8_t)L; it->damaged = 1;
		for (k = 0; k < L; k++) { q = pes_byte(v, o + 2 + k, c->ts, &it); if (!q) return 0; *q = (uint8_t)(k == 0 ? lofp : vf_below(r, 256)); it->damaged = 1; }
		snprintf(desc, dl, "the last %u bytes of packet %d replaced by a data unit id 0x%02x with data_unit_length %u", 2 + L, v, id, L);
		break; }
	case D_ILLEGAL_DU: {
		const struct sent *st = &sent[v];
		unsigned o, what = vf_below(r, 5);
		uint8_t *p;
		if (!st->n_du) return 0;
		o = st->du_off[vf_below(r, (unsigned)st->n_du)];
		switch (what) {
		case 0: p = pes_byte(v, o, c->ts, &it); if (!p) return 0; *p = (uint8_t)vf_range(r, 0, 0xFF); snprintf(desc, dl, "data_unit_id at PES offset %u of packet %d set to 0x%02x", o, v, *p); break;
		case 1: p = pes_byte(v, o + 1, c->ts, &it); if (!p) return 0; *p = (uint8_t)vf_range(r, 0, 0xFF); snprintf(desc, dl, "data_unit_length at PES offset %u of packet %d set to %u", o + 1, v, *p); break;
		case 2: p = pes_byte(v, o + 2, c->ts, &it); if (!p) return 0; *p = (uint8_t)vf_range(r, 0, 0xFF); snprintf(desc, dl, "line_offset byte at PES offset %u of packet %d set to 0x%02x", o + 2, v, *p); break;
		case 3: p = pes_byte(v, o + 3, c->ts, &it); if (!p) return 0; *p ^= (uint8_t)(1u << vf_below(r, 8)); snprintf(desc, dl, "byte 3 of the data unit at PES offset %u of packet %d changed", o, v); break;
		default: p = pes_byte(v, o + 1, c->ts, &it); if (!p) return 0; *p = 0xFF; snprintf(desc, dl, "data_unit_length at PES offset %u of packet %d set to 255", o + 1, v); break;
		}
		it->damaged = 1;
		break; }
	case D_BITFLIP: {
		unsigned o = vf_below(r, 46);
		uint8_t *p = pes_byte(v, o, c->ts, &it);
		if (!p) return 0;
		*p ^= (uint8_t)(1u << vf_below(r, 8));
		it->damaged = 1;
		snprintf(desc, dl, "bit flipped in PES header byte %u of packet %d", o, v);
		break; }
	case D_DROP: {
		int k;
		for (k = l; k >= f; k--) remove_item(k);
		if (f < n_items) items[f].damaged |= 2;    /* marks where the damage ends */
		snprintf(desc, dl, "packet %d removed", v);
		break; }
	case D_DUP: {
		int k, cnt = l - f + 1;
		for (k = 0; k < cnt; k++) {
			insert_item(l + 1 + k, items[f + k].data, items[f + k].len, 1);
		}
		snprintf(desc, dl, "packet %d sent twice", v);
		break; }
	case D_TS_LOST: {
		int a = vf_range(r, f, l), cnt = vf_range(r, 1, 3), k;
		for (k = 0; k < cnt && a < n_items - 1; k++) remove_item(a);
		if (a < n_items) items[a].damaged |= 2;
		snprintf(desc, dl, "%d TS packets lost inside/after packet %d", cnt, v);
		break; }
	case D_TS_SWAP: {
		int a = vf_range(r, f, l);
		struct item t;
		if (a + 1 >= n_items) return 0;
		t = items[a]; items[a] = items[a + 1]; items[a + 1] = t;
		items[a].damaged = items[a + 1].damaged = 1;
		snprintf(desc, dl, "two TS packets swapped in packet %d", v);
		break; }
	case D_TS_CC:
		it = &items[vf_range(r, f, l)];
		b = own_copy(it);
		b[3] = (uint8_t)((b[3] & 0xF0) | ((b[3] + 1 + vf_below(r, 15)) & 15));
		it->damaged = 1;
		snprintf(desc, dl, "continuity_counter of a TS packet of packet %d changed", v);
		break;
	case D_TS_BITS:
		it = &items[vf_range(r, f, l)];
		b = own_copy(it);
		switch (vf_below(r, 7)) {
		case 6: b[0] ^= (uint8_t)(1u << vf_below(r, 8)); sync_risk = 1; snprintf(desc, dl, "sync_byte damaged in packet %d", v); break;
		case 0: b[1] |= 0x80; snprintf(desc, dl, "transport_error_indicator set in packet %d", v); break;
		case 1: b[3] = (uint8_t)((b[3] & 0x3F) | (vf_range(r, 1, 3) << 6)); snprintf(desc, dl, "transport_scrambling_control set in packet %d", v); break;
		case 2: b[3] = (uint8_t)((b[3] & 0xCF) | 0x20); snprintf(desc, dl, "adaptation_field_control '10' in packet %d", v); break;
		case 3: b[3] = (uint8_t)((b[3] & 0xCF) | 0x30); b[4] = (uint8_t)vf_range(r, 0, 183); snprintf(desc, dl, "adaptation_field_control '11' in packet %d", v); break;
		case 4: b[3] = (uint8_t)(b[3] & 0xCF); snprintf(desc, dl, "adaptation_field_control '00' in packet %d", v); break;
		default: b[1] ^= 0x40; snprintf(desc, dl, "payload_unit_start_indicator inverted in packet %d", v); break;
		}
		it->damaged = 1;
		break;
	default:
		return 0;
	}
	return sync_risk;
}

static void concat(void)
{
	int i;
	strm_len = 0;
	for (i = 0; i < n_items; i++) {
		items[i].off = strm_len;
		if (strm_len + items[i].len > STRM_MAX) { n_items = i; break; }
		memcpy(strm + strm_len, items[i].data, items[i].len);
		strm_len += items[i].len;
	}
}

/* ---------------- demultiplexing runs ---------------- */

enum { P_RANDOM, P_BOUNDARY, P_FIXED, P_ONEBYTE, P_HALVES, P_N };
static const char *const part_name[P_N] = { "random", "boundary", "fixed", "one-byte", "two-chunks" };

static size_t *cuts;            /* ascending offsets in (0, strm_len), heap */
static size_t n_cuts, cap_cuts;

static void add_cut(size_t c)
{
	if (c == 0 || c >= strm_len) return;
	if (n_cuts && cuts[n_cuts - 1] >= c) return;
	if (n_cuts >= cap_cuts) {
		cap_cuts = cap_cuts ? cap_cuts * 2 : 4096;
		cuts = realloc(cuts, cap_cuts * sizeof *cuts);
	}
	cuts[n_cuts++] = c;
}

static size_t *bounds;          /* structural boundaries, ascending */
static size_t n_bounds, cap_bounds;
static void add_bound(size_t b)
{
	if (n_bounds >= cap_bounds) {
		cap_bounds = cap_bounds ? cap_bounds * 2 : 4096;
		bounds = realloc(bounds, cap_bounds * sizeof *bounds);
	}
	bounds[n_bounds++] = b;
}
static int cmp_size(const void *a, const void *b)
{
	size_t x = *(const size_t *)a, y = *(const size_t *)b;
	return x < y ? -1 : x > y;
}

static void find_bounds(int ts)
{
	static const unsigned hdr[] = { 0, 3, 4, 6, 9, 14, 45, 46, 48 };
	int i;
	unsigned k;
	n_bounds = 0;
	for (i = 0; i < n_items; i++) {
		const struct item *it = &items[i];
		add_bound(it->off);
		if (ts && it->len >= 10) { add_bound(it->off + 1); add_bound(it->off + 4); add_bound(it->off + 10); }
		if (it->pkt >= 0 && it->first) {
			const struct sent *st = &sent[it->pkt];
			for (k = 0; k < sizeof hdr / sizeof hdr[0]; k++)
				if ((ts ? 4 : 0) + hdr[k] < it->len) add_bound(it->off + (ts ? 4 : 0) + hdr[k]);
			if (!ts) {
				int j;
				for (j = 0; j < st->n_du; j++) if (st->du_off[j] < it->len) add_bound(it->off + st->du_off[j]);
			}
		}
		if (ts && it->pkt >= 0 && !it->damaged && it->len == 188) {
			/* data unit boundaries that fall into this TS packet */
			const struct sent *st = &sent[it->pkt];
			int fi = first_item_of(it->pkt), j;
			if (fi >= 0 && i >= fi) {
				unsigned lo = (unsigned)(i - fi) * 184, hi = lo + 184;
				for (j = 0; j < st->n_du; j++)
					if (st->du_off[j] >= lo && st->du_off[j] < hi) add_bound(it->off + 4 + st->du_off[j] - lo);
			}
		}
	}
	add_bound(strm_len);
	qsort(bounds, n_bounds, sizeof *bounds, cmp_size);
}

/* which structural positions the cuts of this partition hit:
 * 1 = exactly a packet start, 2 = inside the header look-ahead of a packet,
 * 4 = inside a packet body, 8 = inside inserted / garbage bytes */
static unsigned cut_classes(int ts)
{
	unsigned cls = 0;
	size_t k;
	int i = 0;
	for (k = 0; k < n_cuts; k++) {
		size_t c = cuts[k], rel;
		while (i + 1 < n_items && items[i + 1].off <= c) i++;
		rel = c - items[i].off;
		if (items[i].pkt < 0) cls |= 8;
		else if (rel == 0) cls |= 1;
		else if (rel < (ts ? 10u : 48u) && (ts || items[i].first)) cls |= 2;
		else cls |= 4;
	}
	return cls;
}

static void make_partition(struct vf_rng *r, int kind)
{
	size_t k;
	n_cuts = 0;
	switch (kind) {
	case P_RANDOM: {
		size_t pos = 0;
		int style = (int)vf_below(r, 4);
		while (pos < strm_len) {
			size_t step;
			switch (style) {
			case 0: step = (size_t)vf_range(r, 1, 4); break;
			case 1: step = (size_t)vf_range(r, 1, 60); break;
			case 2: step = (size_t)vf_range(r, 1, 500); break;
			default: step = vf_chance(r, 1, 3) ? (size_t)vf_range(r, 1, 3) : (size_t)vf_range(r, 100, 6000); break;
			}
			pos += step;
			add_cut(pos);
		}
		break; }
	case P_BOUNDARY: {
		int fixed_delta = vf_chance(r, 1, 2), delta = vf_range(r, -2, 2);
		unsigned dens = (unsigned)vf_range(r, 1, 4);
		for (k = 0; k < n_bounds; k++) {
			long d = fixed_delta ? delta : vf_range(r, -2, 2);
			if (!vf_chance(r, dens, 4)) continue;
			if ((long)bounds[k] + d > 0) add_cut((size_t)((long)bounds[k] + d));
		}
		break; }
	case P_FIXED: {
		static const unsigned sz[] = { 2, 3, 5, 45, 46, 47, 48, 49, 183, 184, 185, 187, 188, 189, 196, 197, 198, 376, 1000 };
		size_t s = sz[vf_below(r, sizeof sz / sizeof sz[0])], pos;
		for (pos = s; pos < strm_len; pos += s) add_cut(pos);
		break; }
	case P_ONEBYTE:
		for (k = 1; k < strm_len; k++) add_cut(k);
		break;
	case P_HALVES:
		add_cut(1 + vf_below(r, (unsigned)(strm_len > 1 ? strm_len - 1 : 1)));
		break;
	}
}

/* Runs the stream through a demultiplexer.  cor: coroutine interface.  Returns 0
 * when the frames equal the reference; mismatch text in run.mismatch. */
static void run_stream(struct vf_rng *r, vbi_dvb_demux *dx, int cor, int empty_feeds)
{
	size_t k, a = 0;
	run.k = 0; run.n_frames = 0; run.mismatch[0] = 0;
	for (k = 0; k <= n_cuts; k++) {
		size_t b = k < n_cuts ? cuts[k] : strm_len, n = b - a;
		uint8_t *blk;
		if (empty_feeds && vf_chance(r, 1, 20)) {
			blk = malloc(0);
			if (!blk) blk = malloc(1);
			if (cor) {
				const uint8_t *p = blk; unsigned left = 0; vbi_sliced o1[1]; int64_t pts;
				vf_phase("vbi_dvb_demux_cor");
				if (vbi_dvb_demux_cor(dx, o1, 1, &pts, &p, &left) && !run.mismatch[0])
					snprintf(run.mismatch, sizeof run.mismatch, "a frame was returned for an empty buffer at offset %zu", a);
			} else {
				vf_phase("vbi_dvb_demux_feed");
				vbi_dvb_demux_feed(dx, blk, 0);
			}
			free(blk);
		}
		blk = malloc(n ? n : 1);
		memcpy(blk, strm + a, n);
		if (!cor) {
			vf_phase("vbi_dvb_demux_feed");
			vbi_dvb_demux_feed(dx, blk, (unsigned)n);
			free(blk);
		} else {
			const uint8_t *p = blk, *end = blk + n;
			unsigned left = (unsigned)n;
			int stall = 0;
			vf_phase("vbi_dvb_demux_cor");
			while (left > 0) {
				unsigned ml, got, before = left;
				vbi_sliced *o;
				int64_t pts = -1;
				switch (vf_below(r, 5)) {
				case 0: ml = (unsigned)vf_range(r, 1, 5); break;
				case 1: ml = 64; break;
				case 2: ml = (unsigned)vf_range(r, 65, 100); break;
				default: ml = (unsigned)vf_range(r, 6, 45); break;
				}
				o = malloc(ml * sizeof *o);
				got = vbi_dvb_demux_cor(dx, o, ml, &pts, &p, &left);
				if (p < blk || p > end || p + left != end) {
					if (!run.mismatch[0]) snprintf(run.mismatch, sizeof run.mismatch, "vbi_dvb_demux_cor left *buffer/*buffer_left inconsistent (chunk at %zu, size %zu: consumed %ld, left %u)", a, n, (long)(p - blk), left);
					free(o);
					break;
				}
				if (got > ml) {
					if (!run.mismatch[0]) snprintf(run.mismatch, sizeof run.mismatch, "vbi_dvb_demux_cor returned %u lines with max_lines %u", got, ml);
					free(o);
					break;
				}
				if (got) {
					unsigned i;
					run.n_frames++;
					while (run.k < n_ref && ref[run.k].n == 0) run.k++;     /* the coroutine cannot report empty frames */
					if (run.mismatch[0]) ;
					else if (run.k >= n_ref) snprintf(run.mismatch, sizeof run.mismatch, "coroutine returned a frame of %u lines, the single-call run has no further frame (%d)", got, n_ref);
					else {
						const struct rframe *f = &ref[run.k];
						unsigned want = (unsigned)f->n < ml ? (unsigned)f->n : ml;
						if (got != want) snprintf(run.mismatch, sizeof run.mismatch, "coroutine frame %d: %u lines with max_lines %u, single-call frame has %d", run.k, got, ml, f->n);
						else if (pts != f->pts) snprintf(run.mismatch, sizeof run.mismatch, "coroutine frame %d: PTS 0x%llx, single-call run 0x%llx", run.k, (unsigned long long)pts, (unsigned long long)f->pts);
						else for (i = 0; i < got; i++) {
							struct rline l;
							to_rline(&l, &o[i]);
							if (!same_rline(&l, &f->l[i])) {
								snprintf(run.mismatch, sizeof run.mismatch, "coroutine frame %d line %u: id 0x%x line %u %s, single-call run id 0x%x line %u %s", run.k, i,
									l.id, l.line, vf_hex(l.data, 8), f->l[i].id, f->l[i].line, vf_hex(f->l[i].data, 8));
								break;
							}
						}
					}
					run.k++;
					stall = 0;
				} else if (left == before) {
					if (++stall > 4) {
						if (!run.mismatch[0]) snprintf(run.mismatch, sizeof run.mismatch, "vbi_dvb_demux_cor returned 0 five times without consuming any of the %u bytes left (chunk at %zu)", left, a);
						free(o);
						break;
					}
				} else stall = 0;
				free(o);
				if (left > 0 && vf_chance(r, 1, 4)) {
					/* the caller may move the unconsumed rest elsewhere between calls */
					uint8_t *nb = malloc(left);
					memcpy(nb, p, left);
					free(blk);
					blk = nb; p = nb; end = nb + left;
				}
			}
			free(blk);
		}
		a = b;
	}
	if (!run.mismatch[0]) {
		if (!cor && run.k != n_ref)
			snprintf(run.mismatch, sizeof run.mismatch, "%d frames delivered, single-call run delivered %d", run.k, n_ref);
		if (cor) {
			while (run.k < n_ref && ref[run.k].n == 0) run.k++;
			if (run.k != n_ref) snprintf(run.mismatch, sizeof run.mismatch, "coroutine returned frames up to %d, single-call run delivered %d", run.k, n_ref);
		}
	}
}

/* In one case of six the application has installed a log function for every level: the demultiplexer then formats
   the bytes it rejects (log_block, log_du_ttx ...) - same frames, and the formatting must be memory safe too */
static int log_on;
static long log_msgs;
static void log_sink(vbi_log_mask level, const char *context, const char *message, void *ud)
{
	(void)level; (void)ud;
	if (context && message) log_msgs += (long)(strlen(context) + strlen(message)) > 0;
}

static vbi_dvb_demux *new_demux(const struct dg_cfg *c, int cor)
{
	vbi_dvb_demux *dx;
	vf_phase("vbi_dvb_demux_new");
	dx = c->ts ? _vbi_dvb_ts_demux_new(cor ? NULL : demux_cb, NULL, c->pid) : vbi_dvb_pes_demux_new(cor ? NULL : demux_cb, NULL);
	if (dx && log_on) {
		vf_phase("vbi_dvb_demux_set_log_fn");
		vbi_dvb_demux_set_log_fn(dx, (vbi_log_mask)0x7F8, log_sink, NULL);
	}
	return dx;
}

static const char *cuts_text(void)
{
	static char b[300];
	size_t k, prev = 0;
	int o = 0;
	o += snprintf(b, sizeof b, "%zu chunks:", n_cuts + 1);
	for (k = 0; k < n_cuts && k < 24 && o < (int)sizeof b - 12; k++) { o += snprintf(b + o, sizeof b - (size_t)o, " %zu", cuts[k] - prev); prev = cuts[k]; }
	if (k < n_cuts) snprintf(b + o, sizeof b - (size_t)o, " ...");
	return b;
}

/* ---------------- recovery oracle ---------------- */

/* TS: is there a position where two consecutive sync bytes (or a sync byte and a
 * PES start) appear off the true packet grid after the damage?  Then an honest
 * receiver may lock onto the wrong grid for a while and nothing is demanded. */
static int ts_sync_ambiguous(size_t from, size_t to, size_t grid)
{
	size_t q;
	for (q = from > 400 ? from - 400 : 0; q + 8 < strm_len && q < to; q++) {
		if (strm[q] != 0x47) continue;
		if ((q + 188 * 4096 - grid % 188) % 188 == 0) continue;
		if (q + 188 < strm_len && strm[q + 188] == 0x47) return 1;
		if (strm[q + 4] == 0 && strm[q + 5] == 0 && strm[q + 6] == 1 && strm[q + 7] == 0xBD) return 1;
	}
	return 0;
}

/* Returns the index of the first sent frame that must be delivered exactly, or -1 if nothing can be demanded. */
static int recovery_from(const struct dg_cfg *c, int sync_risk, size_t *dmg_end_out)
{
	size_t dmg_end = 0, dmg_start = strm_len;
	int i, j = -1, any = 0;
	for (i = 0; i < n_items; i++) {
		if (items[i].damaged && items[i].off < dmg_start) dmg_start = items[i].off;
		if (items[i].damaged & 1) { dmg_end = items[i].off + items[i].len; any = 1; }
		else if (items[i].damaged & 2) { if (items[i].off > dmg_end) dmg_end = items[i].off; any = 1; }
	}
	*dmg_end_out = dmg_end;
	if (!any) return -1;
	if (!c->ts) {
		/* ISO 13818-1 framing from the start of the stream */
		size_t pos = 0;
		for (;;) {
			size_t h = dp_pes_next_header(strm, strm_len, pos), e;
			if (h >= strm_len) return -1;
			if (h >= dmg_end) {
				for (i = 0; i < n_items; i++)
					if (items[i].off == h && items[i].pkt >= 0 && items[i].first && !(items[i].damaged & 1)) break;   /* mark 2 = intact packet right after a removed one */
				if (i < n_items) {
					int k, clean = 1;
					for (k = i; k < n_items; k++) if (items[k].pkt < 0 || (items[k].damaged & 1)) clean = 0;
					if (clean) { j = items[i].pkt; break; }
				}
			}
			e = dp_pes_claimed_end(strm, strm_len, h);
			if (e == (size_t)-1 || e > strm_len) return -1;
			pos = e;
		}
	} else {
		for (i = 0; i < n_items; i++) {
			int k, clean = 1;
			if (items[i].off < dmg_end || items[i].pkt < 0 || !items[i].first) continue;
			for (k = i; k < n_items; k++) if (items[k].pkt < 0 || (items[k].damaged & 1)) clean = 0;
			if (!clean) continue;
			/* the packets of frame pkt and of all later frames must be complete */
			j = items[i].pkt;
			break;
		}
		if (j >= 0 && sync_risk && ts_sync_ambiguous(dmg_start, items[first_item_of(j)].off + 600, items[first_item_of(j)].off)) {
			vf_count("recovery_skipped_ts_sync_ambiguous", 1);
			return -1;
		}
	}
	if (j < 0) return -1;
	/* all TS packets of frames >= j present? (a removed packet leaves a shorter run) */
	for (i = j; i < n_sent; i++) {
		int f = first_item_of(i), l = last_item_of(i);
		size_t want = c->ts ? sent[i].pes_size / 184 : 1;
		if (f < 0 || (size_t)(l - f + 1) != want) return -1;
	}
	return j + 1;
}

static void check_recovery(const struct dg_cfg *c, int from, const char *dmg, const char *desc)
{
	int n_tail = (n_sent - 1) - from, i, k;      /* frames from .. n_sent-2; the last one only flushes */
	if (n_tail <= 0) return;
	vf_count("recovery_checked", 1);
	vf_count("recovery_frames_demanded", n_tail);
	if (n_ref < n_tail) {
		vf_fail("model:C07:recovery:frame-lost", "%s: %s; the %d frames sent after the first intact packet following the damage must be delivered, but only %d frames were delivered in total (%s, %d frames sent)",
			dmg, desc, n_tail, n_ref, c->ts ? "TS" : "PES", n_sent);
		return;
	}
	for (i = 0; i < n_tail; i++) {
		const struct sent *s = &sent[from + i];
		const struct rframe *g = &ref[n_ref - n_tail + i];
		int bad = 0;
		if (g->n != s->n || g->pts != s->pts) bad = 1;
		for (k = 0; !bad && k < s->n; k++) if (!same_rline(&g->l[k], &s->l[k])) bad = 1;
		if (bad) {
			/* lost or altered? */
			int found = 0, m;
			for (m = 0; m < n_ref && !found; m++) {
				if (ref[m].n != s->n || ref[m].pts != s->pts) continue;
				for (k = 0; k < s->n; k++) if (!same_rline(&ref[m].l[k], &s->l[k])) break;
				if (k == s->n) found = 1;
			}
			vf_fail(found ? "model:C07:recovery:frame-order" : "model:C07:recovery:frame-lost-or-altered",
				"%s: %s; sent frame %d (%d lines, first line %u, PTS 0x%llx) is the %d. frame after the first intact packet following the damage but the output has %d lines, first line %u, PTS 0x%llx at its place (%s, %d frames sent, %d delivered)",
				dmg, desc, from + i, s->n, s->n ? s->l[0].line : 0, (unsigned long long)s->pts, i + 2,
				g->n, g->n ? g->l[0].line : 0, (unsigned long long)g->pts, c->ts ? "TS" : "PES", n_sent, n_ref);
			return;
		}
	}
}

/* _vbi_dvb_demultiplex_sliced() (the function behind the DVB capture device) on the data units of one intact
   PES packet, with a caller array of exactly max_lines records in its own heap block: never more than max_lines
   records, and those delivered are the lines sent, in order */
static void check_demultiplex_sliced(struct vf_rng *r, int pkt, int defined_lines)
{
	int f = first_item_of(pkt);
	const struct sent *st = &sent[pkt];
	unsigned max_lines, n_lines = 12345, left, k;
	vbi_sliced *arr;
	const uint8_t *bp;
	uint8_t *copy;
	vbi_bool ok;
	if (f < 0 || items[f].len <= 46 || items[f].damaged) return;
	max_lines = vf_chance(r, 1, 4) ? 0 : (unsigned)vf_range(r, 0, st->n + 1);
	arr = malloc(sizeof *arr * (max_lines ? max_lines : 1) - (max_lines ? 0 : sizeof *arr - 1));   /* max_lines == 0: a 1 byte block */
	copy = malloc(items[f].len - 46);
	if (!arr || !copy) { free(arr); free(copy); return; }
	memcpy(copy, items[f].data + 46, items[f].len - 46);
	bp = copy; left = (unsigned)(items[f].len - 46);
	vf_phase("_vbi_dvb_demultiplex_sliced");
	ok = _vbi_dvb_demultiplex_sliced(arr, &n_lines, max_lines, &bp, &left);
	vf_count("demultiplex_sliced_calls", 1);
	if (n_lines > max_lines)
		vf_fail("model:C07:demultiplex-sliced:more-than-max-lines", "_vbi_dvb_demultiplex_sliced with max_lines=%u on a packet of %d lines reported n_lines=%u", max_lines, st->n, n_lines);
	else {
		for (k = 0; k < n_lines && (int)k < st->n; k++) {
			struct rline l;
			to_rline(&l, &arr[k]);
			if (!same_rline(&l, &st->l[k])) {
				vf_fail("model:C07:demultiplex-sliced:line-differs", "_vbi_dvb_demultiplex_sliced max_lines=%u: record %u is id 0x%x line %u, sent id 0x%x line %u", max_lines, k, l.id, l.line, st->l[k].id, st->l[k].line);
				break;
			}
		}
		/* with undefined line numbers (line_offset 0) a change of the field parity starts a new frame inside the
		   packet and the function stops there: completeness is demanded for defined line numbers only */
		if (defined_lines && (int)max_lines >= st->n && (!ok || (int)n_lines != st->n) && st->n_du > 0)
			vf_fail("model:C07:demultiplex-sliced:incomplete", "_vbi_dvb_demultiplex_sliced max_lines=%u on an intact packet of %d lines returned %d with n_lines=%u", max_lines, st->n, (int)ok, n_lines);
	}
	free(arr); free(copy);
}

/* ---------------- the case ---------------- */

static int run_case(struct vf_rng *r, long idx)
{
	struct dg_cfg c;
	vbi_dvb_demux *dx = NULL, *dxc = NULL;
	int type, nframes, dmg = D_NONE, sync_risk = 0, nparts, pi, big, from = -1, between_lo = -1, between_hi = -1;
	char desc[300] = "";
	size_t dmg_end = 0;
	(void)idx;

	if (vf_verbose) setvbuf(stdout, NULL, _IONBF, 0);
	arena_used = 0;
	log_on = vf_chance(r, 1, 6); log_msgs = 0;
	memset(&c, 0, sizeof c);
	c.ts = vf_chance(r, 1, 2);
	c.pid = vf_chance(r, 1, 4) ? (unsigned[]){ 0x10, 0x1FFE, 0x100, 0x47, 0x1234, 0x0747 }[vf_below(r, 6)] : (unsigned)vf_range(r, 0x10, 0x1FFE);
	c.di = vf_chance(r, 1, 2) ? 0x10 + vf_below(r, 16) : 0x99 + vf_below(r, 3);
	big = vf_chance(r, 1, 40);
	if (big) {
		unsigned mn = 184 * (unsigned)vf_range(r, 60, 356), mx = 65504;
		dg_round_sizes(mn, mx, &c.min_sz, &c.max_sz);
		nframes = vf_range(r, 3, 5);
	} else {
		unsigned mn = vf_chance(r, 1, 2) ? 184 : 184 * (unsigned)vf_range(r, 1, 6), mx = vf_chance(r, 1, 2) ? 65504 : mn + 184 * (unsigned)vf_range(r, 0, 8);
		dg_round_sizes(mn, mx, &c.min_sz, &c.max_sz);
		nframes = vf_range(r, 5, 14);
	}
	switch (vf_below(r, 12)) {
	case 0: case 1: type = T_CLEAN; break;
	case 2: type = T_LINE0; break;
	case 3: type = T_MUTATED; break;
	case 4: type = T_RANDOM; break;
	case 5: type = T_TRUNC; break;
	default: type = T_DAMAGE; break;
	}
	if (type == T_DAMAGE && nframes < 6) nframes = 6;

	if (type == T_RANDOM) {
		size_t n = (size_t)vf_range(r, 200, 6000), k;
		n_items = n_sent = 0;
		vf_bytes(r, strm, n);
		strm_len = n;
		/* sprinkle plausible headers so that deeper code is reached */
		for (k = 0; k + 200 < n; k += (size_t)vf_range(r, 40, 600)) {
			if (c.ts) {
				strm[k] = 0x47; strm[k + 1] = (uint8_t)((strm[k + 1] & 0x40) | (c.pid >> 8)); strm[k + 2] = (uint8_t)c.pid; strm[k + 3] = (uint8_t)(0x10 | (strm[k + 3] & 15));
				if (k + 188 < n && vf_chance(r, 3, 4)) strm[k + 188] = 0x47;
				if (vf_chance(r, 1, 2)) { strm[k + 1] |= 0x40; strm[k + 4] = 0; strm[k + 5] = 0; strm[k + 6] = 1; strm[k + 7] = 0xBD; strm[k + 8] = 0; strm[k + 9] = 178; strm[k + 12] = 0x24; }
			} else {
				unsigned len = (unsigned)vf_range(r, 100, 700);
				strm[k] = 0; strm[k + 1] = 0; strm[k + 2] = 1; strm[k + 3] = vf_chance(r, 3, 4) ? 0xBD : (uint8_t)vf_range(r, 0xB0, 0xFF);
				strm[k + 4] = (uint8_t)(len >> 8); strm[k + 5] = (uint8_t)len;
				if (vf_chance(r, 3, 4)) { strm[k + 6] = 0x84; strm[k + 7] = 0x80; strm[k + 8] = 0x24; strm[k + 45] = (uint8_t)c.di; }
			}
		}
		items[0].data = strm; items[0].len = n; items[0].pkt = -1; items[0].first = 0; items[0].damaged = 1; items[0].off = 0;
		n_items = 1;
	} else {
		if (!build_clean(r, &c, type, nframes)) { vf_count("stream_build_failed", 1); return 0; }
		if (type == T_DAMAGE) {
			int v, tries;
			for (tries = 0; tries < 6 && dmg == D_NONE; tries++) {
				int kind = c.ts ? (int[]){ D_GARBAGE, D_OVERWRITE, D_TRUNCATE, D_LENGTH, D_FOREIGN, D_ILLEGAL_DU, D_BITFLIP, D_DROP, D_DUP, D_TS_LOST, D_TS_SWAP, D_TS_CC, D_TS_BITS, D_TS_LOST, D_TS_CC, D_DU_TAIL, D_DU_TAIL }[vf_below(r, 17)]
						: (int[]){ D_GARBAGE, D_OVERWRITE, D_TRUNCATE, D_LENGTH, D_FOREIGN, D_ILLEGAL_DU, D_BITFLIP, D_DROP, D_DUP, D_GARBAGE, D_TRUNCATE, D_NESTED, D_NESTED, D_OVERFULL, D_DU_TAIL, D_DU_TAIL }[vf_below(r, 16)];
				if (n_sent < 5) break;
				v = vf_range(r, 1, n_sent - 4);
				sync_risk = apply_damage(r, kind, v, &c, desc, sizeof desc);
				if (desc[0]) dmg = kind;
			}
			if (dmg == D_FOREIGN && c.ts && v + 4 <= n_sent - 2 && vf_chance(r, 2, 3)) {
				/* Packets of another PID a second time, three or more frames later.  The frames in between are
				 * intact packets following the first damage and not the first frame after it, and they were sent
				 * completely before the second one: they must all be delivered (checked below, between_lo..hi). */
				char d2[200];
				int v2 = vf_range(r, v + 3, n_sent - 3 > v + 3 ? n_sent - 3 : v + 3);
				d2[0] = 0;
				apply_damage(r, D_FOREIGN, v2, &c, d2, sizeof d2);
				if (d2[0]) {
					size_t dl0 = strlen(desc);
					between_lo = v + 2; between_hi = v2 - 1;
					snprintf(desc + dl0, sizeof desc - dl0, "; and %s", d2);
					vf_count("foreign_pid_packets_at_two_places", 1);
				}
			} else if (dmg != D_NONE && vf_chance(r, 1, 6)) {
				/* a second, earlier fault */
				char d2[200];
				int v2 = vf_range(r, 0, 1);
				apply_damage(r, c.ts ? D_TS_CC : D_BITFLIP, v2, &c, d2, sizeof d2);
			}
		}
		if (!c.ts && (type == T_CLEAN || type == T_LINE0) && n_sent > 0) {
			int k;
			for (k = 0; k < 3; k++) check_demultiplex_sliced(r, vf_range(r, 0, n_sent - 1), type == T_CLEAN);
		}
		concat();
		if (type == T_MUTATED) {
			unsigned rate = (unsigned[]){ 20, 60, 200, 1000 }[vf_below(r, 4)];
			size_t k;
			for (k = 0; k < strm_len; k++)
				if (vf_chance(r, 1, rate)) strm[k] = vf_chance(r, 1, 2) ? (uint8_t)(strm[k] ^ (1u << vf_below(r, 8))) : (uint8_t)vf_below(r, 256);
			snprintf(desc, sizeof desc, "bytes mutated at rate 1/%u", rate);
		}
		if (type == T_TRUNC && strm_len > 100) {
			strm_len -= (size_t)vf_range(r, 1, strm_len > 400 ? 400 : (int)strm_len - 50);
		}
	}
	if (strm_len < 2) return 0;
	find_bounds(c.ts);
	vf_sample("%s %s pid=0x%x di=0x%02x size=%u-%u frames=%d bytes=%zu damage=%s (%s)", c.ts ? "TS" : "PES", type_name[type], c.pid, c.di, c.min_sz, c.max_sz, n_sent, strm_len, dmg_name[dmg], desc);

	/* reference: the whole stream in one call */
	dx = new_demux(&c, 0);
	dxc = new_demux(&c, 1);
	if (!dx || !dxc) { vf_fail("harness:alloc", "demux_new failed"); return 0; }
	n_ref = ref_overflow = 0;
	run.recording = 1;
	n_cuts = 0;
	run_stream(r, dx, 0, 0);
	run.recording = 0;
	vf_count("streams", 1);
	vf_count("stream_bytes", (long)strm_len);
	vf_count("frames_delivered_single_call", n_ref);
	if (ref_overflow) { vf_count("reference_overflow", 1); n_ref = 0; goto done; }

	if (between_lo >= 0 && between_lo <= between_hi) {
		int i, k, m, pos = 0;
		for (i = between_lo; i <= between_hi && !vf_failed(); i++) {
			const struct sent *sf = &sent[i];
			int found = -1;
			for (m = pos; m < n_ref && found < 0; m++) {
				if (ref[m].n != sf->n || ref[m].pts != sf->pts) continue;
				for (k = 0; k < sf->n; k++) if (!same_rline(&ref[m].l[k], &sf->l[k])) break;
				if (k == sf->n) found = m;
			}
			vf_count("frames_between_two_damages_demanded", 1);
			if (found < 0)
				vf_fail("model:C07:recovery:frame-lost-between-damages", "%s; sent frame %d (%d lines, PTS 0x%llx) lies between the two places, two or more frames after the first and completely before the second, but is not delivered (%d frames sent, %d delivered)",
					desc, i, sf->n, (unsigned long long)sf->pts, n_sent, n_ref);
			else pos = found + 1;
		}
	}
	if (type == T_DAMAGE && dmg != D_NONE) {
		from = recovery_from(&c, sync_risk, &dmg_end);
		if (from >= 0) check_recovery(&c, from, dmg_name[dmg], desc);
		else vf_count("recovery_not_applicable", 1);
	}

	/* partitions */
	nparts = vf_tier ? 40 : 12;
	for (pi = 0; pi < nparts && !vf_failed(); pi++) {
		int kind, cor = vf_chance(r, 1, 2), reuse = vf_chance(r, 1, 2), empty = vf_chance(r, 1, 10);
		vbi_dvb_demux *d;
		unsigned cls;
		if (pi == 0) kind = P_ONEBYTE;
		else if (pi == 1) kind = P_HALVES;
		else kind = (int[]){ P_RANDOM, P_RANDOM, P_BOUNDARY, P_BOUNDARY, P_BOUNDARY, P_FIXED, P_HALVES }[vf_below(r, 7)];
		if (kind == P_ONEBYTE && !vf_tier && (strm_len > 9000 || !vf_chance(r, 1, 2))) kind = P_BOUNDARY;
		if (kind == P_ONEBYTE && strm_len > 300000) kind = P_RANDOM;
		make_partition(r, kind);
		cls = cut_classes(c.ts);
		if (reuse) {
			/* a used demultiplexer after vbi_dvb_demux_reset() must behave like a new one */
			d = cor ? dxc : dx;
			vf_phase("vbi_dvb_demux_reset");
			vbi_dvb_demux_reset(d);
		} else {
			d = new_demux(&c, cor);
			if (!d) { vf_fail("harness:alloc", "demux_new failed"); break; }
		}
		run_stream(r, d, cor, empty);
		if (run.mismatch[0]) {
			const char *key = "model:C07:partition-mismatch";
			if (strstr(run.mismatch, "vbi_dvb_demux_cor returned 0 five times")) key = "model:C07:cor-no-progress";
			else if (strstr(run.mismatch, "inconsistent") || strstr(run.mismatch, "with max_lines")) key = "model:C07:cor-contract";
			else if (reuse) {
				/* is it the reset or the partition? */
				char keep[400];
				vbi_dvb_demux *d2 = new_demux(&c, cor);
				struct vf_rng r2 = *r;
				memcpy(keep, run.mismatch, sizeof keep);
				if (d2) {
					run_stream(&r2, d2, cor, 0);
					if (!run.mismatch[0]) key = "model:C07:reset-mismatch";
					vf_phase("vbi_dvb_demux_delete");
					vbi_dvb_demux_delete(d2);
				}
				memcpy(run.mismatch, keep, sizeof keep);
			}
			vf_fail(key, "%s %s stream of %zu bytes (%s%s%s), %s interface%s, partition %s (%s): %s", c.ts ? "TS" : "PES", type_name[type], strm_len,
				dmg_name[dmg], desc[0] ? ": " : "", desc, cor ? "coroutine" : "callback", reuse ? " on a demultiplexer reused after vbi_dvb_demux_reset()" : "",
				part_name[kind], cuts_text(), run.mismatch);
		}
		vf_count("partitions_run", 1);
		vf_count(cor ? "partitions_coroutine" : "partitions_callback", 1);
		vf_count("chunks_fed", (long)n_cuts + 1);
		vf_count("frames_compared", run.n_frames);
		vf_sig("%s %s %s %s part=%s cuts=%x", c.ts ? "ts" : "pes", type == T_DAMAGE ? dmg_name[dmg] : type_name[type], cor ? "cor" : "cb", reuse ? "reset" : "new", part_name[kind], cls);
		if (!reuse) { vf_phase("vbi_dvb_demux_delete"); vbi_dvb_demux_delete(d); }
	}
done:
	if (log_on) { vf_count("streams_with_log_function", 1); vf_count("log_messages", log_msgs); }
	vf_phase("vbi_dvb_demux_delete");
	vbi_dvb_demux_delete(dx);
	vbi_dvb_demux_delete(dxc);
	(void)dmg_end;
	return 1;
}

/* ---------------- self-test of the oracles ---------------- */

static void selftest(void)
{
	static const uint8_t s[] = { 0xFF, 0x00, 0x00, 0x00, 0x01, 0x05, 0x00, 0x00, 0x01, 0xBD, 0x00, 0x03, 0xAA, 0xBB, 0xCC, 0x00, 0x00, 0x01, 0xE0, 0x00, 0x00 };
	size_t h;
	/* 00 00 01 05 is not a PES header (stream_id < 0xBC); first header is 00 00 01 BD at 6 claiming 6+3 bytes */
	h = dp_pes_next_header(s, sizeof s, 0);
	if (h != 6) vf_fail("selftest:C07", "first PES header found at %zu, expected 6", h);
	if (dp_pes_claimed_end(s, sizeof s, 6) != 15) vf_fail("selftest:C07", "claimed end wrong");
	h = dp_pes_next_header(s, sizeof s, 15);
	if (h != 15) vf_fail("selftest:C07", "second PES header found at %zu, expected 15", h);
	if (dp_pes_claimed_end(s, sizeof s, 15) != 21) vf_fail("selftest:C07", "second claimed end wrong");
	if (dp_pes_next_header(s, sizeof s, 16) != sizeof s) vf_fail("selftest:C07", "header found past the end");
	if (payload_len(VBI_SLICED_TELETEXT_B) != 42 || payload_len(VBI_SLICED_VPS) != 13) vf_fail("selftest:C07", "payload lengths");
}

int main(int argc, char **argv) { return vf_main(argc, argv, run_case, selftest); }
