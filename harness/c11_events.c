/* C11 - event handlers run exactly once, in order, and may re-register from
 * callbacks; Teletext pages are acquired exactly while a handler requests them.
 *
 * A pool of handler functions x user pointers is driven by *scripts*: when a
 * handler is invoked it performs the next group of its script - register /
 * unregister / legacy add / legacy remove on itself or on any other slot with
 * any mask - from inside the callback.  Events are raised with vbi_send_event()
 * directly and through the real decoder (vbi_decode with Teletext pages, VPS,
 * 8/30, WSS, caption and XDS lines built by independent transmitters).
 *
 * Oracle: a model of the ordered list of registration *instances*, written from
 * the documentation of vbi_event_handler_register/_unregister/_add/_remove.
 * The model is updated in step with every API call the harness makes, and
 * every callback is checked on-line against it (see on_call / ev_close).
 * AddressSanitizer watches for use of a freed handler record.
 *
 * Modes: "rand" (random histories), "exh" (exhaustive scripts, --p0 = maximum
 * number of actions, --p1 = event source 0 direct, 1 real network events,
 * 2 real Teletext page events).
 */
#include "vf.h"
#include <string.h>
#include <stdlib.h>
#include <stdarg.h>
#include "vbi.h"
#include "c13_tx.h"

#define NF 6
#define NU 4
#define MAXINST 512
#define MAXGROUPS 4
#define MAXBURST 4

enum { OP_REG, OP_UNREG, OP_ADD, OP_REMOVE };
static const char *const op_name[] = { "register", "unregister", "add", "remove" };

struct action { int op, f, u, mask; };
struct script { int ngroups; int nact[MAXGROUPS]; struct action act[MAXGROUPS][MAXBURST]; int cursor; };

struct inst {
	int f, u, mask, alive;
	long seq;
	/* bookkeeping for the event being delivered */
	int in_snapshot, member0, dirty, calls, born;
};

static vbi_decoder *vbi;
static int udata[NU];
/* user pointer 0 is NULL: (function, NULL) is a handler identity like any other */
#define UPTR(u) ((u) == 0 ? NULL : (void *)&udata[u])
static struct script scripts[NF][NU];
static struct inst insts[MAXINST];
static int n_inst;
static long seq_counter;
static int have_sentinel;          /* slot (NF-1, NU-1), mask -1, registered first, never touched */

/* current event */
static struct {
	int open, type, explicit_;
	const vbi_event *ev;
	long last_seq;
	int ncalls;
	int source;                /* 0 direct, 1 real */
	int clobbered;             /* the event structure changed under a callback: new type, or -1 */
} cur;
static long ev_by_type[12];
static int in_callback;
static int op_real;                /* inside vbi_decode */
static long n_callbacks, n_events, n_actions_cb, n_actions_main;
static int ttx_flips;              /* number of times the union's TTX_PAGE bit changed */
static int window_outside_ttx_cb;  /* TTX_PAGE bit of the union after the last action not taken inside a TTX_PAGE callback */
static int page_events[0x900];
static unsigned sig_seen[4][8][3][MAXGROUPS + 1][2];
static char hist[2048];
static int hist_len;

static void hist_add(const char *fmt, ...) __attribute__((format(printf, 1, 2)));
static void hist_add(const char *fmt, ...)
{
	va_list ap;
	if (hist_len >= (int)sizeof hist - 80) return;
	va_start(ap, fmt);
	hist_len += vsnprintf(hist + hist_len, sizeof hist - (size_t)hist_len, fmt, ap);
	va_end(ap);
	if (hist_len >= (int)sizeof hist) hist_len = (int)sizeof hist - 1;
}

/* ---------------- model ---------------- */

static int m_union(void)
{
	int i, m = 0;
	for (i = 0; i < n_inst; i++) if (insts[i].alive) m |= insts[i].mask;
	return m;
}

static struct inst *m_find(int f, int u)
{
	int i;
	for (i = 0; i < n_inst; i++)
		if (insts[i].alive && insts[i].f == f && insts[i].u == u) return &insts[i];
	return NULL;
}

static void m_set_mask(struct inst *x, int mask)
{
	if (cur.open && ((x->mask & cur.type) != 0) != ((mask & cur.type) != 0)) x->dirty = 1;
	x->mask = mask;
}

static void m_remove_inst(struct inst *x) { x->alive = 0; }

static void m_append(int f, int u, int mask)
{
	struct inst *x;
	if (n_inst >= MAXINST) { vf_fail("harness:C11:too-many-instances", "more than %d instances", MAXINST); return; }
	x = &insts[n_inst++];
	memset(x, 0, sizeof *x);
	x->f = f; x->u = u; x->mask = mask; x->alive = 1; x->seq = ++seq_counter;
	x->born = cur.open; x->dirty = cur.open;
}

/* vbi_event_handler_register(): "When the handler with user_data is already
 * registered, its event_mask will be changed. ... 0 for none [= unregister]".
 * New handlers are "called in registration order", i.e. appended. */
static void m_register(int f, int u, int mask)
{
	struct inst *x = m_find(f, u);
	if (x) { if (mask) m_set_mask(x, mask); else m_remove_inst(x); }
	else if (mask) m_append(f, u, mask);
}

/* vbi_event_handler_add(): "Replaces all existing handlers with this handler
 * function, ignoring user_data"; _remove(): no user_data parameter. */
static void m_add(int f, int u, int mask)
{
	int i, found = 0;
	for (i = 0; i < n_inst; i++)
		if (insts[i].alive && insts[i].f == f) {
			found = 1;
			if (mask) m_set_mask(&insts[i], mask); else m_remove_inst(&insts[i]);
		}
	if (!found && mask) m_append(f, u, mask);
}

/* ---------------- event tracking ---------------- */

static void ev_close(void)
{
	int i;
	if (!cur.open) return;
	cur.open = 0;
	for (i = 0; i < n_inst; i++) {
		struct inst *x = &insts[i];
		if (!x->in_snapshot) continue;
		x->in_snapshot = 0;
		if (x->member0 && !x->dirty && x->alive && x->calls == 0) {
			const char *key = "model:C11:not-delivered";
			/* the event lives in the decoder (vbi->network) and was wiped by a registration call made from a handler */
			if (cur.clobbered >= 0)
				key = "model:C11:event-cleared-during-delivery";
			vf_fail(key, "event type 0x%x (%s): handler f%d/u%d (instance #%ld, mask 0x%x), registered before the event and untouched, was not called; %d handler(s) were called%s; history: %s",
				cur.type, cur.source ? "decoder" : "vbi_send_event", x->f, x->u, x->seq, x->mask, cur.ncalls,
				cur.clobbered >= 0 ? "; the event's type field was overwritten while a handler ran (register -> vbi_event_enable -> memset of vbi->network)" : "", hist);
		}
	}
}

static void ev_open(int type, const vbi_event *ev, int explicit_, int source)
{
	int i;
	ev_close();
	cur.open = 1; cur.type = type; cur.ev = ev; cur.explicit_ = explicit_; cur.last_seq = 0; cur.ncalls = 0; cur.source = source; cur.clobbered = -1;
	for (i = 0; i < n_inst; i++) {
		struct inst *x = &insts[i];
		x->in_snapshot = x->alive;
		x->member0 = (x->mask & type) != 0;
		x->dirty = 0; x->calls = 0; x->born = 0;
	}
	n_events++;
	if (source) {
		int b;
		for (b = 0; b < 12; b++) if (type == (1 << b)) ev_by_type[b]++;
	}
	if (type == VBI_EVENT_TTX_PAGE && source && ev->ev.ttx_page.pgno >= 0 && ev->ev.ttx_page.pgno < 0x900)
		page_events[ev->ev.ttx_page.pgno]++;
}

static void do_action(const struct action *a, struct inst *self, int group);

static void on_call(int f, vbi_event *ev, void *ud)
{
	int u = -1, i, type = ev->type;
	struct inst *x;
	struct script *sc;

	for (i = 0; i < NU; i++) if (ud == UPTR(i)) u = i;
	n_callbacks++;
	if (in_callback) {
		vf_fail("model:C11:nested-callback", "handler f%d called while another callback is running", f);
		return;
	}
	x = (u >= 0) ? m_find(f, u) : NULL;
	if (!x) {
		int other = 0, was = 0;
		for (i = 0; i < n_inst; i++) {
			if (insts[i].f != f) continue;
			if (insts[i].alive) other = 1;
			else if (insts[i].u == u) was = 1;
		}
		if (was)
			vf_fail("model:C11:removed-handler-called", "f%d/u%d was unregistered but is called for event 0x%x; history: %s", f, u, type, hist);
		else if (other)
			vf_fail("model:C11:wrong-user-pointer", "f%d called with user pointer %d (%p) which belongs to no registration of this function; event 0x%x; history: %s", f, u, ud, type, hist);
		else
			vf_fail("model:C11:unregistered-handler-called", "f%d/u%d never registered but called for event 0x%x; history: %s", f, u, type, hist);
		return;
	}
	if (cur.open && cur.explicit_) {
		/* we raised exactly one event ourselves */
		if (cur.type != type) {
			vf_fail("model:C11:foreign-event", "during vbi_send_event(type 0x%x) f%d/u%d received event type 0x%x", cur.type, f, u, type);
			return;
		}
		if (x->calls > 0) {
			vf_fail("model:C11:called-twice", "event 0x%x delivered twice to f%d/u%d (instance #%ld); history: %s", type, f, u, x->seq, hist);
			return;
		}
		if (x->seq <= cur.last_seq) {
			vf_fail("model:C11:out-of-order", "event 0x%x: f%d/u%d (instance #%ld) called after instance #%ld; history: %s", type, f, u, x->seq, cur.last_seq, hist);
			return;
		}
	} else if (have_sentinel && f == NF - 1 && u == NU - 1) {
		/* registered first with every bit set and never touched: its call marks the start of an event */
		ev_open(type, ev, 0, op_real);
	} else if (have_sentinel) {
		if (!cur.open || cur.type != type) {
			vf_fail("model:C11:not-delivered", "event 0x%x reached f%d/u%d but not the first registered handler (mask -1); history: %s", type, f, u, hist);
			ev_open(type, ev, 0, op_real);
		} else if (x->calls > 0) {
			vf_fail("model:C11:called-twice", "event 0x%x delivered twice to f%d/u%d (instance #%ld); history: %s", type, f, u, x->seq, hist);
			return;
		} else if (x->seq <= cur.last_seq) {
			vf_fail("model:C11:out-of-order", "event 0x%x: f%d/u%d (instance #%ld) called after instance #%ld; history: %s", type, f, u, x->seq, cur.last_seq, hist);
			return;
		}
	} else if (!cur.open || cur.type != type || cur.ev != ev || x->seq <= cur.last_seq) {
		/* no sentinel, event raised by the decoder: a call that cannot continue the current delivery starts a new event */
		ev_open(type, ev, 0, op_real);
	}
	if (!(x->mask & type) && !x->dirty)
		vf_fail("model:C11:unrequested-type", "f%d/u%d (mask 0x%x) called for event type 0x%x; history: %s", f, u, x->mask, type, hist);
	x->calls++;
	cur.ncalls++;
	cur.last_seq = x->seq;

	/* run the next group of this slot's script */
	sc = &scripts[f][u];
	if (sc->cursor < sc->ngroups) {
		int g = sc->cursor++, n = sc->nact[g];
		in_callback = 1;
		for (i = 0; i < n; i++)
			do_action(&sc->act[g][i], x, i);
		in_callback = 0;
		if (ev->type != type && cur.open) cur.clobbered = ev->type;
	}
}

#define H(n) static void hf##n(vbi_event *ev, void *ud) { on_call(n, ev, ud); }
H(0) H(1) H(2) H(3) H(4) H(5)
static vbi_event_handler const hfn[NF] = { hf0, hf1, hf2, hf3, hf4, hf5 };

/* relation of the target to the traversal cursor, for coverage */
enum { R_SELF, R_NEXT, R_PREV, R_LAST, R_LATER, R_NEW, R_ABSENT, R_MAIN };
static const char *const rel_name[] = { "self", "next", "prev", "last", "later", "new", "absent", "main" };

static int relation(const struct action *a, const struct inst *self)
{
	int i, legacy = (a->op == OP_ADD || a->op == OP_REMOVE);
	const struct inst *t = NULL, *next = NULL, *last = NULL;
	if (!self) return R_MAIN;
	for (i = 0; i < n_inst; i++) {
		const struct inst *x = &insts[i];
		if (!x->alive) continue;
		if (!next && x->seq > self->seq) next = x;
		last = x;
		if (x->f == a->f && (legacy || x->u == a->u)) {
			/* with the legacy calls several may match: prefer the most delicate one */
			if (!t || x == self || (t != self && x->seq > self->seq && t->seq < self->seq)) t = x;
		}
	}
	if (!t) return (a->op == OP_UNREG || a->op == OP_REMOVE || !a->mask) ? R_ABSENT : R_NEW;
	if (t == self) return R_SELF;
	if (t == next) return R_NEXT;
	if (t->seq < self->seq) return R_PREV;
	if (t == last) return R_LAST;
	return R_LATER;
}

static void do_action(const struct action *a, struct inst *self, int group)
{
	int rel = relation(a, self), pos = 0, before = m_union();
	vbi_bool ok = TRUE;
	if (self) {
		int i, first = 1, lastp = 1;
		for (i = 0; i < n_inst; i++) {
			if (!insts[i].alive || &insts[i] == self) continue;
			if (have_sentinel && insts[i].f == NF - 1) continue;
			if (insts[i].seq < self->seq) first = 0; else lastp = 0;
		}
		pos = lastp ? 2 : first ? 0 : 1;
		n_actions_cb++;
	} else n_actions_main++;
	hist_add("%s%s(f%d/u%d,0x%x)@%s ", self ? "  cb:" : "", op_name[a->op], a->f, a->u, a->mask & 0xffff, rel_name[rel]);
	switch (a->op) {
	case OP_REG:
		vf_phase("vbi_event_handler_register");
		ok = vbi_event_handler_register(vbi, a->mask, hfn[a->f], UPTR(a->u));
		m_register(a->f, a->u, a->mask);
		break;
	case OP_UNREG:
		vf_phase("vbi_event_handler_unregister");
		vbi_event_handler_unregister(vbi, hfn[a->f], UPTR(a->u));
		m_register(a->f, a->u, 0);
		break;
	case OP_ADD:
		vf_phase("vbi_event_handler_add");
		ok = vbi_event_handler_add(vbi, a->mask, hfn[a->f], UPTR(a->u));
		m_add(a->f, a->u, a->mask);
		break;
	case OP_REMOVE:
		vf_phase("vbi_event_handler_remove");
		vbi_event_handler_remove(vbi, hfn[a->f]);
		m_add(a->f, a->u, 0);
		break;
	}
	if (!ok) vf_fail("model:C11:register-failed", "%s returned FALSE", op_name[a->op]);
	if ((before ^ m_union()) & VBI_EVENT_TTX_PAGE) ttx_flips++;
	/* the window as it stands after the last action taken outside a TTX_PAGE callback (see tx_page_in_frame) */
	/* (deferred triggers fire at the end of vbi_decode(), behind all lines of the frame: their callbacks do not count either) */
	if (!(self && cur.open && (cur.type == VBI_EVENT_TTX_PAGE || cur.type == VBI_EVENT_TRIGGER))) window_outside_ttx_cb = !!(m_union() & VBI_EVENT_TTX_PAGE);
	if (rel != R_MAIN)
		sig_seen[a->op][rel][pos][group > MAXGROUPS ? MAXGROUPS : group][cur.source] = 1;
	vf_phase(op_real ? "vbi_decode" : "vbi_send_event");
}

/* ---------------- event sources ---------------- */

static double now;

static void send_direct(int type)
{
	vbi_event e;
	memset(&e, 0, sizeof e);
	e.type = type;
	hist_add("| send(0x%x) ", type);
	ev_open(type, &e, 1, 0);
	vf_phase("vbi_send_event");
	vbi_send_event(vbi, &e);
	ev_close();
	vf_count("events_direct", 1);
}

static void decode_line(unsigned id, int line, const uint8_t *data, int n)
{
	vbi_sliced sl;
	memset(&sl, 0, sizeof sl);
	sl.id = id; sl.line = (uint32_t)line;
	memcpy(sl.data, data, (size_t)n);
	ev_close();
	op_real = 1;
	vf_phase("vbi_decode");
	now += 0.04;
	vbi_decode(vbi, &sl, 1, now);
	op_real = 0;
	ev_close();
}

struct page_tx { int pgno, enabled, valid; };
static struct page_tx pages[64];
static int n_pages;

/* transmit one Teletext page (parallel mode, magazines 2..7 so that the
 * rolling-header channel switch detector stays out of it) */
static void tx_page(int pgno, int rows)
{
	uint8_t p[42];
	int flips0 = ttx_flips, flips1, en = !!(m_union() & VBI_EVENT_TTX_PAGE), r;
	void *cn0 = vbi->cn;
	hist_add("| page(%x,%s) ", pgno, en ? "on" : "off");
	tx_ttx_header(p, pgno, 0, 0, 0, "C11 HEADER                      ");
	decode_line(VBI_SLICED_TELETEXT_B, 7, p, 42);
	for (r = 1; r <= rows; r++) {
		tx_ttx_row(p, (pgno >> 8) & 7, r, "THE QUICK BROWN FOX");
		decode_line(VBI_SLICED_TELETEXT_B, 8, p, 42);
	}
	/* time filling header of the same magazine ends the page */
	/* Until here no event can have been raised, so no callback changed the window.  The page is
	 * complete, and stored, when the next header has arrived; its TTX_PAGE event - during which
	 * handlers may well unregister - is raised after that. */
	flips1 = ttx_flips;
	tx_ttx_header(p, (pgno & 0x700) | 0xFF, 0x3F7F, 0, 0, "C11 HEADER                      ");
	decode_line(VBI_SLICED_TELETEXT_B, 9, p, 42);
	if (n_pages < 64) {
		pages[n_pages].pgno = pgno;
		pages[n_pages].enabled = en;
		pages[n_pages].valid = (flips0 == flips1);
		if (cn0 != (void *)vbi->cn) { int i; for (i = 0; i <= n_pages; i++) pages[i].valid = 0; vf_count("guard_cache_network_replaced", 1); }
		n_pages++;
	}
	vf_count("pages_transmitted", 1);
}

/* One frame (a single vbi_decode call) that carries a line raising events - the second reception of a VPS
 * line: NETWORK, NETWORK_ID, PROG_ID - and behind it a complete page.  The callbacks of those events run while
 * the frame is being decoded; when they open or close the TTX_PAGE window the page lines of the same frame are
 * already inside the new window ("acquired exactly while at least one handler requests them").  The closing
 * header raises the page's own TTX_PAGE event after the page has been stored, so what its callbacks do to the
 * window does not concern this page. */
static void tx_page_in_frame(struct vf_rng *r, int pgno, int rows)
{
	vbi_sliced sl[8];
	uint8_t p[42], vps[13];
	struct tx_vps t = { 0xDC2 /* the one station of this harness: no network change */, (unsigned)((5u << 15) | (6u << 11) | ((unsigned)vf_range(r, 0, 23) << 6) | 15u), 1, 0x40 };
	int n = 0, k, en, flips0 = ttx_flips;
	void *cn0;
	static int last_format;
	int use_wss = vf_chance(r, 1, 2);
	memset(sl, 0, sizeof sl);
	if (use_wss) {
		/* the fourth identical WSS word with a new format raises ASPECT (and PROG_INFO): events that are not
		   derived from Teletext, so possibly the only ones requested when the frame begins */
		struct tx_wss w; uint8_t b[2]; int i;
		memset(&w, 0, sizeof w);
		last_format = (last_format + 1 + (int)vf_below(r, 7)) % 8;
		w.format = last_format; w.film = (int)vf_below(r, 2);
		tx_wss(b, &w);
		for (i = 0; i < 3; i++) decode_line(VBI_SLICED_WSS_625, 23, b, 2);
		sl[n].id = VBI_SLICED_WSS_625; sl[n].line = 23; memcpy(sl[n].data, b, 2); n++;
	} else {
		memset(vps, 0, sizeof vps);
		tx_vps(vps, &t);
		decode_line(VBI_SLICED_VPS, 16, vps, 13);            /* first reception, alone */
		sl[n].id = VBI_SLICED_VPS; sl[n].line = 16; memcpy(sl[n].data, vps, 13); n++;
	}
	cn0 = vbi->cn;
	tx_ttx_header(p, pgno, 0, 0, 0, "C11 HEADER                      ");
	sl[n].id = VBI_SLICED_TELETEXT_B; sl[n].line = 7; memcpy(sl[n].data, p, 42); n++;
	for (k = 1; k <= rows; k++) {
		tx_ttx_row(p, (pgno >> 8) & 7, k, "IN ONE FRAME WITH VPS");
		sl[n].id = VBI_SLICED_TELETEXT_B; sl[n].line = (uint32_t)(7 + k); memcpy(sl[n].data, p, 42); n++;
	}
	tx_ttx_header(p, (pgno & 0x700) | 0xFF, 0x3F7F, 0, 0, "C11 HEADER                      ");
	sl[n].id = VBI_SLICED_TELETEXT_B; sl[n].line = 20; memcpy(sl[n].data, p, 42); n++;
	window_outside_ttx_cb = !!(m_union() & VBI_EVENT_TTX_PAGE);
	hist_add("| frame[%s,page(%x)] ", use_wss ? "wss" : "vps", pgno);
	ev_close();
	op_real = 1;
	vf_phase("vbi_decode");
	now += 0.04;
	vbi_decode(vbi, sl, n, now);
	op_real = 0;
	ev_close();
	en = window_outside_ttx_cb;
	if (n_pages < 64) {
		pages[n_pages].pgno = pgno;
		pages[n_pages].enabled = en;
		pages[n_pages].valid = 1;
		if (cn0 != (void *)vbi->cn) { int i; for (i = 0; i <= n_pages; i++) pages[i].valid = 0; vf_count("guard_cache_network_replaced", 1); }
		n_pages++;
	}
	vf_count("pages_transmitted", 1);
	vf_count("pages_in_frame_with_event_line", 1);
	if (flips0 != ttx_flips) vf_count("pages_in_frame_window_changed_by_callback", 1);
}

/* A page during whose transmission the window closes and opens again (the main program changes the registrations
 * between two of its packets): part of it was transmitted while nobody requested Teletext pages, so it is not
 * acquired - "exactly while at least one registered handler requests" - whatever other handlers are registered. */
static void tx_page_interrupted(struct vf_rng *r, int pgno)
{
	uint8_t p[42];
	struct action a;
	int i, k, was_on = !!(m_union() & VBI_EVENT_TTX_PAGE);
	void *cn0 = vbi->cn;
	if (have_sentinel) { tx_page(pgno, 2); return; }
	hist_add("| page-interrupted(%x,%s) ", pgno, was_on ? "on" : "off");
	tx_ttx_header(p, pgno, 0, 0, 0, "C11 HEADER                      ");
	decode_line(VBI_SLICED_TELETEXT_B, 7, p, 42);
	tx_ttx_row(p, (pgno >> 8) & 7, 1, "FIRST HALF");
	decode_line(VBI_SLICED_TELETEXT_B, 8, p, 42);
	/* close the window: every instance loses the TTX_PAGE bit */
	for (i = 0; i < n_inst; i++) {
		if (!insts[i].alive || !(insts[i].mask & VBI_EVENT_TTX_PAGE)) continue;
		a.f = insts[i].f; a.u = insts[i].u; a.mask = insts[i].mask & ~VBI_EVENT_TTX_PAGE;
		a.op = a.mask ? OP_REG : OP_UNREG;
		do_action(&a, NULL, 0);
	}
	for (k = (int)vf_below(r, 3); k > 0; k--) {
		tx_ttx_row(p, (pgno >> 8) & 7, 2, "WHILE NOBODY LISTENS");
		decode_line(VBI_SLICED_TELETEXT_B, 9, p, 42);
	}
	/* and open it again */
	a.op = OP_REG; a.f = (int)vf_below(r, NF - 1); a.u = (int)vf_below(r, NU); a.mask = VBI_EVENT_TTX_PAGE | (vf_chance(r, 1, 2) ? VBI_EVENT_NETWORK : 0);
	{ struct inst *x = m_find(a.f, a.u); if (x) a.mask |= x->mask; }
	do_action(&a, NULL, 0);
	for (k = 3; k <= 4; k++) {
		tx_ttx_row(p, (pgno >> 8) & 7, k, "SECOND HALF");
		decode_line(VBI_SLICED_TELETEXT_B, 10, p, 42);
	}
	tx_ttx_header(p, (pgno & 0x700) | 0xFF, 0x3F7F, 0, 0, "C11 HEADER                      ");
	decode_line(VBI_SLICED_TELETEXT_B, 11, p, 42);
	if (n_pages < 64) {
		pages[n_pages].pgno = pgno;
		pages[n_pages].enabled = 0;           /* not wholly inside one window: must not be acquired */
		pages[n_pages].valid = 1;
		if (cn0 != (void *)vbi->cn) { for (i = 0; i <= n_pages; i++) pages[i].valid = 0; vf_count("guard_cache_network_replaced", 1); }
		n_pages++;
	}
	vf_count("pages_transmitted", 1);
	vf_count("pages_interrupted_by_a_closed_window", 1);
}

static void check_pages(void)
{
	int i;
	for (i = 0; i < n_pages; i++) {
		int cached;
		if (!pages[i].valid) { vf_count("pages_straddling_a_window_edge", 1); continue; }
		vf_phase("vbi_is_cached");
		cached = vbi_is_cached(vbi, pages[i].pgno, VBI_ANY_SUBNO);
		if (pages[i].enabled) vf_count(cached ? "pages_enabled_cached" : "pages_enabled_missing", 1);
		else vf_count(cached ? "pages_disabled_cached" : "pages_disabled_not_cached", 1);
		if (pages[i].enabled && !cached)
			vf_fail("model:C11:acq:page-not-acquired", "page %x was transmitted while a handler requested VBI_EVENT_TTX_PAGE but is not cached; history: %s", pages[i].pgno, hist);
		if (!pages[i].enabled && cached)
			vf_fail("model:C11:acq:page-acquired-while-disabled", "page %x was transmitted while no registered handler requested VBI_EVENT_TTX_PAGE but is cached; history: %s", pages[i].pgno, hist);
		if (pages[i].enabled && cached && page_events[pages[i].pgno] > 1)
			vf_fail("model:C11:acq:page-event-repeated", "page %x transmitted once raised %d TTX_PAGE events", pages[i].pgno, page_events[pages[i].pgno]);
	}
}

static void tx_vps_line(unsigned cni, unsigned pil)
{
	uint8_t b[13];
	struct tx_vps t = { cni, pil, 1, 0x40 };
	memset(b, 0, sizeof b);
	tx_vps(b, &t);
	decode_line(VBI_SLICED_VPS, 16, b, 13);
}

static void tx_cc(int line, int a, int b)
{
	uint8_t d[2];
	d[0] = tx_oddpar((unsigned)a); d[1] = tx_oddpar((unsigned)b);
	decode_line(VBI_SLICED_CAPTION_525, line, d, 2);
}

/* EACEM triggers on page 1E7 with a countdown of a few frames: they are queued and fired by vbi_decode() some
 * frames later (vbi_deferred_trigger), one VBI_EVENT_TRIGGER each, while the list of pending triggers is being
 * walked - and what a handler does to the registrations then (removing the last TRIGGER handler and registering
 * one again flushes that list) must not pull the list from under the walk. */
static unsigned tx_trigger_checksum(const char *s, int n)
{
	unsigned long sum = 0;
	int i;
	for (i = 0; i + 1 < n; i += 2) sum += ((unsigned long)(unsigned char)s[i] << 8) + (unsigned char)s[i + 1];
	if (i < n) sum += (unsigned long)(unsigned char)s[i] << 8;
	while (sum >> 16) sum = (sum & 0xFFFF) + (sum >> 16);
	return (unsigned)(~sum) & 0xFFFF;
}

static void tx_trigger_page(struct vf_rng *r)
{
	uint8_t p[42];
	char body[48], row[64];
	int k, n = vf_range(r, 1, 3);
	static int serial;
	hist_add("| trigger*%d ", n);
	tx_ttx_header(p, 0x1E7, 0, 1, 0, "C11 TRIGGER PAGE                ");
	decode_line(VBI_SLICED_TELETEXT_B, 7, p, 42);
	for (k = 1; k <= n; k++) {
		snprintf(body, sizeof body, "<http://c11.test/%d>(c:0F%02d)", ++serial % 1000, vf_range(r, 1, 9));
		snprintf(row, sizeof row, "%s(%04X)", body, tx_trigger_checksum(body, (int)strlen(body)));
		tx_ttx_row(p, 1, k, row);
		decode_line(VBI_SLICED_TELETEXT_B, 8, p, 42);
	}
	tx_ttx_header(p, 0x1FF, 0x3F7F, 0, 0, "C11 HEADER                      ");      /* time filling header: ends 1E7, opens no page */
	decode_line(VBI_SLICED_TELETEXT_B, 9, p, 42);
	vf_count("real_trigger_pages", 1);
	vf_count("real_triggers_sent", n);
}

static void real_input(struct vf_rng *r, int *next_page)
{
	if (vf_chance(r, 1, 8)) { tx_trigger_page(r); return; }
	switch (vf_below(r, 8)) {
	case 0: case 1: case 2: {
		int pg = *next_page;
		/* decimal page numbers 0x200..0x799 */
		*next_page = pg + 1;
		if ((*next_page & 15) > 9) *next_page += 6;
		if ((*next_page & 0xF0) > 0x90) *next_page += 0x60;
		if (pg <= 0x899) {
			unsigned w = vf_below(r, 12);
			if (w < 4) tx_page_in_frame(r, pg, vf_range(r, 1, 3));
			else if (w < 6) tx_page_interrupted(r, pg);
			else tx_page(pg, vf_range(r, 1, 3));
		}
		break;
	}
	case 3: {       /* VPS, ZDF, received twice -> NETWORK (first time), NETWORK_ID, PROG_ID */
		int n = vf_range(r, 1, 3);
		hist_add("| vps*%d ", n);
		while (n--) tx_vps_line(0xDC2, (unsigned)((5u << 15) | (6u << 11) | (20u << 6) | 15u));
		vf_count("real_vps_lines", 1);
		break;
	}
	case 4: {       /* WSS: four identical words -> ASPECT + PROG_INFO when it changed */
		struct tx_wss t; uint8_t b[2]; int i;
		memset(&t, 0, sizeof t);
		t.format = (int)vf_below(r, 8); t.film = (int)vf_below(r, 2);
		tx_wss(b, &t);
		hist_add("| wss(%d)*4 ", t.format);
		for (i = 0; i < 4; i++) decode_line(VBI_SLICED_WSS_625, 23, b, 2);
		vf_count("real_wss_words", 1);
		break;
	}
	case 5: {       /* 8/30 format 1 (LOCAL_TIME, NETWORK_ID) or format 2 (PROG_ID), same station (ZDF) */
		uint8_t p[42];
		int n = vf_range(r, 1, 2);
		if (vf_chance(r, 1, 2)) {
			struct tx_8301 t = { 0x4902, 2, 55000, 12, 34, 56, 1 };
			tx_8301(p, &t);
			hist_add("| 8301*%d ", n);
		} else {
			struct tx_8302 t = { 0x1DC2, (5u << 15) | (6u << 11) | (20u << 6) | 15u, 0, 0, 0, 1, 1, 0x40 };
			tx_8302(p, &t);
			hist_add("| 8302*%d ", n);
		}
		while (n--) decode_line(VBI_SLICED_TELETEXT_B, 10, p, 42);
		vf_count("real_830_packets", 1);
		break;
	}
	case 6: {       /* caption: roll-up, text, carriage return -> CAPTION events */
		hist_add("| cc ");
		tx_cc(21, 0x14, 0x25); tx_cc(21, 0x14, 0x25);
		tx_cc(21, 'A' + (int)vf_below(r, 26), 'B');
		tx_cc(21, 0x14, 0x2D); tx_cc(21, 0x14, 0x2D);
		vf_count("real_caption_bursts", 1);
		break;
	}
	case 7: {       /* XDS current class, program name, twice -> PROG_INFO */
		uint8_t pr[24][2]; char name[8]; int n, i, k;
		memcpy(name, "SHOW A", 7); name[5] = (char)('A' + vf_below(r, 4));
		hist_add("| xds ");
		for (k = 0; k < 2; k++) {
			n = tx_xds_packet(pr, 0, 0x03, name, 6);
			for (i = 0; i < n; i++) decode_line(VBI_SLICED_CAPTION_525, 284, pr[i], 2);
		}
		vf_count("real_xds_packets", 2);
		break;
	}
	}
}

/* ---------------- case set-up ---------------- */

static void begin_case(void)
{
	int i;
	memset(scripts, 0, sizeof scripts);
	memset(insts, 0, sizeof insts);
	memset(&cur, 0, sizeof cur);
	memset(page_events, 0, sizeof page_events);
	memset(sig_seen, 0, sizeof sig_seen);
	n_inst = 0; seq_counter = 0; have_sentinel = 0; in_callback = 0; op_real = 0;
	n_callbacks = n_events = n_actions_cb = n_actions_main = 0;
	ttx_flips = 0; n_pages = 0; hist_len = 0; hist[0] = 0;
	memset(ev_by_type, 0, sizeof ev_by_type);
	now = 1000.0;
	for (i = 0; i < NU; i++) udata[i] = i;
	vf_phase("vbi_decoder_new");
	vbi = vbi_decoder_new();
}

static int end_case(void)
{
	int a, b, c, d, e, nsig = 0, i, live = 0;
	struct event_handler *eh;
	ev_close();
	check_pages();
	/* the library's list must now hold exactly the model's instances, in order
	 * (read through the internal header; a diagnostic, the behavioural checks above decide) */
	eh = vbi->handlers;
	for (i = 0; i < n_inst; i++) {
		if (!insts[i].alive) continue;
		live++;
		if (!eh || eh->handler != hfn[insts[i].f] || eh->user_data != UPTR(insts[i].u) || eh->event_mask != insts[i].mask) {
			vf_fail("model:C11:list-mismatch", "final handler list differs from the model at instance #%ld (f%d/u%d mask 0x%x): library has %s mask 0x%x; history: %s",
				insts[i].seq, insts[i].f, insts[i].u, insts[i].mask, eh ? "another record" : "no record", eh ? eh->event_mask : 0, hist);
			break;
		}
		eh = eh->next;
	}
	if (i == n_inst && eh)
		vf_fail("model:C11:list-mismatch", "library keeps a handler record the model does not have (%d live instances); history: %s", live, hist);
	vf_phase("vbi_decoder_delete");
	vbi_decoder_delete(vbi);
	vbi = NULL;
	vf_count("callbacks", n_callbacks);
	vf_count("events_observed", n_events);
	vf_count("actions_in_callbacks", n_actions_cb);
	vf_count("actions_main", n_actions_main);
	{
		static const char *const nm[12] = { "close", "ttx_page", "caption", "network", "trigger", 0, "aspect", "prog_info", "network_id", 0, "local_time", "prog_id" };
		char b[48];
		for (i = 0; i < 12; i++) if (nm[i] && ev_by_type[i]) { snprintf(b, sizeof b, "decoder_events_%s", nm[i]); vf_count(b, ev_by_type[i]); }
	}
	for (a = 0; a < 4; a++) for (b = 0; b < 8; b++) for (c = 0; c < 3; c++) for (d = 0; d <= MAXGROUPS; d++) for (e = 0; e < 2; e++)
		if (sig_seen[a][b][c][d][e]) {
			vf_sig("%s target=%s caller=%s depth=%d src=%s", op_name[a], rel_name[b], c == 0 ? "first" : c == 1 ? "middle" : "last", d, e ? "decoder" : "direct");
			nsig++;
		}
	return nsig > 0;
}

static const int ev_types[] = { VBI_EVENT_CLOSE, VBI_EVENT_TTX_PAGE, VBI_EVENT_CAPTION, VBI_EVENT_NETWORK, VBI_EVENT_TRIGGER,
	VBI_EVENT_ASPECT, VBI_EVENT_PROG_INFO, VBI_EVENT_NETWORK_ID, VBI_EVENT_LOCAL_TIME, VBI_EVENT_PROG_ID };
#define N_TYPES ((int)(sizeof ev_types / sizeof ev_types[0]))

static int rand_mask(struct vf_rng *r, const int *focus, int nfocus)
{
	int m = 0, n;
	switch (vf_below(r, 8)) {
	case 0: return -1;
	case 1: return ev_types[vf_below(r, N_TYPES)];
	case 2: return VBI_EVENT_TTX_PAGE;
	default:
		n = vf_range(r, 1, 3);
		while (n--) m |= focus[vf_below(r, (unsigned)nfocus)];
		if (vf_chance(r, 1, 4)) m |= VBI_EVENT_TTX_PAGE;
		return m;
	}
}

static void rand_action(struct vf_rng *r, struct action *a, int slots[][2], int nslots, const int *focus, int nfocus)
{
	int k = (int)vf_below(r, (unsigned)nslots), w = (int)vf_below(r, 100);
	a->f = slots[k][0]; a->u = slots[k][1];
	if (vf_chance(r, 1, 12)) { a->f = (int)vf_below(r, NF - 1); a->u = (int)vf_below(r, NU); }
	a->op = w < 40 ? OP_REG : w < 65 ? OP_UNREG : w < 85 ? OP_ADD : OP_REMOVE;
	a->mask = rand_mask(r, focus, nfocus);
	if (a->op == OP_REG && vf_chance(r, 1, 10)) a->mask = 0;
	if (a->op == OP_ADD && vf_chance(r, 1, 10)) a->mask = 0;
}

static int run_random(struct vf_rng *r)
{
	int slots[6][2], nslots, focus[3], nfocus, i, steps, next_page = 0x200, real;
	struct action a;

	begin_case();
	if (!vbi) { vf_fail("harness:alloc", "vbi_decoder_new failed"); return 0; }
	/* pages of every magazine: magazine 1 also carries the trigger page 1E7, magazine 8 is number 0 on air */
	{ static const int first[] = { 0x100, 0x100, 0x170, 0x200, 0x300, 0x450, 0x600, 0x780, 0x800 };
	  next_page = first[vf_below(r, sizeof first / sizeof first[0])]; }
	nslots = vf_range(r, 2, 6);
	for (i = 0; i < nslots; i++) { slots[i][0] = (int)vf_below(r, NF - 1); slots[i][1] = (int)vf_below(r, NU); }
	nfocus = vf_range(r, 1, 3);
	for (i = 0; i < nfocus; i++) focus[i] = ev_types[vf_below(r, N_TYPES)];
	real = vf_chance(r, 1, 2);
	if (vf_chance(r, 1, 3)) {
		have_sentinel = 1;
		vbi_event_handler_register(vbi, -1, hfn[NF - 1], &udata[NU - 1]);
		m_register(NF - 1, NU - 1, -1);
		if (m_union() & VBI_EVENT_TTX_PAGE) ttx_flips++;
	}
	/* scripts */
	for (i = 0; i < nslots; i++) {
		struct script *sc = &scripts[slots[i][0]][slots[i][1]];
		int g, k;
		sc->ngroups = vf_chance(r, 1, 4) ? 0 : vf_range(r, 1, MAXGROUPS);
		sc->cursor = 0;
		for (g = 0; g < sc->ngroups; g++) {
			sc->nact[g] = vf_chance(r, 1, 2) ? 1 : vf_range(r, 1, MAXBURST);
			for (k = 0; k < sc->nact[g]; k++)
				rand_action(r, &sc->act[g][k], slots, nslots, focus, nfocus);
			if (MAXBURST >= 2 && vf_chance(r, 1, 6)) {
				/* bounce: the handler removes itself and registers again inside its callback; when it was the
				   last one for an event type that type is deactivated and activated again (state the
				   decoder keeps for it - pending triggers, caption and Teletext assembly - is reset) */
				int m = focus[vf_below(r, (unsigned)nfocus)] | (vf_chance(r, 1, 3) ? VBI_EVENT_TRIGGER : 0);
				sc->nact[g] = 2;
				sc->act[g][0].op = vf_chance(r, 3, 4) ? OP_UNREG : OP_REMOVE; sc->act[g][0].f = slots[i][0]; sc->act[g][0].u = slots[i][1]; sc->act[g][0].mask = 0;
				sc->act[g][1].op = vf_chance(r, 3, 4) ? OP_REG : OP_ADD; sc->act[g][1].f = slots[i][0]; sc->act[g][1].u = slots[i][1]; sc->act[g][1].mask = m;
			}
		}
	}
	/* initial registrations */
	for (i = 0; i < nslots; i++)
		if (vf_chance(r, 3, 4)) {
			a.op = vf_chance(r, 5, 6) ? OP_REG : OP_ADD; a.f = slots[i][0]; a.u = slots[i][1];
			a.mask = rand_mask(r, focus, nfocus);
			do_action(&a, NULL, 0);
		}
	steps = vf_range(r, 4, 24);
	for (i = 0; i < steps; i++) {
		int w = (int)vf_below(r, 100);
		if (w < 25) {
			rand_action(r, &a, slots, nslots, focus, nfocus);
			do_action(&a, NULL, 0);
		} else if (w < 70 || !real) {
			int t = vf_chance(r, 3, 4) ? focus[vf_below(r, (unsigned)nfocus)] : ev_types[vf_below(r, N_TYPES)];
			send_direct(t);
		} else {
			real_input(r, &next_page);
		}
	}
	vf_sample("random history, %d slots, sentinel=%d, real=%d: %.600s", nslots, have_sentinel, real, hist);
	return end_case();
}

/* ---------------- exhaustive scripts ---------------- */

/* Handlers H0=(f0,u0) H1=(f1,u1) H2=(f0,u1); targets additionally N=(f2,u2), N2=(f0,u2).
 * H0/H2/N2 share a function so that the legacy per-function calls hit several. */
static const int exh_slot[5][2] = { {0, 0}, {1, 1}, {0, 1}, {2, 2}, {0, 2} };
#define EXH_OPS 6       /* reg A, reg B, unreg, add A, add B, remove */
#define EXH_ACTIONS (EXH_OPS * 5)

static long ipow(long b, int e) { long r = 1; while (e-- > 0) r *= b; return r; }

/* number of cases with k handlers and at most maxact actions */
static long exh_count_k(int k, int maxact)
{
	long n = 0; int a;
	for (a = 0; a <= maxact; a++) n += ipow((long)EXH_ACTIONS * k, a);
	return n * ipow(2, k);
}

static int run_exhaustive(long idx, int maxact, int source)
{
	int k, a, nact = 0, i, A, B, initmask[3], owner[3], act[3];
	long n, per, rest;
	struct action ac;

	for (k = 1; k <= 3; k++) {
		n = exh_count_k(k, maxact);
		if (idx < n) break;
		idx -= n;
	}
	if (k > 3) return 0;            /* beyond the enumeration: nothing to do */
	for (i = 0; i < k; i++) { initmask[i] = (int)(idx & 1); idx >>= 1; }
	for (a = 0; a <= maxact; a++) {
		per = ipow((long)EXH_ACTIONS * k, a);
		if (idx < per) break;
		idx -= per;
	}
	nact = a;
	rest = idx;
	for (i = 0; i < nact; i++) {
		long v = rest % ((long)EXH_ACTIONS * k);
		rest /= (long)EXH_ACTIONS * k;
		owner[i] = (int)(v % k);
		act[i] = (int)(v / k);
	}
	switch (source) {
	case 1:  A = VBI_EVENT_NETWORK_ID; B = VBI_EVENT_NETWORK; break;
	case 2:  A = VBI_EVENT_TTX_PAGE; B = VBI_EVENT_CLOSE; break;
	default: A = VBI_EVENT_PROG_ID; B = VBI_EVENT_CLOSE; break;
	}

	begin_case();
	if (!vbi) { vf_fail("harness:alloc", "vbi_decoder_new failed"); return 0; }
	for (i = 0; i < nact; i++) {
		struct script *sc = &scripts[exh_slot[owner[i]][0]][exh_slot[owner[i]][1]];
		struct action *x;
		int op = act[i] % EXH_OPS, tg = act[i] / EXH_OPS;
		sc->ngroups = 1;
		x = &sc->act[0][sc->nact[0]++];
		x->f = exh_slot[tg][0]; x->u = exh_slot[tg][1];
		switch (op) {
		case 0: x->op = OP_REG; x->mask = A; break;
		case 1: x->op = OP_REG; x->mask = B; break;
		case 2: x->op = OP_UNREG; x->mask = 0; break;
		case 3: x->op = OP_ADD; x->mask = A; break;
		case 4: x->op = OP_ADD; x->mask = B; break;
		default: x->op = OP_REMOVE; x->mask = 0; break;
		}
	}
	for (i = 0; i < k; i++) {
		ac.op = OP_REG; ac.f = exh_slot[i][0]; ac.u = exh_slot[i][1]; ac.mask = initmask[i] ? B : A;
		do_action(&ac, NULL, 0);
	}
	switch (source) {
	case 0:
		send_direct(A); send_direct(B); send_direct(A);
		break;
	case 1:
		/* two identical VPS lines: NETWORK (type B) then NETWORK_ID (type A) from vbi->network;
		 * once more after the scripts ran; then a direct event as the steady-state probe */
		hist_add("| vps*2 ");
		tx_vps_line(0xDC2, 0); tx_vps_line(0xDC2, 0);
		hist_add("| vps*2 ");
		tx_vps_line(0xDC1, 0); tx_vps_line(0xDC1, 0);
		send_direct(A); send_direct(B);
		break;
	case 2:
		tx_page(0x234, 1);      /* scripts run while its TTX_PAGE event is delivered */
		tx_page(0x345, 1);
		send_direct(A);
		tx_page(0x456, 1);
		break;
	}
	if (idx % 997 == 0)
		vf_sample("exhaustive script: %d handlers, %d actions, source %d: %.400s", k, nact, source, hist);
	return end_case();
}

static int run_case(struct vf_rng *r, long idx)
{
	if (0 == strcmp(vf_mode, "exh"))
		return run_exhaustive(idx, (int)vf_param[0], (int)vf_param[1]);
	(void)idx;
	return run_random(r);
}

/* ---------------- self test of the model and the monitor ---------------- */

static void selftest(void)
{
	/* model: documented semantics on a hand history */
	n_inst = 0; seq_counter = 0; memset(&cur, 0, sizeof cur); memset(insts, 0, sizeof insts);
	m_register(0, 0, 2); m_register(1, 0, 4); m_register(0, 1, 8);
	if (m_union() != 14) vf_fail("selftest:C11", "union");
	m_register(0, 0, 16);                           /* mask change keeps the position */
	if (!m_find(0, 0) || m_find(0, 0)->seq != 1 || m_find(0, 0)->mask != 16) vf_fail("selftest:C11", "mask change");
	m_add(0, 3, 32);                                /* legacy: every registration of f0, user pointer ignored */
	if (m_find(0, 0)->mask != 32 || m_find(0, 1)->mask != 32 || m_find(0, 3)) vf_fail("selftest:C11", "legacy add");
	m_add(0, 0, 0);                                 /* legacy remove: all of f0 */
	if (m_find(0, 0) || m_find(0, 1) || !m_find(1, 0)) vf_fail("selftest:C11", "legacy remove");
	m_register(0, 0, 2);                            /* re-registration is a new instance at the end */
	if (m_find(0, 0)->seq != 4) vf_fail("selftest:C11", "new instance");
	m_register(5, 0, 0);                            /* unregistering the unknown: nothing */
	if (m_union() != 6) vf_fail("selftest:C11", "unregister unknown");
	if (exh_count_k(1, 1) != 2 * (1 + 30)) vf_fail("selftest:C11", "enumeration size");
	n_inst = 0; seq_counter = 0;
}

int main(int argc, char **argv) { return vf_main(argc, argv, run_case, selftest); }
