/* C14 - PIL to time conversion picks the right year and instant and leaves TZ alone.
 *
 * One case = (PIL, reference time, UTC offset or time zone string, ambient TZ).
 * All public functions of src/pdc.c that take these are called on the tuple:
 *   vbi_pil_is_valid_date, vbi_pil_lto_to_time, vbi_pil_lto_validity_window   (offset variant)
 *   vbi_pil_to_time, vbi_pil_validity_window, vbi_pty_validity_window          (zone variant)
 *
 * Oracles
 *  - offset variant: independent proleptic Gregorian arithmetic (days-from-civil)
 *    gives the one acceptable instant;
 *  - zone variant: a forked helper process (its own environment) views instants
 *    in the zone with the C library's localtime and searches the instants that
 *    have a wanted local time; the checking process never touches TZ for that;
 *  - nearest-year rule as documented: the PIL month is at most 5 months after
 *    and at most 6 months before the month of the reference time (both viewed
 *    in the zone);
 *  - 29 February only in leap years; invalid PILs fail; valid ones may fail only
 *    where struct tm / time_t cannot represent an intermediate or the result;
 *  - windows: begin < end, contain the converted time, begin at 00:00 of the
 *    label day (20:00 of the previous day for labels before 04:00), end at 04:00
 *    of the next day (EN 300 231 9.3 as quoted in pdc.c); PTY window from the
 *    reference time to 04:00 on the 29th day after it;
 *  - after every call: TZ (presence and bytes), tzname[0..1], timezone, daylight
 *    identical to the snapshot taken before the call.
 */
#include "vf.h"
#include <string.h>
#include <stdlib.h>
#include <limits.h>
#include <time.h>
#include <errno.h>
#include <unistd.h>
#include <signal.h>
#include <sys/stat.h>
#include <sys/prctl.h>
#include <sys/wait.h>
#include "pdc.h"

typedef long long ll;

/* ---------------- reporting with a per-key cap ---------------- */
static struct { const char *key; int n; } capped[128];
static int may_report(const char *key)
{
	int i;
	for (i = 0; i < 128 && capped[i].key; i++)
		if (capped[i].key == key || !strcmp(capped[i].key, key))
			return capped[i].n++ < 6;
	if (i < 128) { capped[i].key = key; capped[i].n = 1; }
	return 1;
}
#define FAIL(key, ...) do { if (may_report(key)) vf_fail(key, __VA_ARGS__); } while (0)
static const char *intern(const char *s)
{
	static char *tab[128];
	int i;
	for (i = 0; i < 127 && tab[i]; i++)
		if (!strcmp(tab[i], s)) return tab[i];
	if (!tab[i]) tab[i] = strdup(s);
	return tab[i];
}

/* ---------------- civil calendar arithmetic (independent of libc and of zvbi) ---------------- */
static ll days_from_civil(ll y, int m, int d)
{
	ll era, yoe, doy, doe;
	y -= m <= 2;
	era = (y >= 0 ? y : y - 399) / 400;
	yoe = y - era * 400;
	doy = (153 * (ll)(m > 2 ? m - 3 : m + 9) + 2) / 5 + d - 1;
	doe = yoe * 365 + yoe / 4 - yoe / 100 + doy;
	return era * 146097 + doe - 719468;
}
static void civil_from_days(ll z, ll *y, int *m, int *d)
{
	ll era, doe, yoe, doy, mp;
	z += 719468;
	era = (z >= 0 ? z : z - 146096) / 146097;
	doe = z - era * 146097;
	yoe = (doe - doe / 1460 + doe / 36524 - doe / 146096) / 365;
	doy = doe - (365 * yoe + yoe / 4 - yoe / 100);
	mp = (5 * doy + 2) / 153;
	*d = (int)(doy - (153 * mp + 2) / 5 + 1);
	*m = (int)(mp < 10 ? mp + 3 : mp - 9);
	*y = yoe + era * 400 + (*m <= 2);
}
static int is_leap(ll y) { return (y % 4 == 0 && y % 100 != 0) || y % 400 == 0; }
static int month_len(ll y, int m)
{
	static const int ml[12] = { 31, 28, 31, 30, 31, 30, 31, 31, 30, 31, 30, 31 };
	return m == 2 && is_leap(y) ? 29 : ml[m - 1];
}
struct civil { ll y; int mon, day, hour, min, sec; };
static void civil_from_time(ll t, struct civil *c)
{
	ll days = t / 86400, rem = t % 86400;
	if (rem < 0) { rem += 86400; days--; }
	civil_from_days(days, &c->y, &c->mon, &c->day);
	c->hour = (int)(rem / 3600); c->min = (int)(rem / 60 % 60); c->sec = (int)(rem % 60);
}
static ll time_from_civil(ll y, int mon, int day, int hour, int min)
{
	return days_from_civil(y, mon, day) * 86400 + hour * 3600 + min * 60;
}

/* the reference PIL reader: day(5) month(4) hour(5) minute(6), msb first */
struct pilf { int day, mon, hour, min; };
static void pil_split(unsigned pil, struct pilf *p)
{
	p->min = (int)(pil % 64); pil /= 64;
	p->hour = (int)(pil % 32); pil /= 32;
	p->mon = (int)(pil % 16); pil /= 16;
	p->day = (int)(pil % 32);
}
static unsigned pil_make(int day, int mon, int hour, int min) { return (unsigned)(((day * 16 + mon) * 32 + hour) * 64 + min); }
/* valid date: 29 February counts, the year decides later */
static int pil_date_ok(const struct pilf *p)
{
	return p->mon >= 1 && p->mon <= 12 && p->day >= 1 && p->day <= month_len(2000, p->mon);
}
static int pil_valid(const struct pilf *p) { return pil_date_ok(p) && p->hour < 24 && p->min < 60; }

/* nearest-year rule of the documentation: "If pil contains a month more than five
 * months after start, pil is assumed to refer to an earlier date than start"; the
 * candidates are one year apart, so the label month lies 6 months before .. 5 months
 * after the reference month. */
static ll expected_year(ll ref_year, int ref_mon, int pil_mon)
{
	int d = pil_mon - ref_mon;
	if (d > 5) return ref_year - 1;
	if (d < -6) return ref_year + 1;
	return ref_year;
}

/* Range of reference times / results in which nothing is "unrepresentable":
 * |t| <= 2^55 s keeps every year below 1.2e9, well inside int tm_year. */
#define COMFORT ((ll)1 << 55)
static int comfortable(ll t) { return t >= -COMFORT && t <= COMFORT; }

/* ---------------- zone tables ---------------- */
static char long_garbage[4001];
static const char *zones[] = {
	"UTC",
	"Europe/London", "Europe/Berlin", "America/New_York", "America/Los_Angeles", "America/St_Johns",
	"Asia/Kolkata", "Asia/Kathmandu", "Asia/Tokyo", "Australia/Sydney", "Australia/Lord_Howe",
	"Pacific/Auckland", "Pacific/Kiritimati", "Pacific/Apia", "Etc/GMT+12", "America/Sao_Paulo",
	"Africa/Casablanca", "Europe/Moscow", "Europe/Dublin",
	"CET-1CEST,M3.5.0,M10.5.0/3", "EST5EDT,M3.2.0,M11.1.0", "XYZ-13:45", "<+0530>-5:30", "AAA+14:59:59", "UTC0",
	"NZST-12NZDT,M9.5.0,M4.1.0/3", "GMT0BST,M3.5.0/1,M10.5.0",
	"", "A=B", "CET=", "Foo/Bar", ":Europe/Paris", long_garbage,
	/* ambient-only values follow */
	"PST8PDT,M3.2.0,M11.1.0", "JST-9", "Europe/Vienna", "America/Chicago", "garbage!!",
};
#define N_TZ_ARGS 33
#define N_ZONES ((int)(sizeof zones / sizeof zones[0]))
#define Z_UNSET (-1)
enum { ZK_UTC, ZK_ZONEINFO, ZK_POSIX, ZK_ODD, ZK_NULL, ZK_LTO_QUARTER, ZK_LTO_ODD, ZK_LTO_BEYOND, ZK_N };
static const char *zk_name[ZK_N] = { "tz-UTC", "tz-zoneinfo", "tz-posix", "tz-odd-string", "tz-NULL", "lto-quarter-hours", "lto-odd-seconds", "lto-beyond-15h" };
static int zone_kind(int z) { return z == 0 ? ZK_UTC : z <= 18 ? ZK_ZONEINFO : z <= 26 ? ZK_POSIX : ZK_ODD; }
static const char *zone_str(int z) { return z == Z_UNSET ? NULL : zones[z]; }
static const char *zone_show(int z)
{
	static char bufs[4][80];
	static int slot;
	char *b = bufs[slot = (slot + 1) & 3];
	if (z == Z_UNSET) return "(unset)";
	if (strlen(zones[z]) > 60) { snprintf(b, 80, "\"%.20s...\"(%zu bytes)", zones[z], strlen(zones[z])); return b; }
	snprintf(b, 80, "\"%s\"", zones[z]);
	return b;
}
/* does the string select a zoneinfo file (then the C library's localtime may
 * rewrite tzname/timezone/daylight as a side effect, depending on the time) */
static ino_t zone_inode(int z)
{
	char path[4200];
	struct stat st;
	const char *s = z == Z_UNSET ? NULL : zones[z];
	if (s == NULL) snprintf(path, sizeof path, "/etc/localtime");
	else {
		if (*s == ':') s++;
		if (!*s || strlen(s) > 200) return 0;
		snprintf(path, sizeof path, "/usr/share/zoneinfo/%s", s);
	}
	if (stat(path, &st) != 0 || !S_ISREG(st.st_mode)) return 0;
	return st.st_ino;
}

/* ---------------- helper process: views instants in a zone ---------------- */
struct view { int ok; ll y; int mon, day, hour, min, sec; long gmtoff; };
struct hreq { int op, zone, n; ll t[8]; ll y; int mon, day, hour, min; };
struct hrep { int n; struct view v[8]; ll t[8]; };
static int h_to = -1, h_from = -1;
static pid_t h_pid;

static void helper_view(ll t, struct view *v)
{
	struct tm tm;
	time_t tt = (time_t)t;
	memset(v, 0, sizeof *v);
	memset(&tm, 0, sizeof tm);
	if (!localtime_r(&tt, &tm)) return;
	v->ok = 1; v->y = (ll)tm.tm_year + 1900; v->mon = tm.tm_mon + 1; v->day = tm.tm_mday;
	v->hour = tm.tm_hour; v->min = tm.tm_min; v->sec = tm.tm_sec; v->gmtoff = tm.tm_gmtoff;
}
static void helper_main(int in, int out)
{
	struct hreq q;
	struct hrep p;
	int cur = -2;
	prctl(PR_SET_PDEATHSIG, SIGKILL);
	for (;;) {
		ssize_t r = read(in, &q, sizeof q);
		int i;
		if (r != (ssize_t)sizeof q) _exit(0);
		if (q.zone != cur) {
			if (q.zone == Z_UNSET) unsetenv("TZ"); else setenv("TZ", zones[q.zone], 1);
			tzset();
			cur = q.zone;
		}
		memset(&p, 0, sizeof p);
		if (q.op == 0) {
			p.n = q.n;
			for (i = 0; i < q.n && i < 8; i++) helper_view(q.t[i], &p.v[i]);
		} else {
			/* all instants whose local view is y-mon-day hour:min:00 */
			ll g = time_from_civil(q.y, q.mon, q.day, q.hour, q.min), k;
			long offs[64];
			int no = 0, j;
			for (k = -60; k <= 60; k++) {
				struct view v;
				helper_view(g + k * 3600 * 3, &v);
				if (!v.ok) continue;
				for (j = 0; j < no; j++) if (offs[j] == v.gmtoff) break;
				if (j == no && no < 64) offs[no++] = v.gmtoff;
			}
			for (j = 0; j < no && p.n < 8; j++) {
				struct view v;
				ll c = g - offs[j];
				helper_view(c, &v);
				if (v.ok && v.y == q.y && v.mon == q.mon && v.day == q.day && v.hour == q.hour && v.min == q.min && v.sec == 0) {
					int dup = 0;
					for (i = 0; i < p.n; i++) if (p.t[i] == c) dup = 1;
					if (!dup) p.t[p.n++] = c;
				}
			}
		}
		if (write(out, &p, sizeof p) != (ssize_t)sizeof p) _exit(0);
	}
}
static void helper_start(void)
{
	int a[2], b[2];
	if (pipe(a) || pipe(b)) { perror("pipe"); exit(2); }
	h_pid = fork();
	if (h_pid < 0) { perror("fork"); exit(2); }
	if (h_pid == 0) {
		close(a[1]); close(b[0]);
		helper_main(a[0], b[1]);
		_exit(0);
	}
	close(a[0]); close(b[1]);
	h_to = a[1]; h_from = b[0];
}
static void helper_stop(void)
{
	if (h_to >= 0) { close(h_to); close(h_from); h_to = -1; waitpid(h_pid, NULL, 0); }
}
static void helper_call(const struct hreq *q, struct hrep *p)
{
	if (h_to < 0) { helper_start(); atexit(helper_stop); }
	if (write(h_to, q, sizeof *q) != (ssize_t)sizeof *q || read(h_from, p, sizeof *p) != (ssize_t)sizeof *p) {
		fprintf(stderr, "c14: zone helper died\n");
		exit(2);
	}
}
static void zone_views(int zone, const ll *t, int n, struct view *v)
{
	struct hreq q;
	struct hrep p;
	memset(&q, 0, sizeof q);
	q.op = 0; q.zone = zone; q.n = n;
	memcpy(q.t, t, sizeof(ll) * (size_t)n);
	helper_call(&q, &p);
	memcpy(v, p.v, sizeof(struct view) * (size_t)n);
}
/* instants with the given local time in the zone; returns their number */
static int zone_find(int zone, ll y, int mon, int day, int hour, int min, ll *t)
{
	struct hreq q;
	struct hrep p;
	memset(&q, 0, sizeof q);
	q.op = 1; q.zone = zone; q.y = y; q.mon = mon; q.day = day; q.hour = hour; q.min = min;
	helper_call(&q, &p);
	memcpy(t, p.t, sizeof(ll) * 8);
	return p.n;
}

/* ---------------- environment snapshot ---------------- */
struct snap { int has_tz; char tz[4100]; char n0[80], n1[80]; long tzone; int dayl; };
static void snap_take(struct snap *s)
{
	const char *e = getenv("TZ");
	memset(s, 0, sizeof *s);
	s->has_tz = e != NULL;
	if (e) snprintf(s->tz, sizeof s->tz, "%s", e);
	snprintf(s->n0, sizeof s->n0, "%s", tzname[0] ? tzname[0] : "(null)");
	snprintf(s->n1, sizeof s->n1, "%s", tzname[1] ? tzname[1] : "(null)");
	s->tzone = timezone; s->dayl = daylight;
}
static long n_env_checks, n_libc_side_effect;
/* libc_may_perturb: the call ran localtime()/mktime() under the ambient zone file
 * without a re-parse afterwards; glibc then rewrites tzname/timezone/daylight for
 * the converted time.  That is not the library's doing and TZ itself is compared
 * strictly in every case. */
static void env_check(const struct snap *before, const char *api, const char *what, int libc_may_perturb)
{
	struct snap now;
	char key[96];
	snap_take(&now);
	n_env_checks++;
	if (now.has_tz != before->has_tz || strcmp(now.tz, before->tz)) {
		snprintf(key, sizeof key, "model:C14:env:TZ-changed:%s", api);
		FAIL(intern(key), "%s: TZ was %s%.80s%s, is %s%.80s%s", what, before->has_tz ? "\"" : "", before->has_tz ? before->tz : "unset", before->has_tz ? "\"" : "",
		     now.has_tz ? "\"" : "", now.has_tz ? now.tz : "unset", now.has_tz ? "\"" : "");
		return;
	}
	if (strcmp(now.n0, before->n0) || strcmp(now.n1, before->n1) || now.tzone != before->tzone || now.dayl != before->dayl) {
		if (libc_may_perturb) { n_libc_side_effect++; return; }
		snprintf(key, sizeof key, "model:C14:env:tz-state-changed:%s", api);
		FAIL(intern(key), "%s: tzname/timezone/daylight were %s/%s/%ld/%d, are %s/%s/%ld/%d (TZ %s%.60s)", what,
		     before->n0, before->n1, before->tzone, before->dayl, now.n0, now.n1, now.tzone, now.dayl, now.has_tz ? "=" : "unset", now.tz);
	}
}

/* ---------------- generators ---------------- */
static unsigned gen_pil(struct vf_rng *r, long idx)
{
	unsigned k = vf_below(r, 100);
	int mon, day, hour, min;
	if (k < 30) return (unsigned)(((uint64_t)idx * 0x9E3779B1u + vf_seed * 7919u) & 0xFFFFF);      /* walks all 2^20 labels */
	if (k < 34) {
		static const unsigned sc[] = { VBI_PIL_TIMER_CONTROL, VBI_PIL_INHIBIT_TERMINATE, VBI_PIL_INTERRUPTION, VBI_PIL_CONTINUE, VBI_PIL_NSPV, 0, 0xFFFFF };
		return sc[vf_below(r, 7)];
	}
	mon = vf_range(r, 1, 12);
	if (k < 42) mon = 2;
	switch (vf_below(r, 6)) {
	case 0: day = 1; break;
	case 1: day = month_len(2000, mon); break;
	case 2: day = vf_range(r, 28, 31); break;
	default: day = vf_range(r, 1, month_len(2000, mon)); break;
	}
	if (k >= 34 && k < 39) day = 29;                 /* 29 February */
	switch (vf_below(r, 6)) {
	case 0: hour = vf_range(r, 0, 4); break;
	case 1: hour = 23; break;
	default: hour = vf_range(r, 0, 23); break;
	}
	min = vf_chance(r, 1, 4) ? (vf_chance(r, 1, 2) ? 0 : 59) : vf_range(r, 0, 59);
	if (k >= 92) {                                   /* one unreal member */
		switch (vf_below(r, 6)) {
		case 0: mon = vf_chance(r, 1, 2) ? 0 : vf_range(r, 13, 15); break;
		case 1: day = 0; break;
		case 2: { static const int bad[6][2] = { { 2, 30 }, { 2, 31 }, { 4, 31 }, { 6, 31 }, { 9, 31 }, { 11, 31 } };
			  unsigned b = vf_below(r, 6); mon = bad[b][0]; day = bad[b][1]; break; }
		case 3: hour = vf_range(r, 24, 31); break;
		case 4: min = vf_range(r, 60, 63); break;
		default: hour = 24; min = 0; break;
		}
	}
	return pil_make(day, mon, hour, min);
}

static const int special_years[] = { 1600, 1899, 1900, 1901, 1969, 1970, 1971, 1999, 2000, 2001, 2004, 2037, 2038, 2039, 2099, 2100, 2101, 2399, 2400, 1, 0, -1, 9999 };

static ll gen_start(struct vf_rng *r, int *cat)
{
	unsigned k = vf_below(r, 100);
	ll y, t;
	int m;
	if (k < 22) { *cat = 0; return (ll)(vf_u64(r) % ((uint64_t)1 << 31)); }                       /* 1970..2038 */
	if (k < 30) { *cat = 1; y = vf_range(r, -2000, 12000); return time_from_civil(y, vf_range(r, 1, 12), vf_range(r, 1, 28), vf_range(r, 0, 23), vf_range(r, 0, 59)) + vf_range(r, 0, 59); }
	if (k < 45) {                                                                                       /* year ends */
		*cat = 2;
		y = vf_chance(r, 1, 3) ? special_years[vf_below(r, sizeof special_years / sizeof special_years[0])] : vf_range(r, 1950, 2060);
		return time_from_civil(y, 1, 1, 0, 0) + vf_range(r, -2 * 86400, 2 * 86400);
	}
	if (k < 62) {                                                                                       /* month boundaries */
		*cat = 3;
		y = vf_chance(r, 1, 4) ? special_years[vf_below(r, sizeof special_years / sizeof special_years[0])] : vf_range(r, 1960, 2050);
		m = vf_range(r, 1, 12);
		return time_from_civil(y, m, 1, 0, 0) + vf_range(r, -86400 - 54000, 86400 + 54000);
	}
	if (k < 72) {                                                                                       /* end of February */
		*cat = 4;
		y = vf_chance(r, 1, 2) ? special_years[vf_below(r, sizeof special_years / sizeof special_years[0])] : vf_range(r, 1890, 2110);
		return time_from_civil(y, 3, 1, 0, 0) + vf_range(r, -3 * 86400, 86400);
	}
	if (k < 80) {                                                                                       /* DST switch seasons */
		static const int mm[] = { 3, 3, 4, 9, 10, 10, 11 };
		*cat = 5;
		y = vf_range(r, 1980, 2037);
		m = mm[vf_below(r, 7)];
		return time_from_civil(y, m, vf_range(r, 1, month_len(y, m)), vf_range(r, 0, 23), vf_range(r, 0, 59));
	}
	if (k < 90) {                                                                                       /* epoch, 2^31, 2^32 */
		static const ll base[] = { 0, 0, 0, (ll)1 << 31, -((ll)1 << 31), (ll)1 << 32 };
		*cat = 6;
		t = base[vf_below(r, 6)] + (vf_chance(r, 1, 2) ? vf_range(r, -4000, 4000) : vf_range(r, -3 * 86400, 3 * 86400));
		return t;
	}
	if (k < 95) {                                                                                       /* a leap year's spring seen from before/after */
		*cat = 7;
		y = vf_chance(r, 1, 2) ? (vf_chance(r, 1, 2) ? 2000 : vf_chance(r, 1, 2) ? 1900 : 2100) : vf_range(r, 1896, 2104);
		return time_from_civil(y, vf_range(r, 1, 12), vf_range(r, 1, 28), vf_range(r, 0, 23), 0);
	}
	*cat = 8;                                                                                           /* extremes */
	switch (vf_below(r, 8)) {
	case 0: return LLONG_MAX;
	case 1: return LLONG_MIN;
	case 2: return LLONG_MAX - vf_range(r, 0, 200000);
	case 3: return LLONG_MIN + vf_range(r, 0, 200000);
	case 4: return 67767976233532799LL - vf_range(r, -100000, 40000000);        /* last second of the largest int tm_year */
	case 5: return -67768040609740800LL + vf_range(r, -100000, 40000000);
	case 6: return COMFORT - vf_range(r, 0, 100000);
	default: return -COMFORT + vf_range(r, 0, 100000);
	}
}

static int gen_offset(struct vf_rng *r, int *kind)
{
	unsigned k = vf_below(r, 100);
	if (k < 55) { *kind = ZK_LTO_QUARTER; return vf_range(r, -56, 56) * 900; }
	if (k < 60) { *kind = ZK_LTO_QUARTER; return 0; }
	if (k < 80) { *kind = ZK_LTO_ODD; return vf_range(r, -15 * 3600, 15 * 3600); }
	*kind = ZK_LTO_BEYOND;
	switch (vf_below(r, 6)) {
	case 0: return INT_MAX;
	case 1: return vf_chance(r, 1, 2) ? INT_MIN : INT_MIN + 1;
	case 2: return vf_chance(r, 1, 2) ? 86400 : -86400;
	case 3: return vf_range(r, 15 * 3600, 10 * 86400);
	case 4: return -vf_range(r, 15 * 3600, 10 * 86400);
	default: return (int)vf_u32(r);
	}
}

enum { AK_UNSET, AK_POSIX, AK_ZONEFILE, AK_SAME, AK_GARBAGE, AK_N };
static const char *ak_name[AK_N] = { "TZ-unset", "TZ-posix", "TZ-zonefile", "TZ-same-as-arg", "TZ-empty-or-garbage" };

/* set the ambient TZ so that the derived state is freshly computed from it */
static void set_ambient(int z)
{
	setenv("TZ", "VFX0", 1);
	tzset();
	if (z == Z_UNSET) unsetenv("TZ"); else setenv("TZ", zones[z], 1);
	tzset();
}

/* ---------------- counters ---------------- */
static long c_calls[6], c_ok[6], c_fail[6];
enum { A_LTO_TIME, A_LTO_WIN, A_TZ_TIME, A_TZ_WIN, A_PTY_WIN, A_VALID };
static const char *a_name[6] = { "vbi_pil_lto_to_time", "vbi_pil_lto_validity_window", "vbi_pil_to_time", "vbi_pil_validity_window", "vbi_pty_validity_window", "vbi_pil_is_valid_date" };
static long n_gap, n_feb29_refused, n_feb29_ok, n_invalid_refused, n_extreme, n_year[3], n_indef, n_win_shape;

static const char *tshow(ll t)
{
	static char b[4][64];
	static int s;
	struct civil c;
	char *o = b[s = (s + 1) & 3];
	if (!comfortable(t)) { snprintf(o, 64, "%lld", t); return o; }
	civil_from_time(t, &c);
	snprintf(o, 64, "%lld(%lld-%02d-%02dT%02d:%02d:%02dZ)", t, c.y, c.mon, c.day, c.hour, c.min, c.sec);
	return o;
}

static int dbucket(int d) { return d <= -6 ? -6 : d < 0 ? -3 : d == 0 ? 0 : d < 5 ? 3 : 5; }

/* =====================================================================
 * offset variant
 * ===================================================================== */
static const char *lto_case(struct vf_rng *r, unsigned pil, ll start, int se, int amb, int *ydec, int *dmon)
{
	struct pilf p;
	struct snap before;
	struct civil ref;
	ll local_start, yexp = 0, expect = 0, tloc0 = 0;
	int valid, have_expect = 0, feb29_bad = 0, comfy, perturb;
	time_t res, wb, we;
	vbi_bool ok;
	const char *outcome = "ok";
	char what[280];

	pil_split(pil, &p);
	valid = pil_valid(&p);
	comfy = comfortable(start);
	*ydec = 0; *dmon = 0;
	/* _vbi_timegm() switches to TZ=UTC and back; if the ambient zone is the very same file,
	 * nothing is re-parsed and libc's side effects of mktime() under it remain */
	perturb = zone_inode(amb) != 0 && zone_inode(amb) == zone_inode(0);
	if (comfy) {
		local_start = start + se;
		civil_from_time(local_start, &ref);
		if (pil_date_ok(&p)) {
			yexp = expected_year(ref.y, ref.mon, p.mon);
			*ydec = (int)(yexp - ref.y);
			*dmon = (int)((yexp - ref.y) * 12 + p.mon - ref.mon);
			feb29_bad = p.mon == 2 && p.day == 29 && !is_leap(yexp);
			tloc0 = time_from_civil(yexp, p.mon, p.day, 0, 0);
			if (valid && !feb29_bad) { expect = tloc0 + p.hour * 3600 + p.min * 60 - se; have_expect = 1; }
		}
	}
	snprintf(what, sizeof what, "pil=0x%05x(%02d-%02d %02d:%02d) start=%s seconds_east=%d ambient TZ %s%s", pil, p.mon, p.day, p.hour, p.min, tshow(start), se, zone_show(amb),
		 comfy && pil_date_ok(&p) && yexp < 0 ? " [year<0]" : "");

	/* --- vbi_pil_lto_to_time --- */
	snap_take(&before);
	vf_phase("vbi_pil_lto_to_time");
	res = vbi_pil_lto_to_time(pil, (time_t)start, se);
	c_calls[A_LTO_TIME]++;
	env_check(&before, "vbi_pil_lto_to_time", what, perturb);
	if (res == (time_t)-1) c_fail[A_LTO_TIME]++; else c_ok[A_LTO_TIME]++;
	if (!valid) {
		outcome = "invalid-pil";
		n_invalid_refused++;
		if (res != (time_t)-1)
			FAIL("model:C14:lto:invalid-pil-accepted", "%s -> %s", what, tshow(res));
	} else if (!comfy) {
		outcome = res == (time_t)-1 ? "extreme-fail" : "extreme-ok";
		n_extreme++;
		if (res != (time_t)-1) {
			/* whatever is returned must still read as the label in the zone */
			struct civil c;
			__int128 loc = (__int128)res + se;
			if (loc > -(__int128)COMFORT * 200 && loc < (__int128)COMFORT * 200) {
				civil_from_time((ll)loc, &c);
				if (c.mon != p.mon || c.day != p.day || c.hour != p.hour || c.min != p.min || c.sec != 0)
					FAIL("model:C14:lto:wrong-fields", "%s -> %lld which is %02d-%02d %02d:%02d:%02d at that offset", what, (ll)res, c.mon, c.day, c.hour, c.min, c.sec);
			}
		}
	} else if (feb29_bad) {
		outcome = "feb29-non-leap";
		n_feb29_refused++;
		if (res != (time_t)-1)
			FAIL("model:C14:lto:feb29-accepted-in-non-leap-year", "%s -> %s; nearest year %lld is not a leap year", what, tshow(res), yexp);
	} else {
		if (p.mon == 2 && p.day == 29) n_feb29_ok++;
		n_year[*ydec + 1]++;
		if (res == (time_t)-1 && expect != -1) {
			outcome = "fails";
			if ((se < 0 && start + se < 0) || (se > 0 && expect < 0) )
				FAIL("model:C14:lto:fails-before-epoch", "%s -> -1, but the result %s is representable (reference or result lies before 1970 at that offset)", what, tshow(expect));
			else
				FAIL(p.mon == 2 && p.day == 29 ? "model:C14:lto:feb29-refused-in-leap-year" : "model:C14:lto:fails-representable",
				     "%s -> -1, but the result %s is representable", what, tshow(expect));
		} else if ((ll)res != expect && !comfortable((ll)res)) {
			FAIL("model:C14:lto:wrong-instant", "%s -> %lld, expected %s", what, (ll)res, tshow(expect));
		} else if ((ll)res != expect) {
			struct civil c;
			int d;
			civil_from_time((ll)res + se, &c);
			d = (int)((c.y - ref.y) * 12 + c.mon - ref.mon);
			if (c.mon != p.mon || c.day != p.day || c.hour != p.hour || c.min != p.min || c.sec != 0)
				FAIL("model:C14:lto:wrong-fields", "%s -> %s which is %lld-%02d-%02d %02d:%02d:%02d at that offset", what, tshow(res), c.y, c.mon, c.day, c.hour, c.min, c.sec);
			else if (d > 5)
				FAIL("model:C14:lto:year:more-than-5-months-after", "%s -> %s: label month is %d months after the reference month (year %lld chosen, %lld expected)", what, tshow(res), d, c.y, yexp);
			else if (d < -6)
				FAIL("model:C14:lto:year:more-than-6-months-before", "%s -> %s: label month is %d months before the reference month (year %lld chosen, %lld expected)", what, tshow(res), -d, c.y, yexp);
			else
				FAIL("model:C14:lto:wrong-instant", "%s -> %s, expected %s", what, tshow(res), tshow(expect));
		}
	}

	/* --- vbi_pil_lto_validity_window --- */
	wb = 111; we = 222;
	snap_take(&before);
	vf_phase("vbi_pil_lto_validity_window");
	ok = vbi_pil_lto_validity_window(&wb, &we, pil, (time_t)start, se);
	c_calls[A_LTO_WIN]++;
	env_check(&before, "vbi_pil_lto_validity_window", what, perturb);
	if (ok) c_ok[A_LTO_WIN]++; else c_fail[A_LTO_WIN]++;
	if (ok && !(wb < we))
		FAIL("model:C14:lto-window:not-ordered", "%s -> begin %lld end %lld", what, (ll)wb, (ll)we);
	if (pil == VBI_PIL_NSPV) {
		/* documented: same as the PTY window, offset ignored (UTC day) */
		if (comfy) {
			struct civil c;
			ll eend;
			civil_from_time(start, &c);
			eend = (days_from_civil(c.y, c.mon, c.day) + 29) * 86400 + 4 * 3600;
			if (!ok) FAIL("model:C14:lto-window:nspv-fails", "%s", what);
			else if ((ll)wb != start || (ll)we != eend)
				FAIL("model:C14:lto-window:nspv-wrong", "%s -> [%s, %s), expected [%s, %s)", what, tshow(wb), tshow(we), tshow(start), tshow(eend));
			n_win_shape++;
		}
	} else if (pil_date_ok(&p) && comfy) {
		if (feb29_bad || !(p.hour < 24 && p.min < 60)) {
			/* indefinite (invalid day in that year) or date window of an unreal time: only ordering is demanded */
			if (ok && feb29_bad) {
				n_indef++;
				if ((ll)wb > -COMFORT || (ll)we < COMFORT)
					FAIL("model:C14:lto-window:feb29-non-leap-not-indefinite", "%s -> [%lld, %lld)", what, (ll)wb, (ll)we);
			}
		} else {
			ll eb = tloc0 - se - (p.hour < 4 ? 4 * 3600 : 0), ee = tloc0 - se + 28 * 3600;
			n_win_shape++;
			if (!ok) {
				if ((se < 0 && start + se < 0) || (se > 0 && tloc0 - se < 0) || (p.hour < 4 && tloc0 - se < 4 * 3600))
					FAIL("model:C14:lto-window:fails-before-epoch", "%s -> FALSE, but the window [%s, %s) is representable (reference, label day or window begin lies before 1970)", what, tshow(eb), tshow(ee));
				else
					FAIL("model:C14:lto-window:fails-representable", "%s -> FALSE, but the window [%s, %s) is representable", what, tshow(eb), tshow(ee));
			} else {
				if (have_expect && !((ll)wb <= expect && expect < (ll)we))
					FAIL("model:C14:lto-window:excludes-start", "%s -> [%s, %s) does not contain the converted time %s", what, tshow(wb), tshow(we), tshow(expect));
				if ((ll)wb != eb)
					FAIL("model:C14:lto-window:wrong-begin", "%s -> begin %s, expected %s (%s of the label day)", what, tshow(wb), tshow(eb), p.hour < 4 ? "20:00 before" : "00:00");
				if ((ll)we != ee)
					FAIL("model:C14:lto-window:wrong-end", "%s -> end %s, expected %s (04:00 of the next day; length %.0f s instead of %lld s)", what, tshow(we), tshow(ee),
					     (double)we - (double)wb, ee - eb);
			}
		}
	} else if (ok && (!pil_date_ok(&p))) {
		n_indef++;
	}
	(void)r;
	return outcome;
}

/* =====================================================================
 * zone variant
 * ===================================================================== */
static int view_is(const struct view *v, ll y, int mon, int day, int hour, int min)
{
	return v->ok && v->y == y && v->mon == mon && v->day == day && v->hour == hour && v->min == min && v->sec == 0;
}
static const char *vshow(const struct view *v)
{
	static char b[4][64];
	static int s;
	char *o = b[s = (s + 1) & 3];
	if (!v->ok) return "(not viewable)";
	snprintf(o, 64, "%lld-%02d-%02d %02d:%02d:%02d%+ld", v->y, v->mon, v->day, v->hour, v->min, v->sec, v->gmtoff);
	return o;
}

static const char *tz_case(struct vf_rng *r, unsigned pil, ll start, int zarg /* index or Z_UNSET for NULL */, int amb, int *ydec, int *dmon)
{
	struct pilf p;
	struct snap before;
	struct view v[8];
	ll q[8], found[8], yexp = 0;
	int zone = zarg == Z_UNSET ? amb : zarg;      /* zone the library works in */
	const char *tz = zone_str(zarg);
	int valid, comfy, feb29_bad = 0, perturb, nf, i, date_ok;
	time_t res, wb = 111, we = 222, pb = 333, pe = 444;
	vbi_bool wok, pok;
	const char *outcome = "ok";
	char what[280];
	ll dy; int dm, dd;

	pil_split(pil, &p);
	valid = pil_valid(&p);
	date_ok = pil_date_ok(&p);
	comfy = comfortable(start);
	*ydec = 0; *dmon = 0;
	{
		ino_t ia = zone_inode(amb), it = zarg == Z_UNSET ? ia : zone_inode(zarg == 0 ? 0 : zarg);
		int same_string = zarg == Z_UNSET || (amb != Z_UNSET && !strcmp(zones[amb], zones[zarg]));
		perturb = ia != 0 && (same_string || ia == it);
	}
	snprintf(what, sizeof what, "pil=0x%05x(%02d-%02d %02d:%02d) start=%s tz=%s ambient TZ %s", pil, p.mon, p.day, p.hour, p.min, tshow(start),
		 zarg == Z_UNSET ? "NULL" : zone_show(zarg), zone_show(amb));

	snap_take(&before);
	vf_phase("vbi_pil_to_time");
	res = vbi_pil_to_time(pil, (time_t)start, tz);
	c_calls[A_TZ_TIME]++;
	env_check(&before, "vbi_pil_to_time", what, perturb);
	if (res == (time_t)-1) c_fail[A_TZ_TIME]++; else c_ok[A_TZ_TIME]++;

	snap_take(&before);
	vf_phase("vbi_pil_validity_window");
	wok = vbi_pil_validity_window(&wb, &we, pil, (time_t)start, tz);
	c_calls[A_TZ_WIN]++;
	env_check(&before, "vbi_pil_validity_window", what, perturb);
	if (wok) c_ok[A_TZ_WIN]++; else c_fail[A_TZ_WIN]++;

	snap_take(&before);
	vf_phase("vbi_pty_validity_window");
	pok = vbi_pty_validity_window(&pb, &pe, (time_t)start, tz);
	c_calls[A_PTY_WIN]++;
	env_check(&before, "vbi_pty_validity_window", what, perturb);
	if (pok) c_ok[A_PTY_WIN]++; else c_fail[A_PTY_WIN]++;

	if (wok && !(wb < we))
		FAIL("model:C14:tz-window:not-ordered", "%s -> begin %lld end %lld", what, (ll)wb, (ll)we);
	if (pok && !(pb < pe))
		FAIL("model:C14:pty-window:not-ordered", "%s -> begin %lld end %lld", what, (ll)pb, (ll)pe);
	if (pok && (ll)pb != start)
		FAIL("model:C14:pty-window:wrong-begin", "%s -> begin %lld", what, (ll)pb);

	if (!valid) {
		n_invalid_refused++;
		if (res != (time_t)-1)
			FAIL("model:C14:tz:invalid-pil-accepted", "%s -> %s", what, tshow(res));
		outcome = "invalid-pil";
	}
	if (!comfy) {
		n_extreme++;
		return valid ? (res == (time_t)-1 ? "extreme-fail" : "extreme-ok") : outcome;
	}

	/* one trip to the helper: the reference time, the result, the window edges */
	q[0] = start; q[1] = res; q[2] = wb; q[3] = we; q[4] = pe;
	zone_views(zone, q, 5, v);
	if (!v[0].ok) { n_extreme++; return "extreme-fail"; }

	/* PTY window: until 04:00 of the 29th day after the day of the reference time */
	if (!pok)
		FAIL("model:C14:pty-window:fails-representable", "%s -> FALSE", what);
	else {
		civil_from_days(days_from_civil(v[0].y, v[0].mon, v[0].day) + 29, &dy, &dm, &dd);
		n_win_shape++;
		if (!view_is(&v[4], dy, dm, dd, 4, 0)) {
			nf = zone_find(zone, dy, dm, dd, 4, 0, found);
			if (nf == 0) n_gap++;
			else FAIL("model:C14:pty-window:wrong-end", "%s -> end %s = %s in the zone, expected %lld-%02d-%02d 04:00 (%s)", what, tshow(pe), vshow(&v[4]), dy, dm, dd, tshow(found[0]));
		}
	}

	if (pil == VBI_PIL_NSPV) {
		if (!wok || wb != pb || we != pe)
			FAIL("model:C14:tz-window:nspv-differs-from-pty-window", "%s -> %d [%lld, %lld), PTY window [%lld, %lld)", what, wok, (ll)wb, (ll)we, (ll)pb, (ll)pe);
		return outcome;
	}
	if (!date_ok) {
		if (wok) n_indef++;
		return outcome;
	}

	yexp = expected_year(v[0].y, v[0].mon, p.mon);
	*ydec = (int)(yexp - v[0].y);
	*dmon = (int)((yexp - v[0].y) * 12 + p.mon - v[0].mon);
	feb29_bad = p.mon == 2 && p.day == 29 && !is_leap(yexp);
	if (yexp < 0 && strlen(what) + 12 < sizeof what) strcat(what, " [year<0]");

	if (valid) {
		if (feb29_bad) {
			outcome = "feb29-non-leap";
			n_feb29_refused++;
			if (res != (time_t)-1)
				FAIL("model:C14:tz:feb29-accepted-in-non-leap-year", "%s -> %s = %s; nearest year %lld is not a leap year", what, tshow(res), vshow(&v[1]), yexp);
		} else if (res == (time_t)-1) {
			nf = zone_find(zone, yexp, p.mon, p.day, p.hour, p.min, found);
			for (i = 0; i < nf; i++) if (found[i] == -1) break;
			if (nf > 0 && i == nf) {
				outcome = "fails";
				FAIL(p.mon == 2 && p.day == 29 ? "model:C14:tz:feb29-refused-in-leap-year" : "model:C14:tz:fails-representable",
				     "%s -> -1, but %s is %lld-%02d-%02d %02d:%02d in the zone", what, tshow(found[0]), yexp, p.mon, p.day, p.hour, p.min);
			} else if (nf == 0) { n_gap++; outcome = "gap"; }
		} else {
			if (p.mon == 2 && p.day == 29) n_feb29_ok++;
			n_year[*ydec + 1]++;
			if (!view_is(&v[1], yexp, p.mon, p.day, p.hour, p.min)) {
				int d = v[1].ok ? (int)((v[1].y - v[0].y) * 12 + v[1].mon - v[0].mon) : 0;
				if (v[1].ok && v[1].mon == p.mon && v[1].day == p.day && v[1].hour == p.hour && v[1].min == p.min && v[1].sec == 0) {
					if (d > 5)
						FAIL("model:C14:tz:year:more-than-5-months-after", "%s -> %s = %s: label month is %d months after the reference month (%s)", what, tshow(res), vshow(&v[1]), d, vshow(&v[0]));
					else
						FAIL("model:C14:tz:year:more-than-6-months-before", "%s -> %s = %s: label month is %d months before the reference month (%s)", what, tshow(res), vshow(&v[1]), -d, vshow(&v[0]));
				} else {
					/* a local time that does not exist in the zone (DST gap, skipped day) cannot be hit */
					nf = zone_find(zone, yexp, p.mon, p.day, p.hour, p.min, found);
					if (nf == 0) { n_gap++; outcome = "gap"; }
					else FAIL("model:C14:tz:wrong-fields", "%s -> %s which is %s in the zone; %s would be right", what, tshow(res), vshow(&v[1]), tshow(found[0]));
				}
			}
		}
	}

	/* window of a real date */
	if (feb29_bad) {
		if (wok) {
			n_indef++;
			if ((ll)wb > -COMFORT || (ll)we < COMFORT)
				FAIL("model:C14:tz-window:feb29-non-leap-not-indefinite", "%s -> [%lld, %lld)", what, (ll)wb, (ll)we);
		}
	} else if (valid) {
		ll by, ey; int bm, bd, em, ed, bh = 0;
		ll dn = days_from_civil(yexp, p.mon, p.day);
		n_win_shape++;
		if (p.hour < 4) { civil_from_days(dn - 1, &by, &bm, &bd); bh = 20; } else { by = yexp; bm = p.mon; bd = p.day; }
		civil_from_days(dn + 1, &ey, &em, &ed);
		if (!wok) {
			int n1 = zone_find(zone, by, bm, bd, bh, 0, found), n2 = zone_find(zone, ey, em, ed, 4, 0, found);
			if (n1 && n2) {
				/* tz "UTC" is served by the offset code with its before-1970 tests */
				if (zarg == 0 && p.hour < 4 && time_from_civil(yexp, p.mon, p.day, 0, 0) < 4 * 3600)
					FAIL("model:C14:tz-window:fails-before-epoch", "%s -> FALSE, but the window begin lies before 1970 and is representable", what);
				else
					FAIL("model:C14:tz-window:fails-representable", "%s -> FALSE", what);
			} else n_gap++;
		} else {
			if (res != (time_t)-1 && view_is(&v[1], yexp, p.mon, p.day, p.hour, p.min) && !(wb <= res && res < we))
				FAIL("model:C14:tz-window:excludes-start", "%s -> [%s, %s) does not contain the converted time %s", what, tshow(wb), tshow(we), tshow(res));
			if (!view_is(&v[2], by, bm, bd, bh, 0)) {
				nf = zone_find(zone, by, bm, bd, bh, 0, found);
				if (nf == 0) n_gap++;
				else FAIL("model:C14:tz-window:wrong-begin", "%s -> begin %s = %s in the zone, expected %lld-%02d-%02d %02d:00", what, tshow(wb), vshow(&v[2]), by, bm, bd, bh);
			}
			if (!view_is(&v[3], ey, em, ed, 4, 0)) {
				nf = zone_find(zone, ey, em, ed, 4, 0, found);
				if (nf == 0) n_gap++;
				else FAIL("model:C14:tz-window:wrong-end", "%s -> end %s = %s in the zone, expected %lld-%02d-%02d 04:00", what, tshow(we), vshow(&v[3]), ey, em, ed);
			}
		}
	}
	(void)r;
	return outcome;
}

/* ===================================================================== */
static int run_case(struct vf_rng *r, long idx)
{
	unsigned pil = gen_pil(r, idx);
	int cat, zk, amb, ak, ydec = 0, dmon = 0;
	ll start = gen_start(r, &cat);
	struct pilf p;
	const char *outcome;
	int use_tz = vf_chance(r, (unsigned)(vf_param[0] > 0 ? vf_param[0] : 30), 100);
	int zarg = 0, se = 0;

	if (start == -1) start = -2;           /* (time_t)-1 means "now" to the library: not a reference time */
	pil_split(pil, &p);

	/* vbi_pil_is_valid_date */
	vf_phase("vbi_pil_is_valid_date");
	c_calls[A_VALID]++;
	if (!!vbi_pil_is_valid_date(pil) != pil_valid(&p))
		FAIL("model:C14:is_valid_date", "pil 0x%05x (%02d-%02d %02d:%02d): library says %d", pil, p.mon, p.day, p.hour, p.min, vbi_pil_is_valid_date(pil));

	if (use_tz) {
		unsigned k = vf_below(r, 100);
		if (k < 10) zarg = Z_UNSET;                       /* tz = NULL */
		else if (k < 20) zarg = 0;                        /* "UTC" */
		else zarg = (int)vf_below(r, N_TZ_ARGS);
		zk = zarg == Z_UNSET ? ZK_NULL : zone_kind(zarg);
	} else
		se = gen_offset(r, &zk);

	/* ambient TZ */
	switch (vf_below(r, 20)) {
	case 0: case 1: case 2: case 3: case 4: amb = Z_UNSET; ak = AK_UNSET; break;
	case 5: case 6: case 7: case 8: case 9: case 10: amb = (int[]){ 19, 20, 33, 34, 25, 21 }[vf_below(r, 6)]; ak = AK_POSIX; break;
	case 11: case 12: case 13: amb = (int[]){ 35, 36, 2, 17, 0 }[vf_below(r, 5)]; ak = AK_ZONEFILE; break;
	case 14: case 15: case 16:
		if (use_tz && zarg != Z_UNSET) { amb = zarg; ak = AK_SAME; }
		else { amb = 0; ak = use_tz ? AK_ZONEFILE : AK_SAME; }      /* the offset variant switches to "UTC" internally */
		break;
	default: amb = (int[]){ 27, 37, 30, 28 }[vf_below(r, 4)]; ak = AK_GARBAGE; break;
	}
	set_ambient(amb);

	if (use_tz) {
		vf_sample("pil=0x%05x(%02d-%02d %02d:%02d) start=%s tz=%s ambient=%s", pil, p.mon, p.day, p.hour, p.min, tshow(start), zarg == Z_UNSET ? "NULL" : zone_show(zarg), zone_show(amb));
		outcome = tz_case(r, pil, start, zarg, amb, &ydec, &dmon);
	} else {
		vf_sample("pil=0x%05x(%02d-%02d %02d:%02d) start=%s seconds_east=%d ambient=%s", pil, p.mon, p.day, p.hour, p.min, tshow(start), se, zone_show(amb));
		outcome = lto_case(r, pil, start, se, amb, &ydec, &dmon);
	}
	vf_sig("year%+d dmon=%d %s %s ref=%s %s", ydec, dbucket(dmon), zk_name[zk], ak_name[ak],
	       cat <= 1 ? "any" : cat == 6 ? "epoch-2^31" : cat == 8 ? "extreme" : "boundary", outcome);

	if ((idx & 63) == 63 || vf_verbose) {
		int a;
		for (a = 0; a < 6; a++) {
			char nm[80];
			snprintf(nm, sizeof nm, "calls_%s", a_name[a]); vf_count(nm, c_calls[a]); c_calls[a] = 0;
			if (a == A_VALID) continue;
			snprintf(nm, sizeof nm, "ok_%s", a_name[a]); vf_count(nm, c_ok[a]); c_ok[a] = 0;
			snprintf(nm, sizeof nm, "failed_%s", a_name[a]); vf_count(nm, c_fail[a]); c_fail[a] = 0;
		}
		vf_count("env_snapshots_compared", n_env_checks); n_env_checks = 0;
		vf_count("env_libc_localtime_side_effect_tolerated", n_libc_side_effect); n_libc_side_effect = 0;
		vf_count("nonexistent_local_time", n_gap); n_gap = 0;
		vf_count("feb29_refused_non_leap", n_feb29_refused); n_feb29_refused = 0;
		vf_count("feb29_converted_leap", n_feb29_ok); n_feb29_ok = 0;
		vf_count("invalid_pil_refused", n_invalid_refused); n_invalid_refused = 0;
		vf_count("beyond_representable_range", n_extreme); n_extreme = 0;
		vf_count("year_previous", n_year[0]); vf_count("year_same", n_year[1]); vf_count("year_next", n_year[2]);
		n_year[0] = n_year[1] = n_year[2] = 0;
		vf_count("indefinite_windows", n_indef); n_indef = 0;
		vf_count("window_shapes_checked", n_win_shape); n_win_shape = 0;
	}
	return 1;
}

static void selftest(void)
{
	struct civil c;
	ll y; int m, d;
	struct view v;
	ll t[8];
	memset(long_garbage, 'Z', sizeof long_garbage - 1);
	if (days_from_civil(1970, 1, 1) != 0 || days_from_civil(2000, 3, 1) != 11017 || days_from_civil(1858, 11, 17) != -40587 || days_from_civil(1600, 1, 1) != -135140)
		vf_fail("selftest:C14", "days_from_civil");
	civil_from_days(11016, &y, &m, &d);
	if (y != 2000 || m != 2 || d != 29) vf_fail("selftest:C14", "civil_from_days(11016) = %lld-%d-%d", y, m, d);
	civil_from_days(-1, &y, &m, &d);
	if (y != 1969 || m != 12 || d != 31) vf_fail("selftest:C14", "civil_from_days(-1)");
	civil_from_time(951859963, &c);
	if (c.y != 2000 || c.mon != 2 || c.day != 29 || c.hour != 21 || c.min != 32 || c.sec != 43) vf_fail("selftest:C14", "civil_from_time");
	civil_from_time(-1, &c);
	if (c.y != 1969 || c.mon != 12 || c.day != 31 || c.hour != 23 || c.sec != 59) vf_fail("selftest:C14", "civil_from_time(-1)");
	if (is_leap(1900) || !is_leap(2000) || !is_leap(2004) || is_leap(2100) || is_leap(2001)) vf_fail("selftest:C14", "is_leap");
	if (pil_make(1, 11, 22, 15) != (unsigned)VBI_PIL(11, 1, 22, 15)) vf_fail("selftest:C14", "pil_make");
	/* documentation examples (test/test-pdc.cc): 07-01 seen from 2001-01-01 is 2000, from 2001-04-15 is 2001; 01-01 seen from 2001-09-15 is 2002 */
	if (expected_year(2001, 1, 7) != 2000 || expected_year(2001, 4, 7) != 2001 || expected_year(2001, 9, 1) != 2002 || expected_year(2001, 6, 12) != 2000
	    || expected_year(2001, 7, 1) != 2001 || expected_year(2001, 1, 6) != 2001)
		vf_fail("selftest:C14", "expected_year");
	/* helper: London 2004-03-28 01:00 UTC is 02:00 BST; 01:30 local does not exist; 2004-10-31 01:30 local exists twice */
	t[0] = 1080435600;
	zone_views(1, t, 1, &v);
	if (!v.ok || v.y != 2004 || v.mon != 3 || v.day != 28 || v.hour != 2 || v.min != 0 || v.gmtoff != 3600) vf_fail("selftest:C14", "helper view of Europe/London: %s", vshow(&v));
	if (zone_find(1, 2004, 3, 28, 1, 30, t) != 0) vf_fail("selftest:C14", "helper finds a local time inside the spring gap");
	if (zone_find(1, 2004, 10, 31, 1, 30, t) != 2) vf_fail("selftest:C14", "helper does not find both 01:30 on 2004-10-31 in London");
	if (zone_find(21, 2001, 1, 1, 0, 0, t) != 1 || t[0] != 978307200 - 13 * 3600 - 45 * 60) vf_fail("selftest:C14", "helper POSIX zone XYZ-13:45");
	if (getenv("TZ") && strcmp(getenv("TZ"), "") != 0 && 0) vf_fail("selftest:C14", "unreachable");
}

int main(int argc, char **argv) { return vf_main(argc, argv, run_case, selftest); }
