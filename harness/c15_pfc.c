/* C15, Page Format - Clear half.  Independent packetiser written from
 * EN 300 708 section 4:
 *
 *   page header (row 0): page number, sub-code S1 = continuity index of the
 *     stream (+1 per transmitted page, mod 16), S2 (3 bits) + S4 (2 bits, more
 *     significant) = number of data packets 1..25, S3 = stream number
 *   rows 1..n: byte 2 = block pointer BP (Hamming 8/4): 3*BP is the offset in
 *     the 39 following bytes of the first block separator that lies in this
 *     packet, 0xD = no block starts here
 *   block = separator 0xC (Hamming 8/4), structure header of four Hamming 8/4
 *     nibbles, least significant first: 5 bit application id, 11 bit block
 *     length, then the block bytes (8 bit, unprotected); blocks run across packet
 *     and page boundaries; filler 0x3 (Hamming 8/4) between blocks.
 */
#include "c15_common.h"
#include "libzvbi.h"

#define MAXBLK 12
#define MAXPKT 700          /* data packets of our stream */
#define MAXWIRE 2600

enum { K_FILL = 0, K_BS, K_SH, K_DATA };

struct blk {
	int app, size;
	uint8_t *data;
	int first_pkt, last_pkt;        /* linear packet numbers of the separator and of the last byte */
	int bs_off;                     /* offset of the separator in first_pkt */
	int sh_split, ends_at_end;
	int strict, quirk;              /* expectation: 0 must not, 1 may, 2 must */
	int ndeliv;
};

struct dpkt {                           /* one data packet of our stream (linear numbering) */
	uint8_t d[39];
	int8_t kind[39];
	int16_t owner[39];
	int bp;                         /* 0..12, 13 = none */
	int page, row;
	int killed;                     /* dropped or unusable (strict model) */
	int dropped;                    /* not on the wire at all */
	int err_off;                    /* >=0: uncorrectable Hamming error at this offset (separator, header or filler byte) */
	int qkilled;                    /* ignored by a receiver that waits for the next page header after any loss */
	int err_vis;                    /* the error byte is one that such a receiver examines at all */
};

struct page { int first, n, ci, hdr_killed; };

enum { W_FOREIGN = 0, W_HDR, W_DATA };
struct wpk { uint8_t b[42]; int type, idx; int damaged; /* uncorrectable Hamming error somewhere */ int touched; /* any fault applied */
	int may_false; /* intact, but completes a structure header whose first part was damaged in the previous packet */ };

static struct blk blk[MAXBLK];
static int n_blk;
static struct dpkt *dp;
static int n_dp;
static struct page pg[MAXPKT];
static int n_pg;
static struct wpk *wp;
static int n_wp;

struct got { unsigned app, size; uint8_t *data; int bad_ident; };
static struct got got[64];
static int n_got, sel_pgno, sel_stream;

/* ---- layout ---- */

static int cur_p, cur_o;

static void new_packet(void)
{
	struct dpkt *q;
	if (n_dp >= MAXPKT) return;
	q = &dp[n_dp++];
	memset(q, 0, sizeof *q);
	q->bp = 13; q->err_off = -1;
	memset(q->owner, 0xFF, sizeof q->owner);
	cur_p = n_dp - 1; cur_o = 0;
}

static void put(int byte, int kind, int owner)
{
	if (cur_o >= 39) new_packet();
	dp[cur_p].d[cur_o] = (uint8_t)byte;
	dp[cur_p].kind[cur_o] = (int8_t)kind;
	dp[cur_p].owner[cur_o] = (int16_t)owner;
	cur_o++;
}

static void put_filler(void) { put(c15_ham84(3), K_FILL, -1); }

static void lay_block(int i)
{
	struct blk *b = &blk[i];
	unsigned sh = (unsigned)b->app | (unsigned)b->size << 5;
	int k;
	if (cur_o >= 39) new_packet();
	if (dp[cur_p].bp == 13) {               /* first separator of this packet: BP can only address multiples of 3 */
		while (cur_o < 39 && cur_o % 3) put_filler();
		if (cur_o >= 39) new_packet();
		dp[cur_p].bp = cur_o / 3;
	}
	b->first_pkt = cur_p; b->bs_off = cur_o;
	put(c15_ham84(0xC), K_BS, i);
	b->sh_split = cur_o > 35 && cur_o < 39;
	for (k = 0; k < 4; k++) put(c15_ham84((sh >> (4 * k)) & 15), K_SH, i);
	for (k = 0; k < b->size; k++) put(b->data[k], K_DATA, i);
	b->last_pkt = cur_p;
	b->ends_at_end = cur_o == 39;
}

/* ---- reference parser over undamaged packets of the stream (cross-check of the layout) ---- */

static int ref_parse(char *why, size_t whylen)
{
	int p, o, i = 0, state = 0 /* 0 between blocks, 1 header, 2 data */, need = 0, have = 0, first_bs;
	unsigned sh = 0;
	for (p = 0; p < n_dp; p++) {
		first_bs = -1;
		for (o = 0; o < 39; o++) {
			int v;
			if (state == 2) {
				if (i >= n_blk || dp[p].d[o] != blk[i].data[have]) { snprintf(why, whylen, "data byte of block %d differs at packet %d offset %d", i, p, o); return 0; }
				if (++have == need) { state = 0; i++; }
				continue;
			}
			v = c15_unham84(dp[p].d[o]);
			if (state == 1) {
				sh |= (unsigned)v << (4 * have);
				if (++have == 4) {
					if (i >= n_blk || (int)(sh & 31) != blk[i].app || (int)(sh >> 5) != blk[i].size) { snprintf(why, whylen, "structure header of block %d reads %04x", i, sh); return 0; }
					need = (int)(sh >> 5); have = 0;
					if (need) state = 2; else { state = 0; i++; }
				}
				continue;
			}
			if (v == 3) continue;
			if (v != 0xC) { snprintf(why, whylen, "neither filler nor separator at packet %d offset %d", p, o); return 0; }
			if (first_bs < 0) first_bs = o;
			state = 1; have = 0; sh = 0;
		}
		if (first_bs < 0 ? dp[p].bp != 13 : (first_bs % 3 || dp[p].bp != first_bs / 3)) {
			snprintf(why, whylen, "packet %d: BP %d but first separator at %d", p, dp[p].bp, first_bs);
			return 0;
		}
	}
	if (i != n_blk || state != 0) { snprintf(why, whylen, "%d of %d blocks found", i, n_blk); return 0; }
	return 1;
}

/* ---- wire ---- */

static uint8_t odd(struct vf_rng *r)
{
	unsigned c = 0x20 + vf_below(r, 0x5f);
	return (uint8_t)((c15_popcount8(c) & 1) ? c : (c | 0x80));
}

static void make_header(struct vf_rng *r, uint8_t b[42], int pgno, int stream, int ci, int n)
{
	int i;
	b[0] = c15_ham84((unsigned)((pgno >> 8) & 7));
	b[1] = c15_ham84(0);
	b[2] = c15_ham84((unsigned)(pgno & 15));
	b[3] = c15_ham84((unsigned)((pgno >> 4) & 15));
	b[4] = c15_ham84((unsigned)ci);
	b[5] = c15_ham84((unsigned)(n & 7) | vf_below(r, 2) << 3);              /* S2 + C4 */
	b[6] = c15_ham84((unsigned)stream);
	b[7] = c15_ham84((unsigned)((n >> 3) & 3) | vf_below(r, 4) << 2);        /* S4 + C5 C6 */
	b[8] = c15_ham84(vf_below(r, 16));
	b[9] = c15_ham84(vf_below(r, 16));
	for (i = 10; i < 42; i++) b[i] = odd(r);
}

static void make_data(uint8_t b[42], int pgno, int row, int bp, const uint8_t d[39])
{
	b[0] = c15_ham84((unsigned)(((pgno >> 8) & 7) | (row & 1) << 3));
	b[1] = c15_ham84((unsigned)(row >> 1));
	b[2] = c15_ham84((unsigned)bp);
	memcpy(b + 3, d, 39);
}

static struct wpk *push(int type, int idx)
{
	struct wpk *w;
	if (n_wp >= MAXWIRE) return NULL;
	w = &wp[n_wp++];
	memset(w, 0, sizeof *w);
	w->type = type; w->idx = idx;
	return w;
}

/* a decoy page: same page other stream, or other page of the magazine, carrying well-formed PFC blocks */
static void decoy_page(struct vf_rng *r, int pgno, int stream)
{
	struct wpk *w;
	int dpg = pgno, dst = stream, n = vf_range(r, 1, 4), row, k;
	if (vf_chance(r, 1, 2)) dst = (stream + 1 + (int)vf_below(r, 15)) & 15;
	else dpg = (pgno & 0x700) | ((pgno + 1 + (int)vf_below(r, 254)) & 0xFF), dpg = dpg == pgno ? pgno ^ 1 : dpg;
	if (!(w = push(W_FOREIGN, 0))) return;
	make_header(r, w->b, dpg, dst, (int)vf_below(r, 16), n);
	for (row = 1; row <= n; row++) {
		uint8_t d[39];
		unsigned size = 30, sh = vf_below(r, 32) | size << 5;
		if (!(w = push(W_FOREIGN, 0))) return;
		d[0] = c15_ham84(0xC);
		for (k = 0; k < 4; k++) d[1 + k] = c15_ham84((sh >> (4 * k)) & 15);
		for (k = 5; k < 35; k++) d[k] = (uint8_t)vf_below(r, 256);
		for (k = 35; k < 39; k++) d[k] = c15_ham84(3);
		make_data(w->b, dpg, row, 0, d);
	}
}

static void noise(struct vf_rng *r, int pgno, int in_page)
{
	struct wpk *w = push(W_FOREIGN, 0);
	int mag = (pgno >> 8) & 7;
	if (!w) return;
	if (in_page && vf_chance(r, 1, 3))
		c15_plain_packet(r, w->b, mag, vf_range(r, 26, 31));          /* enhancement / IDL rows of our magazine */
	else
		c15_plain_packet(r, w->b, (mag + 1 + (int)vf_below(r, 7)) & 7, vf_range(r, 1, 31));     /* rows of another magazine */
}

/* ---- consumer ---- */

static vbi_bool pfc_cb(vbi_pfc_demux *dx, void *ud, const vbi_pfc_block *bk)
{
	(void)dx; (void)ud;
	vf_log("callback: app %u size %u\n", bk->application_id, bk->block_size);
	if (n_got < 64) {
		struct got *g = &got[n_got++];
		unsigned n = bk->block_size > 2048 ? 2048 : bk->block_size;
		g->app = bk->application_id; g->size = bk->block_size;
		g->bad_ident = (bk->pgno != sel_pgno || (int)bk->stream != sel_stream);
		g->data = malloc(n ? n : 1);
		if (g->data) memcpy(g->data, bk->block, n);
	}
	return TRUE;
}

static void free_got(void)
{
	int i;
	for (i = 0; i < n_got; i++) free(got[i].data);
	n_got = 0;
}

/* ---- expectation ---- */

static void classify(void)
{
	int p, i, o, g;
	/* receiver that waits for the next page header after any loss: everything of the page after the
	   first unusable packet is ignored as well */
	{
	/* synced: the receiver is inside the block sequence, i.e. it consumes (and Hamming-checks) the
	   bytes in front of the block pointer; after a reset it skips them until a packet whose block
	   pointer names a block start.  pending: a structure header nibble was damaged but the header is
	   not complete yet - the damage is only noticed with its last nibble, in the next packet, which may
	   belong to the next page (that page is then the one discarded). */
	int synced = 0, pending = -1;
	for (g = 0; g < n_pg; g++) {
		int dead = pg[g].hdr_killed;
		for (p = pg[g].first; p < pg[g].first + pg[g].n; p++) {
			if (pg[g].hdr_killed) dp[p].killed = 1;
			if (dp[p].killed) { dead = 1; pending = -1; }
			if (!dead && pending >= 0) {
				if (dp[p].kind[0] == K_SH && dp[p].owner[0] == pending) dead = 1;
				pending = -1;
			}
			dp[p].qkilled = dead;
			dp[p].err_vis = 0;
			if (!dead && dp[p].err_off >= 0 && (synced || (dp[p].bp != 13 && dp[p].err_off >= 3 * dp[p].bp))) {
				int e = dp[p].err_off, own = dp[p].owner[e];
				dp[p].err_vis = 1;
				if (dp[p].kind[e] == K_SH && own >= 0 && blk[own].sh_split && p == blk[own].first_pkt && p + 1 < n_dp
				    && dp[p + 1].kind[0] == K_SH && dp[p + 1].owner[0] == own)
					pending = own;          /* noticed when the header completes */
				else
					dead = 1;
			}
			if (!dead && dp[p].bp != 13) synced = 1;
		}
		if (dead) { synced = 0; pending = -1; }
	}
	}
	for (i = 0; i < n_blk; i++) {
		struct blk *b = &blk[i];
		int dmg = 0, qdmg = 0, touch_err = 0;
		for (p = b->first_pkt; p <= b->last_pkt; p++) {
			if (dp[p].killed) dmg = 1;
			if (dp[p].qkilled) qdmg = 1;
			if (dp[p].err_off >= 0) {
				int e = dp[p].err_off, lo = 39, hi = -1;
				for (o = 0; o < 39; o++)
					if (dp[p].owner[o] == i) { if (o < lo) lo = o; hi = o; }
				if (hi >= 0) touch_err = 1;
				if (dp[p].owner[e] == i) dmg = 1;        /* own separator / header nibble hit */
				if (hi >= e && dp[p].err_vis) qdmg = 1;   /* any byte at or after an error the receiver notices */
			}
		}
		if (dmg) qdmg = 1;
		b->strict = dmg ? 0 : (touch_err || b->size == 0) ? 1 : 2;
		b->quirk = qdmg ? 0 : (touch_err || b->size == 0) ? 1 : 2;
	}
}

static const char *describe(int i)
{
	static char s[160];
	struct blk *b = &blk[i];
	snprintf(s, sizeof s, "block %d (app %d, %d bytes, separator in packet %d (page %d row %d) offset %d, last byte in packet %d)",
		 i, b->app, b->size, b->first_pkt, dp[b->first_pkt].page, dp[b->first_pkt].row, b->bs_off, b->last_pkt);
	return s;
}

static void evaluate(const char *iface, int faults)
{
	int i, g, cursor = 0, strict_ok = 1, first_missing = -1;
	for (i = 0; i < n_blk; i++) blk[i].ndeliv = 0;
	for (g = 0; g < n_got; g++) {
		struct got *d = &got[g];
		int j;
		if (d->bad_ident) { vf_fail("model:C15:pfc:wrong-ident", "%s: delivery %d carries pgno/stream other than requested", iface, g); return; }
		if (d->size == 0) continue;
		for (j = cursor; j < n_blk; j++)
			if ((unsigned)blk[j].app == d->app) break;
		if (j >= n_blk || (unsigned)blk[j].size != d->size || d->size > 2048 || memcmp(blk[j].data, d->data, d->size)) {
			unsigned n = d->size > 24 ? 24 : d->size;
			int known = 0, jj;
			for (jj = 0; jj < n_blk; jj++) if ((unsigned)blk[jj].app == d->app) known = 1;
			if (j >= n_blk && !known)
				vf_fail("model:C15:pfc:spurious-block", "%s: delivery %d app %u size %u %s... matches no block of page %x stream %d",
					iface, g, d->app, d->size, vf_hex(d->data, n), sel_pgno, sel_stream);
			else if (j >= n_blk)
				vf_fail("model:C15:pfc:out-of-order-or-duplicate", "%s: delivery %d app %u size %u was already delivered or passed (cursor at block %d)",
					iface, g, d->app, d->size, cursor);
			else
				vf_fail("model:C15:pfc:content-mismatch", "%s: delivery %d app %u size %u %s... differs from sent %s first bytes %s",
					iface, g, d->app, d->size, vf_hex(d->data, n), describe(j), vf_hex(blk[j].data, (size_t)(blk[j].size > 24 ? 24 : blk[j].size)));
			return;
		}
		blk[j].ndeliv++;
		cursor = j + 1;
		if (blk[j].strict == 0) {
			vf_fail("model:C15:pfc:damaged-block-delivered", "%s: %s lies partly in a lost or Hamming-damaged packet but was delivered", iface, describe(j));
			return;
		}
	}
	for (i = 0; i < n_blk; i++)
		if (blk[i].strict == 2 && !blk[i].ndeliv) { strict_ok = 0; if (first_missing < 0) first_missing = i; }
	if (strict_ok) return;
	for (i = 0; i < n_blk; i++)
		if (blk[i].quirk == 2 && !blk[i].ndeliv) {
			vf_fail("model:C15:pfc:not-delivered", "%s: %s is undamaged%s but was not delivered (%d blocks sent, %d delivered)",
				iface, describe(i), faults ? " and lies after the receiver had a page header to resynchronise on" : " (no faults in this stream)", n_blk, n_got);
			return;
		}
	for (i = 0; i < n_blk; i++)
		if (blk[i].quirk == 0 && blk[i].ndeliv) {     /* cannot happen if strict==0 was checked, but quirk==0 is wider */
			vf_fail("model:C15:pfc:not-delivered", "%s: inconsistent resynchronisation: %s delivered although the rest of its page was discarded", iface, describe(i));
			return;
		}
	vf_fail("model:C15:pfc:Q-rest-of-page-discarded",
		"%s: %s is undamaged but not delivered; the difference to 'exactly the damaged blocks are missing' is explained exactly by the receiver ignoring every packet after a loss until the next page header",
		iface, describe(first_missing));
	vf_count("pfc_quirk_rest_of_page", 1);
}

static int size_class(int s) { return s == 0 ? 0 : s < 4 ? 1 : s < 35 ? 2 : s < 200 ? 3 : s < 2047 ? 4 : 5; }

int c15_pfc_case(struct vf_rng *r, long idx)
{
	int i, p, g, pgno, stream, ci, nf, kinds = 0, tot = 0, budget, any_end = 0, any_split = 0, any_span = 0, maxclass = 0, alignmask = 0;
	char why[200];
	uint8_t *pk;
	int alias = 0;
	vbi_pfc_demux *dx;
	(void)idx;

	if (!dp) dp = malloc(sizeof *dp * MAXPKT);
	if (!wp) wp = malloc(sizeof *wp * MAXWIRE);
	if (!dp || !wp) { vf_fail("harness:alloc", "malloc"); return 0; }

	pgno = vf_range(r, 1, 8) << 8 | (int)vf_below(r, 255);
	stream = (int)vf_below(r, 16);
	sel_pgno = pgno; sel_stream = stream;

	/* blocks */
	n_blk = vf_range(r, 1, vf_chance(r, 1, 2) ? 4 : 10);
	budget = vf_chance(r, 1, 4) ? 6000 : 1500;
	n_dp = 0; new_packet();
	{
		int base = (int)vf_below(r, 32);
		for (i = 0; i < n_blk; i++) {
			struct blk *b = &blk[i];
			int fill, after_sh, k;
			memset(b, 0, sizeof *b);
			b->app = (base + i) & 31;
			/* fillers in front */
			switch (vf_below(r, 6)) {
			case 0: fill = 0; break;
			case 1: fill = vf_range(r, 1, 5); break;
			case 2: fill = (39 - cur_o) % 39; break;                         /* start in a fresh packet */
			case 3: fill = ((35 + (int)vf_below(r, 4)) - cur_o + 39) % 39; break; /* header split over two packets */
			case 4: fill = (38 - cur_o + 39) % 39; break;                     /* separator in the last byte */
			default: fill = vf_range(r, 0, 45);
			}
			if (i == 0 && vf_chance(r, 1, 2)) fill = 0;
			while (fill-- > 0) put_filler();
			/* size */
			after_sh = (cur_o % 39 + ((dp[cur_p].bp == 13 && cur_o % 3) ? 3 - cur_o % 3 : 0) + 5) % 39;
			switch (vf_below(r, 8)) {
			case 0: b->size = vf_range(r, 0, 3); break;
			case 1: b->size = (39 - after_sh) % 39 + 39 * (int)vf_below(r, 4); break;        /* last byte = last byte of a packet */
			case 2: b->size = (39 - after_sh + vf_range(r, -2, 2) + 39) % 39 + 39 * (int)vf_below(r, 3); break;
			case 3: b->size = vf_chance(r, 1, 3) ? 2047 : vf_range(r, 200, 2047); break;
			case 4: b->size = vf_range(r, 35, 200); break;
			default: b->size = vf_range(r, 1, 40);
			}
			if (tot + b->size > budget) b->size = vf_range(r, 0, 20);
			tot += b->size;
			b->data = malloc((size_t)b->size + 1);
			if (!b->data) { vf_fail("harness:alloc", "malloc"); return 0; }
			vf_bytes(r, b->data, (size_t)b->size);
			if (vf_chance(r, 1, 4))   /* payload that looks like separators, fillers and headers */
				for (k = 0; k < b->size; k++) b->data[k] = c15_ham84(vf_chance(r, 1, 2) ? 0xC : vf_chance(r, 1, 2) ? 3 : vf_below(r, 16));
			lay_block(i);
			any_end |= b->ends_at_end; any_split |= b->sh_split;
			if (size_class(b->size) > maxclass) maxclass = size_class(b->size);
			alignmask |= b->ends_at_end ? 1 : 0;
			alignmask |= b->sh_split ? 2 : 0;
			alignmask |= b->bs_off == 38 ? 4 : 0;
			alignmask |= (b->first_pkt != b->last_pkt) ? 8 : 0;
		}
	}
	{       /* trailing fillers: to the end of the packet, sometimes a few packets more */
		int extra = vf_chance(r, 1, 4) ? vf_range(r, 1, 3) * 39 : 0;
		while (cur_o < 39) put_filler();
		while (extra-- > 0) put_filler();
	}

	if (!ref_parse(why, sizeof why)) {
		vf_fail("selfcheck:C15:pfc-parser-vs-packetiser", "%s", why);
		goto out;
	}

	/* pages */
	n_pg = 0; ci = (int)vf_below(r, 16);
	for (p = 0; p < n_dp; ) {
		int n;
		switch (vf_below(r, 4)) {
		case 0: n = 25; break;
		case 1: n = vf_range(r, 1, 3); break;
		default: n = vf_range(r, 1, 25);
		}
		if (n > n_dp - p) n = n_dp - p;
		pg[n_pg].first = p; pg[n_pg].n = n; pg[n_pg].ci = (ci + n_pg) & 15; pg[n_pg].hdr_killed = 0;
		for (i = 0; i < n; i++) { dp[p + i].page = n_pg; dp[p + i].row = i + 1; }
		n_pg++; p += n;
	}
	for (i = 0; i < n_blk; i++) if (dp[blk[i].first_pkt].page != dp[blk[i].last_pkt].page) any_span = 1;

	/* wire: our pages with other traffic around and inside */
	n_wp = 0;
	for (g = 0; g < n_pg; g++) {
		struct wpk *w;
		while (vf_chance(r, 1, 4)) decoy_page(r, pgno, stream);
		while (vf_chance(r, 1, 4)) noise(r, pgno, 0);
		if ((w = push(W_HDR, g))) make_header(r, w->b, pgno, stream, pg[g].ci, pg[g].n);
		for (p = pg[g].first; p < pg[g].first + pg[g].n; p++) {
			while (vf_chance(r, 1, 5)) noise(r, pgno, 1);
			if ((w = push(W_DATA, p))) make_data(w->b, pgno, dp[p].row, dp[p].bp, dp[p].d);
		}
	}
	while (vf_chance(r, 1, 3)) decoy_page(r, pgno, stream);

	/* faults */
	nf = vf_chance(r, 1, 2) ? 0 : vf_range(r, 1, 3);
	for (i = 0; i < nf; i++) {
		int wi, tries = 0;
		struct wpk *w;
		if (n_wp <= 0) break;
		do wi = (int)vf_below(r, (unsigned)n_wp); while ((wp[wi].type == W_FOREIGN || wp[wi].touched) && ++tries < 100);
		w = &wp[wi];
		if (w->type == W_FOREIGN || w->touched) break;
		w->touched = 1;
		if (w->type == W_HDR) {
			int g2 = w->idx;
			if (vf_chance(r, 1, 4)) {                    /* correctable */
				int o = (int)vf_below(r, 10);
				w->b[o] = c15_flip1(r, w->b[o]); kinds |= 16;
				continue;
			}
			pg[g2].hdr_killed = 1;
			if (vf_chance(r, 1, 2)) {                    /* dropped */
				memmove(w, w + 1, sizeof *w * (size_t)(n_wp - wi - 1)); n_wp--; kinds |= 2;
			} else {
				int o = (int)vf_below(r, 8);
				w->b[o] = c15_flip2(r, w->b[o]); w->damaged = 1; kinds |= 4;
			}
		} else {
			struct dpkt *q = &dp[w->idx];
			switch (vf_below(r, 5)) {
			case 0: case 1:                               /* dropped */
				q->killed = q->dropped = 1;
				memmove(w, w + 1, sizeof *w * (size_t)(n_wp - wi - 1)); n_wp--; kinds |= 1;
				break;
			case 2: {                                     /* packet address or block pointer */
				int o = (int)vf_below(r, 3);
				w->b[o] = c15_flip2(r, w->b[o]); w->damaged = 1; q->killed = 1; kinds |= 4;
				break; }
			case 3: {                                     /* a Hamming protected byte of the data area that a receiver reads
								         whether or not it was in a block at the start of the packet:
								         separators, structure headers, fillers behind the separator
								         BP points to */
				int o, t = 0;
#define ELIGIBLE(o) (q->kind[o] == K_BS || q->kind[o] == K_SH || (q->kind[o] == K_FILL && q->bp != 13 && (o) >= 3 * q->bp))
				do o = (int)vf_below(r, 39); while (!ELIGIBLE(o) && ++t < 300);
				if (!ELIGIBLE(o)) { q->killed = q->dropped = 1; memmove(w, w + 1, sizeof *w * (size_t)(n_wp - wi - 1)); n_wp--; kinds |= 1; break; }
				w->b[3 + o] = c15_flip2(r, w->b[3 + o]); w->damaged = 1; q->err_off = o; kinds |= 8;
				break; }
			default: {                                    /* correctable single bit error */
				int o, t = 0;
				do o = (int)vf_below(r, 42); while (o >= 3 && q->kind[o - 3] == K_DATA && ++t < 200);
				if (o >= 3 && q->kind[o - 3] == K_DATA) o = 2;
				w->b[o] = c15_flip1(r, w->b[o]); kinds |= 16;
				break; }
			}
		}
	}
	classify();
	/* Rows carry no page identity.  When a header is lost and the row numbers around it continue
	   without a gap, no receiver can tell that the rows belong to a new page: not judged. */
	for (g = 1; g < n_pg; g++)
		if (pg[g].hdr_killed && !pg[g - 1].hdr_killed) {
			int m = 0, f = 0;
			for (p = pg[g - 1].first; p < pg[g - 1].first + pg[g - 1].n; p++) if (!dp[p].dropped) m = dp[p].row;
			for (p = pg[g].first + pg[g].n - 1; p >= pg[g].first; p--) if (!dp[p].dropped) f = dp[p].row;
			if (f == m + 1 && f <= pg[g - 1].n) alias = 1;
		}
	for (i = 0; i < n_wp; i++)
		if (wp[i].type == W_DATA && wp[i].idx > 0) {
			struct dpkt *q = &dp[wp[i].idx], *q0 = q - 1;
			if (q0->err_off >= 0 && q0->kind[q0->err_off] == K_SH && q->kind[0] == K_SH && q->owner[0] == q0->owner[q0->err_off])
				wp[i].may_false = 1;
		}
	if (vf_verbose) {
		for (i = 0; i < n_blk; i++) vf_log("%s strict=%d quirk=%d split=%d end=%d\n", describe(i), blk[i].strict, blk[i].quirk, blk[i].sh_split, blk[i].ends_at_end);
		for (g = 0; g < n_pg; g++) vf_log("page %d: packets %d..%d ci=%d hdr_killed=%d\n", g, pg[g].first, pg[g].first + pg[g].n - 1, pg[g].ci, pg[g].hdr_killed);
		for (i = 0; i < n_wp; i++)
			vf_log("wire %d: %s idx=%d%s%s %s\n", i, wp[i].type == W_HDR ? "HDR" : wp[i].type == W_DATA ? "DATA" : "foreign", wp[i].idx,
			       wp[i].type == W_DATA ? (dp[wp[i].idx].err_off >= 0 ? " ERR" : "") : "", wp[i].damaged ? " damaged" : "", vf_hex(wp[i].b, 42));
		for (p = 0; p < n_dp; p++) if (dp[p].killed || dp[p].err_off >= 0) vf_log("packet %d (page %d row %d) killed=%d err_off=%d\n", p, dp[p].page, dp[p].row, dp[p].killed, dp[p].err_off);
	}

	vf_sample("pfc page %x stream %d: %d blocks %d bytes in %d packets / %d pages, wire %d, faults 0x%x, align 0x%x", pgno, stream, n_blk, tot, n_dp, n_pg, n_wp, kinds, alignmask);

	/* 1. frame interface (the packet lies in a 56 byte vbi_sliced.data) */
	vf_phase("vbi_pfc_demux_feed_frame");
	dx = vbi_pfc_demux_new(pgno, (unsigned)stream, pfc_cb, NULL);
	if (!dx) { vf_fail("harness:alloc", "vbi_pfc_demux_new failed"); goto out; }
	n_got = 0;
	for (i = 0; i < n_wp; ) {
		vbi_sliced sl[6];
		int n = 0, clean = 1, first = i;
		vbi_bool ok;
		memset(sl, 0, sizeof sl);
		sl[n].id = VBI_SLICED_WSS_625; sl[n].line = 23; n++;
		while (i < n_wp && n < 5) {
			sl[n].id = (i & 1) ? VBI_SLICED_TELETEXT_B : VBI_SLICED_TELETEXT_B_L10_625;
			sl[n].line = (uint32_t)(6 + n);
			memcpy(sl[n].data, wp[i].b, 42);
			n++;
			if (wp[i].damaged || wp[i].may_false) { i++; clean = 0; break; }    /* feed_frame stops at a FALSE */
			i++;
			if (vf_chance(r, 1, 3)) break;
		}
		ok = vbi_pfc_demux_feed_frame(dx, sl, (unsigned)n);
		if (clean && !ok && !alias)
			vf_fail("model:C15:pfc:feed-false-on-good-packet", "feed_frame returned FALSE for wire packets %d..%d which carry no uncorrectable error", first, i - 1);
	}
	if (!alias) evaluate("feed_frame", kinds & ~16);
	free_got();
	vbi_pfc_demux_delete(dx);

	/* 2. packet interface, exact 42 byte heap buffer */
	vf_phase("vbi_pfc_demux_feed");
	pk = malloc(42);
	dx = vbi_pfc_demux_new(pgno, (unsigned)stream, pfc_cb, NULL);
	if (!dx || !pk) { vf_fail("harness:alloc", "vbi_pfc_demux_new failed"); free(pk); goto out; }
	for (i = 0; i < n_wp; i++) {
		memcpy(pk, wp[i].b, 42);
		if (!vbi_pfc_demux_feed(dx, pk) && !wp[i].damaged && !wp[i].may_false && !alias)
			vf_fail("model:C15:pfc:feed-false-on-good-packet", "feed returned FALSE for wire packet %d %s which carries no uncorrectable error", i, vf_hex(pk, 42));
	}
	if (!alias) evaluate("feed", kinds & ~16);
	else vf_count("pfc_not_judged_undetectable_header_loss", 1);
	{
		int nd = 0;
		for (i = 0; i < n_blk; i++) nd += blk[i].ndeliv;
		vf_count("pfc_blocks_delivered", nd);
	}
	free_got();
	vbi_pfc_demux_delete(dx);
	free(pk);

	vf_count("pfc_blocks_sent", n_blk);
	vf_count("pfc_packets_fed", n_wp);
	vf_count("pfc_pages", n_pg);
	if (any_end) vf_count("pfc_block_ends_at_packet_end", 1);
	if (any_split) vf_count("pfc_sh_split", 1);
	if (any_span) vf_count("pfc_block_spans_pages", 1);
	if (kinds & 1) vf_count("pfc_fault_drop_packet", 1);
	if (kinds & 2) vf_count("pfc_fault_drop_header", 1);
	if (kinds & (4 | 8)) vf_count("pfc_fault_hamming", 1);
	if (kinds & 16) vf_count("pfc_fault_hamming_correctable", 1);
	vf_sig("pfc size=%d align=0x%x span=%d faults=0x%x", maxclass, alignmask, any_span, kinds);
out:
	for (i = 0; i < n_blk; i++) { free(blk[i].data); blk[i].data = NULL; }
	free_got();
	return 1;
}

void c15_pfc_selftest(void)
{
	/* hand vector: one block, app 5, 3 bytes "abc", at offset 0: BP=0, separator 0xA1, SH = 5 | 3<<5 = 0x0065 -> nibbles 5,6,0,0 */
	static uint8_t abc[3] = { 'a', 'b', 'c' };
	static const uint8_t want[8] = { 0xA1, 0x73, 0x38, 0x15, 0x15, 'a', 'b', 'c' };
	char why[200];
	if (!dp) dp = malloc(sizeof *dp * MAXPKT);
	if (!dp) { vf_fail("harness:alloc", "malloc"); return; }
	n_blk = 1; memset(&blk[0], 0, sizeof blk[0]);
	blk[0].app = 5; blk[0].size = 3; blk[0].data = abc;
	n_dp = 0; new_packet();
	lay_block(0);
	while (cur_o < 39) put_filler();
	if (n_dp != 1 || dp[0].bp != 0 || memcmp(dp[0].d, want, 8) || dp[0].d[8] != 0x5E || dp[0].d[38] != 0x5E)
		vf_fail("selftest:C15:pfc", "hand block laid out as %s", vf_hex(dp[0].d, 12));
	if (!ref_parse(why, sizeof why)) vf_fail("selftest:C15:pfc", "reference parser rejects the hand vector: %s", why);
	dp[0].bp = 1;
	if (ref_parse(why, sizeof why)) vf_fail("selftest:C15:pfc", "reference parser accepts a wrong block pointer");
	dp[0].bp = 0; dp[0].d[6] = 'x';
	if (ref_parse(why, sizeof why)) vf_fail("selftest:C15:pfc", "reference parser accepts a changed data byte");
	blk[0].data = NULL; n_blk = 0;
}
