/* C15, Page Format - Clear half.  Independent packetiser written from
 * EN 300 708 section 4:
 *
 *   page header (row 0): page number, sub-code S1 = continuity index of the
 *     stream (+1 per transmitted page, mod 16), S2 (3 bits) + S4 (2 bits, more
 *     significant) = number of data packets 1..25, S3 = stream number
 *   rows 1..n: byte 2 = block pointer BP (Hamming 8/4): 3*BP is the offset in
 *     the 39 following bytes of the first block separator that lies in this
 *     packet, 0xD = no block starts here
 *   block = separator 0xC (Hamming 8/4), structure header of four Hamming 8/4
 *     nibbles, least significant first: 5 bit application id, 11 bit block
 *     length, then the block bytes (8 bit, unprotected); blocks run across packet
 *     and page boundaries; filler 0x3 (Hamming 8/4) between blocks.
 */
#include "c15_common.h"
#include "libzvbi.h"

#define MAXBLK 260
#define MAXGOT 400
#define MAXPKT 700          /* data packets of our stream */
#define MAXWIRE 2600

enum { K_FILL = 0, K_BS, K_SH, K_DATA };

struct blk {
	int app, size;
	uint8_t *data;
	int first_pkt, last_pkt;        /* linear packet numbers of the separator and of the last byte */
	int bs_off;                     /* offset of the separator in first_pkt */
	int sh_split, ends_at_end;
	int strict, quirk;              /* expectation: 0 must not, 1 may, 2 must */
	int ndeliv;
	/* long mode */
	int cbf, fired;                 /* the callback returns FALSE for this block; it did so in the current pass */
	int rst_cut;                    /* vbi_pfc_demux_reset() was called while the block was in progress */
	int rst_hit;                    /* lies (partly) in rows fed after a reset and before the next page header */
	int cbf_zone;                   /* starts between a callback that returned FALSE and the next page header */
	int qrst_cut;                   /* in progress when a packet of the other stream with an unreadable address / page number came by */
};

struct dpkt {                           /* one data packet of our stream (linear numbering) */
	uint8_t d[39];
	int8_t kind[39];
	int16_t owner[39];
	int bp;                         /* 0..12, 13 = none */
	int page, row;
	int killed;                     /* dropped or unusable (strict model) */
	int dropped;                    /* not on the wire at all */
	int err_off;                    /* >=0: uncorrectable Hamming error at this offset (separator, header or filler byte) */
	int qkilled;                    /* ignored by a receiver that waits for the next page header after any loss */
	int err_vis;                    /* the error byte is one that such a receiver examines at all */
	/* long mode */
	int rst;                        /* vbi_pfc_demux_reset() right before this row is fed, its page header came before the reset */
	int cbf_after;                  /* a callback returned FALSE while this row was decoded */
	int qrst;                       /* a packet of the other stream with an unreadable address / page number right before this row */
};

struct page { int first, n, ci, hdr_killed; int rst_before; /* long mode: reset between the previous page's rows and this header */ int qrst_before; /* same for qrst */ };

enum { W_FOREIGN = 0, W_HDR, W_DATA };
struct wpk { uint8_t b[42]; int type, idx; int strm; /* long mode: which of the two streams */ int damaged; /* uncorrectable Hamming error somewhere */ int touched; /* any fault applied */
	int may_false; /* intact, but completes a structure header whose first part was damaged in the previous packet */ };

/* The generator and the oracle work on one stream at a time; the long mode has two and switches (use_stream) */
static struct blk blk_st[2][MAXBLK], *blk = blk_st[0];
static int n_blk;
static struct dpkt *dp;
static int n_dp;
static struct page pg_st[2][MAXPKT], *pg = pg_st[0];
static int n_pg;
static struct wpk *wp;
static int n_wp;

struct got { unsigned app, size; uint8_t *data; int bad_ident; };
static struct got got_st[2][MAXGOT], *got = got_st[0];
static int n_got, sel_pgno, sel_stream;

/* ---- layout ---- */

static int cur_p, cur_o;

static void new_packet(void)
{
	struct dpkt *q;
	if (n_dp >= MAXPKT) return;
	q = &dp[n_dp++];
	memset(q, 0, sizeof *q);
	q->bp = 13; q->err_off = -1;
	memset(q->owner, 0xFF, sizeof q->owner);
	cur_p = n_dp - 1; cur_o = 0;
}

static void put(int byte, int kind, int owner)
{
	if (cur_o >= 39) new_packet();
	dp[cur_p].d[cur_o] = (uint8_t)byte;
	dp[cur_p].kind[cur_o] = (int8_t)kind;
	dp[cur_p].owner[cur_o] = (int16_t)owner;
	cur_o++;
}

static void put_filler(void) { put(c15_ham84(3), K_FILL, -1); }

static void lay_block(int i)
{
	struct blk *b = &blk[i];
	unsigned sh = (unsigned)b->app | (unsigned)b->size << 5;
	int k;
	if (cur_o >= 39) new_packet();
	if (dp[cur_p].bp == 13) {               /* first separator of this packet: BP can only address multiples of 3 */
		while (cur_o < 39 && cur_o % 3) put_filler();
		if (cur_o >= 39) new_packet();
		dp[cur_p].bp = cur_o / 3;
	}
	b->first_pkt = cur_p; b->bs_off = cur_o;
	put(c15_ham84(0xC), K_BS, i);
	b->sh_split = cur_o > 35 && cur_o < 39;
	for (k = 0; k < 4; k++) put(c15_ham84((sh >> (4 * k)) & 15), K_SH, i);
	for (k = 0; k < b->size; k++) put(b->data[k], K_DATA, i);
	b->last_pkt = cur_p;
	b->ends_at_end = cur_o == 39;
}

/* ---- reference parser over undamaged packets of the stream (cross-check of the layout) ---- */

static int ref_parse(char *why, size_t whylen)
{
	int p, o, i = 0, state = 0 /* 0 between blocks, 1 header, 2 data */, need = 0, have = 0, first_bs;
	unsigned sh = 0;
	for (p = 0; p < n_dp; p++) {
		first_bs = -1;
		for (o = 0; o < 39; o++) {
			int v;
			if (state == 2) {
				if (i >= n_blk || dp[p].d[o] != blk[i].data[have]) { snprintf(why, whylen, "data byte of block %d differs at packet %d offset %d", i, p, o); return 0; }
				if (++have == need) { state = 0; i++; }
				continue;
			}
			v = c15_unham84(dp[p].d[o]);
			if (state == 1) {
				sh |= (unsigned)v << (4 * have);
				if (++have == 4) {
					if (i >= n_blk || (int)(sh & 31) != blk[i].app || (int)(sh >> 5) != blk[i].size) { snprintf(why, whylen, "structure header of block %d reads %04x", i, sh); return 0; }
					need = (int)(sh >> 5); have = 0;
					if (need) state = 2; else { state = 0; i++; }
				}
				continue;
			}
			if (v == 3) continue;
			if (v != 0xC) { snprintf(why, whylen, "neither filler nor separator at packet %d offset %d", p, o); return 0; }
			if (first_bs < 0) first_bs = o;
			state = 1; have = 0; sh = 0;
		}
		if (first_bs < 0 ? dp[p].bp != 13 : (first_bs % 3 || dp[p].bp != first_bs / 3)) {
			snprintf(why, whylen, "packet %d: BP %d but first separator at %d", p, dp[p].bp, first_bs);
			return 0;
		}
	}
	if (i != n_blk || state != 0) { snprintf(why, whylen, "%d of %d blocks found", i, n_blk); return 0; }
	return 1;
}

/* ---- wire ---- */

static uint8_t odd(struct vf_rng *r)
{
	unsigned c = 0x20 + vf_below(r, 0x5f);
	return (uint8_t)((c15_popcount8(c) & 1) ? c : (c | 0x80));
}

static int hdr_c11 = -1;         /* -1: C11 at random (pages are sent one after the other, both readings agree); long mode: 0 = parallel */

static void make_header(struct vf_rng *r, uint8_t b[42], int pgno, int stream, int ci, int n)
{
	int i;
	b[0] = c15_ham84((unsigned)((pgno >> 8) & 7));
	b[1] = c15_ham84(0);
	b[2] = c15_ham84((unsigned)(pgno & 15));
	b[3] = c15_ham84((unsigned)((pgno >> 4) & 15));
	b[4] = c15_ham84((unsigned)ci);
	b[5] = c15_ham84((unsigned)(n & 7) | vf_below(r, 2) << 3);              /* S2 + C4 */
	b[6] = c15_ham84((unsigned)stream);
	b[7] = c15_ham84((unsigned)((n >> 3) & 3) | vf_below(r, 4) << 2);        /* S4 + C5 C6 */
	b[8] = c15_ham84(vf_below(r, 16));
	{
		unsigned c = vf_below(r, 16);   /* C11 (magazine serial) C12-C14 */
		if (hdr_c11 >= 0) c = (c & ~1u) | (unsigned)hdr_c11;
		b[9] = c15_ham84(c);
	}
	for (i = 10; i < 42; i++) b[i] = odd(r);
}

static void make_data(uint8_t b[42], int pgno, int row, int bp, const uint8_t d[39])
{
	b[0] = c15_ham84((unsigned)(((pgno >> 8) & 7) | (row & 1) << 3));
	b[1] = c15_ham84((unsigned)(row >> 1));
	b[2] = c15_ham84((unsigned)bp);
	memcpy(b + 3, d, 39);
}

static struct wpk *push(int type, int idx)
{
	struct wpk *w;
	if (n_wp >= MAXWIRE) return NULL;
	w = &wp[n_wp++];
	memset(w, 0, sizeof *w);
	w->type = type; w->idx = idx;
	return w;
}

/* a decoy page: same page other stream, or other page of the magazine, carrying well-formed PFC blocks */
static void decoy_page_x(struct vf_rng *r, int pgno, int stream, int xpgno, int xstream)
{
	struct wpk *w;
	int dpg = pgno, dst = stream, n = vf_range(r, 1, 4), row, k;
	if (vf_chance(r, 1, 2)) dst = (stream + 1 + (int)vf_below(r, 15)) & 15;
	else dpg = (pgno & 0x700) | ((pgno + 1 + (int)vf_below(r, 254)) & 0xFF), dpg = dpg == pgno ? pgno ^ 1 : dpg;
	if (xpgno >= 0 && !((dpg ^ xpgno) & 0x7FF) && dst == xstream) return;     /* long mode: that is the other context's stream, not a decoy */
	if (!(w = push(W_FOREIGN, 0))) return;
	make_header(r, w->b, dpg, dst, (int)vf_below(r, 16), n);
	for (row = 1; row <= n; row++) {
		uint8_t d[39];
		unsigned size = 30, sh = vf_below(r, 32) | size << 5;
		if (!(w = push(W_FOREIGN, 0))) return;
		d[0] = c15_ham84(0xC);
		for (k = 0; k < 4; k++) d[1 + k] = c15_ham84((sh >> (4 * k)) & 15);
		for (k = 5; k < 35; k++) d[k] = (uint8_t)vf_below(r, 256);
		for (k = 35; k < 39; k++) d[k] = c15_ham84(3);
		make_data(w->b, dpg, row, 0, d);
	}
}

static void decoy_page(struct vf_rng *r, int pgno, int stream) { decoy_page_x(r, pgno, stream, -1, -1); }

/* xmag: a magazine (0..7) in which no stray rows may appear (long mode: the other stream's), -1 none */
static void noise_x(struct vf_rng *r, int pgno, int in_page, int xmag)
{
	struct wpk *w = push(W_FOREIGN, 0);
	int mag = (pgno >> 8) & 7;
	if (!w) return;
	if (in_page && vf_chance(r, 1, 3))
		c15_plain_packet(r, w->b, mag, vf_range(r, 26, 31));          /* enhancement / IDL rows of our magazine */
	else {
		int y = vf_range(r, 1, 31), m = (mag + 1 + (int)vf_below(r, 7)) & 7;     /* this order: what the compiler made of the former one-line call */
		if (m == xmag) y = 26 + y % 6;
		c15_plain_packet(r, w->b, m, y);                               /* rows of another magazine */
	}
}

static void noise(struct vf_rng *r, int pgno, int in_page) { noise_x(r, pgno, in_page, -1); }

/* ---- consumer ---- */

static vbi_bool pfc_cb(vbi_pfc_demux *dx, void *ud, const vbi_pfc_block *bk)
{
	(void)dx; (void)ud;
	vf_log("callback: app %u size %u\n", bk->application_id, bk->block_size);
	if (n_got < MAXGOT) {
		struct got *g = &got[n_got++];
		unsigned n = bk->block_size > 2048 ? 2048 : bk->block_size;
		g->app = bk->application_id; g->size = bk->block_size;
		g->bad_ident = (bk->pgno != sel_pgno || (int)bk->stream != sel_stream);
		g->data = malloc(n ? n : 1);
		if (g->data) memcpy(g->data, bk->block, n);
	}
	return TRUE;
}

static void free_got(void)
{
	int i;
	for (i = 0; i < n_got; i++) free(got[i].data);
	n_got = 0;
}

/* ---- expectation ---- */

/* Long mode with two streams: a packet of the other stream whose address (or, in a page header, page number /
 * sub-code as far as this receiver has to read it) carries an uncorrectable error.  Nothing of this stream is
 * lost, so the strict model ignores it; the receiver of the open finding (any uncorrectable error -> wait for
 * the next page header) cannot tell such a packet from one of its own.  Only consulted when the finding's model
 * does not explain the deliveries without it. */
/* Second class (bit 1): parallel transmission (C11 = 0), a page header of another magazine while a page of this
 * stream is open.  It does not end the page; a receiver that takes every header for the end of the page it is
 * receiving discards the rest of the page.  Own key. */
static int use_xevents, n_xevents, n_pevents;

static void classify(void)
{
	int p, i, o, g;
	/* receiver that waits for the next page header after any loss: everything of the page after the
	   first unusable packet is ignored as well */
	{
	/* synced: the receiver is inside the block sequence, i.e. it consumes (and Hamming-checks) the
	   bytes in front of the block pointer; after a reset it skips them until a packet whose block
	   pointer names a block start.  pending: a structure header nibble was damaged but the header is
	   not complete yet - the damage is only noticed with its last nibble, in the next packet, which may
	   belong to the next page (that page is then the one discarded). */
	int synced = 0, pending = -1;
	for (g = 0; g < n_pg; g++) {
		int dead = pg[g].hdr_killed, rdead = 0, qrdead = 0;
		if (pg[g].rst_before) { synced = 0; pending = -1; }     /* long mode: reset between two pages */
		if (use_xevents & pg[g].qrst_before) { synced = 0; pending = -1; }
		for (p = pg[g].first; p < pg[g].first + pg[g].n; p++) {
			if (pg[g].hdr_killed) dp[p].killed = 1;
			/* long mode: rows fed after vbi_pfc_demux_reset() belong to no page until a header comes */
			if (dp[p].rst) rdead = 1;
			if (rdead) dp[p].killed = 1;
			if (dp[p].killed) { dead = 1; pending = -1; }
			if (use_xevents & dp[p].qrst) qrdead = 1;
			if (qrdead) { dead = 1; pending = -1; }
			if (!dead && pending >= 0) {
				if (dp[p].kind[0] == K_SH && dp[p].owner[0] == pending) dead = 1;
				pending = -1;
			}
			dp[p].qkilled = dead;
			dp[p].err_vis = 0;
			if (!dead && dp[p].err_off >= 0 && (synced || (dp[p].bp != 13 && dp[p].err_off >= 3 * dp[p].bp))) {
				int e = dp[p].err_off, own = dp[p].owner[e];
				dp[p].err_vis = 1;
				if (dp[p].kind[e] == K_SH && own >= 0 && blk[own].sh_split && p == blk[own].first_pkt && p + 1 < n_dp
				    && dp[p + 1].kind[0] == K_SH && dp[p + 1].owner[0] == own)
					pending = own;          /* noticed when the header completes */
				else
					dead = 1;
			}
			if (!dead && dp[p].bp != 13) synced = 1;
			/* long mode: what the receiver does after a callback returned FALSE is not documented; the
			   one under test resets itself, i.e. waits for the next page header */
			if (dp[p].cbf_after) { dead = 1; pending = -1; }
		}
		if (dead) { synced = 0; pending = -1; }
	}
	}
	for (i = 0; i < n_blk; i++) {
		struct blk *b = &blk[i];
		int dmg = 0, qdmg = 0, touch_err = 0;
		for (p = b->first_pkt; p <= b->last_pkt; p++) {
			if (dp[p].killed) dmg = 1;
			if (dp[p].qkilled) qdmg = 1;
			if (dp[p].err_off >= 0) {
				int e = dp[p].err_off, lo = 39, hi = -1;
				for (o = 0; o < 39; o++)
					if (dp[p].owner[o] == i) { if (o < lo) lo = o; hi = o; }
				if (hi >= 0) touch_err = 1;
				if (dp[p].owner[e] == i) dmg = 1;        /* own separator / header nibble hit */
				if (hi >= e && dp[p].err_vis) qdmg = 1;   /* any byte at or after an error the receiver notices */
			}
		}
		if (b->rst_cut) dmg = 1;
		if (dmg || (use_xevents & b->qrst_cut)) qdmg = 1;
		b->strict = dmg ? 0 : (touch_err || b->size == 0) ? 1 : 2;
		b->quirk = qdmg ? 0 : (touch_err || b->size == 0) ? 1 : 2;
		if (b->cbf_zone) {              /* not specified: may be delivered or not */
			if (b->strict == 2) b->strict = 1;
			b->quirk = dmg ? 0 : 1;
		}
	}
}

static const char *describe(int i)
{
	static char s[160];
	struct blk *b = &blk[i];
	snprintf(s, sizeof s, "block %d (app %d, %d bytes, separator in packet %d (page %d row %d) offset %d, last byte in packet %d)",
		 i, b->app, b->size, b->first_pkt, dp[b->first_pkt].page, dp[b->first_pkt].row, b->bs_off, b->last_pkt);
	return s;
}

/* do the deliveries agree with the receiver of the open finding?  0 yes, 1 a block it must deliver is missing, 2 it
 * delivered a block that receiver cannot have */
static int quirk_explains(int *bad)
{
	int i;
	for (i = 0; i < n_blk; i++)
		if (blk[i].quirk == 2 && !blk[i].ndeliv) { *bad = i; return 1; }
	for (i = 0; i < n_blk; i++)
		if (blk[i].quirk == 0 && blk[i].ndeliv) { *bad = i; return 2; }
	return 0;
}

static void evaluate(const char *iface, int faults)
{
	int i, g, cursor = 0, strict_ok = 1, first_missing = -1;
	for (i = 0; i < n_blk; i++) blk[i].ndeliv = 0;
	for (g = 0; g < n_got; g++) {
		struct got *d = &got[g];
		int j;
		if (d->bad_ident) { vf_fail("model:C15:pfc:wrong-ident", "%s: delivery %d carries pgno/stream other than requested", iface, g); return; }
		if (d->size == 0) continue;
		for (j = cursor; j < n_blk; j++)
			if ((unsigned)blk[j].app == d->app) break;
		if (n_blk > 32 && d->size <= 2048) {    /* long mode: application ids repeat every 32 blocks, and 32 blocks in a row can be lost */
			int jj, exact = -1;     /* of several blocks that look alike, one that may be delivered */
			for (jj = j; jj < n_blk; jj++)
				if ((unsigned)blk[jj].app == d->app && (unsigned)blk[jj].size == d->size && !memcmp(blk[jj].data, d->data, d->size)) {
					if (exact < 0) exact = jj;
					if (blk[jj].strict != 0) { exact = jj; break; }
				}
			if (exact >= 0) j = exact;
		}
		if (j >= n_blk || (unsigned)blk[j].size != d->size || d->size > 2048 || memcmp(blk[j].data, d->data, d->size)) {
			unsigned n = d->size > 24 ? 24 : d->size;
			int known = 0, jj;
			for (jj = 0; jj < n_blk; jj++) if ((unsigned)blk[jj].app == d->app) known = 1;
			if (j >= n_blk && !known)
				vf_fail("model:C15:pfc:spurious-block", "%s: delivery %d app %u size %u %s... matches no block of page %x stream %d",
					iface, g, d->app, d->size, vf_hex(d->data, n), sel_pgno, sel_stream);
			else if (j >= n_blk)
				vf_fail("model:C15:pfc:out-of-order-or-duplicate", "%s: delivery %d app %u size %u was already delivered or passed (cursor at block %d)",
					iface, g, d->app, d->size, cursor);
			else
				vf_fail("model:C15:pfc:content-mismatch", "%s: delivery %d app %u size %u %s... differs from sent %s first bytes %s",
					iface, g, d->app, d->size, vf_hex(d->data, n), describe(j), vf_hex(blk[j].data, (size_t)(blk[j].size > 24 ? 24 : blk[j].size)));
			return;
		}
		blk[j].ndeliv++;
		cursor = j + 1;
		if (blk[j].strict == 0 && blk[j].rst_hit) {
			vf_fail("model:C15:pfc:delivered-across-reset", "%s: %s was delivered although vbi_pfc_demux_reset() was called %s", iface, describe(j),
				blk[j].rst_cut ? "while it was being received" : "before its rows and no page header came in between");
			return;
		}
		if (blk[j].strict == 0) {
			vf_fail("model:C15:pfc:damaged-block-delivered", "%s: %s lies partly in a lost or Hamming-damaged packet but was delivered", iface, describe(j));
			return;
		}
	}
	for (i = 0; i < n_blk; i++)
		if (blk[i].strict == 2 && !blk[i].ndeliv) { strict_ok = 0; if (first_missing < 0) first_missing = i; }
	if (strict_ok) return;
	{
		int bad, why = quirk_explains(&bad), with_x = 0, m;
		for (m = 1; why && m <= 3; m++) {       /* long mode, two streams */
			if (((m & 1) && !n_xevents) || ((m & 2) && !n_pevents)) continue;
			use_xevents = m; classify();
			if (0 == quirk_explains(&bad)) { why = 0; with_x = m; }
			use_xevents = 0; classify();
			if (why) quirk_explains(&bad);
		}
		if (why == 1) {
			vf_fail("model:C15:pfc:not-delivered", "%s: %s is undamaged%s but was not delivered (%d blocks sent, %d delivered)",
				iface, describe(bad), faults ? " and lies after the receiver had a page header to resynchronise on" : " (no faults in this stream)", n_blk, n_got);
			return;
		}
		if (why == 2) {     /* cannot happen if strict==0 was checked, but quirk==0 is wider */
			vf_fail("model:C15:pfc:not-delivered", "%s: inconsistent resynchronisation: %s delivered although the rest of its page was discarded", iface, describe(bad));
			return;
		}
		if (with_x & 2) {
			vf_fail("model:C15:pfc:Q-page-ended-by-header-of-other-magazine",
				"%s: %s is undamaged but not delivered; parallel transmission (C11 = 0 in every page header): explained exactly by a receiver that takes a page header of another magazine for the end of the page it is receiving and then waits for the next header of its stream%s",
				iface, describe(first_missing), (with_x & 1) ? " (and does the same after a packet of the other stream with an unreadable address)" : "");
			vf_count("pfc_long_quirk_header_of_other_magazine", 1);
			return;
		}
		vf_fail("model:C15:pfc:Q-rest-of-page-discarded",
			"%s: %s is undamaged but not delivered; the difference to 'exactly the damaged blocks are missing' is explained exactly by the receiver ignoring every packet after a loss until the next page header%s",
			iface, describe(first_missing), (with_x & 1) ? " (counting as a loss a packet of another stream whose address or page number is unreadable: the receiver cannot tell it from one of its own)" : "");
		vf_count("pfc_quirk_rest_of_page", 1);
		if (with_x & 1) vf_count("pfc_long_quirk_by_unreadable_packet_of_other_stream", 1);
	}
}

static void apply_fault(struct vf_rng *r, int wi, int *kinds)
{
	struct wpk *w = &wp[wi];
	w->touched = 1;
	if (w->type == W_HDR) {
		int g2 = w->idx;
		if (vf_chance(r, 1, 4)) {                    /* correctable */
			int o = (int)vf_below(r, 10);
			w->b[o] = c15_flip1(r, w->b[o]); *kinds |= 16;
			return;
		}
		pg[g2].hdr_killed = 1;
		if (vf_chance(r, 1, 2)) {                    /* dropped */
			memmove(w, w + 1, sizeof *w * (size_t)(n_wp - wi - 1)); n_wp--; *kinds |= 2;
		} else {
			int o = (int)vf_below(r, 8);
			w->b[o] = c15_flip2(r, w->b[o]); w->damaged = 1; *kinds |= 4;
		}
	} else {
		struct dpkt *q = &dp[w->idx];
		switch (vf_below(r, 5)) {
		case 0: case 1:                               /* dropped */
			q->killed = q->dropped = 1;
			memmove(w, w + 1, sizeof *w * (size_t)(n_wp - wi - 1)); n_wp--; *kinds |= 1;
			break;
		case 2: {                                     /* packet address or block pointer */
			int o = (int)vf_below(r, 3);
			w->b[o] = c15_flip2(r, w->b[o]); w->damaged = 1; q->killed = 1; *kinds |= 4;
			break; }
		case 3: {                                     /* a Hamming protected byte of the data area that a receiver reads
							         whether or not it was in a block at the start of the packet:
							         separators, structure headers, fillers behind the separator
							         BP points to */
			int o, t = 0;
#define ELIGIBLE(o) (q->kind[o] == K_BS || q->kind[o] == K_SH || (q->kind[o] == K_FILL && q->bp != 13 && (o) >= 3 * q->bp))
			do o = (int)vf_below(r, 39); while (!ELIGIBLE(o) && ++t < 300);
			if (!ELIGIBLE(o)) { q->killed = q->dropped = 1; memmove(w, w + 1, sizeof *w * (size_t)(n_wp - wi - 1)); n_wp--; *kinds |= 1; break; }
			w->b[3 + o] = c15_flip2(r, w->b[3 + o]); w->damaged = 1; q->err_off = o; *kinds |= 8;
			break; }
		default: {                                    /* correctable single bit error */
			int o, t = 0;
			do o = (int)vf_below(r, 42); while (o >= 3 && q->kind[o - 3] == K_DATA && ++t < 200);
			if (o >= 3 && q->kind[o - 3] == K_DATA) o = 2;
			w->b[o] = c15_flip1(r, w->b[o]); *kinds |= 16;
			break; }
		}
	}
}

static int size_class(int s) { return s == 0 ? 0 : s < 4 ? 1 : s < 35 ? 2 : s < 200 ? 3 : s < 2047 ? 4 : 5; }

int c15_pfc_case(struct vf_rng *r, long idx)
{
	int i, p, g, pgno, stream, ci, nf, kinds = 0, tot = 0, budget, any_end = 0, any_split = 0, any_span = 0, maxclass = 0, alignmask = 0;
	char why[200];
	uint8_t *pk;
	int alias = 0;
	vbi_pfc_demux *dx;
	(void)idx;

	if (!dp) dp = malloc(sizeof *dp * MAXPKT);
	if (!wp) wp = malloc(sizeof *wp * MAXWIRE);
	if (!dp || !wp) { vf_fail("harness:alloc", "malloc"); return 0; }

	pgno = vf_range(r, 1, 8) << 8 | (int)vf_below(r, 255);
	stream = (int)vf_below(r, 16);
	sel_pgno = pgno; sel_stream = stream;

	/* blocks */
	n_blk = vf_range(r, 1, vf_chance(r, 1, 2) ? 4 : 10);
	budget = vf_chance(r, 1, 4) ? 6000 : 1500;
	n_dp = 0; new_packet();
	{
		int base = (int)vf_below(r, 32);
		for (i = 0; i < n_blk; i++) {
			struct blk *b = &blk[i];
			int fill, after_sh, k;
			memset(b, 0, sizeof *b);
			b->app = (base + i) & 31;
			/* fillers in front */
			switch (vf_below(r, 6)) {
			case 0: fill = 0; break;
			case 1: fill = vf_range(r, 1, 5); break;
			case 2: fill = (39 - cur_o) % 39; break;                         /* start in a fresh packet */
			case 3: fill = ((35 + (int)vf_below(r, 4)) - cur_o + 39) % 39; break; /* header split over two packets */
			case 4: fill = (38 - cur_o + 39) % 39; break;                     /* separator in the last byte */
			default: fill = vf_range(r, 0, 45);
			}
			if (i == 0 && vf_chance(r, 1, 2)) fill = 0;
			while (fill-- > 0) put_filler();
			/* size */
			after_sh = (cur_o % 39 + ((dp[cur_p].bp == 13 && cur_o % 3) ? 3 - cur_o % 3 : 0) + 5) % 39;
			switch (vf_below(r, 8)) {
			case 0: b->size = vf_range(r, 0, 3); break;
			case 1: b->size = (39 - after_sh) % 39 + 39 * (int)vf_below(r, 4); break;        /* last byte = last byte of a packet */
			case 2: b->size = (39 - after_sh + vf_range(r, -2, 2) + 39) % 39 + 39 * (int)vf_below(r, 3); break;
			case 3: b->size = vf_chance(r, 1, 3) ? 2047 : vf_range(r, 200, 2047); break;
			case 4: b->size = vf_range(r, 35, 200); break;
			default: b->size = vf_range(r, 1, 40);
			}
			if (tot + b->size > budget) b->size = vf_range(r, 0, 20);
			tot += b->size;
			b->data = malloc((size_t)b->size + 1);
			if (!b->data) { vf_fail("harness:alloc", "malloc"); return 0; }
			vf_bytes(r, b->data, (size_t)b->size);
			if (vf_chance(r, 1, 4))   /* payload that looks like separators, fillers and headers */
				for (k = 0; k < b->size; k++) b->data[k] = c15_ham84(vf_chance(r, 1, 2) ? 0xC : vf_chance(r, 1, 2) ? 3 : vf_below(r, 16));
			lay_block(i);
			any_end |= b->ends_at_end; any_split |= b->sh_split;
			if (size_class(b->size) > maxclass) maxclass = size_class(b->size);
			alignmask |= b->ends_at_end ? 1 : 0;
			alignmask |= b->sh_split ? 2 : 0;
			alignmask |= b->bs_off == 38 ? 4 : 0;
			alignmask |= (b->first_pkt != b->last_pkt) ? 8 : 0;
		}
	}
	{       /* trailing fillers: to the end of the packet, sometimes a few packets more */
		int extra = vf_chance(r, 1, 4) ? vf_range(r, 1, 3) * 39 : 0;
		while (cur_o < 39) put_filler();
		while (extra-- > 0) put_filler();
	}

	if (!ref_parse(why, sizeof why)) {
		vf_fail("selfcheck:C15:pfc-parser-vs-packetiser", "%s", why);
		goto out;
	}

	/* pages */
	n_pg = 0; ci = (int)vf_below(r, 16);
	for (p = 0; p < n_dp; ) {
		int n;
		switch (vf_below(r, 4)) {
		case 0: n = 25; break;
		case 1: n = vf_range(r, 1, 3); break;
		default: n = vf_range(r, 1, 25);
		}
		if (n > n_dp - p) n = n_dp - p;
		pg[n_pg].first = p; pg[n_pg].n = n; pg[n_pg].ci = (ci + n_pg) & 15; pg[n_pg].hdr_killed = 0;
		for (i = 0; i < n; i++) { dp[p + i].page = n_pg; dp[p + i].row = i + 1; }
		n_pg++; p += n;
	}
	for (i = 0; i < n_blk; i++) if (dp[blk[i].first_pkt].page != dp[blk[i].last_pkt].page) any_span = 1;

	/* wire: our pages with other traffic around and inside */
	n_wp = 0;
	for (g = 0; g < n_pg; g++) {
		struct wpk *w;
		while (vf_chance(r, 1, 4)) decoy_page(r, pgno, stream);
		while (vf_chance(r, 1, 4)) noise(r, pgno, 0);
		if ((w = push(W_HDR, g))) make_header(r, w->b, pgno, stream, pg[g].ci, pg[g].n);
		for (p = pg[g].first; p < pg[g].first + pg[g].n; p++) {
			while (vf_chance(r, 1, 5)) noise(r, pgno, 1);
			if ((w = push(W_DATA, p))) make_data(w->b, pgno, dp[p].row, dp[p].bp, dp[p].d);
		}
	}
	while (vf_chance(r, 1, 3)) decoy_page(r, pgno, stream);

	/* faults */
	nf = vf_chance(r, 1, 2) ? 0 : vf_range(r, 1, 3);
	for (i = 0; i < nf; i++) {
		int wi, tries = 0;
		struct wpk *w;
		if (n_wp <= 0) break;
		do wi = (int)vf_below(r, (unsigned)n_wp); while ((wp[wi].type == W_FOREIGN || wp[wi].touched) && ++tries < 100);
		w = &wp[wi];
		if (w->type == W_FOREIGN || w->touched) break;
		apply_fault(r, wi, &kinds);
	}
	classify();
	/* Rows carry no page identity.  When a header is lost and the row numbers around it continue
	   without a gap, no receiver can tell that the rows belong to a new page: not judged. */
	for (g = 1; g < n_pg; g++)
		if (pg[g].hdr_killed && !pg[g - 1].hdr_killed) {
			int m = 0, f = 0;
			for (p = pg[g - 1].first; p < pg[g - 1].first + pg[g - 1].n; p++) if (!dp[p].dropped) m = dp[p].row;
			for (p = pg[g].first + pg[g].n - 1; p >= pg[g].first; p--) if (!dp[p].dropped) f = dp[p].row;
			if (f == m + 1 && f <= pg[g - 1].n) alias = 1;
		}
	for (i = 0; i < n_wp; i++)
		if (wp[i].type == W_DATA && wp[i].idx > 0) {
			struct dpkt *q = &dp[wp[i].idx], *q0 = q - 1;
			if (q0->err_off >= 0 && q0->kind[q0->err_off] == K_SH && q->kind[0] == K_SH && q->owner[0] == q0->owner[q0->err_off])
				wp[i].may_false = 1;
		}
	if (vf_verbose) {
		for (i = 0; i < n_blk; i++) vf_log("%s strict=%d quirk=%d split=%d end=%d\n", describe(i), blk[i].strict, blk[i].quirk, blk[i].sh_split, blk[i].ends_at_end);
		for (g = 0; g < n_pg; g++) vf_log("page %d: packets %d..%d ci=%d hdr_killed=%d\n", g, pg[g].first, pg[g].first + pg[g].n - 1, pg[g].ci, pg[g].hdr_killed);
		for (i = 0; i < n_wp; i++)
			vf_log("wire %d: %s idx=%d%s%s %s\n", i, wp[i].type == W_HDR ? "HDR" : wp[i].type == W_DATA ? "DATA" : "foreign", wp[i].idx,
			       wp[i].type == W_DATA ? (dp[wp[i].idx].err_off >= 0 ? " ERR" : "") : "", wp[i].damaged ? " damaged" : "", vf_hex(wp[i].b, 42));
		for (p = 0; p < n_dp; p++) if (dp[p].killed || dp[p].err_off >= 0) vf_log("packet %d (page %d row %d) killed=%d err_off=%d\n", p, dp[p].page, dp[p].row, dp[p].killed, dp[p].err_off);
	}

	vf_sample("pfc page %x stream %d: %d blocks %d bytes in %d packets / %d pages, wire %d, faults 0x%x, align 0x%x", pgno, stream, n_blk, tot, n_dp, n_pg, n_wp, kinds, alignmask);

	/* 1. frame interface (the packet lies in a 56 byte vbi_sliced.data) */
	vf_phase("vbi_pfc_demux_feed_frame");
	dx = vbi_pfc_demux_new(pgno, (unsigned)stream, pfc_cb, NULL);
	if (!dx) { vf_fail("harness:alloc", "vbi_pfc_demux_new failed"); goto out; }
	n_got = 0;
	for (i = 0; i < n_wp; ) {
		vbi_sliced sl[6];
		int n = 0, clean = 1, first = i;
		vbi_bool ok;
		memset(sl, 0, sizeof sl);
		sl[n].id = VBI_SLICED_WSS_625; sl[n].line = 23; n++;
		while (i < n_wp && n < 5) {
			sl[n].id = (i & 1) ? VBI_SLICED_TELETEXT_B : VBI_SLICED_TELETEXT_B_L10_625;
			sl[n].line = (uint32_t)(6 + n);
			memcpy(sl[n].data, wp[i].b, 42);
			n++;
			if (wp[i].damaged || wp[i].may_false) { i++; clean = 0; break; }    /* feed_frame stops at a FALSE */
			i++;
			if (vf_chance(r, 1, 3)) break;
		}
		ok = vbi_pfc_demux_feed_frame(dx, sl, (unsigned)n);
		if (clean && !ok && !alias)
			vf_fail("model:C15:pfc:feed-false-on-good-packet", "feed_frame returned FALSE for wire packets %d..%d which carry no uncorrectable error", first, i - 1);
	}
	if (!alias) evaluate("feed_frame", kinds & ~16);
	free_got();
	vbi_pfc_demux_delete(dx);

	/* 2. packet interface, exact 42 byte heap buffer */
	vf_phase("vbi_pfc_demux_feed");
	pk = malloc(42);
	dx = vbi_pfc_demux_new(pgno, (unsigned)stream, pfc_cb, NULL);
	if (!dx || !pk) { vf_fail("harness:alloc", "vbi_pfc_demux_new failed"); free(pk); goto out; }
	for (i = 0; i < n_wp; i++) {
		memcpy(pk, wp[i].b, 42);
		if (!vbi_pfc_demux_feed(dx, pk) && !wp[i].damaged && !wp[i].may_false && !alias)
			vf_fail("model:C15:pfc:feed-false-on-good-packet", "feed returned FALSE for wire packet %d %s which carries no uncorrectable error", i, vf_hex(pk, 42));
	}
	if (!alias) evaluate("feed", kinds & ~16);
	else vf_count("pfc_not_judged_undetectable_header_loss", 1);
	{
		int nd = 0;
		for (i = 0; i < n_blk; i++) nd += blk[i].ndeliv;
		vf_count("pfc_blocks_delivered", nd);
	}
	free_got();
	vbi_pfc_demux_delete(dx);
	free(pk);

	vf_count("pfc_blocks_sent", n_blk);
	vf_count("pfc_packets_fed", n_wp);
	vf_count("pfc_pages", n_pg);
	if (any_end) vf_count("pfc_block_ends_at_packet_end", 1);
	if (any_split) vf_count("pfc_sh_split", 1);
	if (any_span) vf_count("pfc_block_spans_pages", 1);
	if (kinds & 1) vf_count("pfc_fault_drop_packet", 1);
	if (kinds & 2) vf_count("pfc_fault_drop_header", 1);
	if (kinds & (4 | 8)) vf_count("pfc_fault_hamming", 1);
	if (kinds & 16) vf_count("pfc_fault_hamming_correctable", 1);
	vf_sig("pfc size=%d align=0x%x span=%d faults=0x%x", maxclass, alignmask, any_span, kinds);
out:
	for (i = 0; i < n_blk; i++) { free(blk[i].data); blk[i].data = NULL; }
	free_got();
	return 1;
}

/* =====================================================================
 * Long streams (--mode pfc-long): 30-200 blocks over many pages, several
 * independent faults, vbi_pfc_demux_reset() between packets, callbacks
 * returning FALSE, frames with several rows of one page, two contexts (two
 * streams) fed from the same multiplex.
 *
 * Reset: "Resets the PFC demux context, useful for example after a channel
 * change."  A row carries its magazine and row number only; which page it
 * belongs to is known from the page header before it.  A context that was
 * reset has no such header: rows fed after the reset and before the next
 * header of the stream must not contribute to a delivery, and a block that
 * was in progress is gone.  Blocks that start after that header are due.
 *
 * Callback returning FALSE: documented is the return value of feed ("FALSE
 * on error, will be returned by vbi_pfc_demux_feed()"), nothing about the
 * state.  Blocks that start between that callback and the next page header
 * may or may not be delivered; from the next page header on everything is
 * due again ("the demultiplexer stays usable").
 * ===================================================================== */

struct pstrm {
	int pgno, stream;
	int n_blk, n_dp, n_pg, n_got;
	struct dpkt *dp;
	int *dpwire;                    /* wire index of each data packet, -1 when dropped */
	vbi_pfc_demux *dx;
	int cb_cursor, cbf_now;
	int n_reset, reset_at[4];
	int alias, kinds, nfired, ncut, n_x, n_p;
};
static struct pstrm ps[2];
static int cur_ps;

static void use_stream(int k)
{
	ps[cur_ps].n_blk = n_blk; ps[cur_ps].n_dp = n_dp; ps[cur_ps].n_pg = n_pg;
	cur_ps = k;
	blk = blk_st[k]; pg = pg_st[k]; got = got_st[k]; dp = ps[k].dp;
	n_blk = ps[k].n_blk; n_dp = ps[k].n_dp; n_pg = ps[k].n_pg; n_got = ps[k].n_got;
	sel_pgno = ps[k].pgno; sel_stream = ps[k].stream;
}

static vbi_bool pfc_long_cb(vbi_pfc_demux *dx, void *ud, const vbi_pfc_block *bk)
{
	struct pstrm *t = ud;
	int k = (int)(t - ps), j;
	unsigned n = bk->block_size > 2048 ? 2048 : bk->block_size;
	(void)dx;
	vf_log("stream %d callback: app %u size %u\n", k, bk->application_id, bk->block_size);
	if (t->n_got < MAXGOT) {
		struct got *g = &got_st[k][t->n_got++];
		g->app = bk->application_id; g->size = bk->block_size;
		g->bad_ident = (bk->pgno != t->pgno || (int)bk->stream != t->stream);
		g->data = malloc(n ? n : 1);
		if (g->data) memcpy(g->data, bk->block, n);
	}
	for (j = t->cb_cursor; j < t->n_blk; j++) {
		struct blk *b = &blk_st[k][j];
		if ((unsigned)b->app == bk->application_id && (unsigned)b->size == bk->block_size && bk->block_size <= 2048
		    && !memcmp(b->data, bk->block, bk->block_size)) break;
	}
	if (j >= t->n_blk) return TRUE;         /* not a block we sent: evaluate() will say so */
	t->cb_cursor = j + 1;
	if (blk_st[k][j].cbf) {
		blk_st[k][j].fired = 1;
		t->cbf_now = j;
		return FALSE;
	}
	return TRUE;
}

static void free_got_k(int k)
{
	int i;
	for (i = 0; i < ps[k].n_got; i++) free(got_st[k][i].data);
	ps[k].n_got = 0;
	if (cur_ps == k) n_got = 0;
}

/* expectation for the current stream after a pass: resets are part of the case, callbacks that returned FALSE
 * are known from the pass */
static void classify_long(void)
{
	int i, j, p;
	for (p = 0; p < n_dp; p++) dp[p].cbf_after = 0;
	for (i = 0; i < n_blk; i++) blk[i].cbf_zone = 0;
	for (i = 0; i < n_blk; i++)
		if (blk[i].fired) {
			int pf = blk[i].last_pkt;
			dp[pf].cbf_after = 1;
			for (j = i + 1; j < n_blk; j++)
				if (blk[j].first_pkt >= pf && dp[blk[j].first_pkt].page == dp[pf].page) blk[j].cbf_zone = 1;
		}
	classify();
}

static void judge_long(int k, const char *iface)
{
	int i;
	use_stream(k);
	n_got = ps[k].n_got;
	ps[k].nfired = 0;
	for (i = 0; i < n_blk; i++) ps[k].nfired += blk[i].fired;
	if (!ps[k].alias) {
		n_xevents = ps[k].n_x; n_pevents = ps[k].n_p; use_xevents = 0;
		classify_long();
		if (vf_verbose)
			for (i = 0; i < n_blk; i++)
				vf_log("%s stream %d %s strict=%d quirk=%d cbf=%d fired=%d zone=%d rst_cut=%d rst_hit=%d\n", iface, k, describe(i),
				       blk[i].strict, blk[i].quirk, blk[i].cbf, blk[i].fired, blk[i].cbf_zone, blk[i].rst_cut, blk[i].rst_hit);
		evaluate(iface, ps[k].kinds & ~16);
	}
}

/* vbi_pfc_demux_reset() of the current stream's context right before wire packet wi is fed (quirk_only: the
 * receiver of the open finding resets itself there, see use_xevents: 1 unreadable packet, 2 header of another
 * magazine in parallel transmission) */
static void mark_reset(int k, int wi, int quirk_only)
{
	int j, P, Pend;
	for (j = wi; j < n_wp; j++) if (wp[j].type != W_FOREIGN && wp[j].strm == k) break;
	if (j >= n_wp) return;
	if (wp[j].type == W_HDR) {
		if (quirk_only == 2) return;    /* the page of this stream is complete: a foreign header changes nothing */
		if (quirk_only) pg[wp[j].idx].qrst_before |= quirk_only; else pg[wp[j].idx].rst_before = 1;
		P = pg[wp[j].idx].first; Pend = P - 1;
	} else {
		P = wp[j].idx; Pend = pg[dp[P].page].first + pg[dp[P].page].n - 1;
		if (quirk_only) dp[P].qrst |= quirk_only; else dp[P].rst = 1;
	}
	for (j = 0; j < n_blk; j++) {
		if (quirk_only) {
			if (blk[j].first_pkt < P && blk[j].last_pkt >= P) blk[j].qrst_cut |= quirk_only;
			continue;
		}
		if (blk[j].first_pkt < P && blk[j].last_pkt >= P) { if (!blk[j].rst_cut) ps[k].ncut++; blk[j].rst_cut = blk[j].rst_hit = 1; }
		if (blk[j].first_pkt <= Pend && blk[j].last_pkt >= P) blk[j].rst_hit = 1;
	}
}

static void start_pass(int k)
{
	int i;
	ps[k].dx = vbi_pfc_demux_new(ps[k].pgno, (unsigned)ps[k].stream, pfc_long_cb, &ps[k]);
	ps[k].cb_cursor = 0; ps[k].cbf_now = -1;
	for (i = 0; i < ps[k].n_blk; i++) blk_st[k][i].fired = 0;
}

static void do_pfc_resets(int k, int wi)
{
	int i;
	for (i = 0; i < ps[k].n_reset; i++)
		if (ps[k].reset_at[i] == wi) { vf_log("stream %d: reset before wire %d\n", k, wi); vbi_pfc_demux_reset(ps[k].dx); }
}

static int reset_here(int nstr, int wi)
{
	int k, i;
	for (k = 0; k < nstr; k++)
		for (i = 0; i < ps[k].n_reset; i++)
			if (ps[k].reset_at[i] == wi) return 1;
	return 0;
}

int c15_pfc_long_case(struct vf_rng *r, long idx)
{
	int nstr, k, i, p, g, nf, kinds = 0, multi = 0, tot_blk = 0, tot_reset = 0, tot_cut = 0, tot_cbf = 0, tot_fired = 0, any_span = 0;
	int deliv_after_fault = 0, tot_deliv = 0, ret = 1, nfault = 0, par = 0;
	char why[200];
	uint8_t *pk = NULL;
	(void)idx;

	if (!wp) wp = malloc(sizeof *wp * MAXWIRE);
	for (k = 0; k < 2; k++) {
		if (!ps[k].dp) ps[k].dp = (k == 0 && dp) ? dp : malloc(sizeof *dp * MAXPKT);
		if (!ps[k].dpwire) ps[k].dpwire = malloc(sizeof(int) * MAXPKT);
		if (!ps[k].dp || !ps[k].dpwire || !wp) { vf_fail("harness:alloc", "malloc"); return 0; }
		ps[k].n_blk = ps[k].n_dp = ps[k].n_pg = ps[k].n_got = 0;
		ps[k].alias = ps[k].kinds = ps[k].n_reset = 0;
	}
	nstr = vf_chance(r, 1, 2) ? 2 : 1;
	ps[0].pgno = vf_range(r, 1, 8) << 8 | (int)vf_below(r, 255);
	ps[0].stream = (int)vf_below(r, 16);
	if (nstr == 2) {
		switch (vf_below(r, 3)) {
		case 0: ps[1].pgno = ps[0].pgno; ps[1].stream = (ps[0].stream + 1 + (int)vf_below(r, 15)) & 15; break;      /* same page, other stream */
		case 1: ps[1].stream = vf_chance(r, 1, 2) ? ps[0].stream : (int)vf_below(r, 16);                              /* other page of the magazine */
			ps[1].pgno = (ps[0].pgno & 0xF00) | ((ps[0].pgno + 1 + (int)vf_below(r, 254)) & 0xFF);
			if (ps[1].pgno == ps[0].pgno || (ps[1].pgno & 0xFF) == 0xFF) ps[1].pgno = ps[0].pgno ^ 1;
			break;
		default: ps[1].stream = vf_chance(r, 1, 2) ? ps[0].stream : (int)vf_below(r, 16);                             /* other magazine */
			ps[1].pgno = (((ps[0].pgno >> 8) + (int)vf_below(r, 7)) % 8 + 1) << 8 | (vf_chance(r, 1, 2) ? (ps[0].pgno & 0xFF) : (int)vf_below(r, 255));
			if ((ps[1].pgno & 0xF00) == (ps[0].pgno & 0xF00)) ps[1].pgno = ps[0].pgno ^ 1;
		}
	}

	/* blocks and pages of each stream */
	for (k = 0; k < nstr; k++) {
		int base = (int)vf_below(r, 32), tot = 0, budget, ci;
		use_stream(k);
		n_blk = k == 0 ? vf_range(r, 30, vf_chance(r, 1, 3) ? 200 : 80) : vf_range(r, 5, 60);
		budget = vf_chance(r, 1, 4) ? 9000 : 3000;
		n_dp = 0; new_packet();
		for (i = 0; i < n_blk; i++) {
			struct blk *b = &blk[i];
			int fill, after_sh;
			memset(b, 0, sizeof *b);
			b->app = (base + i) & 31;
			switch (vf_below(r, 8)) {
			case 0: case 1: fill = 0; break;
			case 2: fill = vf_range(r, 1, 5); break;
			case 3: fill = (39 - cur_o) % 39; break;
			case 4: fill = ((35 + (int)vf_below(r, 4)) - cur_o + 39) % 39; break;
			case 5: fill = (38 - cur_o + 39) % 39; break;
			default: fill = vf_range(r, 0, 45);
			}
			if (n_dp > MAXPKT - 80) fill = 0;
			while (fill-- > 0) put_filler();
			after_sh = (cur_o % 39 + ((dp[cur_p].bp == 13 && cur_o % 3) ? 3 - cur_o % 3 : 0) + 5) % 39;
			switch (vf_below(r, 12)) {
			case 0: b->size = vf_range(r, 0, 3); break;
			case 1: b->size = (39 - after_sh) % 39 + 39 * (int)vf_below(r, 3); break;
			case 2: b->size = (39 - after_sh + vf_range(r, -2, 2) + 39) % 39 + 39 * (int)vf_below(r, 2); break;
			case 3: b->size = vf_chance(r, 1, 8) ? vf_range(r, 200, 2047) : vf_range(r, 35, 200); break;
			default: b->size = vf_range(r, 1, 40);
			}
			if (tot + b->size > budget || n_dp > MAXPKT - 80) b->size = vf_range(r, 0, 12);
			b->cbf = vf_chance(r, 1, 50);
			if (b->cbf && b->size < 8) b->size = 8 + (int)vf_below(r, 8);
			tot += b->size;
			b->data = malloc((size_t)b->size + 1);
			if (!b->data) { vf_fail("harness:alloc", "malloc"); n_blk = i; ret = 0; goto out; }
			vf_bytes(r, b->data, (size_t)b->size);
			if (!b->cbf && vf_chance(r, 1, 4)) {
				int q;
				for (q = 0; q < b->size; q++) b->data[q] = c15_ham84(vf_chance(r, 1, 2) ? 0xC : vf_chance(r, 1, 2) ? 3 : vf_below(r, 16));
			}
			{       /* application ids repeat every 32 blocks: no two blocks with the same id may look alike, or a
				   delivery could not be attributed (1 byte blocks: 1 in 256 would) */
				int q, again;
				do {
					again = 0;
					for (q = i - 32; q >= 0 && b->size > 0; q -= 32)
						if (blk[q].size == b->size && !memcmp(blk[q].data, b->data, (size_t)b->size)) { b->data[0] = (uint8_t)(b->data[0] + 1); again = 1; }
				} while (again);
			}
			lay_block(i);
			tot_cbf += b->cbf;
		}
		{
			int extra = vf_chance(r, 1, 4) ? vf_range(r, 1, 3) * 39 : 0;
			while (cur_o < 39) put_filler();
			while (extra-- > 0) put_filler();
		}
		if (!ref_parse(why, sizeof why)) {
			vf_fail("selfcheck:C15:pfc-parser-vs-packetiser", "long stream: %s", why);
			ret = 0; goto out;
		}
		n_pg = 0; ci = (int)vf_below(r, 16);
		for (p = 0; p < n_dp; ) {
			int n;
			switch (vf_below(r, 4)) {
			case 0: n = 25; break;
			case 1: n = vf_range(r, 1, 3); break;
			default: n = vf_range(r, 1, 25);
			}
			if (n > n_dp - p) n = n_dp - p;
			memset(&pg[n_pg], 0, sizeof pg[0]);
			pg[n_pg].first = p; pg[n_pg].n = n; pg[n_pg].ci = (ci + n_pg) & 15;
			for (i = 0; i < n; i++) { dp[p + i].page = n_pg; dp[p + i].row = i + 1; }
			n_pg++; p += n;
		}
		for (i = 0; i < n_blk; i++) if (dp[blk[i].first_pkt].page != dp[blk[i].last_pkt].page) any_span = 1;
		tot_blk += n_blk;
	}
	use_stream(0);

	/* Parallel transmission (every page header says C11 = 0): a page ends with the next header of its own
	   magazine, so pages of different magazines are sent row by row at the same time */
	par = nstr == 2 && ((ps[0].pgno ^ ps[1].pgno) & 0xF00) && vf_chance(r, 1, 2);
	hdr_c11 = par ? 0 : -1;
	if (par) {
		int gi[2] = { 0, 0 }, ri[2] = { -1, -1 };
		n_wp = 0;
		for (;;) {
			int left0 = (ps[0].n_pg - gi[0]) + (ps[0].n_dp - (gi[0] < ps[0].n_pg ? pg_st[0][gi[0]].first + (ri[0] < 0 ? 0 : ri[0]) : ps[0].n_dp));
			int left1 = (ps[1].n_pg - gi[1]) + (ps[1].n_dp - (gi[1] < ps[1].n_pg ? pg_st[1][gi[1]].first + (ri[1] < 0 ? 0 : ri[1]) : ps[1].n_dp));
			int o, xmag;
			struct wpk *w;
			if (left0 + left1 <= 0) break;
			k = (int)vf_below(r, (unsigned)(left0 + left1)) < left0 ? 0 : 1;
			if (gi[k] >= ps[k].n_pg) k = 1 - k;
			o = 1 - k;
			xmag = (ps[o].pgno >> 8) & 7;
			use_stream(k);
			g = gi[k];
			if (ri[k] < 0) {
				while (vf_chance(r, 1, 5)) decoy_page_x(r, ps[k].pgno, ps[k].stream, -1, -1);
				while (vf_chance(r, 1, 4)) noise_x(r, ps[k].pgno, 0, xmag);
				if ((w = push(W_HDR, g))) { w->strm = k; make_header(r, w->b, ps[k].pgno, ps[k].stream, pg[g].ci, pg[g].n); }
				ri[k] = 0;
			} else {
				p = pg[g].first + ri[k];
				while (vf_chance(r, 1, 6)) noise_x(r, ps[k].pgno, 1, xmag);
				if ((w = push(W_DATA, p))) { w->strm = k; make_data(w->b, ps[k].pgno, dp[p].row, dp[p].bp, dp[p].d); }
				if (++ri[k] >= pg[g].n) { gi[k]++; ri[k] = -1; }
			}
		}
	} else {
		int gi[2] = { 0, 0 };
		n_wp = 0;
		for (;;) {
			int left0 = ps[0].n_pg - gi[0], left1 = nstr == 2 ? ps[1].n_pg - gi[1] : 0, o, xmag;
			struct wpk *w;
			if (left0 + left1 == 0) break;
			k = (int)vf_below(r, (unsigned)(left0 + left1)) < left0 ? 0 : 1;
			o = 1 - k;
			xmag = (nstr == 2 && ((ps[o].pgno ^ ps[k].pgno) & 0xF00)) ? (ps[o].pgno >> 8) & 7 : -1;
			use_stream(k);
			g = gi[k]++;
			while (vf_chance(r, 1, 5)) decoy_page_x(r, ps[k].pgno, ps[k].stream, nstr == 2 ? ps[o].pgno : -1, nstr == 2 ? ps[o].stream : -1);
			while (vf_chance(r, 1, 4)) noise_x(r, ps[k].pgno, 0, xmag);
			if ((w = push(W_HDR, g))) { w->strm = k; make_header(r, w->b, ps[k].pgno, ps[k].stream, pg[g].ci, pg[g].n); }
			for (p = pg[g].first; p < pg[g].first + pg[g].n; p++) {
				while (vf_chance(r, 1, 6)) noise_x(r, ps[k].pgno, 1, xmag);
				if ((w = push(W_DATA, p))) { w->strm = k; make_data(w->b, ps[k].pgno, dp[p].row, dp[p].bp, dp[p].d); }
			}
		}
		while (vf_chance(r, 1, 3)) decoy_page_x(r, ps[0].pgno, ps[0].stream, nstr == 2 ? ps[1].pgno : -1, nstr == 2 ? ps[1].stream : -1);
	}
	if (n_wp >= MAXWIRE) { ret = 0; goto out; }       /* does not happen with the sizes above */

	/* several independent faults */
	nf = vf_chance(r, 1, 5) ? 0 : vf_range(r, 1, 8);
	for (i = 0; i < nf; i++) {
		int wi, tries = 0, kk = 0;
		if (n_wp <= 0) break;
		do wi = (int)vf_below(r, (unsigned)n_wp); while ((wp[wi].type == W_FOREIGN || wp[wi].touched) && ++tries < 100);
		if (wp[wi].type == W_FOREIGN || wp[wi].touched) break;
		k = wp[wi].strm;
		use_stream(k);
		apply_fault(r, wi, &kk);
		ps[k].kinds |= kk; kinds |= kk; nfault++;
	}

	/* Two streams in one magazine: rows belong to the last page header of their magazine, so the rows of a page
	   whose header is lost would be rows of the other stream's page to every receiver.  There the whole page is
	   lost with its header (header loss with the rows present: one stream, or two in different magazines). */
	if (nstr == 2 && !((ps[0].pgno ^ ps[1].pgno) & 0xF00))
		for (k = 0; k < 2; k++) {
			use_stream(k);
			for (g = 0; g < n_pg; g++) {
				if (!pg[g].hdr_killed) continue;
				for (i = 0; i < n_wp; )
					if (wp[i].type == W_DATA && wp[i].strm == k && dp[wp[i].idx].page == g) {
						dp[wp[i].idx].killed = dp[wp[i].idx].dropped = 1;
						memmove(&wp[i], &wp[i + 1], sizeof wp[0] * (size_t)(n_wp - i - 1)); n_wp--;
					} else
						i++;
			}
		}
	/* per stream: where the packets are, what cannot be judged, resets */
	for (k = 0; k < nstr; k++) {
		use_stream(k);
		for (p = 0; p < n_dp; p++) ps[k].dpwire[p] = -1;
		for (i = 0; i < n_wp; i++) if (wp[i].type == W_DATA && wp[i].strm == k) ps[k].dpwire[wp[i].idx] = i;
		for (g = 1; g < n_pg; g++)
			if (pg[g].hdr_killed && !pg[g - 1].hdr_killed) {
				int m = 0, f = 0;
				for (p = pg[g - 1].first; p < pg[g - 1].first + pg[g - 1].n; p++) if (!dp[p].dropped) m = dp[p].row;
				for (p = pg[g].first + pg[g].n - 1; p >= pg[g].first; p--) if (!dp[p].dropped) f = dp[p].row;
				if (f == m + 1 && f <= pg[g - 1].n) ps[k].alias = 1;
			}
		for (i = 0; i < n_wp; i++)
			if (wp[i].type == W_DATA && wp[i].strm == k && wp[i].idx > 0) {
				struct dpkt *q = &dp[wp[i].idx], *q0 = q - 1;
				if (q0->err_off >= 0 && q0->kind[q0->err_off] == K_SH && q->kind[0] == K_SH && q->owner[0] == q0->owner[q0->err_off])
					wp[i].may_false = 1;
			}
		ps[k].n_reset = vf_chance(r, 1, 2) ? 0 : vf_range(r, 1, 3);
		ps[k].ncut = 0;
		for (i = 0; i < ps[k].n_reset; i++) {
			ps[k].reset_at[i] = vf_range(r, 1, n_wp - 1);
			mark_reset(k, ps[k].reset_at[i], 0);
		}
		/* packets of the other stream that this receiver cannot tell from its own (see use_xevents) */
		ps[k].n_x = 0;
		for (i = 0; i < n_wp; i++)
			if (wp[i].damaged && wp[i].type != W_FOREIGN && wp[i].strm != k) {
				int x = c15_unham84(wp[i].b[0]) < 0 || c15_unham84(wp[i].b[1]) < 0;
				if (wp[i].type == W_HDR) {
					x |= c15_unham84(wp[i].b[2]) < 0 || c15_unham84(wp[i].b[3]) < 0;
					if (ps[wp[i].strm].pgno == ps[k].pgno)
						x |= c15_unham84(wp[i].b[4]) < 0 || c15_unham84(wp[i].b[5]) < 0 || c15_unham84(wp[i].b[6]) < 0 || c15_unham84(wp[i].b[7]) < 0;
				}
				if (x) { mark_reset(k, i + 1, 1); ps[k].n_x++; }
			}
		/* parallel transmission: page headers of other magazines (the other stream's, decoys) */
		ps[k].n_p = 0;
		if (par)
			for (i = 0; i < n_wp; i++) {
				int a0 = c15_unham84(wp[i].b[0]), a1 = c15_unham84(wp[i].b[1]);
				if (a0 < 0 || a1 < 0 || (a0 >> 3) != 0 || a1 != 0) continue;          /* not a readable row 0 */
				if ((a0 & 7) == ((ps[k].pgno >> 8) & 7)) continue;
				mark_reset(k, i + 1, 2); ps[k].n_p++;
			}
		tot_reset += ps[k].n_reset; tot_cut += ps[k].ncut;
	}
	use_stream(0);

	if (vf_verbose) {
		for (k = 0; k < nstr; k++) {
			use_stream(k);
			vf_log("stream %d: page %x stream %d, %d blocks, %d packets, %d pages, alias=%d\n", k, ps[k].pgno, ps[k].stream, n_blk, n_dp, n_pg, ps[k].alias);
			for (g = 0; g < n_pg; g++) vf_log(" page %d: packets %d..%d ci=%d hdr_killed=%d rst_before=%d\n", g, pg[g].first, pg[g].first + pg[g].n - 1, pg[g].ci, pg[g].hdr_killed, pg[g].rst_before);
			for (p = 0; p < n_dp; p++) if (dp[p].killed || dp[p].err_off >= 0 || dp[p].rst) vf_log(" packet %d (page %d row %d) killed=%d err_off=%d rst=%d\n", p, dp[p].page, dp[p].row, dp[p].killed, dp[p].err_off, dp[p].rst);
		}
		use_stream(0);
		for (i = 0; i < n_wp; i++)
			vf_log("wire %d: %s strm=%d idx=%d%s%s %s\n", i, wp[i].type == W_HDR ? "HDR" : wp[i].type == W_DATA ? "DATA" : "foreign", wp[i].strm, wp[i].idx,
			       wp[i].damaged ? " damaged" : "", wp[i].may_false ? " may_false" : "", vf_hex(wp[i].b, 42));
	}
	vf_sample("pfc-long %d stream(s): page %x stream %d: %d blocks in %d packets / %d pages%s, wire %d, %d faults 0x%x, resets %d, callbacks to return FALSE %d",
		  nstr, ps[0].pgno, ps[0].stream, ps[0].n_blk, ps[0].n_dp, ps[0].n_pg, nstr == 2 ? " + second stream" : "", n_wp, nfault, kinds, tot_reset, tot_cbf);

	/* 1. frame interface: several rows of a page per call, lines of other services in between; a call ends
	 *    before a reset and after a packet for which FALSE may come back (feed_frame stops there) */
	vf_phase("vbi_pfc_demux_feed_frame");
	for (k = 0; k < nstr; k++) {
		start_pass(k);
		if (!ps[k].dx) { vf_fail("harness:alloc", "vbi_pfc_demux_new failed"); ret = 0; goto out; }
	}
	for (i = 0; i < n_wp; ) {
		vbi_sliced sl[24];
		int map[24], n = 0, nt = 0, want = vf_range(r, 1, 9), clean = 1, first = i, rows[2] = { 0, 0 };
		memset(sl, 0, sizeof sl);
		for (k = 0; k < nstr; k++) do_pfc_resets(k, i);
		if (vf_chance(r, 1, 2)) { sl[n].id = VBI_SLICED_WSS_625; sl[n].line = 23; map[n++] = -1; }
		while (i < n_wp && nt < want) {
			if (nt > 0 && reset_here(nstr, i)) break;
			if (vf_chance(r, 1, 6)) { sl[n].id = VBI_SLICED_CAPTION_625; sl[n].line = 22; sl[n].data[0] = 0x80; sl[n].data[1] = 0x80; map[n++] = -1; }
			sl[n].id = (i & 1) ? VBI_SLICED_TELETEXT_B : VBI_SLICED_TELETEXT_B_L10_625;
			sl[n].line = (uint32_t)(6 + nt);
			memcpy(sl[n].data, wp[i].b, 42);
			map[n++] = i; nt++;
			if (wp[i].type == W_DATA) rows[wp[i].strm]++;
			i++;
			if (wp[i - 1].damaged || wp[i - 1].may_false) { clean = 0; break; }
		}
		if (vf_chance(r, 1, 3)) { sl[n].id = VBI_SLICED_VPS; sl[n].line = 16; memset(sl[n].data, 0x55, 13); map[n++] = -1; }
		if (rows[0] > 1 || rows[1] > 1) multi++;
		for (k = 0; k < nstr; k++) {
			const vbi_sliced *s2 = sl;
			const int *m2 = map;
			int n2 = n;
			while (n2 > 0) {
				vbi_bool ok;
				ps[k].cbf_now = -1;
				ok = vbi_pfc_demux_feed_frame(ps[k].dx, s2, (unsigned)n2);
				if (ps[k].cbf_now >= 0) {
					int wi = ps[k].dpwire[blk_st[k][ps[k].cbf_now].last_pkt], j;
					if (ok) {
						vf_fail("model:C15:pfc:cb-false-not-propagated", "feed_frame returned TRUE although the callback returned FALSE for block %d (completed by wire packet %d)", ps[k].cbf_now, wi);
						break;
					}
					for (j = 0; j < n2 && m2[j] != wi; j++) ;
					j++;
					s2 += j; m2 += j; n2 -= j;      /* the library stops at that line: feed the rest */
					continue;
				}
				if (clean && !ok && !ps[k].alias)
					vf_fail("model:C15:pfc:feed-false-on-good-packet", "long stream: context %d: feed_frame returned FALSE for wire packets %d..%d which carry no uncorrectable error", k, first, i - 1);
				break;
			}
		}
	}
	for (k = 0; k < nstr; k++) {
		judge_long(k, "feed_frame");
		free_got_k(k);
		vbi_pfc_demux_delete(ps[k].dx);
	}

	/* 2. packet interface, exact 42 byte heap buffer, every context sees every packet */
	vf_phase("vbi_pfc_demux_feed");
	pk = malloc(42);
	if (!pk) { vf_fail("harness:alloc", "malloc"); ret = 0; goto out; }
	for (k = 0; k < nstr; k++) {
		start_pass(k);
		if (!ps[k].dx) { vf_fail("harness:alloc", "vbi_pfc_demux_new failed"); ret = 0; goto out; }
	}
	for (i = 0; i < n_wp; i++)
		for (k = 0; k < nstr; k++) {
			vbi_bool ok;
			do_pfc_resets(k, i);
			memcpy(pk, wp[i].b, 42);
			ps[k].cbf_now = -1;
			ok = vbi_pfc_demux_feed(ps[k].dx, pk);
			if (ps[k].cbf_now >= 0) {
				if (ok) vf_fail("model:C15:pfc:cb-false-not-propagated", "feed returned TRUE for wire packet %d although the callback returned FALSE for block %d", i, ps[k].cbf_now);
			} else if (!ok && !wp[i].damaged && !wp[i].may_false && !ps[k].alias)
				vf_fail("model:C15:pfc:feed-false-on-good-packet", "long stream: context %d: feed returned FALSE for wire packet %d %s which carries no uncorrectable error", k, i, vf_hex(pk, 42));
		}
	for (k = 0; k < nstr; k++) {
		int firstfault = -1;
		judge_long(k, "feed");
		if (ps[k].alias) vf_count("pfc_long_not_judged_undetectable_header_loss", 1);
		for (p = 0; p < n_dp && firstfault < 0; p++)
			if (dp[p].killed || dp[p].err_off >= 0 || dp[p].cbf_after) firstfault = p;
		for (i = 0; i < n_blk; i++) {
			tot_deliv += blk[i].ndeliv;
			if (firstfault >= 0 && blk[i].first_pkt > firstfault) deliv_after_fault += blk[i].ndeliv;
		}
		tot_fired += ps[k].nfired;
		free_got_k(k);
		vbi_pfc_demux_delete(ps[k].dx);
	}

	vf_count("pfc_long_streams", nstr);
	vf_count("pfc_long_blocks_sent", tot_blk);
	vf_count("pfc_long_blocks_delivered", tot_deliv);
	vf_count("pfc_long_blocks_delivered_after_a_fault", deliv_after_fault);
	vf_count("pfc_long_pages", ps[0].n_pg + (nstr == 2 ? ps[1].n_pg : 0));
	vf_count("pfc_long_packets_fed", n_wp);
	vf_count("pfc_long_faults", nfault);
	vf_count("pfc_long_resets", tot_reset);
	vf_count("pfc_long_reset_with_block_in_progress", tot_cut);
	vf_count("pfc_long_callback_false", tot_fired);
	vf_count("pfc_long_frames_with_several_rows", multi);
	if (nstr == 2) vf_count("pfc_long_two_contexts", 1);
	if (par) vf_count("pfc_long_parallel_transmission", 1);
	if (any_span) vf_count("pfc_long_block_spans_pages", 1);
	vf_sig("pfc-long blocks=%s two=%d par=%d drop=%d hdr=%d hamm=%d nf=%s reset=%s cbf=%d", tot_blk < 60 ? "<60" : tot_blk < 120 ? "<120" : "120+", nstr == 2, par,
	       !!(kinds & 1), !!(kinds & 2), !!(kinds & (4 | 8)), nfault == 0 ? "0" : nfault < 3 ? "1-2" : "3+",
	       tot_cut ? "in-block" : tot_reset ? "between" : "none", tot_fired ? 1 : 0);
out:
	hdr_c11 = -1;
	free(pk);
	for (k = 0; k < 2; k++) {
		use_stream(k);
		for (i = 0; i < n_blk; i++) { free(blk[i].data); blk[i].data = NULL; }
		free_got_k(k);
		n_blk = 0;
	}
	use_stream(0);
	return ret;
}

void c15_pfc_selftest(void)
{
	/* hand vector: one block, app 5, 3 bytes "abc", at offset 0: BP=0, separator 0xA1, SH = 5 | 3<<5 = 0x0065 -> nibbles 5,6,0,0 */
	static uint8_t abc[3] = { 'a', 'b', 'c' };
	static const uint8_t want[8] = { 0xA1, 0x73, 0x38, 0x15, 0x15, 'a', 'b', 'c' };
	char why[200];
	if (!dp) dp = malloc(sizeof *dp * MAXPKT);
	if (!dp) { vf_fail("harness:alloc", "malloc"); return; }
	n_blk = 1; memset(&blk[0], 0, sizeof blk[0]);
	blk[0].app = 5; blk[0].size = 3; blk[0].data = abc;
	n_dp = 0; new_packet();
	lay_block(0);
	while (cur_o < 39) put_filler();
	if (n_dp != 1 || dp[0].bp != 0 || memcmp(dp[0].d, want, 8) || dp[0].d[8] != 0x5E || dp[0].d[38] != 0x5E)
		vf_fail("selftest:C15:pfc", "hand block laid out as %s", vf_hex(dp[0].d, 12));
	if (!ref_parse(why, sizeof why)) vf_fail("selftest:C15:pfc", "reference parser rejects the hand vector: %s", why);
	dp[0].bp = 1;
	if (ref_parse(why, sizeof why)) vf_fail("selftest:C15:pfc", "reference parser accepts a wrong block pointer");
	dp[0].bp = 0; dp[0].d[6] = 'x';
	if (ref_parse(why, sizeof why)) vf_fail("selftest:C15:pfc", "reference parser accepts a changed data byte");
	blk[0].data = NULL; n_blk = 0;
}
