/* C10, decoder-driven job - the cache's bookkeeping stays exact while the real
 * Teletext decoder is its client.
 *
 * harness/c10_cache.c drives cache.c through its internal API with a reference
 * map.  This harness looks at the same structures from the other side: the
 * clients of the cache inside the library (packet.c store_lop / parse_btt /
 * parse_mip / page-type updates, teletext.c TOP, MOT, POP, DRCS and navigation
 * look-ups, search.c, vbi.c channel switches) are driven by a generated
 * Teletext transmission (the C01 station generator: pages of every function,
 * BTT/AIT/MPT/MOT/MIP, POP/GPOP/DRCS, subpages, clock subcodes, optionally
 * mutated), and after EVERY public call (vbi_decode of one frame, fetch,
 * title, classify, search, channel switch) the harness walks vbi->ca itself:
 *
 *   S  structure: networks / 113 hash chains / priority / referenced rings
 *      closed, each page on exactly the lists its state requires, right hash
 *      chain, zombie <=> off the chains, counters (cache and per network
 *      n_cached_pages, n_referenced_pages, _pages[].n_subpages,
 *      n_cached_networks) equal what exists, memory_used == sum of the
 *      unreferenced page sizes and <= memory_limit;
 *   R  references are attributable: the library keeps no page reference
 *      across calls (every _vbi_cache_get_page/_put_page in packet.c,
 *      teletext.c, vbi.c is paired with an unref before the call returns), so
 *      after each call every page's ref_count equals the number of references
 *      THIS harness holds on it, the referenced list holds exactly those
 *      pages, and the current network's ref_count is 1 (the decoder's) plus
 *      nothing;
 *   H  a page held by the harness (taken with _vbi_cache_get_page on vbi->ca)
 *      stays byte-identical until released, through replacement by newer
 *      transmissions, eviction pressure and channel switches;
 *   L  look-ups agree with the walk: a page on a hash chain of the current
 *      network is found by an exact look-up (the first such page on the chain)
 *      and by vbi_is_cached; a (pgno) absent from the chains is not found;
 *      vbi_cache_hi_subno equals the highest subno on the chain for pages with
 *      BCD subpages;  the page of a TTX_PAGE event is in the cache inside the
 *      handler;
 *   N  a channel switch (vbi_channel_switched, a timestamp gap, vbi_chsw_reset)
 *      leaves no page reachable through the new current network, and the old
 *      network's structure goes away once the harness dropped its pages;
 *   T  teardown: all harness references released, vbi_decoder_delete =>
 *      heap back at the baseline (plain flavour) / LeakSanitizer silent.
 *
 * --p0 N  stop after N frames (witness minimisation)
 */
#include "vf.h"
#include <string.h>
#include <stdlib.h>
#include <stdarg.h>

#include "site_def.h"
#ifdef HAVE_CONFIG_H
#  include "config.h"
#endif
#include "version.h"
#include "event.h"
#include "cache-priv.h"
#include "vbi.h"
#include "search.h"

#include "c01_ttx.h"

int c01_station_pgno(struct vf_rng *r) { return st_any_pgno(r); }

/* ------------------------------------------------------------------------ */

static vbi_decoder *dec;
static vbi_cache *ca;
static int failed;
static long frame_no;
static char last_call[96];

static void report(const char *key, const char *fmt, ...) __attribute__((format(printf, 2, 3)));
static void report(const char *key, const char *fmt, ...)
{
	char b[700];
	va_list ap;
	va_start(ap, fmt);
	vsnprintf(b, sizeof b, fmt, ap);
	va_end(ap);
	vf_fail(key, "frame %ld, after %s: %s", frame_no, last_call, b);
	failed = 1;
}
#define FAIL(key, ...) do { report(key, __VA_ARGS__); } while (0)

enum { C_FRAMES, C_LINES, C_AUDITS, C_AUDIT_PAGES, C_HOLDS, C_HOLD_MISS, C_RELEASES, C_INTACT, C_HELD_REPLACED, C_HELD_ACROSS_CHSW,
       C_CHSW, C_CHSW_GAP, C_CHSW_API, C_CHSW_DIRECT, C_FETCH, C_FETCH_OK, C_TITLE, C_CLASSIFY, C_SEARCH, C_LOOKUP_CHK, C_ABSENT_CHK, C_HI_CHK,
       C_EV_PAGE, C_EV_PAGE_CHK, C_TEARDOWN_HEAP, C_TEARDOWN_LSAN, C_EVICT_PRESSURE, C_PTYPE_SUBT, C_BTT_ROUNDS, C_ZOMBIES_SEEN, C_MAXREFD, C_OLDNET_GONE, C_RELABEL, N_C };
static const char *const cname[N_C] = { "dec_frames", "dec_ttx_lines", "dec_structural_audits", "dec_pages_walked", "dec_holds", "dec_hold_misses", "dec_releases",
	"dec_held_intact_checks", "dec_held_pages_replaced", "dec_pages_held_across_channel_switch", "dec_channel_switches", "dec_chsw_by_time_gap", "dec_chsw_by_api",
	"dec_chsw_direct", "dec_fetches", "dec_fetches_ok", "dec_titles", "dec_classifies", "dec_searches", "dec_lookup_checks", "dec_absent_checks", "dec_hi_subno_checks",
	"dec_page_events", "dec_page_event_checks", "dec_teardown_heap_checks", "dec_teardown_leak_checks", "dec_frames_under_memory_pressure",
	"dec_subtitle_pages_by_btt", "dec_btt_transmissions", "dec_zombie_pages_seen", "dec_max_referenced", "dec_old_network_released", "dec_held_pages_relabelled_in_place" };
static long cnt[N_C];
static void flush_counts(void)
{
	int i;
	for (i = 0; i < N_C; i++) if (cnt[i]) { if (i == C_MAXREFD) continue; vf_count(cname[i], cnt[i]); cnt[i] = 0; }
}

/* ------------------------------------------------------------------------ */
/* references the harness holds                                               */

#define MAXHELD 12
struct held {
	cache_page *cp;
	cache_network *cn;
	unsigned size;
	int replaced;       /* seen as zombie */
	int crossed;        /* held across a channel switch */
	uint8_t copy[sizeof(cache_page)];
};
static struct held held[MAXHELD];
static int n_held;

#define BODY_OFF ((unsigned)offsetof(cache_page, function))

static unsigned held_refs(const cache_page *cp)
{
	unsigned n = 0; int i;
	for (i = 0; i < n_held; i++) if (held[i].cp == cp) n++;
	return n;
}

/* ------------------------------------------------------------------------ */
/* the walk                                                                   */

#define MAXP  8192
#define PH    16384
#define MAXLN 16
struct seen { cache_page *cp; int net; unsigned f; };   /* f: 1 hash, 2 priority, 4 referenced, 8 zombie */
static struct seen sp[MAXP];
static int n_sp;
static struct { unsigned gen; int idx; } ph[PH];
static unsigned ph_gen;
static cache_network *lnet[MAXLN];
static int n_lnet;

static unsigned ptr_hash(const void *p) { uintptr_t v = (uintptr_t)p; return (unsigned)((v >> 4) * 2654435761u) >> 18; }
static int sp_find(const cache_page *cp)
{
	unsigned h = ptr_hash(cp) & (PH - 1);
	while (ph[h].gen == ph_gen) { if (sp[ph[h].idx].cp == cp) return ph[h].idx; h = (h + 1) & (PH - 1); }
	return -1;
}
static int sp_add(cache_page *cp, unsigned f)
{
	unsigned h = ptr_hash(cp) & (PH - 1);
	if (n_sp >= MAXP) return -1;
	while (ph[h].gen == ph_gen) h = (h + 1) & (PH - 1);
	ph[h].gen = ph_gen; ph[h].idx = n_sp;
	sp[n_sp].cp = cp; sp[n_sp].f = f; sp[n_sp].net = -1;
	return n_sp++;
}
static int lnet_find(const cache_network *cn) { int i; for (i = 0; i < n_lnet; i++) if (lnet[i] == cn) return i; return -1; }

static int ring_ok(const struct node *l, const char *what, int bound)
{
	const struct node *n = l;
	int k = 0;
	do {
		const struct node *s = n->_succ;
		if (!s || s->_pred != n) { FAIL("model:C10:audit:list-corrupt", "%s list: node %d: successor does not point back (dlist ring broken)", what, k); return 0; }
		n = s;
		if (++k > bound + 2) { FAIL("model:C10:audit:list-corrupt", "%s list: more than %d nodes", what, bound); return 0; }
	} while (n != l);
	return 1;
}

static int audit(void)
{
	cache_network *cn;
	cache_page *cp;
	const struct node *n;
	unsigned long mem = 0;
	unsigned h;
	int i, k, nz = 0, n_hash, n_refd = 0, n_zombie = 0, bound;
	static uint16_t per[0x800];

	if (failed) return 0;
	cnt[C_AUDITS]++;
	ph_gen++; n_sp = 0; n_lnet = 0;
	bound = (int)ca->n_cached_pages + 64;

	if (!ring_ok(&ca->networks, "networks", MAXLN)) return 0;
	for (n = ca->networks._succ; n != &ca->networks; n = n->_succ) {
		cn = PARENT((struct node *)n, cache_network, node);
		if (n_lnet >= MAXLN) { FAIL("model:C10:decoder:too-many-networks", "more than %d network structures on the list (n_networks_limit %u)", MAXLN, ca->n_networks_limit); return 0; }
		lnet[n_lnet++] = cn;
		if (cn->cache != ca) { FAIL("model:C10:audit:network-cache", "network %d does not point to its cache", n_lnet - 1); return 0; }
		if (cn->zombie) {
			if (cn->ref_count == 0 && cn->n_referenced_pages == 0) { FAIL("model:C10:audit:zombie-network-unreferenced", "zombie network without references was not deleted"); return 0; }
		} else nz++;
	}
	if (ca->n_cached_networks != (unsigned)nz) { FAIL("model:C10:audit:n_cached_networks", "n_cached_networks=%u, %d non-zombie networks on the list", ca->n_cached_networks, nz); return 0; }
	if (lnet_find(dec->cn) < 0) { FAIL("model:C10:audit:network-missing", "the decoder's current network is not on the networks list"); return 0; }
	for (k = 0; k < n_lnet; k++) {
		unsigned want = lnet[k] == dec->cn ? 1u : 0u;
		if (lnet[k]->ref_count != want) {
			FAIL("model:C10:audit:network-ref_count", "network %d (%s): ref_count=%u, expected %u (the decoder holds its current network once, nobody else holds a network)",
			     k, lnet[k] == dec->cn ? "current" : "old", lnet[k]->ref_count, want);
			return 0;
		}
	}

	for (h = 0; h < HASH_SIZE; h++) {
		const struct node *l = &ca->hash[h];
		if (l->_succ == l && l->_pred == l) continue;
		if (!ring_ok(l, "hash", bound)) return 0;
		for (n = l->_succ; n != l; n = n->_succ) {
			cp = PARENT((struct node *)n, cache_page, hash_node);
			if ((unsigned)cp->pgno % HASH_SIZE != h) { FAIL("model:C10:audit:hash-chain", "page %x.%x is on hash chain %u", cp->pgno, cp->subno, h); return 0; }
			if (cp->priority == CACHE_PRI_ZOMBIE) { FAIL("model:C10:audit:zombie-on-hash-chain", "page %x.%x is marked zombie but still on its hash chain", cp->pgno, cp->subno); return 0; }
			if (sp_find(cp) >= 0) { FAIL("model:C10:audit:list-corrupt", "page %x.%x appears twice on the hash chains", cp->pgno, cp->subno); return 0; }
			i = sp_add(cp, 1);
			if (i < 0) { FAIL("harness:C10:too-many-pages", "more than %d pages", MAXP); return 0; }
			sp[i].net = lnet_find(cp->network);
			if (sp[i].net < 0) { FAIL("model:C10:audit:page-network", "page %x.%x belongs to a network that is not on the networks list", cp->pgno, cp->subno); return 0; }
		}
	}
	n_hash = n_sp;

	if (!ring_ok(&ca->priority, "priority", bound)) return 0;
	for (n = ca->priority._succ; n != &ca->priority; n = n->_succ) {
		cp = PARENT((struct node *)n, cache_page, pri_node);
		i = sp_find(cp);
		if (i < 0) { FAIL("model:C10:audit:priority-not-hashed", "a page on the priority list is on no hash chain"); return 0; }
		if (sp[i].f & 6) { FAIL("model:C10:audit:list-corrupt", "page %x.%x is twice on the priority list", cp->pgno, cp->subno); return 0; }
		sp[i].f |= 2;
		if (cp->ref_count != 0) { FAIL("model:C10:audit:referenced-on-priority", "page %x.%x has ref_count=%u but is on the priority list", cp->pgno, cp->subno, cp->ref_count); return 0; }
		if (cp->priority != CACHE_PRI_NORMAL && cp->priority != CACHE_PRI_SPECIAL) { FAIL("model:C10:audit:priority-value", "page %x.%x on the priority list has priority %d", cp->pgno, cp->subno, (int)cp->priority); return 0; }
		mem += cache_page_size(cp);
	}

	if (!ring_ok(&ca->referenced, "referenced", bound)) return 0;
	for (n = ca->referenced._succ; n != &ca->referenced; n = n->_succ) {
		cp = PARENT((struct node *)n, cache_page, pri_node);
		n_refd++;
		if (cp->ref_count == 0) { FAIL("model:C10:audit:unreferenced-on-referenced", "page %x.%x has ref_count=0 but is on the referenced list", cp->pgno, cp->subno); return 0; }
		i = sp_find(cp);
		if (cp->priority == CACHE_PRI_ZOMBIE) {
			if (i >= 0) { FAIL("model:C10:audit:zombie-on-hash-chain", "zombie page %x.%x is on a hash chain", cp->pgno, cp->subno); return 0; }
			i = sp_add(cp, 4 | 8);
			if (i < 0) { FAIL("harness:C10:too-many-pages", "more than %d pages", MAXP); return 0; }
			sp[i].net = lnet_find(cp->network);
			if (sp[i].net < 0) { FAIL("model:C10:audit:page-network", "zombie page %x.%x belongs to a network that is not on the networks list", cp->pgno, cp->subno); return 0; }
			n_zombie++;
		} else {
			if (i < 0) { FAIL("model:C10:audit:referenced-not-hashed", "referenced page %x.%x is not a zombie but on no hash chain", cp->pgno, cp->subno); return 0; }
			if (sp[i].f & 6) { FAIL("model:C10:audit:list-corrupt", "page %x.%x is on two lists", cp->pgno, cp->subno); return 0; }
			sp[i].f |= 4;
		}
		/* R: only the harness holds pages between calls */
		k = (int)held_refs(cp);
		if (cp->ref_count != (unsigned)k) {
			FAIL(k ? "model:C10:audit:page-ref_count" : "model:C10:decoder:reference-not-released",
			     "page %x.%x (function %d%s) has ref_count=%u and sits on the referenced list, the harness holds %d reference(s): a reference taken inside the library was not released before the call returned",
			     cp->pgno, cp->subno, (int)cp->function, (sp[i].f & 8) ? ", zombie" : "", cp->ref_count, k);
			return 0;
		}
	}
	for (i = 0; i < n_hash; i++)
		if (!(sp[i].f & 6)) { FAIL("model:C10:audit:page-on-no-list", "page %x.%x (ref_count %u) is on a hash chain but on neither list", sp[i].cp->pgno, sp[i].cp->subno, sp[i].cp->ref_count); return 0; }
	cnt[C_AUDIT_PAGES] += n_sp;
	cnt[C_ZOMBIES_SEEN] += n_zombie;
	if (n_refd > cnt[C_MAXREFD]) cnt[C_MAXREFD] = n_refd;

	if (ca->n_cached_pages != (unsigned)n_sp) { FAIL("model:C10:audit:n_cached_pages", "cache n_cached_pages=%u, %d pages on hash chains + %d zombies exist", ca->n_cached_pages, n_hash, n_zombie); return 0; }
	if (ca->memory_used != mem) { FAIL("model:C10:audit:memory_used", "memory_used=%lu, unreferenced pages sum to %lu (limit %lu)", ca->memory_used, mem, ca->memory_limit); return 0; }
	if (ca->memory_used > ca->memory_limit) { FAIL("model:C10:audit:memory-limit", "memory_used=%lu exceeds memory_limit=%lu", ca->memory_used, ca->memory_limit); return 0; }
	for (k = 0; k < n_lnet; k++) {
		unsigned np = 0, nr = 0;
		cn = lnet[k];
		memset(per, 0, sizeof per);
		for (i = 0; i < n_sp; i++)
			if (sp[i].net == k) {
				np++;
				if (sp[i].f & 4) nr++;
				if (sp[i].cp->pgno >= 0x100 && sp[i].cp->pgno <= 0x8FF) per[sp[i].cp->pgno - 0x100]++;
			}
		if (cn->n_cached_pages != np) { FAIL("model:C10:audit:network-n_cached_pages", "network %d: n_cached_pages=%u, %u of its pages exist", k, cn->n_cached_pages, np); return 0; }
		if (cn->n_referenced_pages != nr) { FAIL("model:C10:audit:n_referenced_pages", "network %d: n_referenced_pages=%u, %u of its pages are on the referenced list", k, cn->n_referenced_pages, nr); return 0; }
		for (i = 0; i < 0x800; i++)
			if (cn->_pages[i].n_subpages != per[i]) { FAIL("model:C10:audit:n_subpages", "network %d page %x: n_subpages=%u, %u subpages exist", k, i + 0x100, cn->_pages[i].n_subpages, per[i]); return 0; }
	}

	/* H: held pages exist and are intact */
	for (i = 0; i < n_held; i++) {
		struct held *hd = &held[i];
		int j = sp_find(hd->cp);
		if (j < 0) { FAIL("model:C10:held-page-freed", "held page %x.%x is no longer in the cache (neither on a hash chain nor a zombie on the referenced list)", ((cache_page *)hd->copy)->pgno, ((cache_page *)hd->copy)->subno); return 0; }
		if (!(sp[j].f & 4)) { FAIL("model:C10:audit:referenced-on-priority", "held page %x.%x is not on the referenced list", hd->cp->pgno, hd->cp->subno); return 0; }
		if ((sp[j].f & 8) && !hd->replaced) { hd->replaced = 1; cnt[C_HELD_REPLACED]++; }
		if (hd->cp->network != hd->cn) { FAIL("model:C10:audit:page-network", "held page %x.%x changed its network", hd->cp->pgno, hd->cp->subno); return 0; }
		cnt[C_INTACT]++;
		{
			/* The Teletext formatter re-labels pages in place where the transmission only tells later which of two
			 * functions with the same stored layout a page has (teletext.c resolve_obj_address / DRCS look-up: POP -> GPOP,
			 * DRCS -> GDRCS; vbi_convert_page: UNKNOWN -> LOP).  The stored data does not change; follow the label. */
			cache_page *c0 = (cache_page *)hd->copy;
			if (hd->cp->function != c0->function
			    && ((c0->function == PAGE_FUNCTION_POP && hd->cp->function == PAGE_FUNCTION_GPOP)
				|| (c0->function == PAGE_FUNCTION_DRCS && hd->cp->function == PAGE_FUNCTION_GDRCS)
				|| (c0->function == PAGE_FUNCTION_UNKNOWN && hd->cp->function == PAGE_FUNCTION_LOP))) {
				c0->function = hd->cp->function;
				cnt[C_RELABEL]++;
			}
		}
		if (memcmp((uint8_t *)hd->cp + BODY_OFF, hd->copy + BODY_OFF, hd->size - BODY_OFF)) {
			unsigned o = BODY_OFF;
			while (o < hd->size && ((uint8_t *)hd->cp)[o] == hd->copy[o]) o++;
			FAIL("model:C10:content-changed", "held page %x.%x (function %d, %u bytes, %s): byte at offset %u (data union starts at %u) changed from %02x to %02x while the harness held a reference (function now %d)",
			     ((cache_page *)hd->copy)->pgno, ((cache_page *)hd->copy)->subno, (int)((cache_page *)hd->copy)->function, hd->size,
			     hd->replaced ? "replaced by a newer version" : "current", o, (unsigned)offsetof(cache_page, data), hd->copy[o], ((uint8_t *)hd->cp)[o], (int)hd->cp->function);
			return 0;
		}
	}
	if (ca->memory_used + 4504 > ca->memory_limit) cnt[C_EVICT_PRESSURE]++;
	return 1;
}

/* L: look-ups against the walk (uses sp[] of the audit just done) */
static int lookup_checks(struct vf_rng *r)
{
	int tries, i, cur = lnet_find(dec->cn);
	for (tries = 0; tries < 3 && n_sp > 0; tries++) {
		struct seen *s = &sp[vf_below(r, (unsigned)n_sp)];
		cache_page *first = NULL, *got;
		const struct node *l, *n;
		int hi = -1;
		if (!(s->f & 1) || s->net != cur) continue;
		if (s->cp->pgno < 0x100 || s->cp->pgno > 0x8FF) continue;
		if (s->cp->subno == VBI_ANY_SUBNO) continue;      /* subcode 3F7F is the wildcard of the look-up interface */
		/* first page on the chain with this pgno/subno in the current network */
		l = &ca->hash[(unsigned)s->cp->pgno % HASH_SIZE];
		for (n = l->_succ; n != l; n = n->_succ) {
			cache_page *c = PARENT((struct node *)n, cache_page, hash_node);
			if (c->network != dec->cn || c->pgno != s->cp->pgno) continue;
			if (!first && c->subno == s->cp->subno) first = c;
			if (c->subno > hi) hi = c->subno;
		}
		cnt[C_LOOKUP_CHK]++;
		snprintf(last_call, sizeof last_call, "_vbi_cache_get_page(%x.%x)", s->cp->pgno, s->cp->subno);
		vf_phase("_vbi_cache_get_page");
		got = _vbi_cache_get_page(ca, dec->cn, s->cp->pgno, s->cp->subno, 0x3F7F);
		if (got != first) {
			FAIL("model:C10:decoder:lookup", "exact look-up of %x.%x returned %s (%x.%x), the first such page on the hash chain is %p", s->cp->pgno, s->cp->subno, got ? "another page" : "NULL", got ? got->pgno : 0, got ? got->subno : 0, (void *)first);
			if (got) cache_page_unref(got);
			return 0;
		}
		cache_page_unref(got);
		vf_phase("vbi_is_cached");
		if (!vbi_is_cached(dec, s->cp->pgno, s->cp->subno)) { FAIL("model:C10:is-cached", "vbi_is_cached(%x.%x) is false, the page is on its hash chain", s->cp->pgno, s->cp->subno); return 0; }
		if (!vbi_is_cached(dec, s->cp->pgno, VBI_ANY_SUBNO)) { FAIL("model:C10:is-cached", "vbi_is_cached(%x, any) is false, a subpage is on the hash chain", s->cp->pgno); return 0; }
		/* highest subpage: the statistic follows what is stored */
		if (hi >= 0) {
			int rep;
			cnt[C_HI_CHK]++;
			vf_phase("vbi_cache_hi_subno");
			rep = vbi_cache_hi_subno(dec, s->cp->pgno);
			if (rep != hi) { FAIL("model:C10:hi-subno", "vbi_cache_hi_subno(%x) = %x, the highest subpage on the hash chain is %x", s->cp->pgno, rep, hi); return 0; }
		}
	}
	/* a page number nobody transmitted */
	for (tries = 0; tries < 2; tries++) {
		int pgno = 0x100 + (int)vf_below(r, 0x7FF), present = 0;
		cache_page *got;
		if ((pgno & 0xFF) == 0xFF) continue;
		for (i = 0; i < n_sp; i++) if ((sp[i].f & 1) && sp[i].net == cur && sp[i].cp->pgno == pgno) { present = 1; break; }
		if (present) continue;
		cnt[C_ABSENT_CHK]++;
		snprintf(last_call, sizeof last_call, "_vbi_cache_get_page(%x.any)", pgno);
		got = _vbi_cache_get_page(ca, dec->cn, pgno, VBI_ANY_SUBNO, 0);
		if (got) {
			FAIL("model:C10:phantom-page", "look-up of %x (any subpage) in the current network returned page %x.%x of network %s, no such page is on the hash chains of the current network",
			     pgno, got->pgno, got->subno, got->network == dec->cn ? "current" : "another");
			cache_page_unref(got);
			return 0;
		}
		if (vbi_is_cached(dec, pgno, VBI_ANY_SUBNO)) { FAIL("model:C10:is-cached", "vbi_is_cached(%x, any) is true, no such page is on the hash chains of the current network", pgno); return 0; }
	}
	return 1;
}

/* ------------------------------------------------------------------------ */
/* event handler: the page of a TTX_PAGE event is in the cache right now      */

static int ev_pgno[64], ev_subno[64], n_ev;
static int in_handler_checks;

static void on_event(vbi_event *ev, void *ud)
{
	(void)ud;
	if (ev->type != VBI_EVENT_TTX_PAGE) return;
	cnt[C_EV_PAGE]++;
	if (n_ev < 64) { ev_pgno[n_ev] = ev->ev.ttx_page.pgno; ev_subno[n_ev] = ev->ev.ttx_page.subno; n_ev++; }
	if (in_handler_checks && !failed) {
		cache_page *cp;
		int pgno = ev->ev.ttx_page.pgno, subno = ev->ev.ttx_page.subno;
		cnt[C_EV_PAGE_CHK]++;
		cp = _vbi_cache_get_page(ca, dec->cn, pgno, subno, 0x3F7F);
		if (!cp) {
			/* the stored subno may be 0 for pages without subpages (key rule); ask the wildcard */
			cp = _vbi_cache_get_page(ca, dec->cn, pgno, VBI_ANY_SUBNO, 0);
		}
		if (!cp) { snprintf(last_call, sizeof last_call, "TTX_PAGE event %x.%x", pgno, subno); FAIL("model:C10:page-lost", "the page of a TTX_PAGE event is not in the cache inside the handler"); return; }
		if (cp->pgno != pgno) { FAIL("model:C10:lookup-wrong-version", "look-up of %x.%x inside the TTX_PAGE handler returned page %x.%x", pgno, subno, cp->pgno, cp->subno); }
		cache_page_unref(cp);
	}
}

/* ------------------------------------------------------------------------ */
/* one history                                                                */

static long heap_base = -1;
static int lsan_tick;

static void do_hold(struct vf_rng *r)
{
	int pgno, subno, mask;
	cache_page *cp;
	struct held *hd;
	if (n_held >= MAXHELD) return;
	if (n_ev && vf_chance(r, 2, 3)) { int k = (int)vf_below(r, (unsigned)n_ev); pgno = ev_pgno[k]; subno = ev_subno[k]; }
	else { pgno = st_any_pgno(r); subno = VBI_ANY_SUBNO; }
	if (vf_chance(r, 1, 2)) { subno = VBI_ANY_SUBNO; mask = 0; } else mask = vf_chance(r, 1, 2) ? 0x3F7F : 0x00FF;
	if (subno == VBI_ANY_SUBNO) mask = 0;
	snprintf(last_call, sizeof last_call, "_vbi_cache_get_page(%x.%x/%x) [hold]", pgno, subno, mask);
	vf_phase("_vbi_cache_get_page");
	cp = _vbi_cache_get_page(ca, dec->cn, pgno, subno, mask);
	if (!cp) { cnt[C_HOLD_MISS]++; return; }
	hd = &held[n_held++];
	memset(hd, 0, sizeof *hd);
	hd->cp = cp; hd->cn = cp->network; hd->size = cache_page_size(cp);
	if (hd->size > sizeof hd->copy) hd->size = sizeof hd->copy;
	memcpy(hd->copy, cp, hd->size);
	cnt[C_HOLDS]++;
}

static void do_release(struct vf_rng *r, int which)
{
	int k;
	if (!n_held) return;
	k = which < 0 ? (int)vf_below(r, (unsigned)n_held) : which;
	snprintf(last_call, sizeof last_call, "cache_page_unref(%x.%x%s)", held[k].cp->pgno, held[k].cp->subno, held[k].replaced ? ", replaced" : "");
	vf_phase("cache_page_unref");
	if (held[k].crossed) cnt[C_HELD_ACROSS_CHSW]++;
	cache_page_unref(held[k].cp);
	held[k] = held[--n_held];
	cnt[C_RELEASES]++;
}

static void do_read(struct vf_rng *r)
{
	static vbi_page pg;
	int pgno = n_ev && vf_chance(r, 3, 4) ? ev_pgno[vf_below(r, (unsigned)n_ev)] : st_any_pgno(r);
	switch (vf_below(r, 8)) {
	case 0: case 1: case 2: case 3: {
		static const vbi_wst_level lv[] = { VBI_WST_LEVEL_1, VBI_WST_LEVEL_1p5, VBI_WST_LEVEL_2p5, VBI_WST_LEVEL_3p5, VBI_WST_LEVEL_3p5 };
		vbi_wst_level l = lv[vf_below(r, 5)];
		int nav = vf_chance(r, 1, 2), rows = vf_chance(r, 1, 3) ? 1 : 25;
		int subno = vf_chance(r, 2, 3) ? VBI_ANY_SUBNO : (int)vf_below(r, 4);
		if (pgno < 0x100 || pgno > 0x8FF) pgno = 0x100;
		snprintf(last_call, sizeof last_call, "vbi_fetch_vt_page(%x.%x, level %d, rows %d, nav %d)", pgno, subno, (int)l, rows, nav);
		vf_phase("vbi_fetch_vt_page");
		cnt[C_FETCH]++;
		if (vbi_fetch_vt_page(dec, &pg, pgno, subno, l, rows, nav)) { cnt[C_FETCH_OK]++; vbi_unref_page(&pg); }
		break; }
	case 4: {
		char title[64];
		if (pgno < 0x100 || pgno > 0x8FF) pgno = 0x100;
		snprintf(last_call, sizeof last_call, "vbi_page_title(%x)", pgno);
		vf_phase("vbi_page_title");
		cnt[C_TITLE]++;
		vbi_page_title(dec, pgno, VBI_ANY_SUBNO, title);
		break; }
	case 5: {
		vbi_subno sn; char *lang;
		snprintf(last_call, sizeof last_call, "vbi_classify_page(%x)", pgno);
		vf_phase("vbi_classify_page");
		cnt[C_CLASSIFY]++;
		vbi_classify_page(dec, pgno, &sn, &lang);
		break; }
	default: {
		static const char *const pats[] = { "e", "a.", "[0-9]+", "the", "Z" };
		const char *p = pats[vf_below(r, 5)];
		uint16_t u[16]; int i, n;
		vbi_search *s; vbi_page *out;
		for (i = 0; p[i]; i++) u[i] = (uint16_t)p[i];
		u[i] = 0;
		snprintf(last_call, sizeof last_call, "vbi_search_new/next(\"%s\")", p);
		vf_phase("vbi_search_next");
		cnt[C_SEARCH]++;
		s = vbi_search_new(dec, 0x100, VBI_ANY_SUBNO, u, vf_chance(r, 1, 2), 1, NULL);
		if (!s) break;
		n = vf_range(r, 1, 4);
		for (i = 0; i < n; i++) if (vbi_search_next(s, &out, vf_chance(r, 3, 4) ? 1 : -1) <= 0) break;
		vbi_search_delete(s);
		break; }
	}
}

static int run_case(struct vf_rng *r, long idx)
{
	static const unsigned long limits[] = { 1ul << 30, 1ul << 30, 400000, 120000, 60000, 30000, 16000 };
	static vbi_sliced sl[16];
	unsigned long limit = limits[vf_below(r, 7)];
	int n_frames = vf_range(r, 60, vf_tier ? 900 : 500), f, i, profile = (int)vf_below(r, 4);
	int n_chsw = 0, n_subt_before = 0, sig_pages = 0; long maxrefd = 0;
	int pending_reset_check = 0;
	cache_network *cn_before = NULL;
	double t = 1000.0;
	(void)idx;

	if (vf_param[0] > 0 && vf_param[0] < n_frames) n_frames = (int)vf_param[0];
	failed = 0; n_held = 0; n_ev = 0; frame_no = 0;
	snprintf(last_call, sizeof last_call, "vbi_decoder_new");
	if (heap_base < 0) {
		/* one-time allocations (bindtextdomain, iconv) happen in the first decoder life */
		vbi_decoder *d0 = vbi_decoder_new();
		if (d0) vbi_decoder_delete(d0);
		heap_base = 0;
	}
	switch (profile) {
	case 0: feat = F_SUB | F_FLOF | F_TOP | F_MIP | (vf_u32(r) & (F_X26 | F_X28 | F_M29)); break;                                   /* TOP heavy */
	case 1: feat = F_SUB | F_X26 | F_X28 | F_M29 | F_MOT | F_POP | F_DRCS | F_TOP | (vf_chance(r, 1, 2) ? F_MIP : 0); break;         /* everything */
	case 2: feat = vf_u32(r) & 0x1FFF; if (vf_chance(r, 1, 2)) feat |= F_TOP; break;
	default: feat = (vf_u32(r) & 0x3FFF) | F_SUB; break;
	}
	mut_rate = vf_chance(r, 2, 3) ? 0 : (vf_chance(r, 1, 2) ? 65 : 2000);
	odd_sub_rate = vf_chance(r, 1, 2) ? 12 : 0;
	n_mutated = 0;
	in_handler_checks = vf_chance(r, 1, 2);

	vf_sample("decoder history: profile %d feat %#x mutation %u/65536 limit %lu frames %d%s", profile, feat, mut_rate, limit, n_frames,
		  in_handler_checks ? ", look-ups inside the TTX_PAGE handler" : "");
	if (vf_heap_available()) heap_base = vf_heap_live_blocks();      /* the harness allocates nothing from here to the teardown check */
	dec = vbi_decoder_new();
	if (!dec) { vf_fail("harness:C10:no-decoder", "vbi_decoder_new failed"); return 0; }
	ca = dec->ca;
	ca->memory_limit = limit;        /* cache is empty: libzvbi 0.2 has no setter */
	vbi_event_handler_register(dec, VBI_EVENT_TTX_PAGE | VBI_EVENT_NETWORK, on_event, NULL);
	station_build(r);
	tq_n = tq_head = 0;

	for (f = 0; f < n_frames && !failed; f++) {
		int nl = vf_range(r, 1, 12);
		frame_no = f;
		for (i = 0; i < nl; i++) {
			if (tq_head >= tq_n) {
				struct spage *s;
				tq_n = tq_head = 0;
				s = st_next(r);
				if (s->role == R_BTT) cnt[C_BTT_ROUNDS]++;
				gen_page(r, s);
				if (!st.serial && vf_chance(r, 1, 3)) gen_page(r, st_next(r));
			}
			memset(&sl[i], 0, sizeof sl[i]);
			sl[i].id = VBI_SLICED_TELETEXT_B; sl[i].line = (uint32_t)(7 + i);
			memcpy(sl[i].data, tq[tq_head++].b, 42);
		}
		t += 0.04;
		cn_before = dec->cn;
		pending_reset_check = dec->chswcd == 1;      /* the countdown expires inside this vbi_decode: vbi_chsw_reset before the lines are decoded */
		snprintf(last_call, sizeof last_call, "vbi_decode(%d Teletext lines)", nl);
		vf_phase("vbi_decode");
		vbi_decode(dec, sl, nl, t);
		cnt[C_FRAMES]++; cnt[C_LINES] += nl;
		if (dec->cn != cn_before || pending_reset_check) {
			/* a reset happened inside this vbi_decode (before the lines of the frame were decoded) */
			cnt[C_CHSW]++; n_chsw++; n_ev = 0;
			for (i = 0; i < n_held; i++) held[i].crossed = 1;
			pending_reset_check = 0;
		}
		if (!audit()) break;
		if (vf_chance(r, 1, 4) && !lookup_checks(r)) break;

		/* something between frames */
		switch (vf_below(r, 16)) {
		case 0: case 1: case 2: do_hold(r); if (!audit()) goto out; break;
		case 3: case 4: do_release(r, -1); if (!audit()) goto out; break;
		case 5: case 6: case 7: case 8: do_read(r); if (!audit()) goto out; break;
		case 9:
			if (vf_chance(r, 1, 6)) {
				int how = (int)vf_below(r, 3);
				cache_network *old = dec->cn;
				if (how == 0) {
					snprintf(last_call, sizeof last_call, "vbi_channel_switched + vbi_decode(0 lines)");
					vf_phase("vbi_channel_switched");
					vbi_channel_switched(dec, 0);
					t += 0.04;
					vbi_decode(dec, sl, 0, t);
					cnt[C_CHSW_API]++;
				} else if (how == 1) {
					/* a time gap starts the countdown; the reset comes up to 40 frames later, inside vbi_decode */
					snprintf(last_call, sizeof last_call, "time gap of 2 s");
					t += 2.0;
					cnt[C_CHSW_GAP]++;
					break;
				} else {
					snprintf(last_call, sizeof last_call, "vbi_chsw_reset(0)");
					vf_phase("vbi_chsw_reset");
					vbi_chsw_reset(dec, 0);
					cnt[C_CHSW_DIRECT]++;
				}
				(void)old;      /* the structure of the old network is recycled when nothing pins it: same address is fine */
				cnt[C_CHSW]++; n_chsw++;
				for (i = 0; i < n_held; i++) held[i].crossed = 1;
				if (!audit()) goto out;
				/* nothing of the old network reachable through the new one */
				if (dec->cn->n_cached_pages != 0) { FAIL("model:C10:old-network-page-reachable", "right after the channel switch the new current network counts %u cached pages", dec->cn->n_cached_pages); goto out; }
				for (i = 0; i < st.n; i++) {
					cache_page *cp = _vbi_cache_get_page(ca, dec->cn, st.p[i].pgno, VBI_ANY_SUBNO, 0);
					if (cp) { FAIL("model:C10:old-network-page-reachable", "page %x of the old network is found through the new current network right after the channel switch", st.p[i].pgno); cache_page_unref(cp); goto out; }
					if (vbi_is_cached(dec, st.p[i].pgno, VBI_ANY_SUBNO)) { FAIL("model:C10:old-network-page-reachable", "vbi_is_cached(%x) is true right after the channel switch", st.p[i].pgno); goto out; }
				}
				n_ev = 0;
				if (vf_chance(r, 1, 2)) { station_build(r); tq_n = tq_head = 0; }
			}
			break;
		default: break;
		}
		if (n_held == 0 && n_chsw > 0 && n_lnet > 1 && ca->n_networks_limit <= 1) {
			/* checked by the audit (old-network-lingers) at the next frame; count the event */
			cnt[C_OLDNET_GONE]++;
		}
	}
out:
	(void)n_subt_before;
	/* T: release, delete, conserve */
	if (!failed) {
		while (n_held) { do_release(r, vf_chance(r, 1, 2) ? 0 : n_held - 1); if (!audit()) break; }
	}
	if (!failed) {
		int k, nsub = 0;
		for (k = 0; k < 0x800; k++) if (dec->cn->_pages[k].page_type == VBI_SUBTITLE_PAGE) nsub++;
		cnt[C_PTYPE_SUBT] += nsub;
		sig_pages = ca->n_cached_pages > 60 ? 3 : ca->n_cached_pages > 20 ? 2 : ca->n_cached_pages > 0;
		maxrefd = cnt[C_MAXREFD];
		snprintf(last_call, sizeof last_call, "vbi_decoder_delete");
		vf_phase("vbi_decoder_delete");
		vbi_decoder_delete(dec);
		dec = NULL; ca = NULL;
		if (vf_heap_available()) {
			long now = vf_heap_live_blocks();
			cnt[C_TEARDOWN_HEAP]++;
			if (now != heap_base)
				vf_fail("model:C10:teardown:heap-not-at-baseline", "after releasing every reference and vbi_decoder_delete %ld heap block(s) more than before the decoder was created are live", now - heap_base);
		} else if ((++lsan_tick & 15) == 0) {
			cnt[C_TEARDOWN_LSAN]++;
			if (vf_leak_check()) vf_fail("leak:C10:decoder-teardown", "LeakSanitizer reports blocks after vbi_decoder_delete");
		}
		cnt[C_MAXREFD] = maxrefd;
		vf_sig("p%d lim%d pages%d nets%d refd%ld chsw%d mut%d", profile, limit >= (1ul << 30) ? 0 : limit > 100000 ? 1 : 2,
		       sig_pages, n_lnet, cnt[C_MAXREFD] > 6 ? 6 : cnt[C_MAXREFD], n_chsw > 3 ? 3 : n_chsw, mut_rate ? 1 : 0);
		cnt[C_MAXREFD] = 0;
	} else {
		/* diverged: abandon the decoder (it may be corrupt); keep the pointers reachable so that LSan stays quiet */
		static void *abandoned[4096]; static int n_ab;
		if (n_ab < 4096) abandoned[n_ab++] = dec;
		dec = NULL; ca = NULL; n_held = 0;
	}
	{
		/* trivial = no page was ever in the cache or the harness never held one */
		int nontrivial = cnt[C_HOLDS] > 0 && cnt[C_AUDIT_PAGES] > 0;
		flush_counts();
		return nontrivial;
	}
}

static void selftest(void)
{
	/* the walk on an empty decoder and after one hand-made page */
	struct vf_rng r;
	vbi_decoder *d = vbi_decoder_new();
	vf_rng_seed(&r, 1, 1);
	if (!d) { vf_fail("harness:C10:selftest", "no decoder"); return; }
	dec = d; ca = d->ca; failed = 0; n_held = 0;
	snprintf(last_call, sizeof last_call, "selftest");
	if (!audit() || n_sp != 0 || n_lnet != 1) vf_fail("harness:C10:selftest", "audit of an empty decoder: %d pages %d networks", n_sp, n_lnet);
	vbi_decoder_delete(d);
	dec = NULL; ca = NULL;
	(void)lookup_checks; (void)role_name;
}

int main(int argc, char **argv) { return vf_main(argc, argv, run_case, selftest); }
