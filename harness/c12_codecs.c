/* C12 - VPS, PDC and 8/30 codecs are exact inverses; bad input is rejected untouched.
 *
 * Enumerative differential oracle.  The reference codecs (c12_ref.h) are written
 * from the bit layouts of ETS 300 231 / EN 300 706 9.8 / EN 300 468 / TR 101 231.
 * Every "unit" enumerates one field completely (all 4096 VPS CNIs, all 2^20
 * PILs per carrier, all PCS x PTY, all 16 bit CNIs, all MJDs, all seconds of the
 * day, all time offset codes, all flag combinations of 8/30-2, every single and
 * double bit error of every Hamming byte, every invalid BCD nibble) while the
 * other fields and the background bytes are drawn from the PRNG.  A case is a
 * block of --p0 consecutive values of one unit; case index modulo the number of
 * blocks of a round selects the block, the quotient is the round (= another
 * random background for the same values).  Mode "sample": the block is drawn at
 * random (used for the ASan/UBSan job).
 *
 * Demanded (and nothing else):
 *  - library encode == reference encode of the same background (this is both
 *    "writes the right bits" and "touches nothing else"),
 *  - library decode == reference values (whole vbi_program_id compared),
 *  - re-encoding the decoded values reproduces the field bits (0xDC3 -> ARD/ZDF
 *    being the documented exception),
 *  - out-of-range values / wrong descriptor header / uncorrectable Hamming /
 *    non-BCD digits: FALSE and output byte-for-byte unchanged,
 *  - a single bit error in any Hamming protected byte changes nothing.
 */
#include "vf.h"
#include <string.h>
#include <stdlib.h>
#include <limits.h>
#include <time.h>
#include "vps.h"
#include "packet-830.h"
#include "pdc.h"
#include "c12_ref.h"

/* ---------------- reporting with a per-key cap ---------------- */
static struct { const char *key; int n; } capped[128];
static int may_report(const char *key)
{
	int i;
	for (i = 0; i < 128 && capped[i].key; i++)
		if (capped[i].key == key || !strcmp(capped[i].key, key))
			return capped[i].n++ < 8;
	if (i < 128) { capped[i].key = key; capped[i].n = 1; }
	return 1;
}
#define FAIL(key, ...) do { if (may_report(key)) vf_fail(key, __VA_ARGS__); } while (0)
/* keys built at run time are interned so that nothing is leaked */
static const char *intern(const char *s)
{
	static char *tab[128];
	int i;
	for (i = 0; i < 127 && tab[i]; i++)
		if (!strcmp(tab[i], s)) return tab[i];
	if (!tab[i]) tab[i] = strdup(s);
	return tab[i];
}

/* ---------------- buffers flush against guard pages ---------------- */
static uint8_t *g13, *g5, *g42;        /* end aligned: over-runs fault */
static uint8_t *h13, *h5, *h42;        /* start aligned: under-runs fault */
static int flip;                        /* alternate between the two */
static uint8_t *B13(void) { return (flip & 1) ? h13 : g13; }
static uint8_t *B5(void) { return (flip & 1) ? h5 : g5; }
static uint8_t *B42(void) { return (flip & 1) ? h42 : g42; }

static long n_values, n_calls, n_refused, n_singlebit, n_doublebit, n_oor, n_dc3, n_badbcd, n_reenc;
static unsigned sigmask[32];
static const char *unit_name = "";

/* boundary classes for the coverage signatures */
enum { K_MIN, K_MAX, K_MID, K_CARRY, K_NEG, K_POS, K_DC3, K_DC12, K_SERVICE, K_UNREAL, K_REALDATE,
       K_OOR, K_BADBCD, K_BIT1, K_BIT2, K_BADHDR, K_RANGE, K_LEAPSEC, K_ANY, K_NCLASS };
static const char *class_name[K_NCLASS] = { "min", "max", "mid", "bcd-carry", "sign-neg", "sign-pos", "cni-dc3", "cni-dc1-dc2",
	"pil-service-code", "pil-unreal-date", "pil-real-date", "out-of-range", "invalid-bcd", "single-bit-error",
	"double-bit-error", "bad-header", "range-invalid", "leap-second", "random" };
enum { S_ENC_VPS_CNI, S_ENC_VPS_PDC, S_DEC_VPS_CNI, S_DEC_VPS_PDC, S_ENC_DVB, S_DEC_DVB, S_DEC_8301_CNI, S_DEC_8301_TIME,
       S_DEC_8302_CNI, S_DEC_8302_PDC, S_NFUNC };
static const char *func_name[S_NFUNC] = { "encode_vps_cni", "encode_vps_pdc", "decode_vps_cni", "decode_vps_pdc", "encode_dvb_pdc",
	"decode_dvb_pdc", "decode_8301_cni", "decode_8301_local_time", "decode_8302_cni", "decode_8302_pdc" };
static unsigned seen[S_NFUNC][8];       /* per field slot: bit per class */
enum { FS_CNI, FS_PIL, FS_PCS, FS_PTY, FS_FLAGS, FS_MJD, FS_UTC, FS_LTO };
static const char *fslot_name[8] = { "cni", "pil", "pcs", "pty", "lci-luf-mi-prf", "mjd", "utc", "lto" };
static void saw(int fn, int fs, int k) { seen[fn][fs] |= 1u << k; }

static int pil_class(unsigned pil)
{
	unsigned d, m, h, mi;
	if (pil == 0) return K_MIN;
	if (pil == 0xFFFFF) return K_MAX;
	if (pil == VBI_PIL_TIMER_CONTROL || pil == VBI_PIL_INHIBIT_TERMINATE || pil == VBI_PIL_INTERRUPTION
	    || pil == VBI_PIL_CONTINUE || pil == VBI_PIL_NSPV) return K_SERVICE;
	ref_pil_split(pil, &d, &m, &h, &mi);
	if (m >= 1 && m <= 12 && d >= 1 && d <= 31 && h < 24 && mi < 60) return K_REALDATE;
	return K_UNREAL;
}
static int range_class(unsigned v, unsigned max) { return v == 0 ? K_MIN : v == max ? K_MAX : K_MID; }

/* ---------------- value generators for the sampled fields ---------------- */
static unsigned rnd_cni12(struct vf_rng *r)
{
	static const unsigned sp[] = { 0, 0xFFF, 0xDC1, 0xDC2, 0xDC3, 0xDC3, 0x800, 0x7FF, 0x0C0, 0x03F };
	if (vf_chance(r, 1, 6)) return sp[vf_below(r, sizeof sp / sizeof sp[0])];
	return vf_below(r, 0x1000);
}
static unsigned rnd_cni16(struct vf_rng *r)
{
	static const unsigned sp[] = { 0, 0xFFFF, 0x0DC3, 0x1DC3, 0x8000, 0x7FFF, 0xFDCB, 0x00FF, 0xFF00 };
	if (vf_chance(r, 1, 8)) return sp[vf_below(r, sizeof sp / sizeof sp[0])];
	return vf_below(r, 0x10000);
}
static unsigned rnd_pil(struct vf_rng *r)
{
	static const unsigned sp[] = { 0, 0xFFFFF, VBI_PIL_TIMER_CONTROL, VBI_PIL_INHIBIT_TERMINATE, VBI_PIL_INTERRUPTION,
		VBI_PIL_CONTINUE, VBI_PIL_NSPV, 0x80000, 0x7FFFF, 0x00001 };
	if (vf_chance(r, 1, 8)) return sp[vf_below(r, sizeof sp / sizeof sp[0])];
	if (vf_chance(r, 1, 2))
		return ref_pil((unsigned)vf_range(r, 1, 31), (unsigned)vf_range(r, 1, 12), (unsigned)vf_range(r, 0, 23), (unsigned)vf_range(r, 0, 59));
	return vf_below(r, 0x100000);
}
/* a value that is out of range for a field whose maximum is max */
static unsigned rnd_oor(struct vf_rng *r, unsigned max)
{
	switch (vf_below(r, 6)) {
	case 0: return max + 1;
	case 1: return UINT_MAX;
	case 2: return (unsigned)INT_MIN;
	case 3: return (unsigned)INT_MAX;
	case 4: return (max + 1) | vf_below(r, max + 1);           /* valid low bits, one bit above */
	default: { unsigned v = vf_u32(r); return v > max ? v : v + max + 1; }
	}
}

static void fill_pid_random(struct vf_rng *r, vbi_program_id *p) { vf_bytes(r, p, sizeof *p); }

static const char *pid_str(const vbi_program_id *p)
{
	static char b[2][256];
	static int s;
	char *o = b[s ^= 1];
	snprintf(o, 256, "{channel=%d cni_type=%d cni=0x%x pil=0x%x luf=%d mi=%d prf=%d pcs=%d pty=0x%x tape=%d}",
		 (int)p->channel, (int)p->cni_type, p->cni, p->pil, p->luf, p->mi, p->prf, (int)p->pcs_audio, p->pty, p->tape_delayed);
	return o;
}

/* compare a decoded pid with the expectation; which field differs goes into the key */
static void cmp_pid(const char *fn, const vbi_program_id *got, const vbi_program_id *exp, const uint8_t *buf, size_t n)
{
	const char *what = NULL;
	char key[96];
	if (0 == memcmp(got, exp, sizeof *got)) return;
	if (got->cni != exp->cni) what = "cni";
	else if (got->pil != exp->pil) what = "pil";
	else if (got->pcs_audio != exp->pcs_audio) what = "pcs_audio";
	else if (got->pty != exp->pty) what = "pty";
	else if (got->channel != exp->channel) what = "channel";
	else if (got->luf != exp->luf) what = "luf";
	else if (got->mi != exp->mi) what = "mi";
	else if (got->prf != exp->prf) what = "prf";
	else if (got->cni_type != exp->cni_type) what = "cni_type";
	else what = "other-members-not-cleared";
	snprintf(key, sizeof key, "model:C12:%s:wrong-%s", fn, what);
	FAIL(intern(key), "buffer %s decoded to %s, reference says %s", vf_hex(buf, n), pid_str(got), pid_str(exp));
}

static void expected_pid(vbi_program_id *e, int channel, int cni_type, unsigned cni, unsigned pil,
			 unsigned luf, unsigned mi, unsigned prf, unsigned pcs, unsigned pty)
{
	memset(e, 0, sizeof *e);
	e->channel = (vbi_pid_channel)channel;
	e->cni_type = (vbi_cni_type)cni_type;
	e->cni = cni; e->pil = pil;
	e->luf = (vbi_bool)luf; e->mi = (vbi_bool)mi; e->prf = (vbi_bool)prf;
	e->pcs_audio = (vbi_pcs_audio)pcs; e->pty = pty;
}

/* =====================================================================
 * VPS
 * ===================================================================== */
static uint8_t mask_vps_cni[13], mask_vps_pdc[13];

static void ref_vps_encode_pdc(uint8_t *buf, unsigned cni, unsigned pil, unsigned pcs, unsigned pty)
{
	ref_put(buf, ref_vps_runs, REF_VPS_NRUNS, F_CNI, cni);
	ref_put_pil(buf, ref_vps_runs, REF_VPS_NRUNS, pil);
	ref_put(buf, ref_vps_runs, REF_VPS_NRUNS, F_PCS, pcs);
	ref_put(buf, ref_vps_runs, REF_VPS_NRUNS, F_PTY, pty);
}

static int outside_mask(const uint8_t *a, const uint8_t *b, const uint8_t *mask, size_t n)
{
	size_t i;
	for (i = 0; i < n; i++) if ((a[i] ^ b[i]) & ~mask[i]) return 1;
	return 0;
}
static int same_in_mask(const uint8_t *a, const uint8_t *b, const uint8_t *mask, size_t n)
{
	size_t i;
	for (i = 0; i < n; i++) if ((a[i] ^ b[i]) & mask[i]) return 0;
	return 1;
}

/* decoders: both functions on buf, against the reference; returns decoded pid in *out */
static void vps_decode_check(struct vf_rng *r, const uint8_t *buf, vbi_program_id *out)
{
	uint8_t copy[13];
	vbi_program_id exp;
	unsigned cni = vf_u32(r), ecni = ref_vps_decode_cni(buf);
	memcpy(copy, buf, 13);
	vf_phase("vbi_decode_vps_cni");
	if (!vbi_decode_vps_cni(&cni, buf))
		FAIL("model:C12:decode_vps_cni:returned-false", "buffer %s", vf_hex(buf, 13));
	else if (cni != ecni)
		FAIL("model:C12:decode_vps_cni:wrong-cni", "buffer %s decoded to 0x%x, reference says 0x%x", vf_hex(buf, 13), cni, ecni);
	fill_pid_random(r, out);
	vf_phase("vbi_decode_vps_pdc");
	if (!vbi_decode_vps_pdc(out, buf)) {
		FAIL("model:C12:decode_vps_pdc:returned-false", "buffer %s", vf_hex(buf, 13));
		return;
	}
	expected_pid(&exp, VBI_PID_CHANNEL_VPS, VBI_CNI_TYPE_VPS, ecni, ref_get_pil(buf, ref_vps_runs, REF_VPS_NRUNS),
		     0, 1, 0, ref_get(buf, ref_vps_runs, REF_VPS_NRUNS, F_PCS), ref_get(buf, ref_vps_runs, REF_VPS_NRUNS, F_PTY));
	cmp_pid("decode_vps_pdc", out, &exp, buf, 13);
	if (memcmp(copy, buf, 13))
		FAIL("model:C12:decode_vps:input-modified", "buffer %s became %s", vf_hex(copy, 13), vf_hex(buf, 13));
	n_calls += 2;
}

/* one complete round trip for a valid value tuple */
static void vps_roundtrip(struct vf_rng *r, unsigned cni, unsigned pil, unsigned pcs, unsigned pty)
{
	uint8_t bg[13], ref[13], *buf;
	vbi_program_id in, in_copy, out;
	unsigned raw_cni;

	flip++;
	buf = B13();
	vf_bytes(r, bg, 13);
	memcpy(buf, bg, 13);
	memcpy(ref, bg, 13);
	ref_vps_encode_pdc(ref, cni, pil, pcs, pty);

	fill_pid_random(r, &in);
	in.cni = cni; in.pil = pil; in.pcs_audio = (vbi_pcs_audio)pcs; in.pty = pty;
	in_copy = in;
	vf_phase("vbi_encode_vps_pdc");
	n_calls++;
	if (!vbi_encode_vps_pdc(buf, &in)) {
		FAIL("model:C12:encode_vps_pdc:refused-valid", "cni=0x%x pil=0x%x pcs=%u pty=0x%x", cni, pil, pcs, pty);
		return;
	}
	if (memcmp(&in, &in_copy, sizeof in))
		FAIL("model:C12:encode_vps_pdc:input-modified", "pid changed by the encoder");
	if (outside_mask(buf, bg, mask_vps_pdc, 13))
		FAIL("model:C12:encode_vps_pdc:touches-other-bits", "cni=0x%x pil=0x%x pcs=%u pty=0x%x background %s result %s (field mask %s)",
		     cni, pil, pcs, pty, vf_hex(bg, 13), vf_hex(buf, 13), vf_hex(mask_vps_pdc, 13));
	else if (memcmp(buf, ref, 13))
		FAIL("model:C12:encode_vps_pdc:wrong-bits", "cni=0x%x pil=0x%x pcs=%u pty=0x%x background %s result %s reference %s",
		     cni, pil, pcs, pty, vf_hex(bg, 13), vf_hex(buf, 13), vf_hex(ref, 13));

	/* decode what the reference produced (so a decoder fault is not masked by an encoder fault) */
	memcpy(buf, ref, 13);
	vps_decode_check(r, buf, &out);
	raw_cni = cni;
	if (cni == 0xDC3) {
		unsigned e = (ref[2] & 0x10) ? 0xDC1 : 0xDC2;
		n_dc3++;
		if (out.cni != e)
			FAIL("model:C12:decode_vps:dc3-distinction", "0xDC3 with byte 5 = 0x%02x decoded to 0x%x, TR 101 231 says 0x%x", ref[2], out.cni, e);
		raw_cni = e;
	} else if (out.cni != cni || out.pil != pil || (unsigned)out.pcs_audio != pcs || out.pty != pty) {
		FAIL("model:C12:vps:roundtrip", "encoded cni=0x%x pil=0x%x pcs=%u pty=0x%x, decoded %s", cni, pil, pcs, pty, pid_str(&out));
	}

	/* re-encode the decoded pid over another background: the field bits must be reproduced */
	{
		uint8_t bg2[13], *b2;
		flip++;
		b2 = B13();
		vf_bytes(r, bg2, 13);
		memcpy(b2, bg2, 13);
		vf_phase("vbi_encode_vps_pdc");
		n_calls++; n_reenc++;
		if (!vbi_encode_vps_pdc(b2, &out))
			FAIL("model:C12:encode_vps_pdc:refused-decoded", "decoded %s", pid_str(&out));
		else {
			uint8_t want[13];
			memcpy(want, ref, 13);
			ref_put(want, ref_vps_runs, REF_VPS_NRUNS, F_CNI, raw_cni);   /* only differs for 0xDC3 */
			if (!same_in_mask(b2, want, mask_vps_pdc, 13))
				FAIL("model:C12:vps:reencode-differs", "packet %s decoded to %s, re-encoded %s (background %s)",
				     vf_hex(ref, 13), pid_str(&out), vf_hex(b2, 13), vf_hex(bg2, 13));
			if (outside_mask(b2, bg2, mask_vps_pdc, 13))
				FAIL("model:C12:encode_vps_pdc:touches-other-bits", "re-encode of %s over %s gave %s", pid_str(&out), vf_hex(bg2, 13), vf_hex(b2, 13));
		}
	}
}

/* vbi_encode_vps_cni alone */
static void vps_cni_only(struct vf_rng *r, unsigned cni)
{
	uint8_t bg[13], ref[13], *buf;
	unsigned got = vf_u32(r), e;
	flip++;
	buf = B13();
	vf_bytes(r, bg, 13);
	memcpy(buf, bg, 13);
	memcpy(ref, bg, 13);
	ref_put(ref, ref_vps_runs, REF_VPS_NRUNS, F_CNI, cni);
	vf_phase("vbi_encode_vps_cni");
	n_calls++;
	if (!vbi_encode_vps_cni(buf, cni)) {
		FAIL("model:C12:encode_vps_cni:refused-valid", "cni=0x%x", cni);
		return;
	}
	if (outside_mask(buf, bg, mask_vps_cni, 13))
		FAIL("model:C12:encode_vps_cni:touches-other-bits", "cni=0x%x background %s result %s (field mask %s)", cni, vf_hex(bg, 13), vf_hex(buf, 13), vf_hex(mask_vps_cni, 13));
	else if (memcmp(buf, ref, 13))
		FAIL("model:C12:encode_vps_cni:wrong-bits", "cni=0x%x background %s result %s reference %s", cni, vf_hex(bg, 13), vf_hex(buf, 13), vf_hex(ref, 13));
	memcpy(buf, ref, 13);
	vf_phase("vbi_decode_vps_cni");
	n_calls++;
	vbi_decode_vps_cni(&got, buf);
	e = cni == 0xDC3 ? ((ref[2] & 0x10) ? 0xDC1u : 0xDC2u) : cni;
	if (got != e)
		FAIL(cni == 0xDC3 ? "model:C12:decode_vps:dc3-distinction" : "model:C12:decode_vps_cni:wrong-cni",
		     "cni 0x%x in %s decoded to 0x%x, expected 0x%x", cni, vf_hex(ref, 13), got, e);
}

/* out-of-range: exactly one field invalid (which = 0 cni, 1 pil, 2 pcs, 3 pty), or cni for encode_vps_cni (which = 4) */
static void vps_out_of_range(struct vf_rng *r, int which)
{
	uint8_t bg[13], *buf;
	vbi_program_id in;
	vbi_bool ok;
	unsigned bad;
	static const char *fname[] = { "cni", "pil", "pcs", "pty", "cni" };
	flip++;
	buf = B13();
	vf_bytes(r, bg, 13);
	memcpy(buf, bg, 13);
	fill_pid_random(r, &in);
	in.cni = rnd_cni12(r); in.pil = rnd_pil(r); in.pcs_audio = (vbi_pcs_audio)vf_below(r, 4); in.pty = vf_below(r, 256);
	n_oor++; n_calls++;
	switch (which) {
	case 0: bad = in.cni = rnd_oor(r, 0xFFF); break;
	case 1: bad = in.pil = rnd_oor(r, 0xFFFFF); break;
	case 2: bad = rnd_oor(r, 3); in.pcs_audio = (vbi_pcs_audio)bad; break;
	case 3: bad = in.pty = rnd_oor(r, 0xFF); break;
	default: bad = rnd_oor(r, 0xFFF); break;
	}
	if (which == 4) {
		vf_phase("vbi_encode_vps_cni");
		ok = vbi_encode_vps_cni(buf, bad);
	} else {
		vf_phase("vbi_encode_vps_pdc");
		ok = vbi_encode_vps_pdc(buf, &in);
	}
	if (ok) {
		char key[80];
		snprintf(key, sizeof key, "model:C12:%s:accepts-out-of-range-%s", which == 4 ? "encode_vps_cni" : "encode_vps_pdc", fname[which]);
		FAIL(intern(key), "%s=0x%x accepted (pid %s)", fname[which], bad, pid_str(&in));
	} else
		n_refused++;
	if (memcmp(buf, bg, 13))
		FAIL(which == 4 ? "model:C12:encode_vps_cni:modifies-on-failure" : "model:C12:encode_vps_pdc:modifies-on-failure",
		     "%s=0x%x returned %d, buffer %s became %s", fname[which], bad, ok, vf_hex(bg, 13), vf_hex(buf, 13));
}

/* any buffer: decode must agree with the reference and re-encoding *into the
 * same buffer* must not change it (decode then encode is the identity on all
 * 2^104 buffers, except for the 0xDC3 code) */
static void vps_any_buffer(struct vf_rng *r)
{
	uint8_t orig[13], *buf;
	vbi_program_id out;
	flip++;
	buf = B13();
	vf_bytes(r, orig, 13);
	if (vf_chance(r, 1, 16)) ref_put(orig, ref_vps_runs, REF_VPS_NRUNS, F_CNI, 0xDC3);
	memcpy(buf, orig, 13);
	vps_decode_check(r, buf, &out);
	vf_phase("vbi_encode_vps_pdc");
	n_calls++; n_reenc++;
	if (!vbi_encode_vps_pdc(buf, &out)) {
		FAIL("model:C12:encode_vps_pdc:refused-decoded", "buffer %s decoded %s", vf_hex(orig, 13), pid_str(&out));
		return;
	}
	if (ref_get(orig, ref_vps_runs, REF_VPS_NRUNS, F_CNI) == 0xDC3) {
		uint8_t want[13];
		n_dc3++;
		memcpy(want, orig, 13);
		ref_put(want, ref_vps_runs, REF_VPS_NRUNS, F_CNI, (orig[2] & 0x10) ? 0xDC1 : 0xDC2);
		if (memcmp(buf, want, 13))
			FAIL("model:C12:vps:reencode-differs", "0xDC3 buffer %s re-encoded to %s, expected %s", vf_hex(orig, 13), vf_hex(buf, 13), vf_hex(want, 13));
	} else if (memcmp(buf, orig, 13))
		FAIL("model:C12:vps:reencode-differs", "buffer %s decoded to %s and re-encoded in place to %s", vf_hex(orig, 13), pid_str(&out), vf_hex(buf, 13));
}

/* =====================================================================
 * DVB PDC descriptor
 * ===================================================================== */
static void dvb_roundtrip(struct vf_rng *r, unsigned pil)
{
	uint8_t bg[5], ref[5], *buf;
	vbi_program_id in, in_copy, out, exp;
	flip++;
	buf = B5();
	vf_bytes(r, bg, 5);
	memcpy(buf, bg, 5);
	memcpy(ref, bg, 5);
	ref_put(ref, ref_dvb_runs, REF_DVB_NRUNS, F_TAG, 0x69);
	ref_put(ref, ref_dvb_runs, REF_DVB_NRUNS, F_LEN, 3);
	ref_put(ref, ref_dvb_runs, REF_DVB_NRUNS, F_RSVD, 15);
	ref_put_pil(ref, ref_dvb_runs, REF_DVB_NRUNS, pil);
	fill_pid_random(r, &in);
	in.pil = pil;
	in_copy = in;
	vf_phase("vbi_encode_dvb_pdc_descriptor");
	n_calls++;
	if (!vbi_encode_dvb_pdc_descriptor(buf, &in)) {
		FAIL("model:C12:encode_dvb_pdc:refused-valid", "pil=0x%x", pil);
		return;
	}
	if (memcmp(&in, &in_copy, sizeof in))
		FAIL("model:C12:encode_dvb_pdc:input-modified", "pid changed by the encoder");
	if (memcmp(buf, ref, 5))
		FAIL("model:C12:encode_dvb_pdc:wrong-bits", "pil=0x%x background %s result %s reference %s", pil, vf_hex(bg, 5), vf_hex(buf, 5), vf_hex(ref, 5));
	/* the reserved bits are not the decoder's business: any value */
	memcpy(buf, ref, 5);
	ref_put(buf, ref_dvb_runs, REF_DVB_NRUNS, F_RSVD, vf_below(r, 16));
	fill_pid_random(r, &out);
	vf_phase("vbi_decode_dvb_pdc_descriptor");
	n_calls++;
	if (!vbi_decode_dvb_pdc_descriptor(&out, buf)) {
		FAIL("model:C12:decode_dvb_pdc:refused-valid", "descriptor %s", vf_hex(buf, 5));
		return;
	}
	expected_pid(&exp, VBI_PID_CHANNEL_PDC_DESCRIPTOR, VBI_CNI_TYPE_NONE, 0, pil, 0, 1, 0, 0, 0);
	cmp_pid("decode_dvb_pdc", &out, &exp, buf, 5);
	/* re-encode */
	{
		uint8_t *b2;
		flip++;
		b2 = B5();
		vf_bytes(r, b2, 5);
		vf_phase("vbi_encode_dvb_pdc_descriptor");
		n_calls++; n_reenc++;
		if (!vbi_encode_dvb_pdc_descriptor(b2, &out))
			FAIL("model:C12:encode_dvb_pdc:refused-decoded", "decoded %s", pid_str(&out));
		else if (memcmp(b2, ref, 5))
			FAIL("model:C12:dvb:reencode-differs", "descriptor %s decoded to %s, re-encoded %s", vf_hex(ref, 5), pid_str(&out), vf_hex(b2, 5));
	}
}
static void dvb_out_of_range(struct vf_rng *r)
{
	uint8_t bg[5], *buf;
	vbi_program_id in;
	vbi_bool ok;
	flip++;
	buf = B5();
	vf_bytes(r, bg, 5);
	memcpy(buf, bg, 5);
	fill_pid_random(r, &in);
	in.pil = rnd_oor(r, 0xFFFFF);
	vf_phase("vbi_encode_dvb_pdc_descriptor");
	n_calls++; n_oor++;
	ok = vbi_encode_dvb_pdc_descriptor(buf, &in);
	if (ok) FAIL("model:C12:encode_dvb_pdc:accepts-out-of-range-pil", "pil=0x%x accepted", in.pil);
	else n_refused++;
	if (memcmp(buf, bg, 5))
		FAIL("model:C12:encode_dvb_pdc:modifies-on-failure", "pil=0x%x returned %d, buffer %s became %s", in.pil, ok, vf_hex(bg, 5), vf_hex(buf, 5));
}
/* header: the decoder accepts tag 0x69 length 3 only */
static void dvb_header(struct vf_rng *r, unsigned tag, unsigned len)
{
	uint8_t *buf;
	vbi_program_id out, before;
	vbi_bool ok;
	flip++;
	buf = B5();
	vf_bytes(r, buf, 5);
	buf[0] = (uint8_t)tag; buf[1] = (uint8_t)len;
	fill_pid_random(r, &out);
	before = out;
	vf_phase("vbi_decode_dvb_pdc_descriptor");
	n_calls++;
	ok = vbi_decode_dvb_pdc_descriptor(&out, buf);
	if (tag == 0x69 && len == 3) {
		if (!ok) FAIL("model:C12:decode_dvb_pdc:refused-valid", "descriptor %s", vf_hex(buf, 5));
		else if (out.pil != ref_get_pil(buf, ref_dvb_runs, REF_DVB_NRUNS))
			FAIL("model:C12:decode_dvb_pdc:wrong-pil", "descriptor %s decoded pil 0x%x", vf_hex(buf, 5), out.pil);
		return;
	}
	if (ok) FAIL("model:C12:decode_dvb_pdc:accepts-bad-header", "descriptor %s accepted", vf_hex(buf, 5));
	else n_refused++;
	if (!ok && memcmp(&out, &before, sizeof out))
		FAIL("model:C12:decode_dvb_pdc:modifies-on-failure", "descriptor %s refused but pid changed to %s", vf_hex(buf, 5), pid_str(&out));
}

/* =====================================================================
 * Teletext 8/30 format 1
 * ===================================================================== */
static void rnd_8301(struct vf_rng *r, struct ref_8301 *v)
{
	v->cni = rnd_cni16(r);
	v->halfhours = (int)vf_below(r, 32);
	v->negative = (int)vf_below(r, 2);
	v->mjd = vf_chance(r, 1, 8) ? (vf_chance(r, 1, 2) ? 99999u : 0u) : vf_below(r, 100000);
	v->h = vf_below(r, 24); v->m = vf_below(r, 60); v->s = vf_below(r, 60);
}

static void t8301_check(struct vf_rng *r, const struct ref_8301 *v)
{
	uint8_t *buf, copy[42];
	unsigned cni = vf_u32(r);
	time_t t, t0;
	int se, se0;
	int64_t et = ref_8301_time(v);
	int ese = v->halfhours * 1800 * (v->negative ? -1 : 1);
	flip++;
	buf = B42();
	vf_bytes(r, buf, 42);
	ref_8301_encode(buf, v);
	memcpy(copy, buf, 42);
	vf_phase("vbi_decode_teletext_8301_cni");
	n_calls += 2;
	if (!vbi_decode_teletext_8301_cni(&cni, buf))
		FAIL("model:C12:decode_8301_cni:returned-false", "packet %s", vf_hex(buf, 42));
	else if (cni != v->cni)
		FAIL("model:C12:decode_8301_cni:wrong-cni", "cni 0x%04x (bytes %02x %02x) decoded to 0x%x", v->cni, buf[9], buf[10], cni);
	vf_bytes(r, &t, sizeof t); vf_bytes(r, &se, sizeof se);
	t0 = t; se0 = se;
	vf_phase("vbi_decode_teletext_8301_local_time");
	if (!vbi_decode_teletext_8301_local_time(&t, &se, buf)) {
		FAIL("model:C12:decode_8301_local_time:refused-valid", "mjd=%u utc=%02u:%02u:%02u lto=%c%d/2h bytes %s", v->mjd, v->h, v->m, v->s,
		     v->negative ? '-' : '+', v->halfhours, vf_hex(buf + 11, 7));
		if (t != t0 || se != se0)
			FAIL("model:C12:decode_8301_local_time:modifies-on-failure", "bytes %s", vf_hex(buf + 11, 7));
		return;
	}
	if ((int64_t)t != et)
		FAIL("model:C12:decode_8301_local_time:wrong-time", "mjd=%u utc=%02u:%02u:%02u bytes %s decoded to %lld, reference %lld",
		     v->mjd, v->h, v->m, v->s, vf_hex(buf + 12, 6), (long long)t, (long long)et);
	if (se != ese)
		FAIL("model:C12:decode_8301_local_time:wrong-offset", "time offset code 0x%02x (%c%d half hours) decoded to %d s, reference %d s",
		     buf[11], v->negative ? '-' : '+', v->halfhours, se, ese);
	if (memcmp(copy, buf, 42))
		FAIL("model:C12:decode_8301:input-modified", "packet changed by the decoder");
	/* re-encoding the decoded values with the reference encoder reproduces the bits */
	if ((int64_t)t == et && se == ese && cni == v->cni) {
		struct ref_8301 w;
		uint8_t b2[42];
		int64_t days = (int64_t)t / 86400, rem = (int64_t)t % 86400;
		if (rem < 0) { rem += 86400; days--; }
		memcpy(b2, copy, 42);
		w.cni = cni; w.halfhours = abs(se) / 1800; w.negative = se < 0 || (se == 0 && v->negative);
		w.mjd = (unsigned)(days - ref_days_from_civil(1858, 11, 17));
		w.h = (unsigned)(rem / 3600); w.m = (unsigned)(rem / 60 % 60); w.s = (unsigned)(rem % 60);
		ref_8301_encode(b2, &w);
		n_reenc++;
		if (memcmp(b2, copy, 42))
			FAIL("model:C12:8301:reencode-differs", "packet bytes %s, decoded values re-encode to %s", vf_hex(copy + 9, 9), vf_hex(b2 + 9, 9));
	}
}

/* invalid digits: pos 0..10 selects the nibble (0 = MJD 10^4 ... 4 = MJD 10^0, 5..10 = h,h,m,m,s,s), nib its stored value */
static void t8301_bad_digit(struct vf_rng *r, int pos, unsigned nib)
{
	static const struct { uint8_t byte, shift; } where[11] = { { 12, 0 }, { 13, 4 }, { 13, 0 }, { 14, 4 }, { 14, 0 },
		{ 15, 4 }, { 15, 0 }, { 16, 4 }, { 16, 0 }, { 17, 4 }, { 17, 0 } };
	struct ref_8301 v, w;
	uint8_t *buf;
	time_t t, t0;
	int se, se0, bcd_ok, range_ok, leap;
	vbi_bool ok;
	flip++;
	buf = B42();
	rnd_8301(r, &v);
	vf_bytes(r, buf, 42);
	ref_8301_encode(buf, &v);
	buf[where[pos].byte] = (uint8_t)((buf[where[pos].byte] & ~(15u << where[pos].shift)) | (nib << where[pos].shift));
	bcd_ok = ref_8301_digits_ok(buf);
	ref_8301_decode(&w, buf);
	range_ok = bcd_ok && w.h < 24 && w.m < 60 && w.s < 61;
	leap = range_ok && w.s == 60;
	vf_bytes(r, &t, sizeof t); vf_bytes(r, &se, sizeof se);
	t0 = t; se0 = se;
	vf_phase("vbi_decode_teletext_8301_local_time");
	n_calls++;
	ok = vbi_decode_teletext_8301_local_time(&t, &se, buf);
	if (!bcd_ok) {
		n_badbcd++;
		if (ok) FAIL("model:C12:decode_8301_local_time:accepts-invalid-bcd", "digit nibble %d = 0x%x, bytes %s accepted as time %lld", pos, nib, vf_hex(buf + 12, 6), (long long)t);
	} else if (!range_ok) {
		/* 24..99 hours, 60..99 minutes, 61..99 seconds: not a UTC time; refused per the function's contract */
		if (ok) FAIL("model:C12:decode_8301_local_time:accepts-invalid-time", "utc %02u:%02u:%02u bytes %s accepted as time %lld", w.h, w.m, w.s, vf_hex(buf + 12, 6), (long long)t);
		saw(S_DEC_8301_TIME, FS_UTC, K_RANGE);
	} else if (leap) {
		saw(S_DEC_8301_TIME, FS_UTC, K_LEAPSEC);   /* second 60: nothing demanded beyond the failure contract */
	} else {
		if (!ok) FAIL("model:C12:decode_8301_local_time:refused-valid", "bytes %s", vf_hex(buf + 11, 7));
		else if ((int64_t)t != ref_8301_time(&w))
			FAIL("model:C12:decode_8301_local_time:wrong-time", "bytes %s decoded to %lld, reference %lld", vf_hex(buf + 12, 6), (long long)t, (long long)ref_8301_time(&w));
	}
	if (!ok) {
		n_refused++;
		if (t != t0 || se != se0)
			FAIL("model:C12:decode_8301_local_time:modifies-on-failure", "bytes %s refused but outputs changed (time %lld -> %lld, offset %d -> %d)",
			     vf_hex(buf + 11, 7), (long long)t0, (long long)t, se0, se);
	}
}

/* =====================================================================
 * Teletext 8/30 format 2
 * ===================================================================== */
static void rnd_8302(struct vf_rng *r, struct ref_8302 *v)
{
	v->lci = vf_below(r, 4); v->luf = vf_below(r, 2); v->prf = vf_below(r, 2);
	v->pcs = vf_below(r, 4); v->mi = vf_below(r, 2); v->res = vf_below(r, 2);
	v->cni = rnd_cni16(r); v->pil = rnd_pil(r); v->pty = vf_chance(r, 1, 8) ? (vf_chance(r, 1, 2) ? 0xFFu : 0u) : vf_below(r, 256);
}

static void exp_8302(vbi_program_id *e, const struct ref_8302 *v)
{
	expected_pid(e, VBI_PID_CHANNEL_LCI_0 + (int)v->lci, VBI_CNI_TYPE_8302, v->cni, v->pil, v->luf, v->mi, v->prf, v->pcs, v->pty);
}

/* decode buf with both functions, expecting success and the values *v */
static void t8302_expect(struct vf_rng *r, const uint8_t *buf, const struct ref_8302 *v, const char *ctx)
{
	vbi_program_id out, exp;
	unsigned cni = vf_u32(r);
	char fn[64];
	fill_pid_random(r, &out);
	n_calls += 2;
	vf_phase("vbi_decode_teletext_8302_pdc");
	if (!vbi_decode_teletext_8302_pdc(&out, buf)) {
		char key[96];
		snprintf(key, sizeof key, "model:C12:decode_8302_pdc:refused-%s", ctx);
		FAIL(intern(key), "bytes 13-25 %s", vf_hex(buf + 9, 13));
	} else {
		exp_8302(&exp, v);
		snprintf(fn, sizeof fn, "decode_8302_pdc%s%s", *ctx == 'v' ? "" : ":", *ctx == 'v' ? "" : ctx);
		cmp_pid(fn, &out, &exp, buf + 9, 13);
	}
	vf_phase("vbi_decode_teletext_8302_cni");
	if (!vbi_decode_teletext_8302_cni(&cni, buf)) {
		char key[96];
		snprintf(key, sizeof key, "model:C12:decode_8302_cni:refused-%s", ctx);
		FAIL(intern(key), "bytes 13-25 %s", vf_hex(buf + 9, 13));
	} else if (cni != v->cni) {
		char key[96];
		snprintf(key, sizeof key, "model:C12:decode_8302_cni%s%s:wrong-cni", *ctx == 'v' ? "" : ":", *ctx == 'v' ? "" : ctx);
		FAIL(intern(key), "bytes 13-25 %s decoded to 0x%x, reference 0x%x", vf_hex(buf + 9, 13), cni, v->cni);
	}
}

/* decode buf expecting refusal by _pdc; _cni must refuse when cni_must_fail, may do either otherwise */
static void t8302_expect_refusal(struct vf_rng *r, const uint8_t *buf, int cni_must_fail, unsigned cni_if_ok, const char *ctx)
{
	vbi_program_id out, before;
	unsigned cni, cni0;
	vbi_bool ok;
	fill_pid_random(r, &out);
	before = out;
	n_calls += 2;
	vf_phase("vbi_decode_teletext_8302_pdc");
	ok = vbi_decode_teletext_8302_pdc(&out, buf);
	if (ok) FAIL("model:C12:decode_8302_pdc:accepts-uncorrectable", "%s: bytes 13-25 %s accepted as %s", ctx, vf_hex(buf + 9, 13), pid_str(&out));
	else {
		n_refused++;
		if (memcmp(&out, &before, sizeof out))
			FAIL("model:C12:decode_8302_pdc:modifies-on-failure", "%s: bytes 13-25 %s refused but pid changed to %s", ctx, vf_hex(buf + 9, 13), pid_str(&out));
	}
	cni = cni0 = vf_u32(r);
	vf_phase("vbi_decode_teletext_8302_cni");
	ok = vbi_decode_teletext_8302_cni(&cni, buf);
	if (ok) {
		if (cni_must_fail)
			FAIL("model:C12:decode_8302_cni:accepts-uncorrectable", "%s: bytes 13-25 %s accepted as 0x%x", ctx, vf_hex(buf + 9, 13), cni);
		else if (cni != cni_if_ok)
			FAIL("model:C12:decode_8302_cni:wrong-cni", "%s: bytes 13-25 %s decoded to 0x%x, reference 0x%x", ctx, vf_hex(buf + 9, 13), cni, cni_if_ok);
	} else {
		n_refused++;
		if (cni != cni0)
			FAIL("model:C12:decode_8302_cni:modifies-on-failure", "%s: refused but *cni changed from 0x%x to 0x%x", ctx, cni0, cni);
	}
}

static void t8302_check(struct vf_rng *r, const struct ref_8302 *v, int nflips)
{
	uint8_t *buf, copy[42];
	struct ref_8302 back;
	int i;
	flip++;
	buf = B42();
	vf_bytes(r, buf, 42);
	ref_8302_encode(buf, v);
	memcpy(copy, buf, 42);
	t8302_expect(r, buf, v, "valid");
	if (memcmp(copy, buf, 42))
		FAIL("model:C12:decode_8302:input-modified", "packet changed by the decoder");
	/* reference decode of the reference encode (self consistency, and "re-encode reproduces the bits") */
	if (!ref_8302_decode(&back, buf) || memcmp(&back, v, sizeof back))
		FAIL("selfcheck:C12:ref-8302", "reference decoder does not invert the reference encoder");
	/* correctable errors: one flipped bit in up to 13 different bytes */
	for (i = 0; i < nflips; i++) {
		int j = (int)vf_below(r, 13), b = (int)vf_below(r, 8);
		memcpy(buf, copy, 42);
		buf[REF_8302_FIRST + j] ^= (uint8_t)(1u << b);
		if (vf_chance(r, 1, 2)) {               /* and a second byte with its own single error */
			int j2 = (int)vf_below(r, 13);
			if (j2 != j) buf[REF_8302_FIRST + j2] ^= (uint8_t)(1u << vf_below(r, 8));
		}
		n_singlebit++;
		t8302_expect(r, buf, v, "single-bit-error");
	}
}

/* exhaustive: byte j (0..12), data nibble n, flipped bit b */
static void t8302_single(struct vf_rng *r, int j, unsigned n, int b)
{
	struct ref_8302 v;
	uint8_t *buf;
	flip++;
	buf = B42();
	rnd_8302(r, &v);
	vf_bytes(r, buf, 42);
	ref_8302_encode(buf, &v);
	buf[REF_8302_FIRST + j] = ref_ham8(n);
	ref_8302_decode(&v, buf);
	buf[REF_8302_FIRST + j] ^= (uint8_t)(1u << b);
	n_singlebit++;
	t8302_expect(r, buf, &v, "single-bit-error");
}
/* exhaustive: byte j, nibble n, flipped bits b1 < b2 */
static void t8302_double(struct vf_rng *r, int j, unsigned n, int b1, int b2)
{
	struct ref_8302 v;
	uint8_t *buf;
	flip++;
	buf = B42();
	rnd_8302(r, &v);
	vf_bytes(r, buf, 42);
	ref_8302_encode(buf, &v);
	buf[REF_8302_FIRST + j] = ref_ham8(n);
	ref_8302_decode(&v, buf);
	buf[REF_8302_FIRST + j] ^= (uint8_t)((1u << b1) | (1u << b2));
	n_doublebit++;
	t8302_expect_refusal(r, buf, ref_8302_byte_has_cni(j), v.cni, "double-bit-error");
}

/* arbitrary received bytes */
static void t830_any_buffer(struct vf_rng *r)
{
	uint8_t *buf;
	struct ref_8302 v;
	struct ref_8301 w;
	int j, bad_cni_byte = 0, ok;
	flip++;
	buf = B42();
	vf_bytes(r, buf, 42);
	for (j = 0; j < 13; j++) {
		unsigned k = vf_below(r, 32);
		if (k < 24) buf[REF_8302_FIRST + j] = ref_ham8(buf[REF_8302_FIRST + j] & 15);
		else if (k < 30) buf[REF_8302_FIRST + j] = (uint8_t)(ref_ham8(buf[REF_8302_FIRST + j] & 15) ^ (1u << vf_below(r, 8)));
		/* else: arbitrary byte */
	}
	ok = ref_8302_decode(&v, buf);
	if (ok) t8302_expect(r, buf, &v, "valid");
	else {
		unsigned cni = 0;
		int readable = 1;
		/* would the CNI bytes alone decode? */
		for (j = 0; j < 13; j++)
			if (ref_unham8_tab[buf[REF_8302_FIRST + j]] < 0) {
				if (ref_8302_byte_has_cni(j)) bad_cni_byte = 1;
			}
		if (!bad_cni_byte) {
			/* reference CNI from the decodable bytes */
			int d;
			for (j = 0; j < 13; j++) {
				int n = ref_unham8_tab[buf[REF_8302_FIRST + j]];
				if (n < 0) continue;
				for (d = 0; d < 4; d++)
					if (ref_8302_tab[j][d].field == F_CNI && ((n >> d) & 1)) cni |= 1u << ref_8302_tab[j][d].bit;
			}
		}
		(void)readable;
		n_doublebit++;
		t8302_expect_refusal(r, buf, bad_cni_byte, cni, "uncorrectable-bytes");
	}
	/* the same bytes read as format 1 */
	{
		unsigned cni = vf_u32(r);
		time_t t, t0;
		int se, se0, bcd_ok;
		vbi_bool got;
		if (vf_chance(r, 3, 4)) {          /* make valid digits likely */
			for (j = 12; j <= 17; j++)
				buf[j] = (uint8_t)(((1 + vf_below(r, vf_chance(r, 1, 8) ? 15 : 10)) << 4) | (1 + vf_below(r, vf_chance(r, 1, 8) ? 15 : 10)));
		}
		ref_8301_decode(&w, buf);
		bcd_ok = ref_8301_digits_ok(buf);
		n_calls += 2;
		vf_phase("vbi_decode_teletext_8301_cni");
		if (!vbi_decode_teletext_8301_cni(&cni, buf) || cni != w.cni)
			FAIL("model:C12:decode_8301_cni:wrong-cni", "bytes %02x %02x decoded to 0x%x, reference 0x%x", buf[9], buf[10], cni, w.cni);
		vf_bytes(r, &t, sizeof t); vf_bytes(r, &se, sizeof se);
		t0 = t; se0 = se;
		vf_phase("vbi_decode_teletext_8301_local_time");
		got = vbi_decode_teletext_8301_local_time(&t, &se, buf);
		if (!bcd_ok) {
			n_badbcd++;
			if (got) FAIL("model:C12:decode_8301_local_time:accepts-invalid-bcd", "bytes %s accepted as time %lld", vf_hex(buf + 12, 6), (long long)t);
		} else if (w.h < 24 && w.m < 60 && w.s < 60) {
			if (!got) FAIL("model:C12:decode_8301_local_time:refused-valid", "bytes %s", vf_hex(buf + 11, 7));
			else {
				if ((int64_t)t != ref_8301_time(&w))
					FAIL("model:C12:decode_8301_local_time:wrong-time", "bytes %s decoded to %lld, reference %lld", vf_hex(buf + 12, 6), (long long)t, (long long)ref_8301_time(&w));
				if (se != w.halfhours * 1800 * (w.negative ? -1 : 1))
					FAIL("model:C12:decode_8301_local_time:wrong-offset", "time offset code 0x%02x decoded to %d s", buf[11], se);
			}
		}
		if (!got) {
			n_refused++;
			if (t != t0 || se != se0)
				FAIL("model:C12:decode_8301_local_time:modifies-on-failure", "bytes %s refused but outputs changed", vf_hex(buf + 11, 7));
		}
	}
}

/* =====================================================================
 * units
 * ===================================================================== */
struct unit { const char *name; long nvals; void (*fn)(struct vf_rng *r, long v); };

static void u_vps_cni(struct vf_rng *r, long v)
{
	unsigned cni = (unsigned)v;
	int k = cni == 0xDC3 ? K_DC3 : (cni == 0xDC1 || cni == 0xDC2) ? K_DC12 : range_class(cni, 0xFFF);
	vps_cni_only(r, cni);
	vps_roundtrip(r, cni, rnd_pil(r), vf_below(r, 4), vf_below(r, 256));
	if ((v & 3) == 0) { vps_out_of_range(r, 4); vps_out_of_range(r, 0); saw(S_ENC_VPS_CNI, FS_CNI, K_OOR); saw(S_ENC_VPS_PDC, FS_CNI, K_OOR); }
	saw(S_ENC_VPS_CNI, FS_CNI, k); saw(S_DEC_VPS_CNI, FS_CNI, k); saw(S_ENC_VPS_PDC, FS_CNI, k); saw(S_DEC_VPS_PDC, FS_CNI, k);
}
static void u_vps_pil(struct vf_rng *r, long v)
{
	int k = pil_class((unsigned)v);
	vps_roundtrip(r, rnd_cni12(r), (unsigned)v, vf_below(r, 4), vf_below(r, 256));
	if ((v & 63) == 0) { vps_out_of_range(r, 1); saw(S_ENC_VPS_PDC, FS_PIL, K_OOR); }
	saw(S_ENC_VPS_PDC, FS_PIL, k); saw(S_DEC_VPS_PDC, FS_PIL, k);
}
static void u_vps_pcs_pty(struct vf_rng *r, long v)
{
	unsigned pcs = (unsigned)v >> 8, pty = (unsigned)v & 255;
	vps_roundtrip(r, rnd_cni12(r), rnd_pil(r), pcs, pty);
	vps_out_of_range(r, 2); vps_out_of_range(r, 3);
	saw(S_ENC_VPS_PDC, FS_PCS, range_class(pcs, 3)); saw(S_DEC_VPS_PDC, FS_PCS, range_class(pcs, 3));
	saw(S_ENC_VPS_PDC, FS_PTY, range_class(pty, 255)); saw(S_DEC_VPS_PDC, FS_PTY, range_class(pty, 255));
	saw(S_ENC_VPS_PDC, FS_PCS, K_OOR); saw(S_ENC_VPS_PDC, FS_PTY, K_OOR);
}
static void u_dvb_pil(struct vf_rng *r, long v)
{
	int k = pil_class((unsigned)v);
	dvb_roundtrip(r, (unsigned)v);
	if ((v & 63) == 0) { dvb_out_of_range(r); saw(S_ENC_DVB, FS_PIL, K_OOR); }
	saw(S_ENC_DVB, FS_PIL, k); saw(S_DEC_DVB, FS_PIL, k);
}
static void u_dvb_hdr(struct vf_rng *r, long v)
{
	dvb_header(r, (unsigned)v >> 8, (unsigned)v & 255);
	saw(S_DEC_DVB, FS_PIL, ((unsigned)v == 0x6903) ? K_ANY : K_BADHDR);
}
static void u_8301_cni(struct vf_rng *r, long v)
{
	struct ref_8301 x;
	rnd_8301(r, &x);
	x.cni = (unsigned)v;
	t8301_check(r, &x);
	saw(S_DEC_8301_CNI, FS_CNI, range_class(x.cni, 0xFFFF));
}
static int has_digit(unsigned v, unsigned d) { do { if (v % 10 == d) return 1; v /= 10; } while (v); return 0; }
static void u_8301_mjd(struct vf_rng *r, long v)
{
	struct ref_8301 x;
	rnd_8301(r, &x);
	x.mjd = (unsigned)v;
	t8301_check(r, &x);
	saw(S_DEC_8301_TIME, FS_MJD, range_class(x.mjd, 99999));
	if (has_digit(x.mjd, 9)) saw(S_DEC_8301_TIME, FS_MJD, K_CARRY);
	if (x.mjd < 40587) saw(S_DEC_8301_TIME, FS_MJD, K_NEG); else saw(S_DEC_8301_TIME, FS_MJD, K_POS);
}
static void u_8301_utc(struct vf_rng *r, long v)
{
	struct ref_8301 x;
	rnd_8301(r, &x);
	x.h = (unsigned)v / 3600; x.m = (unsigned)v / 60 % 60; x.s = (unsigned)v % 60;
	t8301_check(r, &x);
	saw(S_DEC_8301_TIME, FS_UTC, range_class((unsigned)v, 86399));
	if (x.s % 10 == 9 || x.m % 10 == 9 || x.h % 10 == 9) saw(S_DEC_8301_TIME, FS_UTC, K_CARRY);
}
static void u_8301_lto(struct vf_rng *r, long v)
{
	/* every value of the time offset code byte, reserved bits included */
	struct ref_8301 x;
	uint8_t *buf;
	time_t t = 0;
	int se = 12345, e;
	flip++;
	buf = B42();
	rnd_8301(r, &x);
	vf_bytes(r, buf, 42);
	ref_8301_encode(buf, &x);
	buf[11] = (uint8_t)v;
	e = (int)((v >> 1) & 31) * 1800 * ((v & 0x40) ? -1 : 1);
	vf_phase("vbi_decode_teletext_8301_local_time");
	n_calls++;
	if (!vbi_decode_teletext_8301_local_time(&t, &se, buf))
		FAIL("model:C12:decode_8301_local_time:refused-valid", "bytes %s", vf_hex(buf + 11, 7));
	else {
		if (se != e)
			FAIL("model:C12:decode_8301_local_time:wrong-offset", "time offset code 0x%02x decoded to %d s, reference %d s", (unsigned)v, se, e);
		if ((int64_t)t != ref_8301_time(&x))
			FAIL("model:C12:decode_8301_local_time:wrong-time", "bytes %s decoded to %lld, reference %lld", vf_hex(buf + 12, 6), (long long)t, (long long)ref_8301_time(&x));
	}
	x.halfhours = (int)((v >> 1) & 31); x.negative = (int)((v >> 6) & 1);
	t8301_check(r, &x);
	saw(S_DEC_8301_TIME, FS_LTO, (v & 0x40) ? K_NEG : K_POS);
	saw(S_DEC_8301_TIME, FS_LTO, range_class((unsigned)(v >> 1) & 31, 31));
}
static void u_8301_bad(struct vf_rng *r, long v)
{
	int pos = (int)(v / 16 % 11);
	unsigned nib = (unsigned)v % 16;
	t8301_bad_digit(r, pos, nib);
	saw(S_DEC_8301_TIME, pos < 5 ? FS_MJD : FS_UTC, (nib < 1 || nib > 10) ? K_BADBCD : K_ANY);
}
static void u_8302_cni(struct vf_rng *r, long v)
{
	struct ref_8302 x;
	rnd_8302(r, &x);
	x.cni = (unsigned)v;
	t8302_check(r, &x, 1);
	saw(S_DEC_8302_CNI, FS_CNI, range_class(x.cni, 0xFFFF)); saw(S_DEC_8302_PDC, FS_CNI, range_class(x.cni, 0xFFFF));
	saw(S_DEC_8302_CNI, FS_CNI, K_BIT1);
}
static void u_8302_pil(struct vf_rng *r, long v)
{
	struct ref_8302 x;
	rnd_8302(r, &x);
	x.pil = (unsigned)v;
	t8302_check(r, &x, (v & 3) == 0);
	saw(S_DEC_8302_PDC, FS_PIL, pil_class(x.pil));
}
static void u_8302_flags_pty(struct vf_rng *r, long v)
{
	struct ref_8302 x;
	unsigned f = (unsigned)v >> 8;
	rnd_8302(r, &x);
	x.pty = (unsigned)v & 255;
	x.lci = f & 3; x.luf = (f >> 2) & 1; x.prf = (f >> 3) & 1; x.pcs = (f >> 4) & 3; x.mi = (f >> 6) & 1; x.res = (f >> 7) & 1;
	t8302_check(r, &x, 1);
	saw(S_DEC_8302_PDC, FS_FLAGS, range_class(f & 0x7F, 0x7F));
	saw(S_DEC_8302_PDC, FS_PCS, range_class(x.pcs, 3));
	saw(S_DEC_8302_PDC, FS_PTY, range_class(x.pty, 255));
	saw(S_DEC_8302_PDC, FS_FLAGS, K_BIT1);
}
static void u_8302_ham1(struct vf_rng *r, long v)
{
	/* v = ((sample*13 + j)*16 + n)*8 + b */
	int b = (int)(v % 8), j;
	unsigned n = (unsigned)(v / 8 % 16);
	j = (int)(v / 128 % 13);
	t8302_single(r, j, n, b);
	saw(S_DEC_8302_PDC, j == 0 || j == 1 ? FS_FLAGS : j >= 11 ? FS_PTY : j >= 4 && j <= 7 ? FS_PIL : FS_CNI, K_BIT1);
	if (ref_8302_byte_has_cni(j)) saw(S_DEC_8302_CNI, FS_CNI, K_BIT1);
}
static void u_8302_ham2(struct vf_rng *r, long v)
{
	/* v = (j*16 + n)*28 + pair */
	static int p1[28], p2[28], init;
	int pr = (int)(v % 28), j = (int)(v / (28 * 16) % 13);
	unsigned n = (unsigned)(v / 28 % 16);
	if (!init) { int a, b, k = 0; for (a = 0; a < 8; a++) for (b = a + 1; b < 8; b++) { p1[k] = a; p2[k] = b; k++; } init = 1; }
	t8302_double(r, j, n, p1[pr], p2[pr]);
	saw(S_DEC_8302_PDC, j == 0 || j == 1 ? FS_FLAGS : j >= 11 ? FS_PTY : j >= 4 && j <= 7 ? FS_PIL : FS_CNI, K_BIT2);
	if (ref_8302_byte_has_cni(j)) saw(S_DEC_8302_CNI, FS_CNI, K_BIT2);
}
static void u_vps_any(struct vf_rng *r, long v)
{
	(void)v;
	vps_any_buffer(r);
	saw(S_DEC_VPS_PDC, FS_PIL, K_ANY); saw(S_ENC_VPS_PDC, FS_PIL, K_ANY);
}
static void u_830_any(struct vf_rng *r, long v)
{
	(void)v;
	t830_any_buffer(r);
	saw(S_DEC_8302_PDC, FS_PIL, K_ANY); saw(S_DEC_8301_TIME, FS_UTC, K_ANY);
}
static void u_vps_oor(struct vf_rng *r, long v)
{
	vps_out_of_range(r, (int)(v % 5));
	if (v % 5 == 0) dvb_out_of_range(r);
	saw(v % 5 == 4 ? S_ENC_VPS_CNI : S_ENC_VPS_PDC, v % 5 == 1 ? FS_PIL : v % 5 == 2 ? FS_PCS : v % 5 == 3 ? FS_PTY : FS_CNI, K_OOR);
}

static const struct unit units[] = {
	{ "vps_cni",        4096,        u_vps_cni },
	{ "vps_pil",        1L << 20,    u_vps_pil },
	{ "vps_pcs_pty",    1024,        u_vps_pcs_pty },
	{ "dvb_pil",        1L << 20,    u_dvb_pil },
	{ "dvb_header",     65536,       u_dvb_hdr },
	{ "8301_cni",       65536,       u_8301_cni },
	{ "8301_mjd",       100000,      u_8301_mjd },
	{ "8301_utc",       86400,       u_8301_utc },
	{ "8301_lto",       256,         u_8301_lto },
	{ "8301_bad_digit", 11 * 16 * 16, u_8301_bad },
	{ "8302_cni",       65536,       u_8302_cni },
	{ "8302_pil",       1L << 20,    u_8302_pil },
	{ "8302_flags_pty", 65536,       u_8302_flags_pty },
	{ "8302_ham_single", 13 * 16 * 8 * 4, u_8302_ham1 },
	{ "8302_ham_double", 13 * 16 * 28, u_8302_ham2 },
	{ "vps_any_buffer", 1L << 18,    u_vps_any },
	{ "830_any_buffer", 1L << 17,    u_830_any },
	{ "out_of_range",   1L << 15,    u_vps_oor },
};
#define NUNITS ((int)(sizeof units / sizeof units[0]))

static long per_case(void) { return vf_param[0] > 0 ? vf_param[0] : 16; }
static long unit_blocks(int u) { return (units[u].nvals + per_case() - 1) / per_case(); }
static long blocks_per_round(void)
{
	long n = 0;
	int u;
	for (u = 0; u < NUNITS; u++) n += unit_blocks(u);
	return n;
}

static int run_case(struct vf_rng *r, long idx)
{
	long block, first, n, v, before_calls = n_calls;
	int u, fn, fs, k;

	if (!strcmp(vf_mode, "sample")) {
		u = (int)vf_below(r, NUNITS);
		block = (long)(vf_u64(r) % (uint64_t)unit_blocks(u));
	} else {
		/* units are interleaved so that every worker's contiguous range mixes cheap and expensive ones */
		long b = idx % blocks_per_round();
		for (u = 0; u < NUNITS; u++) {
			if (b < unit_blocks(u)) break;
			b -= unit_blocks(u);
		}
		block = b;
	}
	first = block * per_case();
	n = units[u].nvals - first;
	if (n > per_case()) n = per_case();
	unit_name = units[u].name;
	vf_sample("unit %s values %ld..%ld (round %ld)", unit_name, first, first + n - 1, idx / blocks_per_round());
	memset(seen, 0, sizeof seen);
	for (v = first; v < first + n; v++)
		units[u].fn(r, v);
	n_values += n;

	for (fn = 0; fn < S_NFUNC; fn++)
		for (fs = 0; fs < 8; fs++)
			for (k = 0; k < K_NCLASS; k++)
				if (seen[fn][fs] & (1u << k))
					vf_sig("%s %s %s", func_name[fn], fslot_name[fs], class_name[k]);
	vf_count("values_enumerated", n);
	vf_count("codec_calls", n_calls - before_calls);
	{
		char nm[64];
		snprintf(nm, sizeof nm, "values_%s", unit_name);
		vf_count(nm, n);
	}
	vf_count("refusals_checked_unmodified", n_refused); n_refused = 0;
	vf_count("single_bit_errors", n_singlebit); n_singlebit = 0;
	vf_count("uncorrectable_inputs", n_doublebit); n_doublebit = 0;
	vf_count("out_of_range_encodes", n_oor); n_oor = 0;
	vf_count("dc3_cases", n_dc3); n_dc3 = 0;
	vf_count("invalid_bcd_inputs", n_badbcd); n_badbcd = 0;
	vf_count("reencodes", n_reenc); n_reenc = 0;
	return n > 0;
}

static void selftest(void)
{
	/* hand vectors: test/test-vps.cc (a received ARD line) and test/test-packet-830.cc (a received 8/30-2 packet),
	 * EN 300 706 table 18 reference point (MJD 45000 = 31 January 1982), Hamming code words of EN 300 706 table 3. */
	static const uint8_t vps_sample[13] = { 0xB1, 0x04, 0xA0, 0x00, 0x00, 0x00, 0x00, 0x00, 0xC3, 0x76, 0x3F, 0x41, 0xFF };
	static const uint8_t ttx_sample[42] = { 0x15, 0xEA, 0x49, 0x15, 0x15, 0xEA, 0xEA, 0xEA, 0x5e, 0x15, 0x73, 0xEA, 0x9B,
		0xEA, 0x49, 0x5E, 0x73, 0xA1, 0x49, 0xB6, 0x15, 0x64, 0xC2, 0x52, 0xBA, 0x20, 0x52, 0xEF, 0xF4, 0xE5,
		0x20, 0x52, 0xEF, 0x73, 0xE5, 0x6E, 0x20, 0x20, 0x20, 0x20, 0x20, 0x20 };
	static const uint8_t ham[16] = { 0x15, 0x02, 0x49, 0x5E, 0x64, 0x73, 0x38, 0x2F, 0xD0, 0xC7, 0x8C, 0x9B, 0xA1, 0xB6, 0xFD, 0xEA };
	struct ref_8302 v;
	struct ref_8301 w;
	uint8_t buf[42];
	int i, ndec = 0;

	ref_ham_init();
	ref_mask(mask_vps_cni, ref_vps_runs, REF_VPS_NRUNS, F_CNI);
	memcpy(mask_vps_pdc, mask_vps_cni, 13);
	ref_mask_pil(mask_vps_pdc, ref_vps_runs, REF_VPS_NRUNS);
	ref_mask(mask_vps_pdc, ref_vps_runs, REF_VPS_NRUNS, F_PCS);
	ref_mask(mask_vps_pdc, ref_vps_runs, REF_VPS_NRUNS, F_PTY);
	g13 = vf_guard_alloc(13, 1); g5 = vf_guard_alloc(5, 1); g42 = vf_guard_alloc(42, 1);
	h13 = vf_guard_alloc(13, 0); h5 = vf_guard_alloc(5, 0); h42 = vf_guard_alloc(42, 0);

	for (i = 0; i < 16; i++)
		if (ref_ham8((unsigned)i) != ham[i]) vf_fail("selftest:C12", "Hamming 8/4 code word %d is 0x%02x, table says 0x%02x", i, ref_ham8((unsigned)i), ham[i]);
	for (i = 0; i < 256; i++) ndec += ref_unham8_tab[i] >= 0;
	if (ndec != 16 * 9) vf_fail("selftest:C12", "%d decodable Hamming bytes, expected 144", ndec);
	if (ref_vps_decode_cni(vps_sample) != 0xDC1 || ref_get(vps_sample, ref_vps_runs, REF_VPS_NRUNS, F_CNI) != 0xDC1
	    || ref_get_pil(vps_sample, ref_vps_runs, REF_VPS_NRUNS) != ref_pil(1, 11, 22, 15)
	    || ref_get(vps_sample, ref_vps_runs, REF_VPS_NRUNS, F_PCS) != 2 || ref_get(vps_sample, ref_vps_runs, REF_VPS_NRUNS, F_PTY) != 0xFF)
		vf_fail("selftest:C12", "VPS reference decoder fails the sample line");
	{
		/* TR 101 231: 0xDC3 = 1101 1100 0011 -> byte 13 low bits 11, byte 14 = 01 000011, byte 11 high bits 11 */
		uint8_t d[13] = { 0, 0, 0x10, 0, 0, 0, 0, 0, 0xC0, 0, 0x03, 0x43, 0 };
		if (ref_get(d, ref_vps_runs, REF_VPS_NRUNS, F_CNI) != 0xDC3 || ref_vps_decode_cni(d) != 0xDC1) vf_fail("selftest:C12", "0xDC3 with distinction bit set is ARD");
		d[2] = 0xEF;
		if (ref_vps_decode_cni(d) != 0xDC2) vf_fail("selftest:C12", "0xDC3 with distinction bit clear is ZDF");
	}
	if (ref_pil(1, 11, 22, 15) != (unsigned)VBI_PIL(11, 1, 22, 15) || ref_pil(0, 15, 31, 63) != VBI_PIL_TIMER_CONTROL)
		vf_fail("selftest:C12", "PIL packing");
	{
		static const uint8_t m_cni[13] = { 0, 0, 0, 0, 0, 0, 0, 0, 0xC0, 0, 0x03, 0xFF, 0 };
		static const uint8_t m_pdc[13] = { 0, 0, 0xC0, 0, 0, 0, 0, 0, 0xFF, 0xFF, 0xFF, 0xFF, 0xFF };
		if (memcmp(m_cni, mask_vps_cni, 13) || memcmp(m_pdc, mask_vps_pdc, 13)) vf_fail("selftest:C12", "VPS field masks");
	}
	if (!ref_8302_decode(&v, ttx_sample) || v.lci != 0 || v.cni != 0xFDCB || v.pil != ref_pil(15, 10, 12, 40) || v.luf != 0 || v.mi != 1
	    || v.prf != 0 || v.pcs != 2 || v.pty != 2)
		vf_fail("selftest:C12", "8/30-2 reference decoder fails the sample packet: cni %x pil %x pcs %u pty %u", v.cni, v.pil, v.pcs, v.pty);
	memset(buf, 0, sizeof buf);
	ref_8302_encode(buf, &v);
	if (memcmp(buf + 9, ttx_sample + 9, 13)) vf_fail("selftest:C12", "8/30-2 reference encoder does not reproduce the sample packet");
	memset(&w, 0, sizeof w);
	w.mjd = 45000;
	if (ref_8301_time(&w) != 381283200) vf_fail("selftest:C12", "MJD 45000 is not 1982-01-31: %lld", (long long)ref_8301_time(&w));
	w.mjd = 51603; w.h = 21; w.m = 32; w.s = 43;           /* 2000-02-29 */
	if (ref_8301_time(&w) != 951859963) vf_fail("selftest:C12", "MJD 51603 21:32:43 -> %lld", (long long)ref_8301_time(&w));
	w.cni = 0x1234; w.halfhours = 3; w.negative = 1;
	memset(buf, 0xFF, sizeof buf);
	ref_8301_encode(buf, &w);
	if (buf[9] != 0x48 || buf[10] != 0x2C || buf[11] != (0x81 | 0x40 | 6) || buf[12] != 0xF6 || buf[13] != 0x27 || buf[14] != 0x14
	    || buf[15] != 0x32 || buf[16] != 0x43 || buf[17] != 0x54)
		vf_fail("selftest:C12", "8/30-1 reference encoder hand vector: %s", vf_hex(buf + 9, 9));
	{
		struct ref_8301 b;
		ref_8301_decode(&b, buf);
		if (memcmp(&b, &w, sizeof b) || !ref_8301_digits_ok(buf)) vf_fail("selftest:C12", "8/30-1 reference decoder does not invert the encoder");
	}
	if (vf_param[1] && vf_param[1] != blocks_per_round())
		vf_fail("selftest:C12", "checks/c12.py assumes %ld blocks per round, harness has %ld", vf_param[1], blocks_per_round());
}

int main(int argc, char **argv) { return vf_main(argc, argv, run_case, selftest); }
