/* C16 oracle (b): text output converted back from the requested encoding
 * equals the page's characters row by row.
 *
 * Expected character of a cell (written from the documentation, not the code):
 *   - format.h: VBI_DOUBLE_HEIGHT2 / DOUBLE_SIZE2 / OVER_TOP / OVER_BOTTOM cells
 *     repeat the anchor character and "can be safely ignored when scanning the
 *     page": such a continuation cell may appear as a space or as its own
 *     character (and may be left out where the exporter emits terminal size
 *     control codes instead);
 *   - lang.h: printable characters are < U+E600; U+EE00..U+EFFF are block
 *     graphics, >= U+F000 DRCS;
 *   - text exporter option gfx_chr: "Replacement for block graphic characters",
 *     everything else not printable -> space;
 *   - vbi_print_page_region: "Graphics characters, DRCS and all characters not
 *     representable in the target format will be replaced by spaces".
 * Named quirks (reported under their own key when they explain a divergence
 * exactly): Q_GFX table mode passes graphics/DRCS code points through when the
 * target can encode private-use characters; Q_40 a character whose encoded
 * form starts with byte 0x40 is replaced by a space; Q_RAWLF rows are
 * separated by a raw 0x0A byte even when the target encoding is not ASCII
 * compatible (UCS-2 ...).
 */
#ifndef C16_TEXT_H
#define C16_TEXT_H

#define Q_GFX 1
#define Q_40  2

struct xcell { uint16_t want, alt; int optional; };

static int is_cont(const vbi_char *c) { return c->size > VBI_DOUBLE_SIZE; }

static void expect_cell(struct xcell *x, const vbi_char *c, struct cs_info *cs, int exporter, unsigned gfx_chr, int control, int quirks)
{
	unsigned u = c->unicode, w;
	if (u >= 0xEE00 && u <= 0xEFFF) w = exporter ? gfx_chr : ((quirks & Q_GFX) ? u : 0x20);
	else if (u >= 0xF000) w = exporter ? 0x20 : ((quirks & Q_GFX) ? u : 0x20);
	else if (u >= 0xE600) w = exporter ? 0x20 : u;  /* Teletext Arabic private use: neither graphics nor DRCS */
	else w = u;
	if (!cs_repr(cs, w)) w = 0x20;
	if ((quirks & Q_40) && w != 0x40 && cs_first40(cs, w)) w = 0x20;
	x->want = (uint16_t)w;
	x->alt = 0xFFFF;
	x->optional = 0;
	if (!exporter && u >= 0xE600 && u < 0xEE00) x->alt = 0x20;
	if (is_cont(c)) { x->alt = 0x20; x->optional = control > 0; }
}

/* does the decoded row `got[0..n)` match the cells? (cells may be optional) */
static int row_match(const struct xcell *x, int nx, const uint16_t *got, long n)
{
	static uint8_t ok[64][128];
	int i; long j;
	if (nx > 62 || n > 126) return 0;
	memset(ok, 0, sizeof ok);
	ok[0][0] = 1;
	for (i = 0; i < nx; i++)
		for (j = 0; j <= n; j++) {
			if (!ok[i][j]) continue;
			if (x[i].optional) ok[i + 1][j] = 1;
			if (j < n && (got[j] == x[i].want || (x[i].alt != 0xFFFF && got[j] == x[i].alt))) ok[i + 1][j + 1] = 1;
		}
	return ok[nx][n];
}

/* strip the terminal control sequences the text exporter documents for
 * "control" = ANSI / VT200: ESC # digit and ESC [ ... m */
static long strip_escapes(uint16_t *u, long n)
{
	long i = 0, o = 0;
	while (i < n) {
		if (u[i] == 0x1B && i + 1 < n && u[i + 1] == '#') { i += 3; continue; }
		if (u[i] == 0x1B && i + 1 < n && u[i + 1] == '[') {
			i += 2;
			while (i < n && u[i] != 'm') i++;
			i++;
			continue;
		}
		u[o++] = u[i++];
	}
	return o;
}

#define MAXU (64 * 1024)
static uint16_t dec_buf[MAXU];

/* Compare output `data` with rows [row0,row0+h) x [col0,col0+w) of PG.
 * Returns 0 on match, else a static description of the first problem.
 * trailing_lf: every row (also the last) is followed by a line feed. */
static const char *text_compare(struct cs_info *cs, const uint8_t *data, size_t n, int exporter, unsigned gfx_chr, int control,
				int col0, int row0, int w, int h, int trailing_lf, int quirks, int rawlf)
{
	static char msg[1200];
	struct xcell x[64];
	long nu = 0, pos = 0;
	int y, i;
	static uint16_t rowbuf[25 + 1][128];
	static long rowlen[25 + 1];

	if (rawlf) {
		/* positional: every character is one 2-byte unit, rows end with a single 0x0A byte */
		size_t off = 0;
		for (y = 0; y < h; y++) {
			long k;
			if (off + (size_t)w * 2 > n) { snprintf(msg, sizeof msg, "raw-LF layout: output too short in row %d", row0 + y); return msg; }
			k = cs_decode(cs, data + off, (size_t)w * 2, rowbuf[y], 128);
			if (k != w) { snprintf(msg, sizeof msg, "raw-LF layout: row %d does not decode to %d characters", row0 + y, w); return msg; }
			rowlen[y] = k;
			off += (size_t)w * 2;
			if (y < h - 1 || trailing_lf) {
				if (off >= n || data[off] != 0x0A) { snprintf(msg, sizeof msg, "raw-LF layout: no 0x0A after row %d", row0 + y); return msg; }
				off++;
			}
		}
		if (off != n) { snprintf(msg, sizeof msg, "raw-LF layout: %zu trailing bytes", n - off); return msg; }
	} else {
		nu = cs_decode(cs, data, n, dec_buf, MAXU);
		if (nu < 0) { snprintf(msg, sizeof msg, "output (%zu bytes) is not a valid %s string: %s", n, cs->name, vf_hex(data, n > 48 ? 48 : n)); return msg; }
		if (control > 0) nu = strip_escapes(dec_buf, nu);
		for (y = 0; y < h; y++) {
			long s = pos;
			while (pos < nu && dec_buf[pos] != 0x0A) pos++;
			if (pos - s > 127) { snprintf(msg, sizeof msg, "row %d has %ld characters", row0 + y, pos - s); return msg; }
			memcpy(rowbuf[y], dec_buf + s, (size_t)(pos - s) * 2);
			rowlen[y] = pos - s;
			if (pos < nu) pos++;
			else if (y < h - 1 || trailing_lf) { snprintf(msg, sizeof msg, "output ends after %d of %d rows", y + (pos > s), h); return msg; }
		}
		if (pos != nu) { snprintf(msg, sizeof msg, "%ld characters after the last of %d rows", nu - pos, h); return msg; }
	}
	for (y = 0; y < h; y++) {
		for (i = 0; i < w; i++)
			expect_cell(&x[i], &PG.text[(row0 + y) * PG.columns + col0 + i], cs, exporter, gfx_chr, control, quirks);
		if (!row_match(x, w, rowbuf[y], rowlen[y])) {
			uint16_t wantu[64];
			for (i = 0; i < w; i++) wantu[i] = x[i].want;
			snprintf(msg, sizeof msg, "row %d cols %d..%d: page has [%s] output decodes to [%s]", row0 + y, col0, col0 + w - 1,
				 u16_str(wantu, w), u16_str(rowbuf[y], rowlen[y]));
			return msg;
		}
	}
	return NULL;
}

/* Full comparison with quirk attribution.  prefix = "text" | "print-region". */
static int text_oracle(const char *prefix, struct cs_info *cs, const uint8_t *data, size_t n, int exporter, unsigned gfx_chr, int control,
		       int col0, int row0, int w, int h, int trailing_lf, const char *what)
{
	const char *m0, *m;
	char key[96];
	int q;
	m0 = text_compare(cs, data, n, exporter, gfx_chr, control, col0, row0, w, h, trailing_lf, 0, 0);
	if (!m0) return 1;
	{
		static char first[1200];
		snprintf(first, sizeof first, "%s", m0);
		m0 = first;
	}
	/* named quirks, smallest explanation first */
	for (q = 1; q <= 3; q++) {
		m = text_compare(cs, data, n, exporter, gfx_chr, control, col0, row0, w, h, trailing_lf, q, 0);
		if (!m) {
			if (q & Q_GFX) { snprintf(key, sizeof key, "model:C16:%s:Q-gfx-not-replaced", prefix);
				vf_fail(key, "%s charset=%s: block graphics / DRCS code points are passed through instead of being replaced by spaces; strict: %s", what, cs->name, m0); }
			if (q & Q_40) { snprintf(key, sizeof key, "model:C16:%s:Q-first-byte-0x40-blanked", prefix);
				vf_fail(key, "%s charset=%s: characters whose encoding starts with byte 0x40 are replaced by spaces; strict: %s", what, cs->name, m0); }
			return 0;
		}
	}
	if (cs->wide && control == 0) {
		for (q = 0; q <= 3; q++) {
			m = text_compare(cs, data, n, exporter, gfx_chr, control, col0, row0, w, h, trailing_lf, q, 1);
			if (!m) {
				snprintf(key, sizeof key, "model:C16:%s:Q-raw-linefeed-in-wide-charset", prefix);
				vf_fail(key, "%s charset=%s: rows are separated by a single raw 0x0A byte, the output as a whole is not a %s string (characters themselves are right%s)",
					what, cs->name, cs->name, q ? " under quirks gfx/0x40" : "");
				if (q & Q_GFX) { snprintf(key, sizeof key, "model:C16:%s:Q-gfx-not-replaced", prefix); vf_fail(key, "%s charset=%s (with raw line feeds)", what, cs->name); }
				if (q & Q_40) { snprintf(key, sizeof key, "model:C16:%s:Q-first-byte-0x40-blanked", prefix); vf_fail(key, "%s charset=%s (with raw line feeds)", what, cs->name); }
				return 0;
			}
		}
	}
	snprintf(key, sizeof key, "model:C16:%s:row-mismatch", prefix);
	vf_fail(key, "%s charset=%s control=%d: %s", what, cs->name, control, m0);
	return 0;
}

#endif
