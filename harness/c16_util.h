/* C16 helpers: exact-size buffers (guard pages / ASan), iconv based
 * "convert back" oracle for the text outputs. */
#ifndef C16_UTIL_H
#define C16_UTIL_H

#if defined(__SANITIZE_ADDRESS__)
#  define C16_ASAN 1
#else
#  define C16_ASAN 0
#endif

#define FILL 0xA5   /* canvas / canary fill; never a pixel value (PAL8 < 80, RGBA bytes 0x00,0x11..0xFF replicated nibbles) */

/* A block of exactly `size` bytes whose end is flush against a PROT_NONE page
 * (plain flavour) or an ASan red zone (asan flavour).  In the plain flavour the
 * bytes between the start of the page and the block are a 0xA5 canary that
 * exact_check() verifies (under-run). */
static uint8_t *exact_alloc(size_t size)
{
#if C16_ASAN
	uint8_t *p = malloc(size ? size : 1);
	if (!p) { fprintf(stderr, "c16: out of memory\n"); exit(2); }
	return p;
#else
	return vf_guard_alloc(size, 1);
#endif
}
static int exact_underrun(const uint8_t *p)
{
#if C16_ASAN
	(void)p; return 0;
#else
	const uint8_t *q = (const uint8_t *)((uintptr_t)p & ~(uintptr_t)4095);
	for (; q < p; q++) if (*q != 0xA5) return 1;
	return 0;
#endif
}
static void exact_free(uint8_t *p)
{
#if C16_ASAN
	free(p);
#else
	vf_guard_free(p);
#endif
}

/* ---------------- character set helpers (independent of the library) ---------------- */

struct cs_info {
	const char *name;
	iconv_t back;            /* charset -> UTF-16LE */
	uint8_t repr[65536 / 8]; /* representable? */
	uint8_t known[65536 / 8];
	uint8_t first40[65536 / 8]; /* encoded form starts with byte 0x40 */
	int wide;                /* code unit > 1 byte and not ASCII compatible */
};
#define MAX_CS 24
static struct cs_info *cs_tab[MAX_CS];
static int n_cs;

static struct cs_info *cs_get(const char *name)
{
	int i;
	struct cs_info *c;
	for (i = 0; i < n_cs; i++)
		if (0 == strcmp(cs_tab[i]->name, name)) return cs_tab[i];
	if (n_cs >= MAX_CS) { fprintf(stderr, "c16: charset table full\n"); exit(2); }
	c = calloc(1, sizeof *c);
	c->name = strdup(name);
	c->back = iconv_open("UTF-16LE", name);
	{
		/* wide: 'A' does not encode to the single byte 0x41 */
		iconv_t f = iconv_open(name, "UTF-16LE");
		char in[2] = { 'A', 0 }, out[8], *ip = in, *op = out;
		size_t li = 2, lo = 8;
		if (f != (iconv_t)-1) {
			iconv(f, NULL, NULL, &op, &lo);   /* swallow a BOM, if the codec writes one */
			op = out; lo = 8;
			if ((size_t)-1 != iconv(f, &ip, &li, &op, &lo))
				c->wide = !(op - out == 1 && out[0] == 'A');
			iconv_close(f);
		}
	}
	cs_tab[n_cs++] = c;
	return c;
}

static int cs_valid(struct cs_info *c) { return c->back != (iconv_t)-1; }

static void cs_probe(struct cs_info *c, unsigned u)
{
	iconv_t f = iconv_open(c->name, "UTF-16LE");
	char in[2], out[16], *ip = in, *op = out;
	size_t li = 2, lo = sizeof out, r;
	c->known[u >> 3] |= (uint8_t)(1 << (u & 7));
	if (f == (iconv_t)-1) return;
	/* prime the converter so that a BOM (if any) is not counted */
	{ char in0[2] = { ' ', 0 }, *ip0 = in0; size_t l0 = 2; iconv(f, &ip0, &l0, &op, &lo); op = out; lo = sizeof out; }
	in[0] = (char)(u & 0xff); in[1] = (char)(u >> 8);
	r = iconv(f, &ip, &li, &op, &lo);
	if (r == 0 && li == 0 && op > out) {
		c->repr[u >> 3] |= (uint8_t)(1 << (u & 7));
		if ((unsigned char)out[0] == 0x40) c->first40[u >> 3] |= (uint8_t)(1 << (u & 7));
	}
	iconv_close(f);
}
static int cs_repr(struct cs_info *c, unsigned u)
{
	u &= 0xffff;
	if (u >= 0xD800 && u <= 0xDFFF) return 0;
	if (!(c->known[u >> 3] & (1 << (u & 7)))) cs_probe(c, u);
	return !!(c->repr[u >> 3] & (1 << (u & 7)));
}
static int cs_first40(struct cs_info *c, unsigned u)
{
	(void)cs_repr(c, u);
	u &= 0xffff;
	return !!(c->first40[u >> 3] & (1 << (u & 7)));
}

/* Convert `n` bytes in charset c back to UTF-16 code units.  Returns the number
 * of units, or -1 when the bytes are not a valid string of that charset. */
static long cs_decode(struct cs_info *c, const uint8_t *in, size_t n, uint16_t *out, size_t max_units)
{
	char *ip = (char *)in, *op = (char *)out;
	size_t li = n, lo = max_units * 2, r;
	if (!cs_valid(c)) return -1;
	iconv(c->back, NULL, NULL, NULL, NULL);
	r = iconv(c->back, &ip, &li, &op, &lo);
	if (r == (size_t)-1 || li != 0) return -1;
	return (long)(((uint8_t *)op - (uint8_t *)out) / 2);
}

static const char *u16_str(const uint16_t *u, long n)
{
	static char buf[2][700];
	static int slot;
	char *b = buf[slot ^= 1];
	size_t o = 0;
	long i;
	for (i = 0; i < n && o + 8 < sizeof buf[0]; i++)
		o += (size_t)sprintf(b + o, "%04x ", u[i]);
	b[o] = 0;
	return b;
}

#endif
