/* C04 - raw VBI decoding recovers every standard signal bit-exactly, on the right line.
 *
 * Transmitter: the library's own waveform generator (_vbi_raw_vbi_image /
 * _vbi_raw_video_image, src/io-sim.c) renders generated payloads as nominal
 * waveforms for a sampled configuration (service set, sampling rate, window,
 * pixel format, field layout, line ranges, strictness).  Receivers: the new raw
 * decoder (vbi3_raw_decoder_*), the old interface (vbi_raw_decoder_* +
 * vbi_raw_decode) and both single-line bit slicers.  Oracle: transmitter-side
 * truth - the decoded array must be exactly the transmitted lines.
 *
 * One case = one configuration x 3 frames (x 2 raw decoder interfaces) with a
 * service remove / re-add history between the frames.
 */
#include "vf.h"
#include <assert.h>
#include <stdarg.h>
#include "c04_common.h"

#define MAXL 96
#define NCANARY 64
#define CANARY 0xC3

struct txline {
	int line;               /* ITU-R */
	const struct svc *s;
	int pclass;
	uint8_t data[56];
};

struct cfg {
	int scanning;
	const struct svc *set[8];
	int nset;
	unsigned req;           /* requested service set */
	int judged;             /* inside the statement's preconditions */
	const char *outside;    /* why not */
	int mixed_ttx;
	vbi_sampling_par sp;    /* only the public sampling fields are used */
	int spl, bpp;
	double rate;
	int strict;
	int rate_mode;
	double lead_us, trail_us; /* blank time inside the window before / after the signal span */
	int use_video;          /* rendered through _vbi_raw_video_image */
};

static const double special_rates[] = {
	13500000, 14750000, 27000000, 28636363, 35468950, 17734475, 14318181, 29500000, 24545454,
	12272727, 10000000, 20000000, 40000000, 5000000, 3000000, 2500000, 6750000, 18000000, 36000000,
};

static void sp_clear(vbi_sampling_par *sp)
{
	/* the struct doubles as the old decoder object; only public fields matter */
	memset(sp, 0, sizeof *sp);
}

static void gen_payload(struct vf_rng *r, struct txline *t)
{
	int n = (t->s->payload_bits + 7) / 8, i;
	int c = (int)vf_below(r, 8);
	memset(t->data, 0, sizeof t->data);
	switch (c) {
	case 0: memset(t->data, 0x00, (size_t)n); break;
	case 1: memset(t->data, 0xFF, (size_t)n); break;
	case 2: memset(t->data, vf_chance(r, 1, 2) ? 0x55 : 0xAA, (size_t)n); break;
	case 3: { /* long runs of equal bits */
		int bit = (int)vf_below(r, 2), pos = 0, total = n * 8;
		while (pos < total) {
			int run = vf_range(r, 9, 120);
			for (i = 0; i < run && pos < total; i++, pos++)
				if (bit) t->data[pos >> 3] |= (uint8_t)(1u << (pos & 7));
			bit ^= 1;
		}
		break;
	}
	default: vf_bytes(r, t->data, (size_t)n); c = 4; break;
	}
	t->pclass = c;
	/* bits beyond the payload in the last byte are not transmitted: keep them zero */
	if (t->s->payload_bits & 7)
		t->data[n - 1] &= (uint8_t)((1u << (t->s->payload_bits & 7)) - 1);
}

static const char *pclass_name(int c)
{
	static const char *n[] = { "zeros", "ones", "alternating", "runs", "random" };
	return n[c];
}

/* ---- configuration ---- */

static int pick_services(struct vf_rng *r, struct cfg *c)
{
	const struct svc *cand[16];
	int ncand = 0, i, nttx = 0;
	c->nset = 0;
	c->req = 0;
	c->mixed_ttx = 0;
	for (i = 0; i < C04_NSVC; i++)
		if (c04_svc[i].scanning == c->scanning) cand[ncand++] = &c04_svc[i];
	/* at most one Teletext system (false-alarm guard), unless this is a mixed, unjudged case */
	{
		const struct svc *ttx[4];
		int n = 0, want;
		for (i = 0; i < ncand; i++) if (cand[i]->kind == K_TTX) ttx[n++] = cand[i];
		want = vf_chance(r, 3, 4);
		if (want) {
			int k = (int)vf_below(r, (unsigned)n);
			c->set[c->nset++] = ttx[k];
			nttx = 1;
			if (vf_chance(r, 1, 10)) {
				int k2 = (k + 1 + (int)vf_below(r, (unsigned)(n - 1))) % n;
				c->set[c->nset++] = ttx[k2];
				c->mixed_ttx = 1;
			}
		}
	}
	for (i = 0; i < ncand; i++)
		if (cand[i]->kind != K_TTX && vf_chance(r, nttx ? 1 : 2, nttx ? 3 : 3))
			c->set[c->nset++] = cand[i];
	if (c->nset == 0)
		c->set[c->nset++] = cand[vf_below(r, (unsigned)ncand)];
	for (i = 0; i < c->nset; i++) c->req |= c->set[i]->id;
	return c->nset;
}

static int gen_cfg(struct vf_rng *r, struct cfg *c)
{
	double tmin = 1, tmax = 0, lo, hi = 40e6, maxclock = 0, ts, te, need;
	int i, f, has_ttx = 0, needs_field = 0, llo[2] = { 0, 0 }, lhi[2] = { 0, 0 };
	int fmin[2], fmax[2];
	vbi_pixfmt fmt;
	vbi_sampling_par *sp = &c->sp;

	memset(c, 0, sizeof *c);
	sp_clear(sp);
	c->scanning = vf_chance(r, 3, 5) ? 625 : 525;
	pick_services(r, c);
	c->judged = 1;
	if (c->mixed_ttx) { c->judged = 0; c->outside = "mixed-teletext-systems"; }

	for (i = 0; i < c->nset; i++) {
		double a, b;
		const struct svc *s = c->set[i];
		c04_span(s, &a, &b);
		if (a < tmin) tmin = a;
		if (b > tmax) tmax = b;
		if (s->clock > maxclock) maxclock = s->clock;
		if (s->kind == K_TTX) has_ttx = 1;
		if (s->needs_field) needs_field = 1;
		for (f = 0; f < 2; f++)
			if (s->first[f]) {
				if (!llo[f] || s->first[f] < llo[f]) llo[f] = s->first[f];
				if (s->last[f] > lhi[f]) lhi[f] = s->last[f];
			}
	}

	/* sampling rate: inside the statement's floors */
	lo = has_ttx ? 13.5e6 : 2 * maxclock;
	c->rate_mode = (int)vf_below(r, 4);
	switch (c->rate_mode) {
	case 0: {
		int k, tries = 0;
		do k = (int)vf_below(r, sizeof special_rates / sizeof special_rates[0]);
		while ((special_rates[k] < lo || special_rates[k] > hi) && ++tries < 64);
		c->rate = special_rates[k];
		if (c->rate < lo || c->rate > hi) c->rate = lo;
		break;
	}
	case 1: { /* where the slicer's integer step = floor(256 rate / bit_rate) changes value */
		const struct svc *s = c->set[vf_below(r, (unsigned)c->nset)];
		double br = s->bit_rate;
		long klo = (long)ceil(lo * 256 / br), khi = (long)floor(hi * 256 / br), k;
		k = klo + (long)(vf_unit(r) * (double)(khi - klo));
		c->rate = ceil((double)k * br / 256) + (double)vf_range(r, -1, 1);
		if (c->rate < lo) c->rate = ceil(lo);
		break;
	}
	default:
		c->rate = floor(lo * exp(vf_unit(r) * log(hi / lo)));
		if (c->rate < lo) c->rate = ceil(lo);
		break;
	}
	if (c->rate > hi) c->rate = hi;

	c->strict = vf_range(r, -1, 2);

	/* sampling window: any offset that keeps every requested signal inside the line */
	{
		static const double leads[] = { 0, 0, 0.2e-6, 0.5e-6, 1e-6, 2e-6, 4e-6 };
		static const double trails[] = { 0, 0, 0.2e-6, 0.5e-6, 1e-6, 2e-6 };
		double lead = vf_chance(r, 1, 6) ? vf_unit(r) * tmin : leads[vf_below(r, 7)];
		double trail = vf_chance(r, 1, 6) ? vf_unit(r) * (64e-6 - tmax) : trails[vf_below(r, 6)];
		long off, end;
		if (lead > tmin) lead = tmin;
		ts = tmin - lead;
		te = tmax + trail;
		off = (long)floor(ts * c->rate);
		end = (long)ceil(te * c->rate);
		/* strict > 0: the library documents 1 us of headroom on the line length */
		need = (tmax - tmin) + 1.15e-6;
		if (c->strict > 0 && (double)(end - off) / c->rate < need)
			end = off + (long)ceil(need * c->rate);
		sp->offset = (int)off;
		c->spl = (int)(end - off);
	}

	/* pixel format */
	fmt = c04_fmts[vf_chance(r, 1, 4) ? 0 : vf_below(r, C04_NFMT)];
	c->bpp = VBI_PIXFMT_BPP(fmt);
	if (c04_is_422(fmt) && (c->spl & 1)) c->spl++;
	c->use_video = (fmt != VBI_PIXFMT_YUV420) || vf_chance(r, 1, 3);
	c->lead_us = (tmin - sp->offset / c->rate) * 1e6;
	c->trail_us = ((sp->offset + c->spl) / c->rate - tmax) * 1e6;

	sp->scanning = c->scanning;
	sp->sampling_format = fmt;
	sp->sampling_rate = (int)c->rate;
	sp->bytes_per_line = c->spl * c->bpp;

	/* line ranges: exactly or generously covering every requested service */
	if (c->scanning == 625) { fmin[0] = 1; fmax[0] = 310; fmin[1] = 312; fmax[1] = 624; }
	else { fmin[0] = 1; fmax[0] = 261; fmin[1] = 263; fmax[1] = 524; }
	sp->interlaced = vf_chance(r, 1, 3);
	{
		int generous = vf_chance(r, 1, 2);
		for (f = 0; f < 2; f++) {
			if (!llo[f]) { sp->start[f] = 0; sp->count[f] = 0; continue; }
			{
				int a = llo[f] - (generous ? vf_range(r, 0, 5) : 0);
				int b = lhi[f] + (generous ? vf_range(r, 0, 5) : 0);
				if (a < fmin[f]) a = fmin[f];
				if (b > fmax[f]) b = fmax[f];
				sp->start[f] = a;
				sp->count[f] = b - a + 1;
			}
		}
		if (sp->interlaced || (!sp->count[0] && !sp->count[1]) || vf_chance(r, 1, 2)) {
			/* both fields present (interlaced storage needs equal counts) */
			int d = (c->scanning == 625) ? 313 : 263;
			if (!sp->count[0]) { sp->start[0] = sp->start[1] - d; sp->count[0] = sp->count[1]; }
			if (!sp->count[1]) { sp->start[1] = sp->start[0] + d; sp->count[1] = sp->count[0]; }
		}
		if (sp->interlaced) {
			while (sp->count[0] < sp->count[1]) { if (sp->start[0] > fmin[0] && vf_chance(r, 1, 2)) sp->start[0]--; sp->count[0]++; }
			while (sp->count[1] < sp->count[0]) { if (sp->start[1] > fmin[1] && vf_chance(r, 1, 2)) sp->start[1]--; sp->count[1]++; }
		}
	}
	sp->synchronous = !vf_chance(r, 1, 8);
	if (!sp->synchronous && needs_field) {
		/* the service id names the field; without field order it cannot be identified */
		if (c->judged) { c->judged = 0; c->outside = "field-services-without-field-order"; }
	}
	return 1;
}

/* ---- frames ---- */

static int gen_frame(struct vf_rng *r, const struct cfg *c, unsigned tx_services, struct txline *tx)
{
	int n = 0, i, f, used[700];
	const struct svc *order[8];
	int no = 0;
	memset(used, 0, sizeof used);
	/* single-line services first so that Teletext takes what is left */
	for (i = 0; i < c->nset; i++) if (c->set[i]->kind != K_TTX) order[no++] = c->set[i];
	for (i = 0; i < c->nset; i++) if (c->set[i]->kind == K_TTX) order[no++] = c->set[i];
	for (i = 0; i < no; i++) {
		const struct svc *s = order[i];
		int dens;
		if (!(s->id & tx_services)) continue;
		dens = (s->kind == K_TTX) ? (int)vf_below(r, 4) : (vf_chance(r, 1, 5) ? 3 : 0);
		for (f = 0; f < 2; f++) {
			int l;
			if (!s->first[f]) continue;
			for (l = s->first[f]; l <= s->last[f]; l++) {
				int keep;
				if (used[l] || n >= MAXL) continue;
				/* line must be in the sampled range */
				if (!(c->sp.count[f] && l >= c->sp.start[f] && l < c->sp.start[f] + c->sp.count[f])) continue;
				switch (dens) {
				case 0: keep = 1; break;
				case 1: keep = vf_chance(r, 1, 2); break;
				case 2: keep = vf_chance(r, 1, 6); break;
				default: keep = 0; break;
				}
				/* Teletext on the caption line of a requested 525 caption service runs into the
				 * known quirk Q-cc525-claims-any-signal-on-its-line: visit it, but rarely */
				if (s->kind == K_TTX && c->scanning == 525 && ((l == 21 && (c->req & VBI_SLICED_CAPTION_525_F1)) || (l == 284 && (c->req & VBI_SLICED_CAPTION_525_F2)))
				    && !vf_chance(r, 1, 8)) keep = 0;
				/* a shared line (22 / 21) goes to either claimant */
				if (s->kind != K_TTX && c->nset > 1 && vf_chance(r, 1, 6)) keep = 0;
				if (!keep) continue;
				used[l] = 1;
				tx[n].line = l;
				tx[n].s = s;
				gen_payload(r, &tx[n]);
				n++;
			}
		}
	}
	/* ascending line order = expected output order */
	for (i = 1; i < n; i++) {
		struct txline t = tx[i];
		int j = i;
		while (j > 0 && tx[j - 1].line > t.line) { tx[j] = tx[j - 1]; j--; }
		tx[j] = t;
	}
	return n;
}

static int render(struct vf_rng *r, const struct cfg *c, const struct txline *tx, int n, uint8_t *raw, size_t raw_size)
{
	vbi_sliced sl[MAXL];
	int i, ok;
	/* hand the lines over in random order: the generator must not care */
	int perm[MAXL];
	for (i = 0; i < n; i++) perm[i] = i;
	for (i = n - 1; i > 0; i--) { int j = (int)vf_below(r, (unsigned)i + 1), t = perm[i]; perm[i] = perm[j]; perm[j] = t; }
	memset(sl, 0, sizeof sl);
	for (i = 0; i < n; i++) {
		const struct txline *t = &tx[perm[i]];
		sl[i].id = t->s->id;
		sl[i].line = (uint32_t)t->line;
		memcpy(sl[i].data, t->data, sizeof sl[i].data);
	}
	vf_phase("_vbi_raw_vbi_image");
	if (c->use_video) {
		unsigned mask = c04_is_yuv(c->sp.sampling_format) ? 0xFFu : 0xFF00u;
		vf_bytes(r, raw, raw_size);  /* other colour components: noise */
		ok = _vbi_raw_video_image(raw, raw_size, &c->sp, 0, 0, 0, mask, 0, sl, (unsigned)n);
	} else {
		ok = _vbi_raw_vbi_image(raw, raw_size, &c->sp, 0, 0, 0, sl, (unsigned)n);
	}
	return ok;
}

/* ---- oracle ---- */

static const char *cfg_desc(const struct cfg *c)
{
	static char b[700];
	int o = 0, i;
	o += snprintf(b + o, sizeof b - (size_t)o, "scanning=%d services=", c->scanning);
	for (i = 0; i < c->nset; i++) o += snprintf(b + o, sizeof b - (size_t)o, "%s%s", i ? "+" : "", c->set[i]->name);
	snprintf(b + o, sizeof b - (size_t)o,
		 " fmt=%s%s rate=%d spl=%d offset=%d lead=%.3fus trail=%.3fus lines=%d+%d@%d,%d interlaced=%d synchronous=%d strict=%d%s%s",
		 c04_fmt_name(c->sp.sampling_format), c->use_video ? "" : "(vbi_image)", c->sp.sampling_rate, c->spl, c->sp.offset,
		 c->lead_us, c->trail_us, c->sp.count[0], c->sp.count[1], c->sp.start[0], c->sp.start[1],
		 c->sp.interlaced, c->sp.synchronous, c->strict, c->judged ? "" : " UNJUDGED:", c->judged ? "" : c->outside);
	return b;
}

static int payload_equal(const struct svc *s, const uint8_t *sent, const uint8_t *got)
{
	int full = s->payload_bits >> 3;
	if (memcmp(sent, got, (size_t)full)) return 0;
	if (s->payload_bits & 7) {
		unsigned m = (1u << (s->payload_bits & 7)) - 1;
		/* exactly the payload bits: transmitted low bits, nothing else set */
		if ((sent[full] & m) != got[full]) return 0;
	}
	return 1;
}

static int n_fail_this_case;

static void fail(const struct cfg *c, const char *api, int frame, const char *key, const char *fmt, ...) __attribute__((format(printf, 5, 6)));
static void fail(const struct cfg *c, const char *api, int frame, const char *key, const char *fmt, ...)
{
	char b[1500];
	va_list ap;
	if (n_fail_this_case++ >= 6) return;   /* keep replays readable */
	va_start(ap, fmt);
	vsnprintf(b, sizeof b, fmt, ap);
	va_end(ap);
	vf_fail(key, "api=%s frame=%d: %s | %s", api, frame, b, cfg_desc(c));
}

/* ---- named quirks (DESIGN.md section 2 item 5) ----
 * A line failure is first established by the strict oracle.  Then the same
 * frame is transmitted again under ONE changed condition and decoded by a fresh
 * decoder; only if the failure is reproducible with a fresh decoder and
 * disappears exactly under the named condition is it reported under the
 * quirk's own key.  Everything else keeps the generic key. */

static const struct txline *g_tx;
static int g_ntx;

static int render(struct vf_rng *r, const struct cfg *c, const struct txline *tx, int n, uint8_t *raw, size_t raw_size);
static const uint8_t *row_of(const struct cfg *c, const uint8_t *raw, int l);
static int payload_equal(const struct svc *s, const uint8_t *sent, const uint8_t *got);

/* Which receiver a diagnosis re-runs: the failure of a single-line slicer call (fresh slicer state, that
 * line alone) is diagnosed with the same kind of call, not with the raw decoder, whose slicer has adapted
 * its threshold on the lines before. */
enum { DIAG_RAW_DECODER, DIAG_SLICER_NEW, DIAG_SLICER_OLD };
static int g_diag = DIAG_RAW_DECODER;

static int try_single(const struct cfg *c2, const struct txline *t, const uint8_t *raw)
{
	const _vbi_service_par *p = c04_lib_par(t->s->id == VBI_SLICED_TELETEXT_B ? VBI_SLICED_TELETEXT_B : t->s->id);
	const uint8_t *line = row_of(c2, raw, t->line);
	uint8_t buf[64];
	int nb = (t->s->payload_bits + 7) / 8, ok = 0;
	if (!p) return 0;
	memset(buf, 0, sizeof buf);
	if (g_diag == DIAG_SLICER_NEW) {
		vbi3_bit_slicer *bs = vbi3_bit_slicer_new();
		if (bs && vbi3_bit_slicer_set_params(bs, c2->sp.sampling_format, (unsigned)c2->sp.sampling_rate, 0, (unsigned)c2->spl,
				p->cri_frc >> p->frc_bits, p->cri_frc_mask >> p->frc_bits, p->cri_bits, p->cri_rate, ~0u,
				p->cri_frc & ((1u << p->frc_bits) - 1), p->frc_bits, p->payload, p->bit_rate, (vbi3_modulation)p->modulation))
			ok = vbi3_bit_slicer_slice(bs, buf, (unsigned)nb, line) && payload_equal(t->s, t->data, buf);
		vbi3_bit_slicer_delete(bs);
	} else {
		vbi_bit_slicer os;
		memset(&os, 0, sizeof os);
		vbi_bit_slicer_init(&os, c2->spl, c2->sp.sampling_rate, (int)p->cri_rate, (int)p->bit_rate, p->cri_frc, p->cri_frc_mask >> p->frc_bits,
				    (int)p->cri_bits, (int)p->frc_bits, (int)p->payload, (vbi_modulation)p->modulation, c2->sp.sampling_format);
		ok = vbi_bit_slice(&os, (uint8_t *)line, buf) && payload_equal(t->s, t->data, buf);
	}
	return ok;
}

static int try_decode(const struct cfg *c2, unsigned services, const struct txline *t)
{
	struct vf_rng lr;
	int scan = c2->sp.count[0] + c2->sp.count[1], n, i, ok = 0;
	size_t sz = (size_t)scan * (size_t)c2->sp.bytes_per_line;
	uint8_t *raw = malloc(sz);
	vbi_sliced *out = malloc(sizeof *out * (size_t)scan);
	vbi3_raw_decoder *rd;
	vf_rng_seed(&lr, vf_seed ^ 0x5151, (uint64_t)vf_case);
	vf_phase("diagnosis");
	if (raw && out && g_diag != DIAG_RAW_DECODER && c2->sp.synchronous) {
		if (render(&lr, c2, g_tx, g_ntx, raw, sz)) ok = try_single(c2, t, raw);
	} else if (raw && out && render(&lr, c2, g_tx, g_ntx, raw, sz) && (rd = vbi3_raw_decoder_new(&c2->sp))) {
		vbi3_raw_decoder_add_services(rd, services, c2->strict);
		n = (int)vbi3_raw_decoder_decode(rd, out, (unsigned)scan, raw);
		if (c2->sp.synchronous) {
			for (i = 0; i < n; i++)
				if ((int)out[i].line == t->line)
					ok = (out[i].id & t->s->id) && !(out[i].id & ~t->s->family) && payload_equal(t->s, t->data, out[i].data);
		} else if (n == g_ntx) {
			i = (int)(t - g_tx);
			ok = (out[i].id & t->s->id) && !(out[i].id & ~t->s->family) && payload_equal(t->s, t->data, out[i].data);
		}
		vbi3_raw_decoder_delete(rd);
	}
	free(raw);
	free(out);
	return ok;
}

static const char *explain(const struct cfg *c, const struct txline *t, const char *key)
{
	static long cache_case = -1;
	static unsigned cache_id[16];
	static int cache_line[16];
	static const char *cache_in[16];
	static const char *cache_key[16];
	static int cache_diag[16];
	static int ncache;
	const char *q = NULL;
	double floor_rate = (t->s->kind == K_TTX) ? 13.5e6 : 2 * t->s->clock;
	int i;
	if (!c->judged || !g_tx) return key;
	if (cache_case != vf_case) { cache_case = vf_case; ncache = 0; }
	/* the verdict is cached per (service, line, kind of failure) only: every other failure is diagnosed
	   on its own, so that an unrelated fault cannot inherit a quirk key */
	for (i = 0; i < ncache; i++)
		if (cache_id[i] == t->s->id && cache_line[i] == t->line && cache_in[i] == key && cache_diag[i] == g_diag) return cache_key[i] ? cache_key[i] : key;

	if (t->s->kind == K_TTX && c->scanning == 525 && ((t->line == 21 && (c->req & VBI_SLICED_CAPTION_525_F1)) || (t->line == 284 && (c->req & VBI_SLICED_CAPTION_525_F2)))) {
		/* Closed Caption 525 is identified by its line number and two start bits only */
		/* (the caption slicer is tried first once it has found caption on that line, so a fresh decoder need not reproduce it) */
		if (try_decode(c, c->req & ~(unsigned)VBI_SLICED_CAPTION_525, t))
			q = "model:C04:Q-cc525-claims-any-signal-on-its-line";
		/* not cached: applies to this line only */
		if (q) vf_count("quirk_cc525_claims_line", 1);
		return q ? q : key;
	}
	if (t->s->kind == K_TTX && c->scanning == 625 && ((t->line == 22 && (c->req & VBI_SLICED_CAPTION_625_F1)) || (t->line == 335 && (c->req & VBI_SLICED_CAPTION_625_F2)))
	    && 0 == strcmp(key, "model:C04:wrong-service")) {
		/* a Teletext payload that happens to contain the caption run-in and start bits at the caption bit rate */
		if (try_decode(c, c->req & ~(unsigned)VBI_SLICED_CAPTION_625, t)) {
			vf_count("quirk_cc625_false_match", 1);
			return "model:C04:Q-cc625-false-match-on-teletext-payload";
		}
		return key;
	}
	if (!try_decode(c, c->req, t)) {          /* reproducible with a fresh decoder */
		if (!q && c->trail_us < 0.5) {
			/* The named deviation: the run-in search ends at the nominal end of the run-in, one sample
			   before the point where the slicer recognises a run-in ending exactly there.  Granted only if
			   ONE more sample of line (one pixel pair for 4:2:2) cures the line; a line that needs more
			   margin than that keeps the generic key. */
			struct cfg c2 = *c;
			c2.spl += c04_is_422(c2.sp.sampling_format) ? 2 : 1;
			c2.sp.bytes_per_line = c2.spl * c2.bpp;
			if (try_decode(&c2, c->req, t)) { q = "model:C04:Q-needs-trailing-margin"; vf_count("quirk_needs_trailing_margin", 1); }
		}
		/* The named deviation: the slicers need about 12 % more than two samples per symbol (more with 5 bit
		   pixel formats); the statement's floors are two samples per symbol (13.5 MHz = 1.95 for Teletext B).
		   Granted only below 2.24 samples per symbol and only when a 12 % higher rate cures the line. */
		if (!q && (c->rate < 1.06 * floor_rate || c->rate < 2.24 * t->s->clock)) {
			struct cfg c2 = *c;
			double r2 = floor(c->rate * 1.12), t0 = c->sp.offset / c->rate, t1 = (c->sp.offset + c->spl) / c->rate;
			c2.rate = r2;
			c2.sp.sampling_rate = (int)r2;
			c2.sp.offset = (int)floor(t0 * r2);
			c2.spl = (int)ceil(t1 * r2) - c2.sp.offset;
			if (c04_is_422(c2.sp.sampling_format) && (c2.spl & 1)) c2.spl++;
			c2.sp.bytes_per_line = c2.spl * c2.bpp;
			if (try_decode(&c2, c->req, t)) { q = "model:C04:Q-marginal-sampling-rate"; vf_count("quirk_marginal_sampling_rate", 1); }
		}
	}
	else if (c->rate < 1.06 * floor_rate || c->rate < 2.24 * t->s->clock) {
		/* Inside the window of the same named deviation, but a fresh decoder reads the line: the decoder in use
		   carries the slicers' adapted thresholds over from earlier frames, which moves the margin (thorough tier:
		   36 of 3.2 M cases, all below 2.05 samples per symbol, frames 1 and 2).  Same cause, same key; counted apart. */
		q = "model:C04:Q-marginal-sampling-rate";
		vf_count("quirk_marginal_sampling_rate_only_with_decoder_history", 1);
	}
	if (ncache < 16) { cache_id[ncache] = t->s->id; cache_line[ncache] = t->line; cache_in[ncache] = key; cache_key[ncache] = q; cache_diag[ncache] = g_diag; ncache++; }
	return q ? q : key;
}

/* out[0..n) against the transmitted lines; requested = services the decoder currently has */
static void judge(const struct cfg *c, const char *api, int frame, unsigned requested,
		  const struct txline *tx, int ntx, const vbi_sliced *out, int n, int max_lines)
{
	int i, j, last = 0, matched[MAXL];
	const uint8_t *can = (const uint8_t *)(out + max_lines);
	size_t k;

	/* nothing written beyond the reported number of records */
	for (i = n; i < max_lines; i++) {
		const uint8_t *p = (const uint8_t *)&out[i];
		for (k = 0; k < sizeof out[0]; k++)
			if (p[k] != CANARY) {
				fail(c, api, frame, "model:C04:wrote-beyond-count", "record %d (returned count %d) was modified at byte %zu", i, n, k);
				i = max_lines;
				break;
			}
	}
	for (k = 0; k < NCANARY * sizeof out[0]; k++)
		if (can[k] != CANARY) {
			fail(c, api, frame, "model:C04:wrote-beyond-array", "byte %zu after out[%d] modified (returned %d)", k, max_lines, n);
			break;
		}
	if (n < 0 || n > max_lines) {
		fail(c, api, frame, "model:C04:count-out-of-range", "returned %d records, array holds %d", n, max_lines);
		return;
	}
	/* ids: never a service that was not requested - and the id names ONE service (the bits of one row of the
	 * service table, e.g. both Teletext B 625 levels or both caption fields), not a union of different requested
	 * services, which is no service at all.  Also for request sets that are not judged otherwise. */
	for (i = 0; i < n; i++) {
		int one = 0, q;
		if (out[i].id == 0 || (out[i].id & ~requested)) {
			fail(c, api, frame, "model:C04:unrequested-service", "record %d line %u has id 0x%x, requested set is 0x%x", i, out[i].line, out[i].id, requested);
			return;
		}
		for (q = 0; q < C04_NSVC; q++)
			if (!(out[i].id & ~c04_svc[q].family) && (out[i].id & c04_svc[q].id)) one = 1;
		if (!one) {
			fail(c, api, frame, "model:C04:unrequested-service", "record %d line %u has id 0x%x, which is no service but a union of several (requested set 0x%x)", i, out[i].line, out[i].id, requested);
			return;
		}
	}
	if (!c->judged) return;

	memset(matched, 0, sizeof matched);
	if (c->sp.synchronous) {
		for (i = 0; i < n; i++) {
			if ((int)out[i].line <= last) {
				fail(c, api, frame, "model:C04:not-ascending", "record %d has line %u after line %d", i, out[i].line, last);
				return;
			}
			last = (int)out[i].line;
			for (j = 0; j < ntx; j++) if (tx[j].line == (int)out[i].line) break;
			if (j == ntx) {
				/* is it a transmitted payload reported under a wrong line number? */
				int w;
				for (w = 0; w < ntx; w++)
					if ((out[i].id & tx[w].s->family) && payload_equal(tx[w].s, tx[w].data, out[i].data) && tx[w].pclass == 4) break;
				if (w < ntx)
					fail(c, api, frame, "model:C04:wrong-line-number", "record %d carries the payload sent on line %d but reports line %u (id 0x%x)",
					     i, tx[w].line, out[i].line, out[i].id);
				else
					fail(c, api, frame, "model:C04:spurious-record", "record %d: line %u id 0x%x data %s, but that line is blank", i, out[i].line, out[i].id, vf_hex(out[i].data, 8));
				return;
			}
			matched[j] = 1;
			if (!(tx[j].s->id & requested)) {
				vf_count("unrequested_line_decoded_as_other", 1);
				continue;   /* transmitted but currently not requested: not judged */
			}
			if (!(out[i].id & tx[j].s->id) || (out[i].id & ~tx[j].s->family)) {
				fail(c, api, frame, explain(c, &tx[j], "model:C04:wrong-service"), "line %d carries %s (0x%x) but was identified as 0x%x (%s payload)",
				     tx[j].line, tx[j].s->name, tx[j].s->id, out[i].id, pclass_name(tx[j].pclass));
				return;
			}
			if (!payload_equal(tx[j].s, tx[j].data, out[i].data)) {
				int nb = (tx[j].s->payload_bits + 7) / 8;
				fail(c, api, frame, explain(c, &tx[j], "model:C04:payload-mismatch"), "%s line %d (%s payload): sent %s got %s",
				     tx[j].s->name, tx[j].line, pclass_name(tx[j].pclass), vf_hex(tx[j].data, (size_t)nb), vf_hex(out[i].data, (size_t)nb));
				return;
			}
		}
		for (j = 0; j < ntx; j++)
			if (!matched[j] && (tx[j].s->id & requested)) {
				fail(c, api, frame, explain(c, &tx[j], "model:C04:missing-line"), "%s on line %d (%s payload %s) produced no record; %d of %d requested lines decoded",
				     tx[j].s->name, tx[j].line, pclass_name(tx[j].pclass), vf_hex(tx[j].data, 8), n, ntx);
				return;
			}
	} else {
		/* field order unknown: line must be 0, records in transmission order */
		int m = n < ntx ? n : ntx;
		for (i = 0; i < n; i++)
			if (out[i].line != 0) {
				fail(c, api, frame, "model:C04:wrong-line-number", "record %d reports line %u although field order is unknown (expected 0)", i, out[i].line);
				return;
			}
		for (i = 0; i < m; i++) {
			if (!(out[i].id & tx[i].s->id) || (out[i].id & ~tx[i].s->family)) {
				fail(c, api, frame, explain(c, &tx[i], "model:C04:wrong-service"), "record %d: %s sent, identified as 0x%x", i, tx[i].s->name, out[i].id);
				return;
			}
			if (!payload_equal(tx[i].s, tx[i].data, out[i].data)) {
				/* is it the next line's payload? then a line is missing, not a bit error */
				int nb = (tx[i].s->payload_bits + 7) / 8;
				if (n < ntx)
					fail(c, api, frame, explain(c, &tx[i], "model:C04:missing-line"), "%d records for %d transmitted lines (first difference at record %d, %s line %d)", n, ntx, i, tx[i].s->name, tx[i].line);
				else
					fail(c, api, frame, explain(c, &tx[i], "model:C04:payload-mismatch"), "%s line %d (%s payload): sent %s got %s",
					     tx[i].s->name, tx[i].line, pclass_name(tx[i].pclass), vf_hex(tx[i].data, (size_t)nb), vf_hex(out[i].data, (size_t)nb));
				return;
			}
		}
		if (n < ntx)
			fail(c, api, frame, explain(c, &tx[n], "model:C04:missing-line"), "%d records for %d transmitted lines; first missing %s line %d", n, ntx, tx[n].s->name, tx[n].line);
		else if (n > ntx)
			fail(c, api, frame, "model:C04:spurious-record", "%d records for %d transmitted lines; extra id 0x%x data %s", n, ntx, out[ntx].id, vf_hex(out[ntx].data, 8));
	}
}

/* row of the image that holds ITU-R line l */
static const uint8_t *row_of(const struct cfg *c, const uint8_t *raw, int l)
{
	const vbi_sampling_par *sp = &c->sp;
	int f = (sp->count[1] && sp->start[1] && l >= sp->start[1]) ? 1 : 0;
	int row = l - sp->start[f];
	if (sp->interlaced) row = row * 2 + f;
	else if (f) row += sp->count[0];
	return raw + (size_t)row * (size_t)sp->bytes_per_line;
}

static const char *slicer_class(const vbi3_raw_decoder *rd, const struct cfg *c, unsigned id)
{
	unsigned j;
	for (j = 0; j < rd->n_jobs; j++)
		if (rd->jobs[j].id & id) {
			if (rd->jobs[j].slicer.oversampling_rate == (unsigned)c->sp.sampling_rate) return "lowpass";
			return c04_func_class(c->sp.sampling_format);
		}
	return "none";
}

/* single-line interfaces on one transmitted line */
static void bit_slicers(const struct cfg *c, int frame, const struct txline *t, const uint8_t *line, int blank)
{
	const _vbi_service_par *p = c04_lib_par(t->s->id == VBI_SLICED_TELETEXT_B ? VBI_SLICED_TELETEXT_B : t->s->id);
	int nb = (t->s->payload_bits + 7) / 8, ok;
	uint8_t buf[64];
	if (!p) { vf_fail("harness:C04:no-service-par", "no table entry for 0x%x", t->s->id); return; }

	/* new interface */
	g_diag = DIAG_SLICER_NEW;
	{
		vbi3_bit_slicer *bs = vbi3_bit_slicer_new();
		vf_phase("vbi3_bit_slicer_set_params");
		ok = vbi3_bit_slicer_set_params(bs, c->sp.sampling_format, (unsigned)c->sp.sampling_rate, 0, (unsigned)c->spl,
			p->cri_frc >> p->frc_bits, p->cri_frc_mask >> p->frc_bits, p->cri_bits, p->cri_rate, ~0u,
			p->cri_frc & ((1u << p->frc_bits) - 1), p->frc_bits, p->payload, p->bit_rate, (vbi3_modulation)p->modulation);
		if (!ok) {
			if (c->judged) fail(c, "vbi3_bit_slicer", frame, "model:C04:not-admitted", "vbi3_bit_slicer_set_params refused %s", t->s->name);
		} else {
			memset(buf, CANARY, sizeof buf);
			vf_phase("vbi3_bit_slicer_slice");
			ok = vbi3_bit_slicer_slice(bs, buf, (unsigned)nb, line);
			vf_count("bitslice_new_calls", 1);
			if (blank) {
				int k;
				if (ok) fail(c, "vbi3_bit_slicer", frame, "model:C04:spurious-record", "blank line sliced as %s", t->s->name);
				for (k = 0; k < (int)sizeof buf; k++) if (buf[k] != CANARY) { fail(c, "vbi3_bit_slicer", frame, "model:C04:wrote-beyond-count", "buffer modified although the slicer reported failure"); break; }
			} else if (!ok) {
				if (c->judged) fail(c, "vbi3_bit_slicer", frame, explain(c, t, "model:C04:missing-line"), "%s line %d (%s payload %s) not recognised", t->s->name, t->line, pclass_name(t->pclass), vf_hex(t->data, 8));
			} else {
				vf_count("bitslice_new_ok", 1);
				if (c->judged && !payload_equal(t->s, t->data, buf))
					fail(c, "vbi3_bit_slicer", frame, explain(c, t, "model:C04:payload-mismatch"), "%s line %d (%s payload): sent %s got %s", t->s->name, t->line, pclass_name(t->pclass), vf_hex(t->data, (size_t)nb), vf_hex(buf, (size_t)nb));
				if (buf[nb] != CANARY)
					fail(c, "vbi3_bit_slicer", frame, "model:C04:wrote-beyond-array", "byte after the %d payload bytes modified", nb);
			}
			if (!blank && c->sp.sampling_format == VBI_PIXFMT_YUV420) {
				static vbi3_bit_slicer_point pts[512];
				unsigned npts = 0;
				uint8_t buf2[64];
				/* fresh state, same line, debugging variant */
				vbi3_bit_slicer_set_params(bs, c->sp.sampling_format, (unsigned)c->sp.sampling_rate, 0, (unsigned)c->spl,
					p->cri_frc >> p->frc_bits, p->cri_frc_mask >> p->frc_bits, p->cri_bits, p->cri_rate, ~0u,
					p->cri_frc & ((1u << p->frc_bits) - 1), p->frc_bits, p->payload, p->bit_rate, (vbi3_modulation)p->modulation);
				memset(buf2, CANARY, sizeof buf2);
				vf_phase("vbi3_bit_slicer_slice_with_points");
				if (vbi3_bit_slicer_slice_with_points(bs, buf2, (unsigned)nb, pts, &npts, 512, line)) {
					vf_count("bitslice_points_ok", 1);
					if (c->judged && !payload_equal(t->s, t->data, buf2))
						fail(c, "vbi3_bit_slicer_with_points", frame, explain(c, t, "model:C04:payload-mismatch"), "%s line %d: sent %s got %s", t->s->name, t->line, vf_hex(t->data, (size_t)nb), vf_hex(buf2, (size_t)nb));
				} else if (c->judged)
					fail(c, "vbi3_bit_slicer_with_points", frame, explain(c, t, "model:C04:missing-line"), "%s line %d not recognised", t->s->name, t->line);
			}
		}
		vbi3_bit_slicer_delete(bs);
	}
	/* old interface */
	{
		vbi_bit_slicer s;
		g_diag = DIAG_SLICER_OLD;
		memset(&s, 0, sizeof s);
		vf_phase("vbi_bit_slicer_init");
		vbi_bit_slicer_init(&s, c->spl, c->sp.sampling_rate, (int)p->cri_rate, (int)p->bit_rate, p->cri_frc, p->cri_frc_mask >> p->frc_bits,
				    (int)p->cri_bits, (int)p->frc_bits, (int)p->payload, (vbi_modulation)p->modulation, c->sp.sampling_format);
		memset(buf, CANARY, sizeof buf);
		vf_phase("vbi_bit_slice");
		ok = vbi_bit_slice(&s, (uint8_t *)line, buf);
		vf_count("bitslice_old_calls", 1);
		if (blank) {
			if (ok) fail(c, "vbi_bit_slicer", frame, "model:C04:spurious-record", "blank line sliced as %s", t->s->name);
		} else if (!ok) {
			if (c->judged) fail(c, "vbi_bit_slicer", frame, explain(c, t, "model:C04:missing-line"), "%s line %d (%s payload %s) not recognised", t->s->name, t->line, pclass_name(t->pclass), vf_hex(t->data, 8));
		} else {
			vf_count("bitslice_old_ok", 1);
			if (c->judged && !payload_equal(t->s, t->data, buf))
				fail(c, "vbi_bit_slicer", frame, explain(c, t, "model:C04:payload-mismatch"), "%s line %d (%s payload): sent %s got %s", t->s->name, t->line, pclass_name(t->pclass), vf_hex(t->data, (size_t)nb), vf_hex(buf, (size_t)nb));
			if (buf[nb] != CANARY)
				fail(c, "vbi_bit_slicer", frame, "model:C04:wrote-beyond-array", "byte after the %d payload bytes modified", nb);
		}
	}
	g_diag = DIAG_RAW_DECODER;
}

static void old_rd_setup(vbi_raw_decoder *rd, const struct cfg *c)
{
	vbi_raw_decoder_init(rd);
	rd->scanning = c->sp.scanning;
	rd->sampling_format = c->sp.sampling_format;
	rd->sampling_rate = c->sp.sampling_rate;
	rd->bytes_per_line = c->sp.bytes_per_line;
	rd->offset = c->sp.offset;
	rd->start[0] = c->sp.start[0]; rd->start[1] = c->sp.start[1];
	rd->count[0] = c->sp.count[0]; rd->count[1] = c->sp.count[1];
	rd->interlaced = c->sp.interlaced;
	rd->synchronous = c->sp.synchronous;
}

static int run_case(struct vf_rng *r, long idx)
{
	struct cfg c;
	struct txline tx[MAXL];
	vbi3_raw_decoder *rd3;
	vbi_raw_decoder rdo, rdr;
	vbi_sliced *out, *out2 = NULL;
	uint8_t *raw;
	size_t raw_size;
	int scan_lines, frame, ntx, n, i, nontrivial = 0, use_resize = 0;
	unsigned got3, goto_, now3, nowo, removed = 0;
	(void)idx;

	n_fail_this_case = 0;
	g_tx = NULL; g_ntx = 0;
	gen_cfg(r, &c);
	scan_lines = c.sp.count[0] + c.sp.count[1];
	raw_size = (size_t)scan_lines * (size_t)c.sp.bytes_per_line;
	vf_sample("%s", cfg_desc(&c));
	vf_count(c.judged ? "configs_judged" : "configs_unjudged", 1);
	if (c.rate_mode == 1) vf_count("configs_step_boundary_rate", 1);
	if (c.lead_us < 0.05) vf_count("configs_signal_starts_at_window_start", 1);
	if (c.trail_us < 0.05) vf_count("configs_signal_ends_at_window_end", 1);

	raw = malloc(raw_size);
	out = malloc(sizeof *out * (size_t)(scan_lines + NCANARY));
	if (!raw || !out) { vf_fail("harness:alloc", "out of memory"); return 0; }

	/* receivers */
	vf_phase("vbi3_raw_decoder_new");
	rd3 = vbi3_raw_decoder_new(&c.sp);
	if (!rd3) {
		vf_fail("model:C04:not-admitted", "vbi3_raw_decoder_new rejected the sampling parameters | %s", cfg_desc(&c));
		free(raw); free(out);
		return 0;
	}
	vf_phase("vbi3_raw_decoder_add_services");
	got3 = vbi3_raw_decoder_add_services(rd3, c.req, c.strict);
	old_rd_setup(&rdo, &c);
	/* 0.2 interface, documented way to change the sampling parameters of a decoder in use: vbi_raw_decoder_reset()
	 * ("removes all services, does not touch the sampling parameters; you are free to change them"), edit the public
	 * fields, add the services again.  In one case of four the old decoder has such a past: it was used with
	 * parameters that differ in ONE field from those of the case, and must then behave like a fresh one. */
	if (vf_chance(r, 1, 4)) {
		int which = (int)vf_below(r, 3), n0;
		if (which == 0 && c.sp.count[0] == c.sp.count[1]) rdo.interlaced = !c.sp.interlaced;
		else if (which == 1) rdo.synchronous = !c.sp.synchronous;
		else { rdo.start[0] = c.sp.start[0] + 1; if (c.sp.start[1] > 0) rdo.start[1] = c.sp.start[1] + 1; which = 2; }
		vf_phase("vbi_raw_decoder_add_services");
		vbi_raw_decoder_add_services(&rdo, c.req, 0);
		memset(raw, 0x10, raw_size);
		vf_phase("vbi_raw_decode");
		n0 = vbi_raw_decode(&rdo, raw, out);
		(void)n0;
		vf_phase("vbi_raw_decoder_reset");
		vbi_raw_decoder_reset(&rdo);
		rdo.interlaced = c.sp.interlaced; rdo.synchronous = c.sp.synchronous;
		rdo.start[0] = c.sp.start[0]; rdo.start[1] = c.sp.start[1];
		vf_count(which == 0 ? "old_decoders_with_a_past_interlaced" : which == 1 ? "old_decoders_with_a_past_synchronous" : "old_decoders_with_a_past_start_lines", 1);
	}
	vf_phase("vbi_raw_decoder_add_services");
	goto_ = vbi_raw_decoder_add_services(&rdo, c.req, c.strict);
	if (c.judged) {
		if (got3 != c.req)
			fail(&c, "vbi3_raw_decoder", 0, "model:C04:not-admitted", "requested 0x%x, admitted 0x%x (missing 0x%x, extra 0x%x)", c.req, got3, c.req & ~got3, got3 & ~c.req);
		if (goto_ != c.req)
			fail(&c, "vbi_raw_decoder", 0, "model:C04:not-admitted", "requested 0x%x, admitted 0x%x (missing 0x%x, extra 0x%x)", c.req, goto_, c.req & ~goto_, goto_ & ~c.req);
	}
	now3 = got3; nowo = goto_;

	/* "any set of scan lines": the old interface can also arrive at its scan lines through
	 * vbi_raw_decoder_resize().  A third decoder gets the geometry of the case that way - (A) resized from an
	 * unrelated geometry before the services are added, or (B) services added under a geometry that has a few
	 * more lines at the top of each field, then resized - and must from then on return exactly what the
	 * decoder that was given the geometry directly returns. */
	if (vf_chance(r, 1, 3)) {
		int start[2]; unsigned int count[2], f, gr, gi = c.req;
		use_resize = vf_chance(r, 1, 2) ? 1 : 2;
		old_rd_setup(&rdr, &c);
		start[0] = c.sp.start[0]; start[1] = c.sp.start[1];
		count[0] = (unsigned)c.sp.count[0]; count[1] = (unsigned)c.sp.count[1];
		if (use_resize == 1) {
			for (f = 0; f < 2; f++) {
				rdr.count[f] = (int)vf_below(r, 20);
				rdr.start[f] = c.sp.start[f] > 0 ? c.sp.start[f] + (int)vf_below(r, 5) - 2 : c.sp.start[f];
				if (rdr.start[f] < 1) rdr.start[f] = 1;
			}
			vf_phase("vbi_raw_decoder_resize");
			vbi_raw_decoder_resize(&rdr, start, count);
			vf_phase("vbi_raw_decoder_add_services");
			gr = vbi_raw_decoder_add_services(&rdr, c.req, c.strict);
		} else {
			int a0 = (int)vf_below(r, 3);
			for (f = 0; f < 2; f++) {
				/* interlaced images have equally many lines in both fields */
				int a = c.sp.interlaced ? a0 : (int)vf_below(r, 3), first = f ? (c.sp.scanning == 525 ? 263 : 313) : 1;
				if (c.sp.interlaced && (rdr.start[0] - a0 <= 1 || rdr.start[1] - a0 <= (c.sp.scanning == 525 ? 263 : 313))) a = 0;
				if (rdr.count[f] > 0 && rdr.start[f] - a > first) { rdr.start[f] -= a; rdr.count[f] += a; }
			}
			vf_phase("vbi_raw_decoder_add_services");
			gi = vbi_raw_decoder_add_services(&rdr, c.req, c.strict);
			vf_phase("vbi_raw_decoder_resize");
			vbi_raw_decoder_resize(&rdr, start, count);
			/* the services the decoder has now (adding nothing returns the current set; the public struct's
			 * `services` field is not maintained by the old interface) */
			vf_phase("vbi_raw_decoder_add_services");
			gr = vbi_raw_decoder_add_services(&rdr, 0, c.strict);
		}
		vf_count(use_resize == 1 ? "old_decoders_resized_before_add" : "old_decoders_resized_after_add", 1);
		if (c.sp.count[0] != c.sp.count[1]) vf_count("old_decoders_resized_to_unequal_field_counts", 1);
		if (rdr.start[0] != c.sp.start[0] || rdr.start[1] != c.sp.start[1] || rdr.count[0] != c.sp.count[0] || rdr.count[1] != c.sp.count[1])
			fail(&c, "vbi_raw_decoder", 0, "model:C04:resize-differs", "after vbi_raw_decoder_resize(start %d,%d count %d,%d) the decoder has start %d,%d count %d,%d",
			     start[0], start[1], (int)count[0], (int)count[1], rdr.start[0], rdr.start[1], rdr.count[0], rdr.count[1]);
		if (c.judged && goto_ == c.req && gi == c.req && gr != c.req)
			fail(&c, "vbi_raw_decoder", 0, "model:C04:not-admitted", "decoder resized to the geometry (%s): has services 0x%x, the decoder given the geometry directly admitted 0x%x",
			     use_resize == 1 ? "before adding services" : "after adding services under a larger geometry", gr, goto_);
		if (gr != goto_) { vbi_raw_decoder_destroy(&rdr); use_resize = 0; }
		else out2 = malloc(sizeof *out2 * (size_t)(scan_lines + NCANARY));
	}

	for (frame = 0; frame < 3; frame++) {
		unsigned txs = c.req;
		/* history: frame 1 runs with some services removed, frame 2 with them added again */
		if (frame == 1 && c.nset > 1 && vf_chance(r, 2, 3)) {
			for (i = 0; i < c.nset; i++) if (vf_chance(r, 1, 2)) removed |= c.set[i]->id;
			if (removed == c.req) removed &= ~c.set[0]->id;
			if (removed) {
				vf_phase("vbi3_raw_decoder_remove_services");
				now3 = vbi3_raw_decoder_remove_services(rd3, removed);
				vf_phase("vbi_raw_decoder_remove_services");
				nowo = vbi_raw_decoder_remove_services(&rdo, removed);
				if (use_resize) vbi_raw_decoder_remove_services(&rdr, removed);
				vf_count("histories_remove", 1);
				if (c.judged && (now3 != (got3 & ~removed) || nowo != (goto_ & ~removed)))
					fail(&c, "both", frame, "model:C04:remove-services", "after removing 0x%x: vbi3 has 0x%x, old has 0x%x, expected 0x%x", removed, now3, nowo, got3 & ~removed);
				/* half of the time the removed services stay on air */
				if (!c.sp.synchronous || vf_chance(r, 1, 2)) txs = c.req & ~removed;
			}
		}
		if (frame == 2 && removed) {
			vf_phase("vbi3_raw_decoder_add_services");
			now3 = vbi3_raw_decoder_add_services(rd3, removed, c.strict);
			vf_phase("vbi_raw_decoder_add_services");
			nowo = vbi_raw_decoder_add_services(&rdo, removed, c.strict);
			if (use_resize) vbi_raw_decoder_add_services(&rdr, removed, c.strict);
			vf_count("histories_readd", 1);
			if (c.judged && (now3 != got3 || nowo != goto_))
				fail(&c, "both", frame, "model:C04:not-admitted", "re-adding 0x%x: vbi3 has 0x%x (had 0x%x), old has 0x%x (had 0x%x)", removed, now3, got3, nowo, goto_);
		}
		/* only admitted services go on air, so that a refusal is not reported twice */
		ntx = gen_frame(r, &c, txs & (c.judged ? (got3 & goto_) : ~0u), tx);
		if (!render(r, &c, tx, ntx, raw, raw_size)) {
			vf_fail("harness:C04:generator-refused", "_vbi_raw_*_image returned FALSE | %s", cfg_desc(&c));
			break;
		}
		g_tx = tx; g_ntx = ntx;
		vf_count("frames", 1);
		vf_count("lines_transmitted", ntx);
		vf_count("lines_blank", scan_lines - ntx);
		if (ntx) nontrivial = 1;

		memset(out, CANARY, sizeof *out * (size_t)(scan_lines + NCANARY));
		vf_phase("vbi3_raw_decoder_decode");
		n = (int)vbi3_raw_decoder_decode(rd3, out, (unsigned)scan_lines, raw);
		vf_count("records_vbi3", n);
		judge(&c, "vbi3_raw_decoder", frame, now3, tx, ntx, out, n, scan_lines);

		/* The caller's array may be smaller than the image has scan lines: blank lines give no record, so an
		 * array with room for the transmitted lines (exactly, or anything up to one per scan line) must
		 * receive them all, wherever in the image they are. */
		if (ntx < scan_lines && vf_chance(r, 1, 3)) {
			int cap = vf_chance(r, 1, 2) ? ntx : vf_range(r, ntx, scan_lines - 1);
			/* by a decoder of its own with the same services: a second pass of the decoder in use over the same
			   image starts from the slicers' adapted thresholds of the first pass, and at marginal sampling
			   rates or with hostile payloads (thorough tier: 54 of 3.2 M cases) differs from it in a bit - an
			   effect of decoder state, not of the size of the array, and not reproducible for the diagnosis */
			vbi3_raw_decoder *rds = vbi3_raw_decoder_new(&c.sp);
			memset(out, CANARY, sizeof *out * (size_t)(scan_lines + NCANARY));
			n = 0;
			if (rds) {
				vbi3_raw_decoder_add_services(rds, now3, c.strict);
				vf_phase("vbi3_raw_decoder_decode");
				n = (int)vbi3_raw_decoder_decode(rds, out, (unsigned)cap, raw);
				vbi3_raw_decoder_delete(rds);
			}
			vf_count("decodes_with_small_array", 1);
			if (cap == ntx) vf_count("decodes_with_exactly_fitting_array", 1);
			judge(&c, "vbi3_raw_decoder(small array)", frame, now3, tx, ntx, out, n, cap);
		}

		memset(out, CANARY, sizeof *out * (size_t)(scan_lines + NCANARY));
		vf_phase("vbi_raw_decode");
		n = vbi_raw_decode(&rdo, raw, out);
		vf_count("records_old", n);
		judge(&c, "vbi_raw_decoder", frame, nowo, tx, ntx, out, n, scan_lines);
		if (use_resize && out2) {
			int n2, d = -1;
			memset(out2, CANARY, sizeof *out2 * (size_t)(scan_lines + NCANARY));
			vf_phase("vbi_raw_decode(resized)");
			n2 = vbi_raw_decode(&rdr, raw, out2);
			vf_count("decodes_after_resize", 1);
			if (n2 != n) d = n2 < n ? n2 : n;
			else for (i = 0; i < n; i++) if (out[i].id != out2[i].id || out[i].line != out2[i].line || memcmp(out[i].data, out2[i].data, sizeof out[i].data)) { d = i; break; }
			if (d >= 0 || n2 != n)
				fail(&c, "vbi_raw_decoder", frame, "model:C04:resize-differs", "decoder that reached the scan lines through vbi_raw_decoder_resize() (%s) returned %d records, the decoder given them directly %d; first difference at record %d (direct: line %u id 0x%x; resized: line %u id 0x%x)",
				     use_resize == 1 ? "before adding services" : "after adding services under a larger geometry", n2, n, d,
				     d >= 0 && d < n ? out[d].line : 0, d >= 0 && d < n ? out[d].id : 0, d >= 0 && d < n2 ? out2[d].line : 0, d >= 0 && d < n2 ? out2[d].id : 0);
		}

		/* single-line interfaces: up to two transmitted lines and one blank line */
		if (ntx && frame != 1) {
			int k = (int)vf_below(r, (unsigned)ntx);
			bit_slicers(&c, frame, &tx[k], row_of(&c, raw, tx[k].line), 0);
			if (ntx > 1) {
				k = (k + 1 + (int)vf_below(r, (unsigned)ntx - 1)) % ntx;
				bit_slicers(&c, frame, &tx[k], row_of(&c, raw, tx[k].line), 0);
			}
		}
		if (frame == 0 && scan_lines > ntx) {
			int f, l, found = 0;
			for (f = 0; f < 2 && !found; f++)
				for (l = c.sp.start[f]; l < c.sp.start[f] + c.sp.count[f]; l++) {
					for (i = 0; i < ntx; i++) if (tx[i].line == l) break;
					if (i == ntx) {
						struct txline b;
						memset(&b, 0, sizeof b);
						b.line = l; b.s = c.set[vf_below(r, (unsigned)c.nset)];
						bit_slicers(&c, frame, &b, row_of(&c, raw, l), 1);
						vf_count("bitslice_blank_lines", 1);
						found = 1;
						break;
					}
				}
		}
		if (frame == 0) {
			for (i = 0; i < ntx; i++) {
				const char *cls = slicer_class(rd3, &c, tx[i].s->id);
				char nm[64];
				if (i && tx[i].s == tx[i - 1].s) continue;
				vf_sig("%s %s %dMHz il=%d sync=%d%s", tx[i].s->name, cls, c.sp.sampling_rate / 1000000, c.sp.interlaced, c.sp.synchronous, c.judged ? "" : " unjudged");
				snprintf(nm, sizeof nm, "func_%s", cls);
				vf_count(nm, 1);
				snprintf(nm, sizeof nm, "svc_%s", tx[i].s->name);
				vf_count(nm, 1);
			}
		}
	}

	vf_phase("vbi3_raw_decoder_delete");
	vbi3_raw_decoder_delete(rd3);
	vf_phase("vbi_raw_decoder_destroy");
	vbi_raw_decoder_destroy(&rdo);
	if (use_resize) vbi_raw_decoder_destroy(&rdr);
	free(out2);
	free(raw);
	free(out);
	return nontrivial;
}

/* ---- self-test: the oracle's idea of where each signal lies must agree with the transmitter ---- */

static void selftest(void)
{
	int i;
	for (i = 0; i < C04_NSVC; i++) {
		const struct svc *s = &c04_svc[i];
		vbi_sampling_par sp;
		vbi_sliced sl;
		static uint8_t raw[4096];
		double t1, t2, rate = 40e6;
		int f = s->first[0] ? 0 : 1, k, a = -1, b = -1, blank;
		sp_clear(&sp);
		sp.scanning = s->scanning;
		sp.sampling_format = VBI_PIXFMT_YUV420;
		sp.sampling_rate = (int)rate;
		sp.bytes_per_line = 2600;          /* 65 us */
		sp.offset = 0;
		sp.start[f] = s->first[f];
		sp.count[f] = 1;
		sp.synchronous = 1;
		memset(&sl, 0, sizeof sl);
		sl.id = s->id;
		sl.line = (uint32_t)s->first[f];
		memset(sl.data, 0xFF, sizeof sl.data);
		if (!_vbi_raw_vbi_image(raw, sizeof raw, &sp, 0, 0, 0, &sl, 1)) { vf_fail("selftest:C04", "generator refused %s", s->name); continue; }
		blank = raw[0];
		for (k = 0; k < 2600; k++) if (raw[k] != blank) { if (a < 0) a = k; b = k; }
		c04_span(s, &t1, &t2);
		if (a < 0 || a / rate < t1 - 0.06e-6 || b / rate > t2 + 0.06e-6 || a / rate > t1 + 1.2e-6 || b / rate < t2 - 2.3e-6)
			vf_fail("selftest:C04", "%s: oracle span %.3f-%.3f us, transmitter drew %.3f-%.3f us", s->name, t1 * 1e6, t2 * 1e6, a / rate * 1e6, b / rate * 1e6);
	}
	{
		/* payload comparison: WSS has 14 bits, the two top bits of byte 1 must be zero in the output */
		const struct svc *w = c04_find(VBI_SLICED_WSS_625);
		uint8_t sent[2] = { 0xA5, 0x3C }, good[2] = { 0xA5, 0x3C }, bad1[2] = { 0xA5, 0x7C }, bad2[2] = { 0xA4, 0x3C };
		if (!payload_equal(w, sent, good) || payload_equal(w, sent, bad1) || payload_equal(w, sent, bad2))
			vf_fail("selftest:C04", "payload comparison fails the WSS hand vector");
	}
}

int main(int argc, char **argv) { return vf_main(argc, argv, run_case, selftest); }
