/* C20: reads the channel-switch countdown of a service decoder under its own mutex (the library's private
 * header is kept out of harness/c20_threads.c, which is written against the public one). */
#include <pthread.h>
#include "vbi.h"

int c20_chswcd(vbi_decoder *vbi)
{
	int v;
	pthread_mutex_lock(&vbi->chswcd_mutex);
	v = vbi->chswcd;
	pthread_mutex_unlock(&vbi->chswcd_mutex);
	return v;
}
