/*
 *  C19 proxy rig: prints the device ioctl requests which the tree under test
 *  lets a proxy client pass to the daemon (MSG_TYPE_CHN_IOCTL_REQ), with the
 *  argument size and the "needs channel control" flag the tree attaches to
 *  them, as JSON.
 *
 *  Nothing is copied from the V4L headers: the table is obtained by asking
 *  the library's own vbi_proxy_msg_check_ioctl() about every request number
 *  an _IOC() encoding with type 'v' or 'V' can produce, so the fault
 *  generator always speaks about the requests this tree really accepts.
 */

#include "config.h"

#include <stdio.h>
#include <stdint.h>
#include <string.h>

#include "vbi.h"
#include "inout.h"
#include "proxy-msg.h"

extern int vbi_proxy_msg_check_ioctl (VBI_DRIVER_API_REV vbi_api, int request,
				      void *p_arg, vbi_bool *req_perm);

int
main (void)
{
	static const int apis[2] = { VBI_API_V4L1, VBI_API_V4L2 };
	static char arg[65536];
	unsigned int a, ty, dir, nr, size;
	int first = 1;

	vbi_proxy_msg_set_debug_level (0);

	printf ("[");
	for (a = 0; a < 2; ++a)
	for (ty = 0; ty < 2; ++ty)
	for (dir = 0; dir < 4; ++dir)
	for (nr = 0; nr < 256; ++nr)
	for (size = 0; size < 1024; ++size) {
		unsigned int req = (dir << 30) | (size << 16)
			| ((unsigned int) "vV"[ty] << 8) | nr;
		vbi_bool perm = 0;
		int r;

		memset (arg, 0, 1024);
		r = vbi_proxy_msg_check_ioctl (apis[a], (int) req, arg, &perm);
		if (r >= 0) {
			printf ("%s\n {\"api\": %d, \"request\": %u, \"size\": %d, \"perm\": %d}",
				first ? "" : ",", apis[a], req, r, !!perm);
			first = 0;
		}
	}
	printf ("\n]\n");
	return 0;
}
