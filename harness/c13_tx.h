/* Independent transmitters used by the C11 and C13 harnesses.
 *
 * Everything here is written from the broadcast specifications, in terms of the
 * transmission order of bits, and shares no code or tables with the library:
 *   - Teletext packets (EN 300 706): Hamming 8/4 (Table in 8.2), odd parity,
 *     page header (9.3.1), packet 8/30 format 1 (9.8.1) and format 2 (9.8.2)
 *   - VPS data line 16 (ETS 300 231 Figure 9)
 *   - WSS 625 (EN 300 294 Table 1 ff.)
 *   - XDS packets on caption field 2 (EIA-608 sec. 9)
 * The library's own encoders are used only in selftest() as a cross-check.
 */
#ifndef C13_TX_H
#define C13_TX_H

#include <stdint.h>
#include <string.h>

/* ---- bit writers ------------------------------------------------------- */

/* Bits in order of transmission, packed LSB first into bytes (this is what
 * a bit slicer produces: "lsb first transmitted"). */
struct tx_bits { uint8_t *buf; int pos; };

static void tx_put1(struct tx_bits *w, int bit)
{
	if (bit) w->buf[w->pos >> 3] |= (uint8_t)(1u << (w->pos & 7));
	else w->buf[w->pos >> 3] &= (uint8_t)~(1u << (w->pos & 7));
	w->pos++;
}
/* value with its most significant bit transmitted first */
static void tx_put_msb(struct tx_bits *w, unsigned v, int n)
{
	while (n-- > 0) tx_put1(w, (v >> n) & 1);
}
/* value with its least significant bit transmitted first */
static void tx_put_lsb(struct tx_bits *w, unsigned v, int n)
{
	int i;
	for (i = 0; i < n; i++) tx_put1(w, (v >> i) & 1);
}

/* ---- Teletext basics ---------------------------------------------------- */

/* EN 300 706 8.2: Hamming 8/4.  Index = D1 | D2<<1 | D3<<2 | D4<<3, D1 first
 * transmitted data bit.  Byte bits (LSB first transmitted): P1 D1 P2 D2 P3 D3 P4 D4,
 * P1 = 1^D1^D3^D4, P2 = 1^D1^D2^D4, P3 = 1^D1^D2^D3, P4 = odd parity of all. */
static uint8_t tx_ham84(unsigned d)
{
	unsigned d1 = d & 1, d2 = (d >> 1) & 1, d3 = (d >> 2) & 1, d4 = (d >> 3) & 1;
	unsigned p1 = 1 ^ d1 ^ d3 ^ d4, p2 = 1 ^ d1 ^ d2 ^ d4, p3 = 1 ^ d1 ^ d2 ^ d3;
	unsigned p4 = 1 ^ p1 ^ d1 ^ p2 ^ d2 ^ p3 ^ d3 ^ d4;
	return (uint8_t)(p1 | d1 << 1 | p2 << 2 | d2 << 3 | p3 << 4 | d3 << 5 | p4 << 6 | d4 << 7);
}

static uint8_t tx_oddpar(unsigned c)
{
	unsigned n = 0, i;
	c &= 0x7f;
	for (i = 0; i < 7; i++) n += (c >> i) & 1;
	return (uint8_t)((n & 1) ? c : (c | 0x80));
}

/* magazine 1..8, packet 0..31 -> first two bytes */
static void tx_ttx_addr(uint8_t p[42], int mag, int packet)
{
	p[0] = tx_ham84((unsigned)((mag & 7) | ((packet & 1) << 3)));
	p[1] = tx_ham84((unsigned)(packet >> 1));
}

/* Page header.  pgno 0x100..0x8FF (hex digits allowed), subcode 0..0x3F7F,
 * control bits all zero except those given: c4 erase, c11 magazine serial. */
static void tx_ttx_header(uint8_t p[42], int pgno, int subcode, int c4, int c11, const char *text32)
{
	int i;
	tx_ttx_addr(p, (pgno >> 8) & 7, 0);
	p[2] = tx_ham84((unsigned)(pgno & 15));
	p[3] = tx_ham84((unsigned)((pgno >> 4) & 15));
	p[4] = tx_ham84((unsigned)(subcode & 15));
	p[5] = tx_ham84((unsigned)(((subcode >> 4) & 7) | (c4 ? 8 : 0)));
	p[6] = tx_ham84((unsigned)((subcode >> 8) & 15));
	p[7] = tx_ham84((unsigned)((subcode >> 12) & 3));
	p[8] = tx_ham84(0);
	p[9] = tx_ham84((unsigned)(c11 ? 1 : 0));
	for (i = 0; i < 32; i++)
		p[10 + i] = tx_oddpar((unsigned)(text32 && text32[i] ? text32[i] : ' '));
}

static void tx_ttx_row(uint8_t p[42], int mag, int row, const char *text40)
{
	int i, end = 0;
	tx_ttx_addr(p, mag, row);
	for (i = 0; i < 40; i++) {
		if (!end && !text40[i]) end = 1;
		p[2 + i] = tx_oddpar((unsigned)(end ? ' ' : text40[i]));
	}
}

/* ---- packet 8/30 -------------------------------------------------------- */

struct tx_830_common { int designation; int initial_pgno; int initial_sub; };

static void tx_830_prefix(uint8_t p[42], int designation)
{
	/* magazine 8 (coded 0), packet 30, data channel 0; designation code;
	 * initial page 100, subcode 3F7F ("none"), magazine bits 0 */
	tx_ttx_addr(p, 0, 30);
	p[2] = tx_ham84((unsigned)designation);
	p[3] = tx_ham84(0);        /* page units */
	p[4] = tx_ham84(0);        /* page tens */
	p[5] = tx_ham84(0xF);      /* S1 */
	p[6] = tx_ham84(0x7);      /* S2, M1 = 0 */
	p[7] = tx_ham84(0xF);      /* S3 */
	p[8] = tx_ham84(0x3);      /* S4, M2 M3 = 0 */
}

static void tx_830_status(uint8_t p[42], const char *status20)
{
	int i, end = 0;
	for (i = 0; i < 20; i++) {
		if (!end && !status20[i]) end = 1;
		p[22 + i] = tx_oddpar((unsigned)(end ? ' ' : status20[i]));
	}
}

struct tx_8301 {
	unsigned cni;           /* 16 bit network identification code */
	int lto_halfhours;      /* -31..31 (positive = east) */
	long mjd;               /* 0..99999 */
	int hour, min, sec;
	int multiplexed;        /* designation 0 or 1 */
};

/* EN 300 706 9.8.1.  Bytes 13..25 of the packet counted from the clock run-in,
 * i.e. p[7+..]: NI (16 bits, MSB first), time offset, MJD (5 BCD digits + 1),
 * UTC (6 BCD digits + 1), 4 reserved bytes, 20 status characters. */
static void tx_8301(uint8_t p[42], const struct tx_8301 *t)
{
	struct tx_bits w;
	int mag = t->lto_halfhours < 0 ? -t->lto_halfhours : t->lto_halfhours;
	long m = t->mjd;
	int d[5], i;
	memset(p, 0, 42);
	tx_830_prefix(p, t->multiplexed ? 0 : 1);
	w.buf = p; w.pos = 9 * 8;
	tx_put_msb(&w, t->cni, 16);
	/* time offset code: bit 1 = 1, bits 2-6 magnitude in half hours (LSB first),
	 * bit 7 sign (1 = negative, west of Greenwich), bit 8 = 1 */
	tx_put1(&w, 1);
	tx_put_lsb(&w, (unsigned)mag, 5);
	tx_put1(&w, t->lto_halfhours < 0);
	tx_put1(&w, 1);
	for (i = 4; i >= 0; i--) { d[i] = (int)(m % 10); m /= 10; }
	/* each digit incremented by one; first byte: upper nibble unused (0), ten-thousands */
	tx_put_lsb(&w, (unsigned)(d[0] + 1), 4); tx_put_lsb(&w, 0, 4);
	tx_put_lsb(&w, (unsigned)(d[2] + 1), 4); tx_put_lsb(&w, (unsigned)(d[1] + 1), 4);
	tx_put_lsb(&w, (unsigned)(d[4] + 1), 4); tx_put_lsb(&w, (unsigned)(d[3] + 1), 4);
	tx_put_lsb(&w, (unsigned)(t->hour % 10 + 1), 4); tx_put_lsb(&w, (unsigned)(t->hour / 10 + 1), 4);
	tx_put_lsb(&w, (unsigned)(t->min % 10 + 1), 4);  tx_put_lsb(&w, (unsigned)(t->min / 10 + 1), 4);
	tx_put_lsb(&w, (unsigned)(t->sec % 10 + 1), 4);  tx_put_lsb(&w, (unsigned)(t->sec / 10 + 1), 4);
	tx_830_status(p, "C13 STATION");
}

struct tx_8302 {
	unsigned cni;           /* 16 bit */
	unsigned pil;           /* 20 bit: day 5, month 4, hour 5, minute 6 */
	int lci, luf, prf, mi;  /* label channel 0..3, flags */
	int pcs;                /* 0..3 */
	int pty;                /* 0..255 */
};

/* EN 300 706 9.8.2 / ETS 300 231 8.2.1: 13 Hamming-8/4 protected nibbles
 * ("bytes 13 to 25"), listed here in order of transmission:
 *  byte 13: LCI b1 b2, LUF, PRF
 *  byte 14: PCS b1 b2, MI, reserved
 *  byte 15: CNI b1-b4          (country, upper nibble)
 *  byte 16: CNI b9 b10, PIL b1 b2
 *  byte 17: PIL b3-b6
 *  byte 18: PIL b7-b10
 *  byte 19: PIL b11-b14
 *  byte 20: PIL b15-b18
 *  byte 21: PIL b19 b20, CNI b5 b6
 *  byte 22: CNI b7 b8, CNI b11 b12
 *  byte 23: CNI b13-b16
 *  byte 24: PTY b1-b4
 *  byte 25: PTY b5-b8
 * where b1 is the most significant bit of each field. */
static void tx_8302(uint8_t p[42], const struct tx_8302 *t)
{
	uint8_t bits[8];
	struct tx_bits w;
	int i;
#define CB(n) ((t->cni >> (16 - (n))) & 1)       /* CNI bit b<n>, b1 = MSB */
#define PB(n) ((t->pil >> (20 - (n))) & 1)       /* PIL bit b<n> */
	memset(p, 0, 42);
	memset(bits, 0, sizeof bits);
	tx_830_prefix(p, 2);
	w.buf = bits; w.pos = 0;
	tx_put_msb(&w, (unsigned)t->lci, 2); tx_put1(&w, t->luf); tx_put1(&w, t->prf);
	tx_put_msb(&w, (unsigned)t->pcs, 2); tx_put1(&w, t->mi); tx_put1(&w, 0);
	tx_put1(&w, CB(1)); tx_put1(&w, CB(2)); tx_put1(&w, CB(3)); tx_put1(&w, CB(4));
	tx_put1(&w, CB(9)); tx_put1(&w, CB(10)); tx_put1(&w, PB(1)); tx_put1(&w, PB(2));
	for (i = 3; i <= 18; i++) tx_put1(&w, PB(i));
	tx_put1(&w, PB(19)); tx_put1(&w, PB(20)); tx_put1(&w, CB(5)); tx_put1(&w, CB(6));
	tx_put1(&w, CB(7)); tx_put1(&w, CB(8)); tx_put1(&w, CB(11)); tx_put1(&w, CB(12));
	tx_put1(&w, CB(13)); tx_put1(&w, CB(14)); tx_put1(&w, CB(15)); tx_put1(&w, CB(16));
	tx_put_msb(&w, (unsigned)t->pty, 8);
#undef CB
#undef PB
	/* each group of four transmitted bits becomes one Hamming 8/4 byte, first bit = D1 */
	for (i = 0; i < 13; i++) {
		unsigned nib = (bits[i >> 1] >> ((i & 1) * 4)) & 15;
		p[9 + i] = tx_ham84(nib);
	}
	tx_830_status(p, "C13 STATION");
}

/* ---- VPS ---------------------------------------------------------------- */

struct tx_vps {
	unsigned cni;           /* 12 bit: country 4, network 8 */
	unsigned pil;           /* 20 bit */
	int pcs;                /* 0..3 */
	int pty;                /* 0..255 */
};

/* ETS 300 231 Figure 9, data line 16.  Bytes are numbered 1..15 with bytes
 * 1, 2 the run-in and start code; VBI_SLICED_VPS carries bytes 3..15.  Bit 0 of a
 * byte is its most significant bit.
 *  byte  5: bits 0-1 PCS (sound)
 *  byte 11: bits 0-1 network code b7 b6; bits 2-6 day; bit 7 month (msb)
 *  byte 12: bits 0-2 month; bits 3-7 hour
 *  byte 13: bits 0-5 minute; bits 6-7 country b3 b2
 *  byte 14: bits 0-1 country b1 b0; bits 2-7 network code b5..b0
 *  byte 15: programme type */
static void tx_vps_field(uint8_t buf[13], int byte_no, int first_bit, int nbits, unsigned v)
{
	int i;
	for (i = 0; i < nbits; i++) {
		int bit = first_bit + i;                 /* 0 = msb */
		uint8_t m = (uint8_t)(0x80u >> bit);
		if ((v >> (nbits - 1 - i)) & 1) buf[byte_no - 3] |= m;
		else buf[byte_no - 3] &= (uint8_t)~m;
	}
}

static void tx_vps(uint8_t buf[13], const struct tx_vps *t)
{
	unsigned country = (t->cni >> 8) & 15, net = t->cni & 0xff;
	unsigned day = (t->pil >> 15) & 31, month = (t->pil >> 11) & 15;
	unsigned hour = (t->pil >> 6) & 31, minute = t->pil & 63;
	tx_vps_field(buf, 5, 0, 2, (unsigned)t->pcs);
	tx_vps_field(buf, 11, 0, 2, net >> 6);
	tx_vps_field(buf, 11, 2, 5, day);
	tx_vps_field(buf, 11, 7, 1, month >> 3);
	tx_vps_field(buf, 12, 0, 3, month & 7);
	tx_vps_field(buf, 12, 3, 5, hour);
	tx_vps_field(buf, 13, 0, 6, minute);
	tx_vps_field(buf, 13, 6, 2, country >> 2);
	tx_vps_field(buf, 14, 0, 2, country & 3);
	tx_vps_field(buf, 14, 2, 6, net & 63);
	tx_vps_field(buf, 15, 0, 8, (unsigned)t->pty);
}

/* ---- WSS 625 ------------------------------------------------------------ */

struct tx_wss {
	int format;             /* 0..7, index into the aspect ratio table below */
	int film, colour, helper;
	int ttx_subtitles;
	int subt_mode;          /* as bit string b9 b10: 0 = "00", 1 = "10", 2 = "01", 3 = "11" */
	int surround, copyright, generation;
	int bad_parity;         /* invert b3 */
};

/* EN 300 294 Table 1 (group 1): b0 b1 b2 b3 with b3 the odd parity bit. */
static const char tx_wss_group1[8][5] = {
	"0001",	/* full format 4:3 */
	"1000",	/* box 14:9 centre */
	"0100",	/* box 14:9 top */
	"1101",	/* box 16:9 centre */
	"0010",	/* box 16:9 top */
	"1011",	/* box > 16:9 centre */
	"0111",	/* full format 4:3, shoot and protect 14:9 centre */
	"1110",	/* full format 16:9 anamorphic */
};

static void tx_wss(uint8_t buf[2], const struct tx_wss *t)
{
	struct tx_bits w;
	int i;
	buf[0] = buf[1] = 0;
	w.buf = buf; w.pos = 0;
	for (i = 0; i < 4; i++) {
		int b = tx_wss_group1[t->format][i] == '1';
		if (i == 3 && t->bad_parity) b = !b;
		tx_put1(&w, b);
	}
	tx_put1(&w, t->film); tx_put1(&w, t->colour); tx_put1(&w, t->helper); tx_put1(&w, 0);
	tx_put1(&w, t->ttx_subtitles);
	tx_put1(&w, t->subt_mode & 1); tx_put1(&w, (t->subt_mode >> 1) & 1);
	tx_put1(&w, t->surround); tx_put1(&w, t->copyright); tx_put1(&w, t->generation);
}

/* ---- XDS ---------------------------------------------------------------- */

/* One complete XDS packet as field-2 byte pairs: start (class*2+1, type),
 * payload, end 0x0F + checksum.  Returns number of pairs. */
static int tx_xds_packet(uint8_t pairs[][2], int cls, int type, const char *payload, int len)
{
	int n = 0, i;
	unsigned sum;
	int c1 = cls * 2 + 1;
	pairs[n][0] = tx_oddpar((unsigned)c1); pairs[n][1] = tx_oddpar((unsigned)type); n++;
	sum = (unsigned)(c1 + type);
	for (i = 0; i < len; i += 2) {
		int a = payload[i], b = (i + 1 < len) ? payload[i + 1] : 0;
		pairs[n][0] = tx_oddpar((unsigned)a); pairs[n][1] = tx_oddpar((unsigned)b); n++;
		sum += (unsigned)(a + b);
	}
	sum += 0x0F;
	pairs[n][0] = tx_oddpar(0x0F); pairs[n][1] = tx_oddpar((128 - (sum & 0x7f)) & 0x7f); n++;
	return n;
}

#endif
