/* C16 oracle (c): region rendering stays inside the region's pixel rectangle
 * and equals the full-page rendering. */
#ifndef C16_RENDER_H
#define C16_RENDER_H

static uint8_t *full_ref[2][2][2];   /* [pal8][reveal][flash_on] */

static void render_call(vbi_pixfmt fmt, void *canvas, int stride, int col, int row, int w, int h, int reveal, int flash)
{
	if (PG_is_cc) {
		vf_phase("vbi_draw_cc_page_region");
		vbi_draw_cc_page_region(&PG, fmt, canvas, stride, col, row, w, h);
	} else {
		vf_phase("vbi_draw_vt_page_region");
		vbi_draw_vt_page_region(&PG, fmt, canvas, stride, col, row, w, h, reveal, flash);
	}
}

static const uint8_t *get_full(int pal8, int reveal, int flash, int cw, int ch)
{
	int bpp = pal8 ? 1 : 4;
	uint8_t **slot = &full_ref[pal8][PG_is_cc ? 0 : reveal][PG_is_cc ? 0 : flash];
	if (!*slot) {
		size_t n = (size_t)PG.columns * (size_t)cw * (size_t)bpp * (size_t)PG.rows * (size_t)ch;
		*slot = malloc(n);
		memset(*slot, FILL, n);
		render_call(pal8 ? VBI_PIXFMT_PAL8 : VBI_PIXFMT_RGBA32_LE, *slot, PG.columns * cw * bpp, 0, 0, PG.columns, PG.rows, reveal, flash);
		vf_count("full_page_renderings", 1);
	}
	return *slot;
}

static void free_full(void)
{
	int a, b, c;
	for (a = 0; a < 2; a++) for (b = 0; b < 2; b++) for (c = 0; c < 2; c++) { free(full_ref[a][b][c]); full_ref[a][b][c] = NULL; }
}

/* bit 0: left edge cuts a double-width/size character, 1: right edge, 2: top edge (double size), 3: bottom edge (double size) */
static int region_cuts(int col, int row, int w, int h)
{
	int y, x, cuts = 0;
	for (y = row; y < row + h; y++) {
		const vbi_char *l = &PG.text[y * PG.columns + col], *rr = &PG.text[y * PG.columns + col + w - 1];
		if (l->size == VBI_OVER_TOP || l->size == VBI_OVER_BOTTOM) cuts |= 1;
		if (rr->size == VBI_DOUBLE_WIDTH || rr->size == VBI_DOUBLE_SIZE || rr->size == VBI_DOUBLE_SIZE2) cuts |= 2;
	}
	for (x = col; x < col + w; x++) {
		const vbi_char *t = &PG.text[row * PG.columns + x], *b = &PG.text[(row + h - 1) * PG.columns + x];
		if (t->size == VBI_DOUBLE_SIZE2 || t->size == VBI_OVER_BOTTOM) cuts |= 4;
		if (b->size == VBI_DOUBLE_SIZE || (b->size == VBI_OVER_TOP && x > 0 && b[-1].size == VBI_DOUBLE_SIZE)) cuts |= 8;
	}
	return cuts;
}

static void oracle_render(struct vf_rng *r, long nregions, int all_regions)
{
	static const vbi_pixfmt unsupported[] = { VBI_PIXFMT_YUV420, VBI_PIXFMT_YUYV, VBI_PIXFMT_RGBA32_BE, VBI_PIXFMT_BGRA32_LE, VBI_PIXFMT_RGB24,
		VBI_PIXFMT_RGB16_LE, VBI_PIXFMT_ABGR15_BE, (vbi_pixfmt)0, (vbi_pixfmt)-1, (vbi_pixfmt)7 };
	int cw = PG_is_cc ? 16 : 12, ch = PG_is_cc ? 26 : 10;
	long k, total = nregions;
	int C = PG.columns, R = PG.rows;
	int ac = 0, ar = 0, aw = 1, ah = 1;   /* enumeration state for all_regions */

	if (all_regions) total = 1L << 30;
	for (k = 0; k < total; k++) {
		int col, row, w, h, cls, fsel, pal8, supported, bpp, smode, stride_arg, stride, reveal, flash, cuts, slack;
		vbi_pixfmt fmt;
		size_t size, y;
		uint8_t *cv;
		const char *regclass;

		if (all_regions) {
			col = ac; row = ar; w = aw; h = ah;
			if (++ah > R - ar) { ah = 1; if (++aw > C - ac) { aw = 1; if (++ar >= R) { ar = 0; if (++ac >= C) total = k + 1; } } }
		} else {
			cls = (k == 0) ? 0 : (int)vf_below(r, 8);
			switch (cls) {
			case 0: col = 0; row = 0; w = C; h = R; break;
			case 1: col = (int)vf_below(r, (unsigned)C); w = C - col; row = (int)vf_below(r, (unsigned)R); h = vf_range(r, 1, R - row); break;   /* touches right */
			case 2: col = (int)vf_below(r, (unsigned)C); w = vf_range(r, 1, C - col); row = (int)vf_below(r, (unsigned)R); h = R - row; break;    /* touches bottom */
			case 3: col = (int)vf_below(r, (unsigned)C); row = (int)vf_below(r, (unsigned)R); w = 1; h = 1; break;
			case 4: {   /* end on a double-width/size cell if there is one */
				int tries = 60, found = 0;
				col = row = 0; w = h = 1;
				while (tries-- > 0) {
					int x = (int)vf_below(r, (unsigned)C), yy = (int)vf_below(r, (unsigned)R);
					int s = PG.text[yy * C + x].size;
					if (s == VBI_DOUBLE_WIDTH || s == VBI_DOUBLE_SIZE || s == VBI_DOUBLE_SIZE2 || s == VBI_OVER_TOP) {
						col = (int)vf_below(r, (unsigned)x + 1); w = x - col + 1;
						row = (int)vf_below(r, (unsigned)yy + 1); h = vf_chance(r, 1, 2) ? yy - row + 1 : vf_range(r, yy - row + 1, R - row);
						found = 1;
						break;
					}
				}
				if (!found) { col = (int)vf_below(r, (unsigned)C); w = vf_range(r, 1, C - col); row = (int)vf_below(r, (unsigned)R); h = vf_range(r, 1, R - row); }
				break;
			}
			default:
				col = (int)vf_below(r, (unsigned)C); w = vf_range(r, 1, C - col);
				row = (int)vf_below(r, (unsigned)R); h = vf_range(r, 1, R - row);
				if (vf_chance(r, 1, 2)) { if (h > 3) h = vf_range(r, 1, 3); }
			}
		}
		fsel = (int)vf_below(r, 10);
		supported = fsel < 9;
		pal8 = supported && fsel >= 6;
		fmt = supported ? (pal8 ? VBI_PIXFMT_PAL8 : VBI_PIXFMT_RGBA32_LE) : unsupported[vf_below(r, sizeof unsupported / sizeof unsupported[0])];
		bpp = pal8 ? 1 : 4;
		smode = (int)vf_below(r, 3);
		if (smode == 0) stride = stride_arg = w * cw * bpp;
		else if (smode == 1) stride = stride_arg = w * cw * bpp + bpp * vf_range(r, 1, 40);
		else { stride_arg = -1; stride = C * cw * bpp; }
		reveal = (int)vf_below(r, 2); flash = (int)vf_below(r, 2);
		cuts = region_cuts(col, row, w, h);
		/* a double-width character in the last column is known to spill one cell to the
		 * right; give the canvas a canary tail so the spill is reported precisely
		 * instead of faulting (the tail lies outside the documented canvas) */
		slack = (cuts & 2) ? cw * bpp : 0;
		size = (size_t)stride * (size_t)h * (size_t)ch;     /* the documented canvas size */
		cv = exact_alloc(size + (size_t)slack);
		memset(cv, FILL, size + (size_t)slack);
		render_call(fmt, cv, stride_arg, col, row, w, h, reveal, flash);
		vf_count("regions_rendered", 1);
		regclass = (col == 0 && row == 0 && w == C && h == R) ? "full" : (col + w == C && row + h == R) ? "corner" : (col + w == C) ? "right" : (row + h == R) ? "bottom" : "inside";

		if (!supported) {
			for (y = 0; y < size + (size_t)slack; y++)
				if (cv[y] != FILL) {
					vf_fail("model:C16:render:unsupported-format-drew", "%s: format %d is not supported but byte %zu of the canvas was written (region col=%d row=%d w=%d h=%d)",
						PG_is_cc ? "cc" : "vt", (int)fmt, y, col, row, w, h);
					break;
				}
			vf_count("unsupported_format_calls", 1);
		} else {
			size_t rect = (size_t)w * (size_t)cw * (size_t)bpp, nrows = (size_t)h * (size_t)ch;
			int bad = 0;
			for (y = 0; y < nrows && !bad; y++) {
				size_t x;
				const uint8_t *p = cv + y * (size_t)stride;
				for (x = rect; x < (size_t)stride; x++)
					if (p[x] != FILL) {
						vf_fail((cuts & 2) ? "model:C16:render:outside-rectangle:double-width-last-column" : "model:C16:render:outside-rectangle",
							"%s fmt=%s region col=%d row=%d w=%d h=%d rowstride=%d(%d): pixel row %zu byte %zu (rectangle is %zu bytes wide) was written%s",
							PG_is_cc ? "cc" : "vt", pal8 ? "PAL8" : "RGBA32_LE", col, row, w, h, stride_arg, stride, y, x, rect,
							(cuts & 2) ? "; a double-width/size character sits in the last column of the region" : "");
						bad = 1;
						break;
					}
			}
			for (y = size; y < size + (size_t)slack && !bad; y++)
				if (cv[y] != FILL) {
					vf_fail("model:C16:render:outside-rectangle:double-width-last-column",
						"%s fmt=%s region col=%d row=%d w=%d h=%d rowstride=%d(%d): %zu bytes past the end of the documented canvas (%zu bytes) were written; a double-width/size character sits in the last column of the region",
						PG_is_cc ? "cc" : "vt", pal8 ? "PAL8" : "RGBA32_LE", col, row, w, h, stride_arg, stride, y - size + 1, size);
					bad = 1;
				}
			if (!cuts) {
				const uint8_t *full = get_full(pal8, reveal, flash, cw, ch);
				size_t fstride = (size_t)C * (size_t)cw * (size_t)bpp;
				for (y = 0; y < nrows; y++) {
					const uint8_t *a = cv + y * (size_t)stride;
					const uint8_t *b = full + ((size_t)row * (size_t)ch + y) * fstride + (size_t)col * (size_t)cw * (size_t)bpp;
					if (memcmp(a, b, rect)) {
						size_t at = first_diff(a, rect, b, rect);
						vf_fail("model:C16:render:region-differs-from-full-page",
							"%s fmt=%s region col=%d row=%d w=%d h=%d rowstride=%d reveal=%d flash_on=%d: pixel row %zu differs from the full-page rendering at byte %zu (cell column %zu, size attr %d): region %s full %s",
							PG_is_cc ? "cc" : "vt", pal8 ? "PAL8" : "RGBA32_LE", col, row, w, h, stride_arg, reveal, flash, y, at,
							(size_t)col + at / ((size_t)cw * (size_t)bpp),
							(int)PG.text[(row + (int)(y / (size_t)ch)) * C + col + (int)(at / ((size_t)cw * (size_t)bpp))].size,
							vf_hex(a + at, rect - at > 8 ? 8 : rect - at), vf_hex(b + at, rect - at > 8 ? 8 : rect - at));
						break;
					}
				}
				vf_count("regions_compared_with_full_page", 1);
			} else
				vf_count("regions_cutting_double_char", 1);
		}
		if (exact_underrun(cv))
			vf_fail("model:C16:render:underrun", "%s region col=%d row=%d w=%d h=%d fmt=%d: bytes before the canvas were written", PG_is_cc ? "cc" : "vt", col, row, w, h, (int)fmt);
		exact_free(cv);
		vf_sig("rnd %s fmt=%s stride=%s reg=%s cuts=%d", PG_is_cc ? "cc" : "vt", supported ? (pal8 ? "pal8" : "rgba") : "unsup",
		       smode == 0 ? "min" : smode == 1 ? "pad" : "default", regclass, cuts);
		if (vf_failed() > 8) break;
	}
	free_full();
}

#endif
