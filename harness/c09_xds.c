/* C09 - XDS packets are delivered intact, exactly once, only with valid checksum.
 *
 * Transmitter: an independent XDS packetiser builds field-2 byte-pair streams
 * (several packets interleaved with each other and with caption data, resumed by
 * continue codes), then faults are applied.  Oracle: a reference receiver written
 * from EIA-608 section 9 / 47 CFR 15.119 framing rules (start 0x01..0x0D odd,
 * continue even, payload 0x20..0x7F, end 0x0F + checksum making the 7-bit sum 0)
 * decides which packets are deliverable from the *final* pair stream; on
 * fault-free streams it is cross-checked against the packetiser's own list.
 * Consumers: vbi_xds_demux_feed / _feed_frame (callback log must equal the
 * deliverable list) and the service decoder (vbi_decode on line 284; memory
 * safety, program-info contents versus an independent decode).
 */
#include "vf.h"
#include <string.h>
#include <stdlib.h>
#include <assert.h>
#include "libzvbi.h"

#define MAXPAIRS 4096
#define MAXPK 16

struct pk {
	int cls, type;          /* cls 0..6, type 0..0x7f */
	int len;                /* payload bytes 0..40 */
	uint8_t data[44];
	int bad_sum;
};

struct pair { uint8_t b[2]; int pk; /* owner packet or -1 */ };

static struct pair stream[MAXPAIRS];
static int n_stream;

static uint8_t odd_par(uint8_t c)
{
	int n = 0, i;
	c &= 0x7f;
	for (i = 0; i < 7; i++) n += (c >> i) & 1;
	return (n & 1) ? c : (c | 0x80);
}
static int par_ok(uint8_t c) { return odd_par(c) == c; }

static void emit(int a, int b, int pk)
{
	if (n_stream >= MAXPAIRS) return;
	stream[n_stream].b[0] = odd_par((uint8_t)a);
	stream[n_stream].b[1] = odd_par((uint8_t)b);
	stream[n_stream].pk = pk;
	n_stream++;
}

/* ---------------- reference receiver ---------------- */

struct rx_slot { int started; int len; uint8_t data[64]; int overflow; unsigned sum; };
struct delivery { int cls, type, len; uint8_t data[40]; int at; /* pair index of the terminator */ };

static struct rx_slot slots[7][128];
static struct delivery expect[256], got[256];
static int n_expect, n_got, got_bad_nul;

/* Quirk Q-unsupported-class-or-type (see DESIGN.md C09): the library's demux
 * stores only classes Current..Misc and types 0x00-0x17 plus 0x40-0x47 (the
 * latter sharing the slots of 0x10-0x17); headers of other packets are ignored
 * ("unknown class or subclass").  With quirk=1 the reference behaves that way. */
static int supported(int cls, int type)
{
	return cls <= 3 && (type < 0x18 || (type >= 0x40 && type < 0x48));
}

struct rx_state { struct rx_slot *cur; int cur_cls, cur_type, xds_mode; };

static void ref_reset(struct rx_state *st)
{
	memset(slots, 0, sizeof slots);
	memset(st, 0, sizeof *st);
}

/* One byte pair.  Returns 1 and fills *d when a packet is delivered by this pair. */
static int ref_step(struct rx_state *st, int i, int quirk, struct delivery *d)
{
	uint8_t a = stream[i].b[0], b = stream[i].b[1];
	int c1 = a & 0x7f, c2 = b & 0x7f;
	struct rx_slot *cur = st->cur;
	if (quirk == 2) {
		/* Framing as the service decoder applies it (the statement's delivery clause is about the
		 * demultiplexer; for the announcement clause we take the service decoder's notion of
		 * "received packet" as given): a caption control code suspends XDS *data* but an End code
		 * still closes the suspended packet without a Continue; stuffing (first byte NUL) is
		 * skipped before the parity test; parity errors outside XDS mode do not touch XDS state. */
		if (par_ok(a) && c1 == 0) return 0;
		if (par_ok(a) && c1 >= 0x10 && c1 <= 0x1F) { st->xds_mode = 0; return 0; }
		if (par_ok(a) && c1 >= 1 && c1 <= 0x0F) st->xds_mode = (c1 != 0x0F);
		else if (!st->xds_mode) return 0;
	}
	if (!par_ok(a) || !par_ok(b)) {
		if (cur) { memset(cur, 0, sizeof *cur); }
		st->cur = NULL;
		return 0;
	}
	if (c1 == 0) return 0;              /* stuffing */
	if (c1 >= 1 && c1 <= 0x0E) {
		int cls = (c1 - 1) >> 1;
		struct rx_slot *s = &slots[cls][c2];
		if (quirk == 1) {
			if (!supported(cls, c2)) { st->cur = NULL; return 0; }
			if (c2 >= 0x40) s = &slots[cls][c2 - 0x30];
		} else if (quirk == 2) { /* service decoder: classes 0-3, types 0x00-0x17 */
			if (cls > 3 || c2 >= 0x18) { st->cur = NULL; return 0; }
		}
		if (c1 & 1) {
			memset(s, 0, sizeof *s);
			s->started = 1;
			s->sum = (unsigned)(c1 + c2);
			st->cur = s; st->cur_cls = cls; st->cur_type = c2;
		} else if (s->started) {
			st->cur = s; st->cur_cls = cls; st->cur_type = c2;
		} else {
			st->cur = NULL;
		}
		return 0;
	}
	if (c1 == 0x0F) {
		int r = 0;
		if (!cur) return 0;
		cur->sum += (unsigned)(c1 + c2);
		if (0 == (cur->sum & 0x7f) && cur->len > 0 && !cur->overflow) {
			d->cls = st->cur_cls; d->type = st->cur_type; d->len = cur->len; d->at = i;
			memcpy(d->data, cur->data, (size_t)cur->len);
			r = 1;
		}
		memset(cur, 0, sizeof *cur);
		st->cur = NULL;
		return r;
	}
	if (c1 <= 0x1F) { st->cur = NULL; return 0; }   /* caption control: suspends XDS */
	/* payload */
	if (!cur) return 0;
	if (cur->len >= 32) {               /* more than 32 bytes: never delivered */
		memset(cur, 0, sizeof *cur);
		st->cur = NULL;
		return 0;
	}
	cur->data[cur->len++] = (uint8_t)c1;
	cur->sum += (unsigned)c1;
	if (c2) {
		if (cur->len >= 32) {       /* 33rd byte */
			memset(cur, 0, sizeof *cur);
			st->cur = NULL;
			return 0;
		}
		cur->data[cur->len++] = (uint8_t)c2;
		cur->sum += (unsigned)c2;
	}
	return 0;
}

/* vbi_xds_demux_reset() is called before the pairs listed here (demultiplexer interfaces only): everything
   received so far is forgotten, a packet continued afterwards has no start */
static int reset_at[4], n_reset;
static int is_reset_point(int i)
{
	int k;
	for (k = 0; k < n_reset; k++) if (reset_at[k] == i) return 1;
	return 0;
}

static void ref_receive(int quirk)
{
	struct rx_state st;
	struct delivery d;
	int i;
	ref_reset(&st);
	n_expect = 0;
	for (i = 0; i < n_stream; i++) {
		if (quirk != 2 && is_reset_point(i)) ref_reset(&st);
		if (ref_step(&st, i, quirk, &d) && n_expect < 256)
			expect[n_expect++] = d;
	}
}

/* ---------------- consumers ---------------- */

static vbi_bool demux_cb(vbi_xds_demux *xd, const vbi_xds_packet *xp, void *ud)
{
	(void)xd; (void)ud;
	if (n_got < 256) {
		struct delivery *d = &got[n_got++];
		d->cls = (int)xp->xds_class;
		d->type = (int)xp->xds_subclass;
		d->len = (int)xp->buffer_size;
		if (xp->buffer_size <= 36) {
			memcpy(d->data, xp->buffer, xp->buffer_size > 40 ? 40 : xp->buffer_size);
			if (xp->buffer_size < 36 && xp->buffer[xp->buffer_size] != 0)
				got_bad_nul++;
		}
	}
	return TRUE;
}

static int n_prog_info, n_network, n_aspect;

/* events captured during one vbi_decode call */
struct pi_snap {
	int future, month, day, hour, min, tape_delayed;
	int length_hour, length_min, elapsed_hour, elapsed_min, elapsed_sec;
	char title[64];
	int rating_auth, rating_id, rating_dlsv;
};
static struct pi_snap ev_pi[8];
static int ev_n_pi;
static struct { char name[64], call[40]; } ev_net[8];
static int ev_n_net, ev_n_netid;

static void ev_handler(vbi_event *ev, void *ud)
{
	(void)ud;
	if (ev->type == VBI_EVENT_PROG_INFO) {
		vbi_program_info *pi = ev->ev.prog_info;
		n_prog_info++;
		if (ev_n_pi < 8) {
			struct pi_snap *q = &ev_pi[ev_n_pi++];
			q->future = pi->future; q->month = pi->month; q->day = pi->day; q->hour = pi->hour; q->min = pi->min;
			q->tape_delayed = pi->tape_delayed;
			q->length_hour = pi->length_hour; q->length_min = pi->length_min;
			q->elapsed_hour = pi->elapsed_hour; q->elapsed_min = pi->elapsed_min; q->elapsed_sec = pi->elapsed_sec;
			memcpy(q->title, pi->title, 64); q->title[63] = 0;
			q->rating_auth = (int)pi->rating_auth; q->rating_id = pi->rating_id; q->rating_dlsv = pi->rating_dlsv;
		}
	} else if (ev->type == VBI_EVENT_NETWORK) {
		n_network++;
		if (ev_n_net < 8) {
			memcpy(ev_net[ev_n_net].name, ev->ev.network.name, 64); ev_net[ev_n_net].name[63] = 0;
			memcpy(ev_net[ev_n_net].call, ev->ev.network.call, 40); ev_net[ev_n_net].call[39] = 0;
			ev_n_net++;
		}
	} else if (ev->type == VBI_EVENT_NETWORK_ID) ev_n_netid++;
	else if (ev->type == VBI_EVENT_ASPECT) n_aspect++;
}

/* Independent decode of the programme information packets (EIA-608 / CEA-608
 * section 9.5.1: classes Current (0) and Future (1)).  Only the types the
 * property names and whose layout is unambiguous are modelled:
 *   01 programme identification number: minute(6) hour(5) date(5) month(4)+tape delay
 *   02 length / elapsed time: min hour [min hour [sec NUL]]
 *   03 programme name: 2-32 characters
 *   05 content advisory: system a1a0 (+a3a2), rating r / g, flags D L S V  */
struct pi_dec { int valid; int v[6]; char str[40]; };

static void strip(char *dst, const uint8_t *src, int len)
{
	int n = 0;
	while (len > 0 && *src <= 0x20) { src++; len--; }
	while (len-- > 0) { dst[n++] = (char)(*src < 0x20 ? 0x20 : *src); src++; }
	dst[n] = 0;
}

static void pi_decode(struct pi_dec *d, int type, const uint8_t *b, int len)
{
	memset(d, 0, sizeof *d);
	switch (type) {
	case 1:
		if (len != 4) return;
		d->v[0] = b[0] & 0x3f; d->v[1] = b[1] & 0x1f; d->v[2] = b[2] & 0x1f; d->v[3] = b[3] & 0x0f; d->v[4] = !!(b[3] & 0x10);
		if (d->v[0] > 59 || d->v[1] > 23 || d->v[2] < 1 || d->v[2] > 31 || d->v[3] < 1 || d->v[3] > 12) return;
		d->valid = 1; return;
	case 2:
		if (len != 2 && len != 4 && len != 5 && len != 6) return;
		d->v[0] = b[0] & 0x3f; d->v[1] = b[1] & 0x3f; d->v[2] = d->v[3] = d->v[4] = -2; /* -2 = not carried */
		if (len >= 4) { d->v[2] = b[2] & 0x3f; d->v[3] = b[3] & 0x3f; }
		if (len >= 5) d->v[4] = b[4] & 0x3f;
		if (d->v[0] > 59 || d->v[2] > 59 || d->v[4] > 59) return;
		d->valid = 1; return;
	case 3:
		if (len < 2) return;
		strip(d->str, b, len);       /* an all-blank title decodes to "", i.e. unknown */
		d->valid = 1; return;
	case 5: {
		int a0 = !!(b[0] & 0x08), a1 = !!(b[0] & 0x10), a2 = !!(b[0] & 0x20), a3, r = b[0] & 7, g;
		if (len != 2) return;
		a3 = !!(b[1] & 0x08); g = b[1] & 7;
		d->v[2] = 0;
		if (!a0) {                 /* MPA */
			if (r == 0) return;    /* N/A: nothing to announce */
			d->v[0] = 1; d->v[1] = r;
		} else if (!a1) {          /* US TV parental guidelines */
			d->v[0] = 2; d->v[1] = g;
			d->v[2] = (a2 ? 8 : 0) | ((b[1] & 0x08) ? 4 : 0) | ((b[1] & 0x10) ? 2 : 0) | ((b[1] & 0x20) ? 1 : 0); /* D L S V */
		} else if (!a3) {          /* Canadian */
			if (!a2) { if (g > 6) return; d->v[0] = 3; } else { if (g > 5) return; d->v[0] = 4; }
			d->v[1] = g;
		} else return;             /* reserved */
		d->valid = 1; return; }
	}
}

static int pi_dec_equal(const struct pi_dec *a, const struct pi_dec *b)
{
	/* elapsed seconds are optional (type 02): a packet without them repeats one with them
	 * when everything else agrees - the standard does not say otherwise, so be tolerant */
	if (a->valid && b->valid && (a->v[4] == -2 || b->v[4] == -2) && a->v[4] != b->v[4]) {
		struct pi_dec c = *a, d = *b;
		c.v[4] = d.v[4] = -2;
		return 0 == memcmp(c.v, d.v, sizeof c.v) && 0 == strcmp(c.str, d.str);
	}
	return a->valid && b->valid && 0 == memcmp(a->v, b->v, sizeof a->v) && 0 == strcmp(a->str, b->str);
}

/* does the announced programme info agree with the decoded packet of this type? */
static int pi_matches(const struct pi_snap *q, int type, const struct pi_dec *d, char *why, size_t wl)
{
	switch (type) {
	case 1:
		if (q->min == d->v[0] && q->hour == d->v[1] && q->day == d->v[2] - 1 && q->month == d->v[3] - 1 && q->tape_delayed == d->v[4]) return 1;
		snprintf(why, wl, "PIN sent min %d hour %d date %d month %d T %d; announced min %d hour %d day(0-based) %d month(0-based) %d T %d",
			 d->v[0], d->v[1], d->v[2], d->v[3], d->v[4], q->min, q->hour, q->day, q->month, q->tape_delayed);
		return 0;
	case 2:
		if (q->length_min == d->v[0] && q->length_hour == d->v[1]
		    && (d->v[2] == -2 || (q->elapsed_min == d->v[2] && q->elapsed_hour == d->v[3]))
		    && (d->v[4] == -2 || q->elapsed_sec == d->v[4])) return 1;
		snprintf(why, wl, "length sent %d:%02d elapsed %d:%02d:%02d (-2 = not carried); announced %d:%02d elapsed %d:%02d:%02d",
			 d->v[1], d->v[0], d->v[3], d->v[2], d->v[4], q->length_hour, q->length_min, q->elapsed_hour, q->elapsed_min, q->elapsed_sec);
		return 0;
	case 3:
		if (0 == strcmp(q->title, d->str)) return 1;
		snprintf(why, wl, "title sent '%s' announced '%s'", d->str, q->title);
		return 0;
	case 5: {
		int auth = q->rating_auth == VBI_RATING_AUTH_MPAA ? 1 : q->rating_auth == VBI_RATING_AUTH_TV_US ? 2 :
			q->rating_auth == VBI_RATING_AUTH_TV_CA_EN ? 3 : q->rating_auth == VBI_RATING_AUTH_TV_CA_FR ? 4 : 0;
		int dlsv = ((q->rating_dlsv & VBI_RATING_D) ? 8 : 0) | ((q->rating_dlsv & VBI_RATING_L) ? 4 : 0)
			| ((q->rating_dlsv & VBI_RATING_S) ? 2 : 0) | ((q->rating_dlsv & VBI_RATING_V) ? 1 : 0);
		if (auth == d->v[0] && q->rating_id == d->v[1] && dlsv == d->v[2]) return 1;
		snprintf(why, wl, "rating sent system %d id %d DLSV 0x%x; announced system %d id %d DLSV 0x%x", d->v[0], d->v[1], d->v[2], auth, q->rating_id, dlsv);
		return 0; }
	}
	return 1;
}

static int pi_field_unknown(const struct pi_snap *q, int type)
{
	switch (type) {
	case 1: return q->month == -1 && q->day == -1 && q->hour == -1 && q->min == -1;
	case 2: return q->length_hour == -1 && q->length_min == -1;
	case 3: return q->title[0] == 0;
	case 5: return q->rating_auth == VBI_RATING_AUTH_NONE;
	}
	return 1;
}

static int monitored_type(int t) { return t == 1 || t == 2 || t == 3 || t == 5; }

/* Feed the stream to the service decoder and check every announcement against
 * the packets the reference receiver says were delivered. */
static void service_decoder_monitor(void)
{
	vbi_decoder *vbi;
	double t = 1000.0;
	int i, k, networks_announced = 0;
	struct rx_state st;
	struct delivery dcur;
	struct pi_dec last[2][8], prev_same;      /* latest valid decode per class/type */
	int have_last[2][8];
	char net_name_prev[40] = "", net_name_last[40] = "", net_call_last[40] = "", net_call_conf[40] = "";
	int have_name = 0, n_delivered_monitored = 0, n_announced = 0;
	int first_pair_repeat_expected = -1;

	ref_receive(2);
	memset(have_last, 0, sizeof have_last);
	/* completeness: if the first two deliveries of the whole stream are identical valid
	 * monitored packets the second must be announced (documented repeat on a fresh decoder) */
	if (n_expect >= 2 && expect[0].cls <= 1 && monitored_type(expect[0].type)
	    && expect[0].cls == expect[1].cls && expect[0].type == expect[1].type) {
		struct pi_dec a, b;
		pi_decode(&a, expect[0].type, expect[0].data, expect[0].len);
		pi_decode(&b, expect[1].type, expect[1].data, expect[1].len);
		/* completeness only for byte-identical packets (no tolerance needed then) */
		if (pi_dec_equal(&a, &b) && expect[0].len == expect[1].len && 0 == memcmp(expect[0].data, expect[1].data, (size_t)expect[0].len)
		    && !(expect[0].type == 3 && !a.str[0])) first_pair_repeat_expected = expect[1].at;
	}

	vf_phase("vbi_decode");
	vbi = vbi_decoder_new();
	if (!vbi) { vf_fail("harness:alloc", "vbi_decoder_new failed"); return; }
	ref_reset(&st);
	n_prog_info = n_network = n_aspect = 0;
	vbi_event_handler_register(vbi, VBI_EVENT_PROG_INFO | VBI_EVENT_NETWORK | VBI_EVENT_NETWORK_ID | VBI_EVENT_ASPECT | VBI_EVENT_CAPTION, ev_handler, NULL);
	for (i = 0; i < n_stream; i++) {
		vbi_sliced sl[2];
		const struct delivery *d = NULL;
		memset(sl, 0, sizeof sl);
		sl[0].id = VBI_SLICED_CAPTION_525_F1; sl[0].line = 21; sl[0].data[0] = 0x80; sl[0].data[1] = 0x80;
		sl[1].id = VBI_SLICED_CAPTION_525_F2; sl[1].line = 284;
		sl[1].data[0] = stream[i].b[0]; sl[1].data[1] = stream[i].b[1];
		ev_n_pi = ev_n_net = ev_n_netid = 0;
		vbi_decode(vbi, sl, 2, t);
		t += 1 / 29.97;
		if (ref_step(&st, i, 2, &dcur)) d = &dcur;
		if (ev_n_net) {
			/* A second or later network identification is a channel switch: the decoder documents
			 * that it then resets caption/XDS state and programme information, so packets in
			 * flight are lost and earlier packets no longer count for the repeat rule. */
			if (networks_announced > 0) {
				ref_reset(&st);
				memset(have_last, 0, sizeof have_last);
				vf_count("channel_switch_resets_modelled", 1);
			}
			networks_announced++;
		}

		if (ev_n_pi && (!d || d->cls > 1)) {
			vf_fail("model:C09:prog-info-without-packet", "VBI_EVENT_PROG_INFO raised at pair %d where no class 0/1 packet completed (%s)", i,
				d ? "packet of another class" : "no deliverable packet ends here");
			continue;
		}
		if (ev_n_net && (!d || d->cls != 2)) {
			vf_fail("model:C09:network-without-packet", "VBI_EVENT_NETWORK raised at pair %d where no channel-class packet completed", i);
			continue;
		}
		if (!d) continue;
		vf_log("  pair %d: service decoder completes class %d type 0x%02x len %d; events pi=%d net=%d\n", i, d->cls, d->type, d->len, ev_n_pi, ev_n_net);

		if (d->cls <= 1 && monitored_type(d->type)) {
			struct pi_dec dec;
			char why[300] = "";
			pi_decode(&dec, d->type, d->data, d->len);
			n_delivered_monitored++;
			if (ev_n_pi > 1)
				vf_fail("model:C09:prog-info-twice", "%d VBI_EVENT_PROG_INFO for one packet class %d type %d at pair %d", ev_n_pi, d->cls, d->type, i);
			if (ev_n_pi >= 1) {
				const struct pi_snap *q = &ev_pi[0];
				n_announced++;
				if (!dec.valid)
					vf_fail("model:C09:announced-invalid-packet", "PROG_INFO after an invalid class %d type %d packet %s", d->cls, d->type, vf_hex(d->data, (size_t)d->len));
				else {
					if (q->future != d->cls)
						vf_fail("model:C09:wrong-programme", "packet class %d announced with future=%d", d->cls, q->future);
					/* documented repeat: the previous valid packet of this type carried the same values */
					prev_same = last[d->cls][d->type];
					if (!have_last[d->cls][d->type] || !pi_dec_equal(&prev_same, &dec))
						vf_fail("model:C09:announced-without-repeat", "class %d type %d %s announced although the previous packet of this type %s",
							d->cls, d->type, vf_hex(d->data, (size_t)d->len), have_last[d->cls][d->type] ? "carried other values" : "does not exist");
					if (!pi_matches(q, d->type, &dec, why, sizeof why))
						vf_fail("model:C09:prog-info-content", "class %d type %d: %s", d->cls, d->type, why);
					/* the other monitored fields: unknown or what their latest valid packet said */
					for (k = 1; k <= 5; k++) {
						if (!monitored_type(k) || k == d->type) continue;
						if (pi_field_unknown(q, k)) continue;
						if (!have_last[d->cls][k])
							vf_fail("model:C09:prog-info-field-from-nowhere", "class %d: field of type %d is set but no valid packet of that type was delivered", d->cls, k);
						else if (!pi_matches(q, k, &last[d->cls][k], why, sizeof why))
							vf_fail("model:C09:prog-info-stale-field", "class %d type %d (announced with type %d): %s", d->cls, k, d->type, why);
					}
				}
			} else if (i == first_pair_repeat_expected) {
				vf_fail("model:C09:repeat-not-announced", "fresh decoder, class %d type %d sent twice identically (%s): no VBI_EVENT_PROG_INFO on the repeat",
					d->cls, d->type, vf_hex(d->data, (size_t)d->len));
			}
			if (dec.valid) { last[d->cls][d->type] = dec; have_last[d->cls][d->type] = 1; }
		} else if (d->cls <= 1 && ev_n_pi > 1) {
			vf_fail("model:C09:prog-info-twice", "%d VBI_EVENT_PROG_INFO for one packet class %d type %d", ev_n_pi, d->cls, d->type);
		}

		if (d->cls == 2 && d->type == 1) {           /* network name */
			char name[40];
			strip(name, d->data, d->len);
			strcpy(net_name_prev, net_name_last);
			if (ev_n_net > 1)
				vf_fail("model:C09:network-twice", "%d VBI_EVENT_NETWORK for one network name packet", ev_n_net);
			if (ev_n_net >= 1) {
				if (0 != strcmp(ev_net[0].name, name))
					vf_fail("model:C09:network-name", "network name sent '%s' announced '%s'", name, ev_net[0].name);
				if (!have_name || 0 != strcmp(net_name_prev, name))
					vf_fail("model:C09:announced-without-repeat", "network name '%s' announced although the previous name packet %s", name,
						have_name ? "differed" : "does not exist");
				/* "announced after the documented repeat": like the name, call letters count once they
				   have been received twice in a row (an empty field is always acceptable: a network
				   change forgets them) */
				if (ev_net[0].call[0] && 0 != strcmp(ev_net[0].call, net_call_conf))
					vf_fail("model:C09:network-call", "call letters announced '%s', latest sent twice in a row '%s' (latest sent '%s')", ev_net[0].call, net_call_conf, net_call_last);
				vf_count("network_announced", 1);
			}
			strcpy(net_name_last, name); have_name = 1;
		} else if (d->cls == 2 && d->type == 2) {
			char call[40];
			strip(call, d->data, d->len);
			if (0 == strcmp(call, net_call_last)) strcpy(net_call_conf, call);
			strcpy(net_call_last, call);
		}
	}
	vf_phase("vbi_decoder_delete");
	vbi_decoder_delete(vbi);
	vf_count("prog_info_events", n_prog_info);
	vf_count("network_events", n_network);
	vf_count("aspect_events", n_aspect);
	vf_count("monitored_packets_delivered_to_service_decoder", n_delivered_monitored);
	vf_count("prog_info_announcements_checked", n_announced);
}

/* ---------------- generator ---------------- */

static const int interesting_types[] = { 0x01, 0x02, 0x03, 0x04, 0x05, 0x06, 0x07, 0x08, 0x09, 0x0A, 0x0B, 0x0C, 0x0D,
	0x10, 0x11, 0x12, 0x13, 0x14, 0x15, 0x16, 0x17, 0x18, 0x19, 0x40, 0x41, 0x42, 0x43, 0x44, 0x47, 0x48, 0x7f, 0x00 };

static void gen_packet(struct vf_rng *r, struct pk *p, int domain)
{
	int i;
	/* domain 0: classes/types the statement's packets range over; domain 1: anything */
	p->cls = vf_chance(r, 9, 10) ? vf_range(r, 0, 3) : vf_range(r, 0, 6);
	if (vf_chance(r, 1, 2))
		p->type = vf_range(r, 1, 0x17);
	else if (vf_chance(r, 3, 4))
		p->type = interesting_types[vf_below(r, sizeof interesting_types / sizeof interesting_types[0])];
	else
		p->type = vf_range(r, 0, 0x7f);
	if (domain == 0) {
		if (p->type == 0) p->type = 1;
	}
	switch (vf_below(r, 8)) {
	case 0: p->len = 32; break;
	case 1: p->len = vf_range(r, 29, 34); break;
	case 2: p->len = vf_range(r, 33, 40); break;
	case 3: p->len = vf_range(r, 0, 2); break;
	default: p->len = vf_range(r, 1, 32); break;
	}
	if (domain == 0 && p->len < 1) p->len = 1;
	for (i = 0; i < p->len; i++)
		p->data[i] = (uint8_t)vf_range(r, 0x20, 0x7f);
	p->bad_sum = vf_chance(r, 1, 6);
}


static void gen_semantic(struct vf_rng *r, struct pk *p)
{
	int i;
	memset(p, 0, sizeof *p);
	p->cls = (int)vf_below(r, 2);
	switch (vf_below(r, 7)) {
	case 0: /* PIN */
		p->type = 1; p->len = 4;
		p->data[0] = (uint8_t)(0x40 | vf_range(r, 0, vf_chance(r, 1, 8) ? 63 : 59));
		p->data[1] = (uint8_t)(0x40 | vf_range(r, 0, vf_chance(r, 1, 8) ? 31 : 23));
		p->data[2] = (uint8_t)(0x40 | vf_range(r, vf_chance(r, 1, 8) ? 0 : 1, 31));
		p->data[3] = (uint8_t)(0x40 | vf_range(r, vf_chance(r, 1, 8) ? 0 : 1, vf_chance(r, 1, 8) ? 15 : 12) | (vf_chance(r, 1, 2) ? 0x10 : 0));
		break;
	case 1: /* length / elapsed */
		p->type = 2; p->len = (int[]){2, 4, 5, 6}[vf_below(r, 4)];
		for (i = 0; i < p->len; i++) p->data[i] = (uint8_t)(0x40 | vf_range(r, 0, (i & 1) ? 63 : (vf_chance(r, 1, 8) ? 63 : 59)));
		if (p->len == 6) p->data[5] = 0x40;
		break;
	case 2: case 3: /* title */
		p->type = 3; p->len = vf_range(r, 2, 32);
		for (i = 0; i < p->len; i++) p->data[i] = (uint8_t)(vf_chance(r, 1, 6) ? 0x20 : vf_range(r, 0x21, 0x7e));
		break;
	case 4: /* rating */
		p->type = 5; p->len = 2;
		p->data[0] = (uint8_t)(0x40 | vf_below(r, 64)); p->data[1] = (uint8_t)(0x40 | vf_below(r, 64));
		break;
	case 5: /* network name */
		p->cls = 2; p->type = 1; p->len = vf_range(r, 2, 32);
		for (i = 0; i < p->len; i++) p->data[i] = (uint8_t)(vf_chance(r, 1, 6) ? 0x20 : vf_range(r, 0x41, 0x5a));
		break;
	default: /* call letters */
		p->cls = 2; p->type = 2; p->len = vf_range(r, 4, 6);
		for (i = 0; i < p->len; i++) p->data[i] = (uint8_t)vf_range(r, 0x41, 0x5a);
		break;
	}
}

/* Emit the packets interleaved.  Each packet is cut into runs of pairs; a run
 * begins with the start code (first run) or the continue code. */
static long n_empty_runs;
static void gen_stream(struct vf_rng *r, struct pk *pk, int npk, int midnul)
{
	int pos[MAXPK], done[MAXPK], started[MAXPK], left = npk, i, last = -1;
	unsigned sum[MAXPK];
	memset(pos, 0, sizeof pos); memset(done, 0, sizeof done); memset(started, 0, sizeof started);
	n_stream = 0;
	while (left > 0) {
		int k, run, suspended = 0;
		do k = (int)vf_below(r, (unsigned)npk); while (done[k]);
		/* a packet whose (class,type) slot is in use by another unfinished, started packet must wait */
		for (i = 0; i < npk; i++)
			if (i != k && !done[i] && started[i] && pk[i].cls == pk[k].cls && pk[i].type == pk[k].type)
				break;
		if (i < npk) { k = i; }
		if (vf_chance(r, 1, 4)) {            /* caption / stuffing in between */
			int n = vf_range(r, 1, 3);
			while (n--) {
				if (vf_chance(r, 1, 3)) emit(0, 0, -1);
				else if (vf_chance(r, 1, 2)) emit(0x14 + 8 * vf_below(r, 2), 0x20 + vf_below(r, 16), -1), suspended = 1;
				else { emit(0x15, 0x2C, -1); emit(vf_range(r, 0x20, 0x7f), vf_range(r, 0x20, 0x7f), -1); suspended = 1; }
			}
		}
		(void)suspended;
		if (!started[k]) {
			int c1 = pk[k].cls * 2 + 1;
			emit(c1, pk[k].type, k);
			sum[k] = (unsigned)(c1 + pk[k].type);
			started[k] = 1;
		} else if (last != k || suspended || vf_chance(r, 1, 8)) {
			emit(pk[k].cls * 2 + 2, pk[k].type, k);
		}
		last = k;
		/* one run in eight is empty: the packet is interrupted right behind its start (or continue) code,
		 * before any payload pair - an interruption point like any other */
		run = vf_chance(r, 1, 8) ? 0 : vf_range(r, 1, 20);
		if (run == 0 && pos[k] < pk[k].len) n_empty_runs++;
		while (run-- > 0 && pos[k] < pk[k].len) {
			int a = pk[k].data[pos[k]++], b = 0;
			if (pos[k] < pk[k].len && !(midnul && vf_chance(r, 1, 6))) b = pk[k].data[pos[k]++];
			emit(a, b, k);
			sum[k] += (unsigned)(a + b);
		}
		if (pos[k] >= pk[k].len && (run > 0 || vf_chance(r, 1, 2))) {
			unsigned s = sum[k] + 0x0F;
			int ck = (int)((128 - (s & 0x7f)) & 0x7f);
			if (pk[k].bad_sum) ck = (ck + 1 + (int)vf_below(r, 126)) & 0x7f;
			emit(0x0F, ck, k);
			done[k] = 1;
			left--;
			last = -1;
		}
	}
}

static int apply_faults(struct vf_rng *r, int nf)
{
	int kinds = 0;
	while (nf-- > 0 && n_stream > 2) {
		int i = (int)vf_below(r, (unsigned)n_stream);
		switch (vf_below(r, 5)) {
		case 0: stream[i].b[vf_below(r, 2)] ^= 0x80; kinds |= 1; break;                 /* parity error */
		case 1: memmove(&stream[i], &stream[i + 1], sizeof stream[0] * (size_t)(n_stream - i - 1)); n_stream--; kinds |= 2; break; /* drop */
		case 2: if (n_stream < MAXPAIRS) { memmove(&stream[i + 1], &stream[i], sizeof stream[0] * (size_t)(n_stream - i)); n_stream++; } kinds |= 4; break; /* dup */
		case 3: stream[i].b[vf_below(r, 2)] = odd_par((uint8_t)vf_range(r, 0, 0x7f)); kinds |= 8; break; /* replace byte, good parity */
		case 4: stream[i].b[vf_below(r, 2)] ^= (uint8_t)(1u << vf_below(r, 7)); kinds |= 16; break; /* single bit */
		}
	}
	return kinds;
}

static int same(const struct delivery *a, const struct delivery *b)
{
	return a->cls == b->cls && a->type == b->type && a->len == b->len && 0 == memcmp(a->data, b->data, (size_t)a->len);
}

static int equal_lists(void)
{
	int i;
	if (n_expect != n_got) return 0;
	for (i = 0; i < n_got; i++)
		if (!same(&expect[i], &got[i])) return 0;
	return 1;
}

static int has_unsupported;

static void compare(const char *iface)
{
	int i, n;
	ref_receive(0);
	if (!equal_lists() && has_unsupported) {
		/* does the documented restriction explain the divergence exactly? */
		int strict_n = n_expect;
		ref_receive(1);
		if (equal_lists() && !got_bad_nul) {
			vf_fail("model:C09:Q-unsupported-class-or-type",
				"%s: %d deliverable by the standard, %d delivered; difference is exactly the packets of classes 4-6 / types outside 0x00-0x17,0x40-0x47",
				iface, strict_n, n_got);
			vf_count("quirk_unsupported_explained", 1);
			return;
		}
		ref_receive(0);
	}
	n = n_expect < n_got ? n_expect : n_got;
	for (i = 0; i < n; i++)
		if (!same(&expect[i], &got[i])) {
			const char *key = "model:C09:content-mismatch";
			if (expect[i].cls != got[i].cls || expect[i].type != got[i].type) key = "model:C09:wrong-packet";
			vf_fail(key, "%s delivery %d: expected class %d type 0x%02x len %d %s, got class %d type 0x%02x len %d %s",
				iface, i, expect[i].cls, expect[i].type, expect[i].len, vf_hex(expect[i].data, (size_t)expect[i].len),
				got[i].cls, got[i].type, got[i].len, vf_hex(got[i].data, (size_t)(got[i].len > 40 ? 40 : got[i].len)));
			return;
		}
	if (n_got < n_expect)
		vf_fail("model:C09:not-delivered", "%s: %d deliverable packets, %d delivered; first missing class %d type 0x%02x len %d",
			iface, n_expect, n_got, expect[n].cls, expect[n].type, expect[n].len);
	else if (n_got > n_expect)
		vf_fail("model:C09:spurious-delivery", "%s: %d deliverable packets, %d delivered; first extra class %d type 0x%02x len %d %s",
			iface, n_expect, n_got, got[n].cls, got[n].type, got[n].len, vf_hex(got[n].data, (size_t)(got[n].len > 40 ? 40 : got[n].len)));
	if (got_bad_nul)
		vf_fail("model:C09:no-nul", "%s: buffer[buffer_size] != 0 in %d deliveries", iface, got_bad_nul);
}

/* a packet of the same class and type that differs from *src in one detail only: one flag or number, one character,
 * or a text that is a proper prefix / an extension of the other (change detection compares field by field) */
static void gen_variant(struct vf_rng *r, struct pk *p, const struct pk *src)
{
	int i;
	*p = *src;
	p->bad_sum = 0;
	if (p->cls <= 1 && p->type == 1 && p->len == 4) {          /* PIN: tape delay flag only, or one field */
		switch (vf_below(r, 3)) {
		case 0: p->data[3] ^= 0x10; break;
		case 1: p->data[0] = (uint8_t)(0x40 | ((p->data[0] + 1) & 0x3F) % 60); break;
		default: p->data[2] = (uint8_t)(0x40 | (1 + (p->data[2] & 0x1F) % 31)); break;
		}
	} else if (p->cls <= 1 && (p->type == 2 || p->type == 5)) { /* length / rating: one bit of one byte */
		i = (int)vf_below(r, (unsigned)p->len);
		p->data[i] = (uint8_t)(0x40 | ((p->data[i] ^ (1u << vf_below(r, 6))) & 0x3F));
		if (p->type == 2 && p->len == 6) p->data[5] = 0x40;
	} else {                                                     /* texts: prefix, extension, one character */
		int minlen = (p->cls == 2 && p->type == 2) ? 4 : 2, maxl = (p->cls == 2 && p->type == 2) ? 6 : 32;
		switch (vf_below(r, 3)) {
		case 0: if (p->len > minlen) { p->len -= vf_range(r, 1, p->len - minlen > 3 ? 3 : p->len - minlen); break; }
			/* fall through */
		case 1: if (p->len < maxl) { p->data[p->len++] = (uint8_t)vf_range(r, 0x41, 0x5a); break; }
			/* fall through */
		default: i = (int)vf_below(r, (unsigned)p->len); p->data[i] = (uint8_t)(p->data[i] == 0x41 ? 0x42 : 0x41); break;
		}
	}
	vf_count("semantic_variant_packets", 1);
}

static int run_case(struct vf_rng *r, long idx)
{
	struct pk pk[MAXPK];
	int npk, i, nf, kinds = 0, domain, midnul, maxlen = 0, depth, intended = 0, semantic;
	vbi_xds_demux *xd;
	char desc[400];
	int o = 0;
	(void)idx;

	/* domain 0 = exactly the statement's packets (class 0..6, type 1..0x7f ... , len >=1), no mid-packet NUL;
	 * domain 1 = hostile: any type, zero length, NUL in the middle of a packet */
	domain = vf_chance(r, 1, 3);
	midnul = domain && vf_chance(r, 1, 2);
	semantic = !domain && vf_chance(r, 1, 2);
	if (semantic) {
		/* programme / network information scenario: a small pool of meaningful packets, repeated */
		struct pk pool[5];
		int npool = vf_range(r, 1, 4), j;
		for (j = 0; j < npool; j++) {
			if (j && vf_chance(r, 1, 2)) gen_variant(r, &pool[j], &pool[j - 1]);
			else gen_semantic(r, &pool[j]);
		}
		npk = vf_range(r, 2, 12);
		for (i = 0; i < npk; i++) {
			pk[i] = pool[(i == 1 && vf_chance(r, 1, 2)) ? 0 : (i == 0 ? 0 : (int)vf_below(r, (unsigned)npool))];
			if (vf_chance(r, 1, 12)) pk[i].bad_sum = 1;
		}
		for (i = 0; i < npk; i++) if (pk[i].len > maxlen) maxlen = pk[i].len;
	} else {
	npk = vf_range(r, 1, vf_chance(r, 1, 2) ? 3 : 8);
	for (i = 0; i < npk; i++) {
		gen_packet(r, &pk[i], domain);
		if (pk[i].len > maxlen) maxlen = pk[i].len;
	}
	}
	depth = npk;
	n_empty_runs = 0;
	gen_stream(r, pk, npk, midnul);
	vf_count("runs_interrupted_before_first_payload_pair", n_empty_runs);
	nf = vf_chance(r, 1, 2) ? 0 : vf_range(r, 1, 3);
	if (nf) kinds = apply_faults(r, nf);
	/* one case in four: the application resets the demultiplexer once or twice somewhere in the stream, also in
	   the middle of packets that are continued afterwards; half of those right behind a start or continue code */
	n_reset = 0;
	if (vf_chance(r, 1, 4) && n_stream > 2) {
		int k, want = vf_range(r, 1, 2);
		for (k = 0; k < want; k++) {
			int at = vf_range(r, 1, n_stream - 1), tries;
			if (vf_chance(r, 1, 2))
				for (tries = 0; tries < 40; tries++) {
					int j = vf_range(r, 1, n_stream - 1), c1 = stream[j - 1].b[0] & 0x7f;
					if (c1 >= 1 && c1 <= 0x0E) { at = j + (vf_chance(r, 1, 2) && j + 1 < n_stream ? 1 : 0); break; }
				}
			reset_at[n_reset++] = at;
		}
		vf_count("demux_resets", n_reset);
	}
	has_unsupported = 0;
	for (i = 0; i < n_stream; i++) {
		int c1 = stream[i].b[0] & 0x7f, c2 = stream[i].b[1] & 0x7f;
		if (c1 >= 1 && c1 <= 0x0E && (!supported((c1 - 1) >> 1, c2) || c2 >= 0x40)) has_unsupported = 1;
	}
	ref_receive(0);

	for (i = 0; i < npk && o < 300; i++)
		o += snprintf(desc + o, sizeof desc - (size_t)o, "%d/%02x/%d%s ", pk[i].cls, pk[i].type, pk[i].len, pk[i].bad_sum ? "!" : "");
	vf_sample("packets(class/type/len,!=bad checksum): %s pairs=%d faults=%d kinds=0x%x midnul=%d -> deliverable=%d", desc, n_stream, nf, kinds, midnul, n_expect);

	if (vf_verbose) {
		for (i = 0; i < n_stream; i++)
			vf_log("%s%02x%02x%s", (i % 16) ? " " : "\n  ", stream[i].b[0] & 0x7f, stream[i].b[1] & 0x7f,
			       (par_ok(stream[i].b[0]) && par_ok(stream[i].b[1])) ? "" : "!");
		vf_log("\n");
	}
	/* cross-check model against packetiser bookkeeping on fault-free, in-domain streams */
	if (!nf && !midnul && !n_reset) {
		for (i = 0; i < npk; i++)
			if (!pk[i].bad_sum && pk[i].len >= 1 && pk[i].len <= 32) intended++;
		/* two packets with the same class/type are sent one after the other, so both count */
		if (intended != n_expect)
			vf_fail("selfcheck:C09:model-vs-packetiser", "packetiser intended %d deliverable packets, reference receiver found %d", intended, n_expect);
	}

	/* 1. demux, pair by pair */
	vf_phase("vbi_xds_demux_feed");
	n_got = 0; got_bad_nul = 0;
	xd = vbi_xds_demux_new(demux_cb, NULL);
	if (!xd) { vf_fail("harness:alloc", "vbi_xds_demux_new failed"); return 0; }
	for (i = 0; i < n_stream; i++) {
		if (is_reset_point(i)) vbi_xds_demux_reset(xd);
		vbi_xds_demux_feed(xd, stream[i].b);
	}
	compare("feed");
	vbi_xds_demux_delete(xd);

	/* 2. demux, frame interface, with unrelated lines around */
	vf_phase("vbi_xds_demux_feed_frame");
	n_got = 0; got_bad_nul = 0;
	xd = vbi_xds_demux_new(demux_cb, NULL);
	for (i = 0; i < n_stream; i++) {
		vbi_sliced sl[3];
		memset(sl, 0, sizeof sl);
		sl[0].id = VBI_SLICED_CAPTION_525_F1; sl[0].line = 21; sl[0].data[0] = 0x94; sl[0].data[1] = 0x20;
		sl[1].id = (i & 1) ? VBI_SLICED_CAPTION_525 : VBI_SLICED_CAPTION_525_F2; sl[1].line = (i % 3 == 0) ? 0 : 284;
		sl[1].data[0] = stream[i].b[0]; sl[1].data[1] = stream[i].b[1];
		sl[2].id = VBI_SLICED_TELETEXT_B; sl[2].line = 7; memset(sl[2].data, 0x15, 42);
		if (is_reset_point(i)) vbi_xds_demux_reset(xd);
		vbi_xds_demux_feed_frame(xd, sl, 3);
	}
	compare("feed_frame");
	vbi_xds_demux_delete(xd);

	/* 3. service decoder: robustness + announcements versus delivered packets */
	service_decoder_monitor();
	vf_count("pairs", n_stream);
	vf_count("packets_sent", npk);
	vf_count("packets_deliverable", n_expect);
	if (n_expect == 0 && !nf) return 0;
	if (semantic) vf_count("semantic_scenarios", 1);
	vf_sig("sem=%d npk=%d maxlen=%s depth=%d faults=0x%x midnul=%d unsup=%d deliv=%d", semantic, npk > 3 ? 4 : npk,
	       maxlen > 32 ? ">32" : maxlen == 32 ? "32" : maxlen >= 29 ? "29-31" : (maxlen & 1) ? "odd" : "even",
	       depth > 2 ? 3 : depth, kinds, midnul, has_unsupported, n_expect > 2 ? 3 : n_expect);
	return 1;
}

static void selftest(void)
{
	/* hand vector: class Current (c1=01) type 03 "AB" -> 01 03 41 42 0F ck */
	int ck;
	n_stream = 0;
	emit(0x01, 0x03, 0); emit('A', 'B', 0);
	ck = (128 - ((0x01 + 0x03 + 'A' + 'B' + 0x0F) & 0x7f)) & 0x7f;
	emit(0x0F, ck, 0);
	ref_receive(0);
	if (n_expect != 1 || expect[0].cls != 0 || expect[0].type != 3 || expect[0].len != 2 || memcmp(expect[0].data, "AB", 2))
		vf_fail("selftest:C09", "reference receiver fails the hand vector");
	stream[1].b[0] ^= 0x80;
	ref_receive(0);
	if (n_expect != 0) vf_fail("selftest:C09", "reference receiver delivered a packet with a parity error");
}

int main(int argc, char **argv) { return vf_main(argc, argv, run_case, selftest); }
