/* C08 - independent EIA-608 / 47 CFR 15.119 line-21 encoder.
 *
 * Written from the code tables of 47 CFR 15.119 ("Preamble Address Codes",
 * "Mid-Row Codes", "Miscellaneous Control Codes", "Special Characters") and
 * EIA-608-B Table 3 (background / foreground attribute codes) and section 6.4.2
 * (extended characters).  Nothing here is derived from src/caption.c.
 *
 * All functions return a 14-bit pair (c1 << 8 | c2) WITHOUT parity; e608_par()
 * adds odd parity.  `ch2` selects the second data channel of a field (CC2/CC4,
 * T2/T4), `f2` says that the code is sent on field 2 (Misc Control Codes use
 * 0x15/0x1D there, EIA-608-B sect. 8.4).
 */
#ifndef C08_ENC_H
#define C08_ENC_H

#include <stdint.h>

/* Misc control codes, second byte low nibble (47 CFR 15.119 table) */
enum e608_misc {
	E608_RCL = 0x0, E608_BS = 0x1, E608_AOF = 0x2, E608_AON = 0x3,
	E608_DER = 0x4, E608_RU2 = 0x5, E608_RU3 = 0x6, E608_RU4 = 0x7,
	E608_FON = 0x8, E608_RDC = 0x9, E608_TR = 0xA, E608_RTD = 0xB,
	E608_EDM = 0xC, E608_CR = 0xD, E608_ENM = 0xE, E608_EOC = 0xF
};

/* colours in the order of the PAC / Mid-Row tables */
enum e608_color {
	E608_WHITE = 0, E608_GREEN, E608_BLUE, E608_CYAN, E608_RED, E608_YELLOW,
	E608_MAGENTA, E608_ITALICS /* PAC: white italics; mid-row: italics; background: black */
};

static inline uint8_t e608_par(uint8_t c)
{
	unsigned n = 0, i;
	c &= 0x7f;
	for (i = 0; i < 7; i++) n += (c >> i) & 1u;
	return (n & 1u) ? c : (uint8_t)(c | 0x80);
}

/* PAC row table, 47 CFR 15.119 "Preamble Address Codes": row 1..15 ->
 * (first byte low 3 bits, bit 5 of second byte).  Row 11 is 0x10/0x40. */
static const uint8_t e608_pac_row_c1[16] = { 0, 1, 1, 2, 2, 5, 5, 6, 6, 7, 7, 0, 3, 3, 4, 4 };
static const uint8_t e608_pac_row_hi[16] = { 0, 0, 1, 0, 1, 0, 1, 0, 1, 0, 1, 0, 0, 1, 0, 1 };

/* row 1..15; indent < 0: colour PAC with `color` (0..7); else indent PAC, indent in columns 0,4,..,28 */
static inline unsigned e608_pac(int ch2, int row, int indent, int color, int ul)
{
	unsigned c1 = 0x10u | (ch2 ? 8u : 0u) | e608_pac_row_c1[row];
	unsigned c2 = 0x40u | (e608_pac_row_hi[row] ? 0x20u : 0u) | (ul ? 1u : 0u);
	if (indent >= 0) c2 |= 0x10u | (unsigned)((indent / 4) << 1);
	else c2 |= (unsigned)(color << 1);
	return c1 << 8 | c2;
}

static inline unsigned e608_midrow(int ch2, int color, int ul)
{
	return (0x11u | (ch2 ? 8u : 0u)) << 8 | 0x20u | (unsigned)(color << 1) | (ul ? 1u : 0u);
}

/* n 0..15; 9 = transparent space */
static inline unsigned e608_special(int ch2, int n)
{
	return (0x11u | (ch2 ? 8u : 0u)) << 8 | 0x30u | (unsigned)n;
}

/* set 2 or 3, code 0x20..0x3F (EIA-608-B 6.4.2) */
static inline unsigned e608_ext(int ch2, int set, int code)
{
	return ((set == 2 ? 0x12u : 0x13u) | (ch2 ? 8u : 0u)) << 8 | (unsigned)code;
}

/* background attribute: colour as in the table, but 7 = black; semi = semi-transparent */
static inline unsigned e608_bg(int ch2, int color, int semi)
{
	return (0x10u | (ch2 ? 8u : 0u)) << 8 | 0x20u | (unsigned)(color << 1) | (semi ? 1u : 0u);
}

static inline unsigned e608_bt(int ch2) { return (0x17u | (ch2 ? 8u : 0u)) << 8 | 0x2Du; }
static inline unsigned e608_fa(int ch2, int ul) { return (0x17u | (ch2 ? 8u : 0u)) << 8 | 0x2Eu | (ul ? 1u : 0u); }
static inline unsigned e608_to(int ch2, int n) { return (0x17u | (ch2 ? 8u : 0u)) << 8 | 0x20u | (unsigned)n; }

static inline unsigned e608_misc(int ch2, int f2, enum e608_misc m)
{
	return ((f2 ? 0x15u : 0x14u) | (ch2 ? 8u : 0u)) << 8 | 0x20u | (unsigned)m;
}

#endif
