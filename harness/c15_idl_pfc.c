/* C15 - IDL format A and Page Format Clear demultiplexers deliver the sent data
 * in order and flag loss.
 *
 * --mode idl : harness/c15_idl.c   (EN 300 708 section 6.5 packetiser + oracle)
 * --mode pfc : harness/c15_pfc.c   (EN 300 708 section 4 packetiser + oracle)
 * Both packetisers, the Hamming 8/4 coder and the CRC are written here from the
 * standard's rules and share no code with /repo.
 */
#include "c15_common.h"

static int run_case(struct vf_rng *r, long idx)
{
	if (vf_mode && 0 == strcmp(vf_mode, "pfc"))
		return c15_pfc_case(r, idx);
	if (vf_mode && 0 == strcmp(vf_mode, "idl-long"))
		return c15_idl_long_case(r, idx);
	if (vf_mode && 0 == strcmp(vf_mode, "pfc-long"))
		return c15_pfc_long_case(r, idx);
	return c15_idl_case(r, idx);
}

static void selftest(void)
{
	/* Hamming 8/4 table of EN 300 706 section 8.2 */
	static const uint8_t tab[16] = { 0x15, 0x02, 0x49, 0x5E, 0x64, 0x73, 0x38, 0x2F,
					 0xD0, 0xC7, 0x8C, 0x9B, 0xA1, 0xB6, 0xFD, 0xEA };
	unsigned v, b;
	for (v = 0; v < 16; v++) {
		if (c15_ham84(v) != tab[v])
			vf_fail("selftest:C15:ham84", "encoder gives %02x for %x, table says %02x", c15_ham84(v), v, tab[v]);
		for (b = 0; b < 8; b++)
			if (c15_unham84((uint8_t)(tab[v] ^ (1u << b))) != (int)v)
				vf_fail("selftest:C15:ham84", "single bit error not corrected");
		if (c15_unham84((uint8_t)(tab[v] ^ 0x21)) != -1)
			vf_fail("selftest:C15:ham84", "double bit error not detected");
	}
	c15_idl_selftest();
	c15_pfc_selftest();
}

int main(int argc, char **argv) { return vf_main(argc, argv, run_case, selftest); }
