/* C01 - independent transmitters used by harness/c01_decoder_fuzz.c.
 *
 * Everything here is written from the standards (EN 300 706 Teletext, EIA-608
 * caption/XDS, EACEM/ATVEF trigger syntax, EN 300 231 VPS, EN 300 294 WSS),
 * not from the library: Hamming 8/4 and 24/18 encoders by their parity
 * equations, odd parity, the packet/header/link layouts, a bit-stream writer
 * for X/28 and M/29, and page builders for every page function the decoder
 * distinguishes.  The builders only have to produce *plausible and hostile*
 * transmissions (C01 has no behavioural oracle), but the coders are self-tested
 * against the library's decoders so that the structure really reaches the
 * parsers behind the Hamming/parity gates.
 */
#ifndef C01_GEN_H
#define C01_GEN_H

#include "vf.h"
#include <string.h>
#include <stdlib.h>

/* ------------------------------------------------------------------ coders */

static unsigned g_par_odd(unsigned c)          /* 7 data bits -> byte with odd parity */
{
	unsigned n = 0, i;
	c &= 0x7f;
	for (i = 0; i < 7; i++) n += (c >> i) & 1;
	return (n & 1) ? c : (c | 0x80);
}

/* EN 300 706 8.2: bits b1..b8 = P1 D1 P2 D2 P3 D3 P4 D4 (b1 first = LSB) */
static unsigned g_ham84(unsigned d)
{
	unsigned d1 = d & 1, d2 = (d >> 1) & 1, d3 = (d >> 2) & 1, d4 = (d >> 3) & 1;
	unsigned p1 = 1 ^ d1 ^ d3 ^ d4;
	unsigned p2 = 1 ^ d1 ^ d2 ^ d4;
	unsigned p3 = 1 ^ d1 ^ d2 ^ d3;
	unsigned p4 = 1 ^ p1 ^ d1 ^ p2 ^ d2 ^ p3 ^ d3 ^ d4;
	return p1 | d1 << 1 | p2 << 2 | d2 << 3 | p3 << 4 | d3 << 5 | p4 << 6 | d4 << 7;
}

/* EN 300 706 8.3: 24 bit positions 1..24, protection bits at 1,2,4,8,16 (each
 * makes the parity of all positions whose number has that bit set odd) and 24
 * (overall odd parity), data bits D1..D18 fill the other positions in order. */
static void g_ham2418(uint8_t out[3], unsigned d)
{
	unsigned pos[25], k, i, n = 0, all = 0;
	memset(pos, 0, sizeof pos);
	for (i = 1; i <= 23; i++) {
		if (i == 1 || i == 2 || i == 4 || i == 8 || i == 16) continue;
		pos[i] = (d >> n++) & 1;
	}
	for (k = 1; k <= 16; k <<= 1) {
		unsigned x = 1;
		for (i = 1; i <= 23; i++)
			if ((i & k) && i != k) x ^= pos[i];
		pos[k] = x;
	}
	for (i = 1; i <= 23; i++) all ^= pos[i];
	pos[24] = 1 ^ all;
	out[0] = out[1] = out[2] = 0;
	for (i = 1; i <= 24; i++)
		out[(i - 1) >> 3] |= (uint8_t)(pos[i] << ((i - 1) & 7));
}

/* bit stream -> 13 triplets of 18 bits, least significant bit first (X/28, M/29) */
struct g_bits { unsigned t[13]; int n; };
static void g_bits_init(struct g_bits *b) { memset(b, 0, sizeof *b); }
static void g_bits_put(struct g_bits *b, unsigned v, int count)
{
	int i;
	for (i = 0; i < count; i++, b->n++)
		if (b->n < 13 * 18 && ((v >> i) & 1))
			b->t[b->n / 18] |= 1u << (b->n % 18);
}

/* ------------------------------------------------------------------ packets */

struct g_pkt { uint8_t b[42]; };

static void g_addr(struct g_pkt *p, int mag, int packet)       /* mag 1..8, packet 0..31 */
{
	p->b[0] = (uint8_t)g_ham84((unsigned)((mag & 7) | ((packet & 1) << 3)));
	p->b[1] = (uint8_t)g_ham84((unsigned)(packet >> 1));
}

/* header: page 0x00..0xFF, subcode S4..S1 (0x3F7F), flags C4..C14 as bit set
 * (bit0=C4 ... bit10=C14, C12..14 = national option) */
#define GC4  0x001
#define GC5  0x002
#define GC6  0x004
#define GC7  0x008
#define GC8  0x010
#define GC9  0x020
#define GC10 0x040
#define GC11 0x080
static void g_header(struct g_pkt *p, int mag, int page, int sub, unsigned c, const char *text32)
{
	int i;
	g_addr(p, mag, 0);
	p->b[2] = (uint8_t)g_ham84((unsigned)page & 15);
	p->b[3] = (uint8_t)g_ham84((unsigned)(page >> 4) & 15);
	p->b[4] = (uint8_t)g_ham84((unsigned)sub & 15);
	p->b[5] = (uint8_t)g_ham84(((unsigned)(sub >> 4) & 7) | ((c & GC4) ? 8 : 0));
	p->b[6] = (uint8_t)g_ham84((unsigned)(sub >> 8) & 15);
	p->b[7] = (uint8_t)g_ham84(((unsigned)(sub >> 12) & 3) | ((c & GC5) ? 4 : 0) | ((c & GC6) ? 8 : 0));
	p->b[8] = (uint8_t)g_ham84((c >> 3) & 15);
	p->b[9] = (uint8_t)g_ham84((c >> 7) & 15);
	for (i = 0; i < 32; i++)
		p->b[10 + i] = (uint8_t)g_par_odd((unsigned char)text32[i]);
}

/* 6 byte page link (X/27/0-3, 8/30 initial page); m = magazine of the link
 * relative to the carrying magazine (XOR) */
static void g_link6(uint8_t *o, int cur_mag, int pgno, int sub)
{
	int m = ((pgno >> 8) & 7) ^ (cur_mag & 7);
	o[0] = (uint8_t)g_ham84((unsigned)pgno & 15);
	o[1] = (uint8_t)g_ham84((unsigned)(pgno >> 4) & 15);
	o[2] = (uint8_t)g_ham84((unsigned)sub & 15);
	o[3] = (uint8_t)g_ham84(((unsigned)(sub >> 4) & 7) | (unsigned)((m & 1) << 3));
	o[4] = (uint8_t)g_ham84((unsigned)(sub >> 8) & 15);
	o[5] = (uint8_t)g_ham84(((unsigned)(sub >> 12) & 3) | (unsigned)(((m >> 1) & 3) << 2));
}

/* 8 nibble TOP link: mag, tens, units, 4 subcode nibbles, function */
static void g_toplink(uint8_t *o, int pgno, int sub, int fn)
{
	o[0] = (uint8_t)g_ham84((unsigned)(pgno >> 8) & 15);
	o[1] = (uint8_t)g_ham84((unsigned)(pgno >> 4) & 15);
	o[2] = (uint8_t)g_ham84((unsigned)pgno & 15);
	o[3] = (uint8_t)g_ham84((unsigned)(sub >> 12) & 15);
	o[4] = (uint8_t)g_ham84((unsigned)(sub >> 8) & 15);
	o[5] = (uint8_t)g_ham84((unsigned)(sub >> 4) & 15);
	o[6] = (uint8_t)g_ham84((unsigned)sub & 15);
	o[7] = (uint8_t)g_ham84((unsigned)fn & 15);
}

static void g_text_row(struct g_pkt *p, int mag, int row, const uint8_t *c40)
{
	int i;
	g_addr(p, mag, row);
	for (i = 0; i < 40; i++) p->b[2 + i] = (uint8_t)g_par_odd(c40[i]);
}

static void g_nibble_row(struct g_pkt *p, int mag, int row, const uint8_t *n40)
{
	int i;
	g_addr(p, mag, row);
	for (i = 0; i < 40; i++) p->b[2 + i] = (uint8_t)g_ham84(n40[i]);
}

/* designation code + 13 triplets (X/26, X/28, M/29, POP rows) */
static void g_trip_row(struct g_pkt *p, int mag, int packet, int designation, const unsigned t[13])
{
	int i;
	g_addr(p, mag, packet);
	p->b[2] = (uint8_t)g_ham84((unsigned)designation);
	for (i = 0; i < 13; i++) g_ham2418(p->b + 3 + i * 3, t[i] & 0x3FFFF);
}

#define G_TRIP(address, mode, data) (((unsigned)(address) & 0x3F) | (((unsigned)(mode) & 0x1F) << 6) | (((unsigned)(data) & 0x7F) << 11))

/* ---------------------------------------------------------------- EIA-608 */

/* RFC 1071 style checksum of an ATVEF/EACEM trigger: 16 bit one's complement
 * sum of big-endian byte pairs (odd byte padded on the right) */
static unsigned g_trigger_checksum(const char *s, int n)
{
	unsigned long sum = 0;
	int i;
	for (i = 0; i + 1 < n; i += 2) sum += ((unsigned long)(unsigned char)s[i] << 8) + (unsigned char)s[i + 1];
	if (i < n) sum += (unsigned long)(unsigned char)s[i] << 8;
	while (sum >> 16) sum = (sum & 0xFFFF) + (sum >> 16);
	return (unsigned)(~sum) & 0xFFFF;
}

#endif
