/* C12 reference codecs, written from the bit layouts of the standards, not from
 * the library:
 *   VPS line 16            ETS 300 231 section 8.2.2 (bytes 5, 11..15; bits sent MSB first)
 *   0xDC3 exception        TR 101 231 ("bit 3 of byte 5 = 1 for ARD / = 0 for ZDF")
 *   DVB PDC descriptor     EN 300 468 section 6.2.30 (tag 0x69, length 3, 4 reserved '1' bits, PIL)
 *   8/30 format 1          EN 300 706 section 9.8.1 (NI MSB first, time offset code, MJD / UTC as BCD+1)
 *   8/30 format 2          EN 300 706 section 9.8.2, EN 300 231 table 8 (13 Hamming 8/4 bytes)
 *   Hamming 8/4            EN 300 706 section 8.2 (parity equations; decoding = nearest codeword
 *                          within distance 1, everything else is uncorrectable)
 * Everything is table driven: a table says which field bit sits at which
 * position of the packet; encoder, decoder and field masks all derive from it.
 */
#ifndef C12_REF_H
#define C12_REF_H
#include <stdint.h>
#include <string.h>

enum { F_NONE, F_PCS, F_DIST, F_CNI, F_DAY, F_MONTH, F_HOUR, F_MIN, F_PTY, F_TAG, F_LEN, F_RSVD,
       F_LCI, F_LUF, F_PRF, F_MI, F_RES, F_PIL, N_FIELDS };

/* a run of n bits in one byte of an MSB-first line: position k (0 = MSB) of
 * `byte`, k = first .. first+n-1, carries field bits msb, msb-1, ... */
struct ref_run { uint8_t byte, first, n, field, msb; };

static const struct ref_run ref_vps_runs[] = {
	{ 2, 0, 2, F_PCS, 1 },          /* byte 5: audio */
	{ 2, 3, 1, F_DIST, 0 },         /* byte 5 bit 3: ARD/ZDF distinction */
	{ 8, 0, 2, F_CNI, 7 },          /* byte 11: network bits, day, month msb */
	{ 8, 2, 5, F_DAY, 4 },
	{ 8, 7, 1, F_MONTH, 3 },
	{ 9, 0, 3, F_MONTH, 2 },        /* byte 12: month, hour */
	{ 9, 3, 5, F_HOUR, 4 },
	{ 10, 0, 6, F_MIN, 5 },         /* byte 13: minute, country */
	{ 10, 6, 2, F_CNI, 11 },
	{ 11, 0, 2, F_CNI, 9 },         /* byte 14: country, network */
	{ 11, 2, 6, F_CNI, 5 },
	{ 12, 0, 8, F_PTY, 7 },         /* byte 15 */
};
#define REF_VPS_NRUNS ((int)(sizeof ref_vps_runs / sizeof ref_vps_runs[0]))

static const struct ref_run ref_dvb_runs[] = {
	{ 0, 0, 8, F_TAG, 7 },
	{ 1, 0, 8, F_LEN, 7 },
	{ 2, 0, 4, F_RSVD, 3 },
	{ 2, 4, 4, F_DAY, 4 },
	{ 3, 0, 1, F_DAY, 0 },
	{ 3, 1, 4, F_MONTH, 3 },
	{ 3, 5, 3, F_HOUR, 4 },
	{ 4, 0, 2, F_HOUR, 1 },
	{ 4, 2, 6, F_MIN, 5 },
};
#define REF_DVB_NRUNS ((int)(sizeof ref_dvb_runs / sizeof ref_dvb_runs[0]))

static void ref_put(uint8_t *buf, const struct ref_run *t, int nt, int field, unsigned v)
{
	int i, j;
	for (i = 0; i < nt; i++) {
		if (t[i].field != field) continue;
		for (j = 0; j < t[i].n; j++) {
			uint8_t m = (uint8_t)(0x80u >> (t[i].first + j));
			if ((v >> (t[i].msb - j)) & 1) buf[t[i].byte] |= m;
			else buf[t[i].byte] &= (uint8_t)~m;
		}
	}
}
static unsigned ref_get(const uint8_t *buf, const struct ref_run *t, int nt, int field)
{
	unsigned v = 0;
	int i, j;
	for (i = 0; i < nt; i++) {
		if (t[i].field != field) continue;
		for (j = 0; j < t[i].n; j++)
			if (buf[t[i].byte] & (0x80u >> (t[i].first + j)))
				v |= 1u << (t[i].msb - j);
	}
	return v;
}
static void ref_mask(uint8_t *mask, const struct ref_run *t, int nt, int field)
{
	int i, j;
	for (i = 0; i < nt; i++)
		if (t[i].field == field)
			for (j = 0; j < t[i].n; j++)
				mask[t[i].byte] |= (uint8_t)(0x80u >> (t[i].first + j));
}

/* A PIL is day(5) month(4) hour(5) minute(6), most significant first (EN 300 231). */
static unsigned ref_pil(unsigned day, unsigned month, unsigned hour, unsigned minute)
{
	return ((day * 16 + month) * 32 + hour) * 64 + minute;
}
static void ref_pil_split(unsigned pil, unsigned *day, unsigned *month, unsigned *hour, unsigned *minute)
{
	*minute = pil % 64; pil /= 64;
	*hour = pil % 32; pil /= 32;
	*month = pil % 16; pil /= 16;
	*day = pil % 32;
}
static void ref_put_pil(uint8_t *buf, const struct ref_run *t, int nt, unsigned pil)
{
	unsigned d, m, h, mi;
	ref_pil_split(pil, &d, &m, &h, &mi);
	ref_put(buf, t, nt, F_DAY, d);
	ref_put(buf, t, nt, F_MONTH, m);
	ref_put(buf, t, nt, F_HOUR, h);
	ref_put(buf, t, nt, F_MIN, mi);
}
static unsigned ref_get_pil(const uint8_t *buf, const struct ref_run *t, int nt)
{
	return ref_pil(ref_get(buf, t, nt, F_DAY), ref_get(buf, t, nt, F_MONTH),
		       ref_get(buf, t, nt, F_HOUR), ref_get(buf, t, nt, F_MIN));
}
static void ref_mask_pil(uint8_t *mask, const struct ref_run *t, int nt)
{
	ref_mask(mask, t, nt, F_DAY); ref_mask(mask, t, nt, F_MONTH);
	ref_mask(mask, t, nt, F_HOUR); ref_mask(mask, t, nt, F_MIN);
}

/* VPS CNI as received: 0xDC3 is shared by ARD and ZDF (TR 101 231) */
static unsigned ref_vps_decode_cni(const uint8_t *buf)
{
	unsigned c = ref_get(buf, ref_vps_runs, REF_VPS_NRUNS, F_CNI);
	if (c == 0xDC3)
		return ref_get(buf, ref_vps_runs, REF_VPS_NRUNS, F_DIST) ? 0xDC1 : 0xDC2;
	return c;
}

/* ---------------- Hamming 8/4 ---------------- */
/* bits in transmission order b1..b8 = P1 D1 P2 D2 P3 D3 P4 D4; b1 is the LSB of
 * the stored byte.  n = D1 | D2<<1 | D3<<2 | D4<<3. */
static uint8_t ref_ham8(unsigned n)
{
	unsigned d1 = n & 1, d2 = (n >> 1) & 1, d3 = (n >> 2) & 1, d4 = (n >> 3) & 1;
	unsigned p1 = 1 ^ d1 ^ d3 ^ d4;
	unsigned p2 = 1 ^ d1 ^ d2 ^ d4;
	unsigned p3 = 1 ^ d1 ^ d2 ^ d3;
	unsigned p4 = 1 ^ p1 ^ d1 ^ p2 ^ d2 ^ p3 ^ d3 ^ d4;
	return (uint8_t)(p1 | d1 << 1 | p2 << 2 | d2 << 3 | p3 << 4 | d3 << 5 | p4 << 6 | d4 << 7);
}
static int8_t ref_unham8_tab[256];
static int ref_popcount8(unsigned x) { int n = 0; while (x) { n += x & 1; x >>= 1; } return n; }
static void ref_ham_init(void)
{
	int b, n;
	for (b = 0; b < 256; b++) {
		int found = -1, cnt = 0;
		for (n = 0; n < 16; n++)
			if (ref_popcount8((unsigned)b ^ ref_ham8((unsigned)n)) <= 1) { found = n; cnt++; }
		ref_unham8_tab[b] = (int8_t)(cnt == 1 ? found : -1);
	}
}

/* ---------------- 8/30 format 2 ---------------- */
/* buffer index of packet byte 13 (after clock run-in and framing code the
 * packet starts with byte 4 at index 0) */
#define REF_8302_FIRST 9
static const struct { uint8_t field, bit; } ref_8302_tab[13][4] = {
	/* 13 */ { { F_LCI, 1 }, { F_LCI, 0 }, { F_LUF, 0 }, { F_PRF, 0 } },
	/* 14 */ { { F_PCS, 1 }, { F_PCS, 0 }, { F_MI, 0 }, { F_RES, 0 } },
	/* 15 */ { { F_CNI, 15 }, { F_CNI, 14 }, { F_CNI, 13 }, { F_CNI, 12 } },
	/* 16 */ { { F_CNI, 7 }, { F_CNI, 6 }, { F_PIL, 19 }, { F_PIL, 18 } },
	/* 17 */ { { F_PIL, 17 }, { F_PIL, 16 }, { F_PIL, 15 }, { F_PIL, 14 } },
	/* 18 */ { { F_PIL, 13 }, { F_PIL, 12 }, { F_PIL, 11 }, { F_PIL, 10 } },
	/* 19 */ { { F_PIL, 9 }, { F_PIL, 8 }, { F_PIL, 7 }, { F_PIL, 6 } },
	/* 20 */ { { F_PIL, 5 }, { F_PIL, 4 }, { F_PIL, 3 }, { F_PIL, 2 } },
	/* 21 */ { { F_PIL, 1 }, { F_PIL, 0 }, { F_CNI, 11 }, { F_CNI, 10 } },
	/* 22 */ { { F_CNI, 9 }, { F_CNI, 8 }, { F_CNI, 5 }, { F_CNI, 4 } },
	/* 23 */ { { F_CNI, 3 }, { F_CNI, 2 }, { F_CNI, 1 }, { F_CNI, 0 } },
	/* 24 */ { { F_PTY, 7 }, { F_PTY, 6 }, { F_PTY, 5 }, { F_PTY, 4 } },
	/* 25 */ { { F_PTY, 3 }, { F_PTY, 2 }, { F_PTY, 1 }, { F_PTY, 0 } },
};

struct ref_8302 { unsigned lci, luf, prf, pcs, mi, res, cni, pil, pty; };

static unsigned ref_8302_field(const struct ref_8302 *v, int f)
{
	switch (f) {
	case F_LCI: return v->lci; case F_LUF: return v->luf; case F_PRF: return v->prf;
	case F_PCS: return v->pcs; case F_MI: return v->mi; case F_RES: return v->res;
	case F_CNI: return v->cni; case F_PIL: return v->pil; case F_PTY: return v->pty;
	}
	return 0;
}
static void ref_8302_encode(uint8_t *buf, const struct ref_8302 *v)
{
	int j, d;
	for (j = 0; j < 13; j++) {
		unsigned n = 0;
		for (d = 0; d < 4; d++)
			n |= ((ref_8302_field(v, ref_8302_tab[j][d].field) >> ref_8302_tab[j][d].bit) & 1u) << d;
		buf[REF_8302_FIRST + j] = ref_ham8(n);
	}
}
/* returns 0 when one of bytes first..last (0..12) is uncorrectable */
static int ref_8302_decode(struct ref_8302 *v, const uint8_t *buf)
{
	int j, d;
	unsigned *dst;
	memset(v, 0, sizeof *v);
	for (j = 0; j < 13; j++) {
		int n = ref_unham8_tab[buf[REF_8302_FIRST + j]];
		if (n < 0) return 0;
		for (d = 0; d < 4; d++) {
			if (!((n >> d) & 1)) continue;
			switch (ref_8302_tab[j][d].field) {
			case F_LCI: dst = &v->lci; break; case F_LUF: dst = &v->luf; break;
			case F_PRF: dst = &v->prf; break; case F_PCS: dst = &v->pcs; break;
			case F_MI: dst = &v->mi; break; case F_RES: dst = &v->res; break;
			case F_CNI: dst = &v->cni; break; case F_PIL: dst = &v->pil; break;
			default: dst = &v->pty; break;
			}
			*dst |= 1u << ref_8302_tab[j][d].bit;
		}
	}
	return 1;
}
static int ref_8302_byte_has_cni(int j)
{
	int d;
	for (d = 0; d < 4; d++) if (ref_8302_tab[j][d].field == F_CNI) return 1;
	return 0;
}

/* ---------------- 8/30 format 1 ---------------- */
/* packet byte 13,14: network identification, MSB transmitted first (so CNI
 * bit 15 is the first = least significant stored bit of byte 13);
 * byte 15: time offset code, bits 2-6 = half hours (bit 2 least significant),
 * bit 7 = 1 for negative offsets, bits 1 and 8 reserved;
 * bytes 16-18: MJD, five BCD digits, every digit incremented by one, the
 * ten-thousands digit in the low nibble of byte 16;
 * bytes 19-21: UTC hours, minutes, seconds, two BCD digits each, incremented. */
struct ref_8301 { unsigned cni; int halfhours, negative; unsigned mjd; unsigned h, m, s; };

static void ref_8301_encode(uint8_t *buf, const struct ref_8301 *v)
{
	int j;
	unsigned d[5], x = v->mjd;
	buf[9] = 0; buf[10] = 0;
	for (j = 0; j < 8; j++) {
		if ((v->cni >> (15 - j)) & 1) buf[9] |= (uint8_t)(1u << j);
		if ((v->cni >> (7 - j)) & 1) buf[10] |= (uint8_t)(1u << j);
	}
	buf[11] = (uint8_t)((buf[11] & 0x81) | ((unsigned)v->halfhours << 1) | (v->negative ? 0x40 : 0));
	for (j = 0; j < 5; j++) { d[j] = x % 10; x /= 10; }
	buf[12] = (uint8_t)((buf[12] & 0xF0) | (d[4] + 1));
	buf[13] = (uint8_t)(((d[3] + 1) << 4) | (d[2] + 1));
	buf[14] = (uint8_t)(((d[1] + 1) << 4) | (d[0] + 1));
	buf[15] = (uint8_t)(((v->h / 10 + 1) << 4) | (v->h % 10 + 1));
	buf[16] = (uint8_t)(((v->m / 10 + 1) << 4) | (v->m % 10 + 1));
	buf[17] = (uint8_t)(((v->s / 10 + 1) << 4) | (v->s % 10 + 1));
}

/* days since 1970-01-01 of a proleptic Gregorian date (era arithmetic) */
static int64_t ref_days_from_civil(int64_t y, unsigned m, unsigned d)
{
	int64_t era, yoe, doy, doe;
	y -= m <= 2;
	era = (y >= 0 ? y : y - 399) / 400;
	yoe = y - era * 400;
	doy = (153 * (int64_t)(m > 2 ? m - 3 : m + 9) + 2) / 5 + d - 1;
	doe = yoe * 365 + yoe / 4 - yoe / 100 + doy;
	return era * 146097 + doe - 719468;
}
/* MJD day 0 is 1858-11-17 */
static int64_t ref_8301_time(const struct ref_8301 *v)
{
	return ((int64_t)v->mjd + ref_days_from_civil(1858, 11, 17)) * 86400
		+ (int64_t)v->h * 3600 + v->m * 60 + v->s;
}
/* digits as stored: nibble 1..10 valid. returns 0 if a digit is not BCD+1 */
static int ref_8301_digits_ok(const uint8_t *buf)
{
	int i;
	unsigned n = buf[12] & 15;
	if (n < 1 || n > 10) return 0;
	for (i = 13; i <= 17; i++) {
		n = buf[i] & 15; if (n < 1 || n > 10) return 0;
		n = buf[i] >> 4; if (n < 1 || n > 10) return 0;
	}
	return 1;
}
static void ref_8301_decode(struct ref_8301 *v, const uint8_t *buf)
{
	int j;
	memset(v, 0, sizeof *v);
	for (j = 0; j < 8; j++) {
		if (buf[9] & (1u << j)) v->cni |= 1u << (15 - j);
		if (buf[10] & (1u << j)) v->cni |= 1u << (7 - j);
	}
	v->halfhours = (buf[11] >> 1) & 31;
	v->negative = (buf[11] >> 6) & 1;
	v->mjd = (((((buf[12] & 15u) - 1) * 10 + ((buf[13] >> 4) - 1u)) * 10 + ((buf[13] & 15u) - 1)) * 10
		  + ((buf[14] >> 4) - 1u)) * 10 + ((buf[14] & 15u) - 1);
	v->h = ((buf[15] >> 4) - 1u) * 10 + ((buf[15] & 15u) - 1);
	v->m = ((buf[16] >> 4) - 1u) * 10 + ((buf[16] & 15u) - 1);
	v->s = ((buf[17] >> 4) - 1u) * 10 + ((buf[17] & 15u) - 1);
}

#endif
