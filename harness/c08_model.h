/* C08 - reference display-memory model for EIA-608 / 47 CFR 15.119 line-21 captioning.
 *
 * Written from the rule texts that are available offline:
 *   [RU]  /repo/test/cc608-roll-up.xml     comments quoting 47 CFR 15.119 (d), (d)(1), (e)(1)(i-ii),
 *         (f), (f)(1), (f)(1)(i-x), (i)(1), (n) and EIA-608-B Annex C.4, C.11, C.13, C.14, C.15
 *   [AT]  /repo/test/cc608-attributes.xml  comments quoting 47 CFR 15.119 (h), (h)(1), (h)(i-iv),
 *         PAC table note, EIA-608-B 6.2, Annex C.7, C.14
 *   [CS]  /repo/test/cc608-charsets.xml    47 CFR 15.119 (g) character tables, EIA-608-B 6.4.2
 *   [DC]  rule quotations / paragraph references in the *comments* of src/cc608_decoder.c
 *         (EIA-608-B 7.4 Text Mode, 7.7 + Annex B.7 EDM/ENM in Text Mode, 47 CFR 15.119 (f)(2)(i),
 *         (f)(3)(i) "Carriage Returns have no effect" in pop-on/paint-on, (f)(2)(iv))
 * Every rule below cites the paragraph it implements.  Where the texts are silent the model is
 * TOLERANT: the attribute is marked "unknown" (not compared) or the channel is "poisoned" (not
 * compared any more until it is reset) -- it never picks one reading.
 *
 * The strict model (quirks == 0) is the standard.  Each Q_* bit switches on one named,
 * documented deviation of src/caption.c (DESIGN.md section 2 item 5); the harness reports a
 * divergence under the quirk's key only if it disappears exactly when that quirk is on.
 */
#ifndef C08_MODEL_H
#define C08_MODEL_H

#include <stdint.h>
#include <string.h>

#define M_ROWS 15
#define M_COLS 34            /* 1..32 are the 32 columns of 15.119 (d); 0 and 33 are always empty */

enum { K_EMPTY = 0, K_CHAR = 1, K_ATTR = 2 };   /* K_ATTR: spacing attribute code, displayed as a space */
enum { MC_WHITE = 0, MC_GREEN, MC_BLUE, MC_CYAN, MC_RED, MC_YELLOW, MC_MAGENTA, MC_BLACK };
enum { OP_OPAQUE = 0, OP_SEMI = 1, OP_BGTRANSP = 2 };
enum { U_FG = 1, U_IT = 2, U_UL = 4, U_FL = 8, U_BG = 16 };
enum { S_NONE = 0, S_POP, S_ROLL, S_PAINT, S_TEXT };

/* Named deviations of src/caption.c.  Order = order of greedy elimination (coarse ones first). */
enum {
	Q_LINE_BUFFER = 0,
	Q_STALE_SOLID_SPACE,               /* comparison level */
	Q_SHARED_CHANNEL_STATE,
	Q_FIELD2_NO_DEDUP,
	Q_DEDUP_ACROSS_NULLS,
	Q_PAC_ROLLUP_ERASES,
	Q_RU_DEPTH_CHANGE_ERASES,
	Q_EOC_ERASES_HIDDEN,
	Q_TR_NO_CLEAR,
	Q_TEXT_PAC_MOVES_ROW,
	Q_EDM_ENM_IN_TEXT_MODE,
	Q_CR_IN_POP_PAINT,
	Q_CR_POP_ON_SHOWS_ROW,
	Q_NO_EXTENDED_CHARS,
	Q_FON_NOT_SPACING,
	Q_ATTR_CODE_NO_BACKSPACE,
	Q_MIDROW_ITALICS_WHITE,
	Q_PEN_ATTRIBUTES,
	Q_ATTRS_SURVIVE_ROW_END,
	Q_TO_DESTRUCTIVE,
	Q_PAC_INDENT_DESTRUCTIVE,
	Q_CURSOR_COL33,
	Q_CODES_BEFORE_STYLE,
	/* named deviations of the second implementation, src/cc608_decoder.c (mode cc608) */
	Q_CC608_COLOUR_PAC_KEEPS_COLUMN,
	Q_COUNT
};

static const char *const m_quirk_name[Q_COUNT] = {
	"Q-line-buffer-row-copy",
	"Q-stale-solid-space",
	"Q-channel-state-shared-between-fields",
	"Q-field2-no-dedup",
	"Q-dedup-across-nulls",
	"Q-PAC-rollup-erases",
	"Q-RU-depth-change-erases",
	"Q-EOC-erases-hidden",
	"Q-TR-no-clear",
	"Q-text-PAC-moves-row",
	"Q-EDM-ENM-in-text-mode",
	"Q-CR-in-pop-on-paint-on",
	"Q-CR-pop-on-shows-row",
	"Q-no-extended-chars",
	"Q-FON-not-spacing",
	"Q-attr-code-no-backspace",
	"Q-midrow-italics-white",
	"Q-pen-attributes",
	"Q-attributes-survive-row-end",
	"Q-TO-destructive",
	"Q-PAC-indent-destructive",
	"Q-cursor-column-33",
	"Q-codes-before-style",
	"Q-colour-PAC-keeps-column",
};

/* What a quirk stands for on the tree under test:
 *   QK_OPEN     genuine deviation left in place, recorded in known-findings.json under its key;
 *   QK_REPAIRED genuine deviation repaired by proposed/C08-NN-*.patch: kept as a switch so that an
 *               unpatched tree or a regression is reported by name (no known-findings entry => VIOLATION);
 *   QK_OPTION   not a deviation: behaviour the standard leaves to the decoder (optional feature);
 *               either setting is accepted silently. */
enum { QK_REPAIRED = 0, QK_OPEN = 1, QK_OPTION = 2 };
static const uint8_t m_quirk_open[Q_COUNT] = {
	QK_OPEN,      /* Q-line-buffer-row-copy */
	QK_OPEN,      /* Q-stale-solid-space */
	QK_REPAIRED,  /* Q-channel-state-shared-between-fields   C08-04 */
	QK_REPAIRED,  /* Q-field2-no-dedup                       C08-02 */
	QK_REPAIRED,  /* Q-dedup-across-nulls                    C08-03 */
	QK_OPEN,      /* Q-PAC-rollup-erases */
	QK_OPEN,      /* Q-RU-depth-change-erases */
	QK_REPAIRED,  /* Q-EOC-erases-hidden                     C08-05 */
	QK_OPEN,      /* Q-TR-no-clear */
	QK_OPEN,      /* Q-text-PAC-moves-row */
	QK_REPAIRED,  /* Q-EDM-ENM-in-text-mode                  C08-10 */
	QK_OPEN,      /* Q-CR-in-pop-on-paint-on */
	QK_REPAIRED,  /* Q-CR-pop-on-shows-row                   C08-14 */
	QK_OPTION,    /* Q-no-extended-chars: EIA-608-B 6.4.2 extended characters are optional */
	QK_REPAIRED,  /* Q-FON-not-spacing                       C08-06 */
	QK_REPAIRED,  /* Q-attr-code-no-backspace                C08-11 */
	QK_REPAIRED,  /* Q-midrow-italics-white                  C08-07 */
	QK_OPEN,      /* Q-pen-attributes */
	QK_REPAIRED,  /* Q-attributes-survive-row-end            C08-13 */
	QK_REPAIRED,  /* Q-TO-destructive                        C08-08 */
	QK_REPAIRED,  /* Q-PAC-indent-destructive                C08-09 */
	QK_REPAIRED,  /* Q-cursor-column-33                      C08-01 */
	QK_REPAIRED,  /* Q-codes-before-style: reachable by generated histories only through Q-channel-state-shared (C08-04) */
	QK_REPAIRED,  /* Q-colour-PAC-keeps-column: cc608_decoder.c only */
};

/* the same for src/cc608_decoder.c as the system under test */
static const uint8_t m_quirk_open_cc608[Q_COUNT] = {
	QK_REPAIRED, QK_REPAIRED, QK_REPAIRED, QK_REPAIRED, QK_REPAIRED, QK_REPAIRED, QK_REPAIRED, QK_REPAIRED, QK_REPAIRED, QK_REPAIRED,
	QK_REPAIRED, QK_REPAIRED, QK_REPAIRED,
	QK_OPTION,    /* Q-no-extended-chars */
	QK_REPAIRED, QK_REPAIRED, QK_REPAIRED, QK_REPAIRED, QK_REPAIRED, QK_REPAIRED, QK_REPAIRED, QK_REPAIRED, QK_REPAIRED,
	QK_OPEN,      /* Q-colour-PAC-keeps-column */
};
static int m_sut_cc608;
#define m_qstatus(q) (m_sut_cc608 ? m_quirk_open_cc608[q] : m_quirk_open[q])

#define QBIT(q) (1u << (q))
#define QON(m, q) (((m)->quirks >> (q)) & 1u)

struct m_attr { uint8_t fg, bg, op, it, ul, fl, unk; };
struct m_cell {
	uint8_t kind;
	uint8_t hadnb;    /* a horizontally adjacent cell was non-empty since this cell was last emptied explicitly */
	uint16_t code;    /* 608 code: 0x20..0x7f, 0x1130..0x113f, 0x1220..0x123f, 0x1320..0x133f */
	struct m_attr a;
};
struct m_mem { struct m_cell c[M_ROWS][M_COLS]; };

struct m_chan {
	int style;               /* S_* ; text channels are always S_TEXT */
	int depth, base;         /* roll-up: window height 2..4, base row 0..14 */
	int row, col;            /* cursor; col 1..32 (33 only with Q_CURSOR_COL33) */
	int cursor_known;
	int stuck;               /* a character was stored in column 32 and the cursor could not advance */
	struct m_mem mem[2];
	int disp;                /* index of the displayed memory */
	struct m_attr pen;       /* attributes in effect for the next character when C.7's left-neighbour rule does not apply */
	struct m_attr pac;       /* attributes of the most recently received PAC on this row (C.14) */
	int poisoned;            /* not comparable any more (texts silent / coarse quirk) */
	const char *poison_why;
	int lb;                  /* Q_LINE_BUFFER is on (copied from the model for convenience) */
	int nul_ct;              /* Q_LINE_BUFFER: caption.c flushes the current row at the second null pair */
	int irow1, iroll;        /* first row / height of the last roll-up window as caption.c keeps them in every style */
	int force_pen;           /* quirk models: a non-spacing attribute change applies to the next character */
	int unflushed;           /* content written since the last point at which the property demands visibility */
	/* evidence */
	int last_cmd;            /* class of the last command addressed to this channel (CL_*) */
};

enum { CL_NONE = 0, CL_CHAR, CL_SPACE, CL_PAC, CL_MIDROW, CL_BG, CL_OPTATTR, CL_FON, CL_SPECIAL, CL_TS, CL_EXT,
       CL_BS, CL_DER, CL_TO, CL_CR, CL_EDM, CL_ENM, CL_EOC, CL_RCL, CL_RDC, CL_RU, CL_TR, CL_RTD, CL_COUNT };
static const char *const m_cl_name[CL_COUNT] = { "none", "char", "space", "PAC", "midrow", "BG", "optattr", "FON", "special", "TS", "ext",
       "BS", "DER", "TO", "CR", "EDM", "ENM", "EOC", "RCL", "RDC", "RU", "TR", "RTD" };

struct model {
	unsigned quirks;
	struct m_chan ch[8];     /* CC1..CC4, T1..T4 */
	int cur[2];              /* per field: data channel bit of the last control code, -1 unknown */
	int text[2];             /* per field: Text Mode selected */
	int last[2];             /* per field: last control pair (for the repeat rule), -1 none */
	int sh_chbit, sh_text;   /* Q_SHARED_CHANNEL_STATE: one state for both fields */
	long n_poison, n_offchannel;
};

static const struct m_attr m_default_attr = { MC_WHITE, MC_BLACK, OP_OPAQUE, 0, 0, 0, 0 };

static void m_poison(struct model *m, struct m_chan *c, const char *why)
{
	if (!c->poisoned) { c->poisoned = 1; c->poison_why = why; m->n_poison++; }
}

static void m_init(struct model *m, unsigned quirks)
{
	int i;
	memset(m, 0, sizeof *m);
	m->quirks = quirks;
	for (i = 0; i < 8; i++) {
		struct m_chan *c = &m->ch[i];
		c->pen = c->pac = m_default_attr;
		c->lb = QON(m, Q_LINE_BUFFER);
		if (i >= 4) { c->irow1 = 0; c->iroll = 15; } else { c->irow1 = 12; c->iroll = 3; }
		if (i >= 4) {
			/* EIA-608-B 7.4 [DC]: "When Text Mode has initially been selected and the specified Text
			 * memory is empty, the cursor starts at the topmost row, Column 1" */
			c->style = S_TEXT; c->row = 0; c->col = 1; c->cursor_known = 1;
		} else {
			c->style = S_NONE; c->depth = 0; c->base = 14; c->row = 14; c->col = 1; c->cursor_known = 0;
		}
	}
	m->cur[0] = m->cur[1] = -1;
	m->last[0] = m->last[1] = -1;
}

/* ---- memory helpers ---- */

static struct m_mem *m_target(struct m_chan *c)
{
	/* 15.119 (f)(2): pop-on characters go to non-displayed memory; (f)(1)(v), (f)(3): roll-up and
	 * paint-on characters are "displayed immediately" = displayed memory. */
	if (c->style == S_POP) return &c->mem[c->disp ^ 1];
	/* Q_LINE_BUFFER: caption.c collects the characters of every style in the non-displayed page
	 * and copies whole rows to the displayed page at word boundaries */
	if (c->lb) return &c->mem[c->disp ^ 1];
	return &c->mem[c->disp];
}

static void m_lb_flush(struct m_chan *c)
{
	if (c->lb && c->style != S_POP)
		memcpy(c->mem[c->disp].c[c->row], c->mem[c->disp ^ 1].c[c->row], sizeof c->mem[0].c[0]);
}

static int m_row_empty(const struct m_mem *mm, int r)
{
	int i;
	for (i = 1; i <= 32; i++) if (mm->c[r][i].kind != K_EMPTY) return 0;
	return 1;
}
static int m_mem_empty(const struct m_mem *mm)
{
	int r;
	for (r = 0; r < M_ROWS; r++) if (!m_row_empty(mm, r)) return 0;
	return 1;
}
static void m_clear_row(struct m_mem *mm, int r) { memset(mm->c[r], 0, sizeof mm->c[r]); }
static void m_erase(struct m_mem *mm) { memset(mm, 0, sizeof *mm); }

static void m_empty_cell(struct m_cell *p) { memset(p, 0, sizeof *p); }
/* empties a cell of a row; it stays a candidate for the optional solid space while a neighbour is non-empty */
static void m_empty_at(struct m_mem *mm, int r, int col)
{
	m_empty_cell(&mm->c[r][col]);
	if ((col > 0 && mm->c[r][col - 1].kind != K_EMPTY) || (col < 33 && mm->c[r][col + 1].kind != K_EMPTY)) mm->c[r][col].hadnb = 1;
}

static void m_store(struct m_mem *mm, int r, int col, int kind, unsigned code, struct m_attr a)
{
	struct m_cell *p = &mm->c[r][col];
	p->kind = (uint8_t)kind; p->code = (uint16_t)code; p->a = a;
	mm->c[r][col - 1].hadnb = 1;
	mm->c[r][col + 1].hadnb = 1;
}

/* EIA-608-B Annex C.7 third paragraph [AT]: a character overwriting "an existing PAC or mid-row
 * code" makes the characters to its right "assume the same attributes as the new character".
 * The texts do not say how far; the model therefore stops comparing the attributes of every
 * non-empty cell to the right on that row (characters stay compared). */
static void m_right_attrs_unknown(struct m_mem *mm, int r, int col)
{
	int i;
	for (i = col + 1; i <= 32; i++)
		if (mm->c[r][i].kind != K_EMPTY) mm->c[r][i].a.unk = U_FG | U_IT | U_UL | U_FL | U_BG;
}

/* Attributes of the next character at the cursor: Annex C.7 [AT] "If there is already a
 * displayable character in the column immediately to the left, the new character assumes the
 * attributes of that character"; otherwise (h) / C.14: the attributes in effect (PAC, default). */
static struct m_attr m_attr_here(const struct model *m, const struct m_chan *c, const struct m_mem *mm, int col)
{
	if (!QON(m, Q_PEN_ATTRIBUTES) && !c->force_pen && col > 1 && mm->c[c->row][col - 1].kind != K_EMPTY)
		return mm->c[c->row][col - 1].a;
	return c->pen;
}

static void m_advance(const struct model *m, struct m_chan *c)
{
	/* 15.119 (f)(1)(v),(vi) [RU]: cursor moves one column right after each character or Mid-Row
	 * Code; at column 32 subsequent characters replace the one in that column. */
	if (c->col < 32) { c->col++; c->stuck = 0; }
	else if (QON(m, Q_CURSOR_COL33)) { c->col = 33; c->stuck = 0; }
	else c->stuck = 1;
}

/* column actually written for the cursor (Q_CURSOR_COL33: a virtual column 33 writes column 32) */
static int m_wcol(const struct m_chan *c) { return c->col > 32 ? 32 : c->col; }

static void m_direct_touch(struct m_chan *c, int flushes)
{
	if (c->style == S_POP) return;
	c->unflushed = !flushes;
	if (flushes) m_lb_flush(c);
}

/* No caption style selected yet (power-up): nothing can be displayed.  caption.c nevertheless stores
 * mid-row, background, special-character and transparent-space codes (not characters) at row 15
 * column 1 and shows them like paint-on text: Q_CODES_BEFORE_STYLE. */
static int m_none_blocks(const struct model *m, const struct m_chan *c) { return c->style == S_NONE && !QON(m, Q_CODES_BEFORE_STYLE); }
static void m_need_cursor(struct model *m, struct m_chan *c, const char *why)
{
	if (!c->cursor_known && c->style != S_NONE) m_poison(m, c, why);
}

/* a displayable character (15.119 (n): everything but the transparent space) */
static void m_put_char(struct model *m, struct m_chan *c, unsigned code, int is_code)
{
	struct m_mem *mm;
	struct m_attr a;
	int col;
	if (c->style == S_NONE && (!is_code || m_none_blocks(m, c))) return;
	m_need_cursor(m, c, "character with unknown cursor position (no PAC since EOC)");
	mm = m_target(c);
	col = m_wcol(c);
	a = m_attr_here(m, c, mm, col);
	if (!QON(m, Q_PEN_ATTRIBUTES)) {
		struct m_cell *old = &mm->c[c->row][col];
		int starts_run = (col == 1 || mm->c[c->row][col - 1].kind == K_EMPTY);
		if (old->kind == K_ATTR || (starts_run && col < 32 && mm->c[c->row][col + 1].kind != K_EMPTY))
			m_right_attrs_unknown(mm, c->row, col);
	}
	m_store(mm, c->row, col, K_CHAR, code, a);
	c->force_pen = 0;
	c->pen = a;                                   /* (h) [AT]: "Attributes are not affected by transparent spaces within a row" */
	m_advance(m, c);
	m_direct_touch(c, code == 0x20);
	/* Q_LINE_BUFFER: caption.c recognises the end of a word by (unicode & 0x7F) == 0x20, which holds for
	 * the space and for U+25A0, its code point for the solid block 0x7F: the row is copied to the
	 * displayed page after a solid block as well.  Not a comparison point (no word is complete). */
	if (code == 0x7F) m_lb_flush(c);
}

/* spacing attribute: Mid-Row Code, Flash On (15.119 (h)(i) [AT]); background / foreground
 * attribute codes with their automatic backspace (EIA-608-B 6.2 [AT]). */
static void m_put_attr(struct model *m, struct m_chan *c, struct m_attr a)
{
	struct m_mem *mm = m_target(c);
	int col = m_wcol(c);
	if (!QON(m, Q_PEN_ATTRIBUTES) && mm->c[c->row][col].kind != K_EMPTY && col < 32 && mm->c[c->row][col + 1].kind != K_EMPTY)
		m_right_attrs_unknown(mm, c->row, col);
	m_store(mm, c->row, col, K_ATTR, 0x20, a);
	c->force_pen = 0;
	c->pen = a;
	m_advance(m, c);
	m_direct_touch(c, 1);
}

/* automatic backspace of extended characters and background/foreground attribute codes:
 * EIA-608-B 6.4.2 [CS] "the cursor moves to the left one column position (unless the Extended
 * Character is the first character on a row), erasing any character which may be in that location" */
static int m_auto_backspace(struct model *m, struct m_chan *c)
{
	struct m_mem *mm = m_target(c);
	if (c->stuck || c->col > 32) {
		/* texts silent on the automatic backspace once column 32 has been written
		 * ([CS]: "we may not be able to backspace into column 32") */
		m_poison(m, c, "automatic backspace after column 32 was written");
		return 0;
	}
	if (c->col > 1) {
		c->col--;
		if (mm->c[c->row][c->col].kind == K_ATTR && !QON(m, Q_PEN_ATTRIBUTES))
			m_right_attrs_unknown(mm, c->row, c->col);
		m_empty_at(mm, c->row, c->col);
	}
	return 1;
}

static void m_roll(struct m_chan *c, struct m_mem *mm, int top, int base)
{
	int r;
	(void)c;
	for (r = top; r < base; r++) memcpy(mm->c[r], mm->c[r + 1], sizeof mm->c[r]);
	m_clear_row(mm, base);
}

static void m_move_window(struct m_chan *c, int newbase)
{
	/* 15.119 (f)(1)(ii) [RU]: "the entire window will move intact (and without erasing) to the new base row immediately" */
	struct m_mem *mm = &c->mem[c->disp];
	struct m_cell tmp[4][M_COLS];
	int i, n = c->depth;
	if (n > c->base + 1) n = c->base + 1;
	for (i = 0; i < n; i++) {
		memcpy(tmp[i], mm->c[c->base - i], sizeof tmp[i]);
		m_clear_row(mm, c->base - i);
	}
	for (i = 0; i < n; i++)
		memcpy(mm->c[newbase - i], tmp[i], sizeof tmp[i]);
}

static const int8_t m_pac_row[16] = { 10, -1, 0, 1, 2, 3, 11, 12, 13, 14, 4, 5, 6, 7, 8, 9 };

static void m_set_pen_from_pac(struct m_chan *c, int c2, int row_was_empty)
{
	struct m_attr a = m_default_attr;
	/* 15.119 PAC table [AT]: bit 0 underline; indent codes "assign white as the color attribute"
	 * (C.7: "white, non-italicized"); colour codes 0..6, 7 = white italics. */
	a.ul = c2 & 1;
	if (!(c2 & 0x10)) {
		int col = (c2 >> 1) & 7;
		if (col == 7) { a.fg = MC_WHITE; a.it = 1; } else a.fg = (uint8_t)col;
	}
	/* [RU] "47 CFR 15.119 and EIA 608-B do not specify if a PAC resets the flashing, background
	 * color and opacity attributes": known only on an empty row ((h): attributes end with the
	 * row; 6.2: default background opaque black; C.14: non-flashing). */
	if (!row_was_empty) a.unk = U_FL | U_BG;
	c->pen = c->pac = a;
}

/* ---- control codes ---- */

static void m_pac(struct model *m, struct m_chan *c, int c1, int c2)
{
	int row = m_pac_row[((c1 & 7) << 1) | ((c2 >> 5) & 1)];
	int indent = (c2 & 0x10) ? (c2 & 0xE) * 2 : 0;
	struct m_mem *mm;
	if (row < 0) return;                            /* 0x10/0x60: no function */
	if (c->style == S_NONE) return;                 /* no caption style selected: nothing to address */
	c->last_cmd = CL_PAC;
	m_lb_flush(c);                                  /* caption.c flushes the row the cursor leaves */
	if (c->style == S_TEXT) {
		/* EIA-608-B 7.4 [DC]: a PAC does not change the cursor row in Text Mode */
		if (QON(m, Q_TEXT_PAC_MOVES_ROW)) c->row = row;
	} else if (c->style == S_ROLL) {
		/* Annex C.4 [RU]: "give precedence to the caption depth when the PAC received is for a row
		 * number less than the number of roll-up rows" */
		int nb = row < c->depth - 1 ? c->depth - 1 : row;
		if (nb != c->base) {
			if (QON(m, Q_PAC_ROLLUP_ERASES)) { m_erase(&c->mem[0]); m_erase(&c->mem[1]); }
			else m_move_window(c, nb);
			c->base = nb;
			c->iroll = c->depth; c->irow1 = nb - c->depth + 1;
		}
		c->row = c->base;                           /* (f)(1)(i): the cursor always remains on the base row */
	} else {
		c->row = row;                               /* (f)(2)(i), (f)(3)(i): PACs move the cursor to rows 1..15 */
	}
	c->cursor_known = 1;
	c->stuck = 0;
	c->force_pen = 0;
	mm = m_target(c);
	/* (e)(1)(i) [RU]: "an indent of 0 places the cursor at Column 1, an indent of 4 sets it at
	 * Column 5"; the colour PACs of the table are indent 0.  "The PAC indent is non-destructive" */
	if ((c2 & 0x10) || !QON(m, Q_CC608_COLOUR_PAC_KEEPS_COLUMN)) c->col = 1 + indent;
	if (QON(m, Q_PAC_INDENT_DESTRUCTIVE)) {
		int i;
		for (i = 1; i <= indent; i++) m_empty_at(mm, c->row, i);
	}
	m_set_pen_from_pac(c, c2, m_row_empty(mm, c->row));
	if (QON(m, Q_PEN_ATTRIBUTES)) {
		/* caption.c: every PAC sets background black opaque, flash off */
		c->pen.unk = 0; c->pac.unk = 0;
	}
	if (c->style != S_POP) c->unflushed = 0;
}

static void m_midrow(struct model *m, struct m_chan *c, int c2)
{
	struct m_attr a;
	int col = (c2 >> 1) & 7;
	if (m_none_blocks(m, c)) return;
	c->last_cmd = CL_MIDROW;
	m_need_cursor(m, c, "mid-row code with unknown cursor position");
	a = m_attr_here(m, c, m_target(c), m_wcol(c));
	/* (h)(ii),(iii) [AT]: a colour code turns off italics and flash; italics turns off flash and keeps the colour; bit 0 = underline */
	a.ul = c2 & 1; a.unk &= (uint8_t)~U_UL;
	a.fl = 0; a.unk &= (uint8_t)~U_FL;
	if (col < 7) { a.fg = (uint8_t)col; a.it = 0; a.unk &= (uint8_t)~(U_FG | U_IT); }
	else {
		a.it = 1; a.unk &= (uint8_t)~U_IT;
		if (QON(m, Q_MIDROW_ITALICS_WHITE)) { a.fg = MC_WHITE; a.unk &= (uint8_t)~U_FG; }
	}
	m_put_attr(m, c, a);
}

static void m_flash_on(struct model *m, struct m_chan *c)
{
	struct m_attr a;
	if (c->style == S_NONE) { if (QON(m, Q_CODES_BEFORE_STYLE) && QON(m, Q_FON_NOT_SPACING)) c->pen.fl = 1; return; }
	c->last_cmd = CL_FON;
	if (QON(m, Q_FON_NOT_SPACING)) { if (c->cursor_known && !c->force_pen) c->pen = m_attr_here(m, c, m_target(c), m_wcol(c)); c->force_pen = 1; c->pen.fl = 1; c->pen.unk &= (uint8_t)~U_FL; m_direct_touch(c, 0); return; }
	if (!c->cursor_known) m_poison(m, c, "FON with unknown cursor position");
	/* (h)(i) [AT]: FON is a spacing attribute; (h)(iii): does not alter colour, italics, underline */
	a = m_attr_here(m, c, m_target(c), m_wcol(c));
	a.fl = 1; a.unk &= (uint8_t)~U_FL;
	m_put_attr(m, c, a);
}

/* background attribute 0x10 0x20-0x2F, BT 0x17 0x2D, FA/FAU 0x17 0x2E/2F (EIA-608-B 6.2 [AT]) */
static void m_bg_fg_attr(struct model *m, struct m_chan *c, int c1, int c2)
{
	struct m_attr a;
	int is_bg = ((c1 & 7) == 0);
	if (c->style == S_NONE && (!is_bg || m_none_blocks(m, c))) return;
	c->last_cmd = is_bg ? CL_BG : CL_OPTATTR;
	m_need_cursor(m, c, "attribute code with unknown cursor position");
	if (QON(m, Q_ATTR_CODE_NO_BACKSPACE)) {
		/* caption.c: background codes store a space at the cursor without the backspace; BT/FA/FAU
		 * only change the pen and re-colour the preceding cell if it holds a space */
		struct m_mem *mm = m_target(c);
		if (is_bg) {
			a = m_attr_here(m, c, mm, m_wcol(c));
			a.bg = (uint8_t)(((c2 >> 1) & 7) == 7 ? MC_BLACK : ((c2 >> 1) & 7));
			a.op = (c2 & 1) ? OP_SEMI : OP_OPAQUE; a.unk &= (uint8_t)~U_BG;
			m_put_attr(m, c, a);
		} else {
			int col = c->col;
			if (!c->force_pen) c->pen = m_attr_here(m, c, mm, m_wcol(c));
			c->force_pen = 1;
			if (c2 == 0x2D) { c->pen.op = OP_BGTRANSP; c->pen.unk &= (uint8_t)~U_BG; }
			else { c->pen.fg = MC_BLACK; c->pen.ul = c2 & 1; c->pen.unk &= (uint8_t)~(U_FG | U_UL); }
			/* "backspace magic": the preceding cell is re-written as a space with the new pen if it holds
			 * a space of any kind, including a transparent (empty) one */
			/* (caption.c tests unicode & 0x7F == 0x20, which also matches the solid block U+25A0 of code 0x7F) */
			if (col > 1 && (mm->c[c->row][col - 1].kind == K_EMPTY || mm->c[c->row][col - 1].code == 0x20 || mm->c[c->row][col - 1].code == 0x7F))
				m_store(mm, c->row, col - 1, K_ATTR, 0x20, c->pen);
			m_direct_touch(c, 0);
		}
		return;
	}
	if (!m_auto_backspace(m, c)) return;
	a = m_attr_here(m, c, m_target(c), m_wcol(c));
	if (is_bg) {
		a.bg = (uint8_t)(((c2 >> 1) & 7) == 7 ? MC_BLACK : ((c2 >> 1) & 7));
		a.op = (c2 & 1) ? OP_SEMI : OP_OPAQUE; a.unk &= (uint8_t)~U_BG;
	} else if (c2 == 0x2D) {
		a.op = OP_BGTRANSP; a.unk &= (uint8_t)~U_BG;
	} else {
		/* 6.2: "the Foreground Attribute Codes turn off italics and flash, and the least-significant bit controls underlining" */
		a.fg = MC_BLACK; a.it = 0; a.fl = 0; a.ul = c2 & 1; a.unk &= (uint8_t)~(U_FG | U_IT | U_FL | U_UL);
	}
	m_put_attr(m, c, a);
}

static void m_transparent_space(struct model *m, struct m_chan *c)
{
	struct m_mem *mm;
	if (m_none_blocks(m, c)) return;
	c->last_cmd = CL_TS;
	m_need_cursor(m, c, "TS with unknown cursor position");
	mm = m_target(c);
	/* (n), (d)(1)(ii): not a displayable character, the cell becomes transparent; (f): "A character can be
	 * erased by addressing another character to the same screen location" */
	if (mm->c[c->row][m_wcol(c)].kind == K_ATTR && !QON(m, Q_PEN_ATTRIBUTES)) m_right_attrs_unknown(mm, c->row, m_wcol(c));
	m_empty_at(mm, c->row, m_wcol(c));
	m_advance(m, c);
	m_direct_touch(c, 0);
}

static void m_ext_char(struct model *m, struct m_chan *c, unsigned code)
{
	if (c->style == S_NONE) return;
	if (QON(m, Q_NO_EXTENDED_CHARS)) return;        /* caption.c: "Send specs to the maintainer of this code" */
	c->last_cmd = CL_EXT;
	if (!c->cursor_known) m_poison(m, c, "extended character with unknown cursor position");
	if (!m_auto_backspace(m, c)) return;
	m_put_char(m, c, code, 0);
	c->last_cmd = CL_EXT;
}

static void m_backspace(struct model *m, struct m_chan *c)
{
	struct m_mem *mm;
	if (c->style == S_NONE) return;
	c->last_cmd = CL_BS;
	if (!c->cursor_known) m_poison(m, c, "BS with unknown cursor position");
	mm = m_target(c);
	/* (f)(1)(vi) [RU]: one column left, erasing the character or Mid-Row Code there; ignored in column 1.
	 * Annex C.13: at column 32 "the cursor shall move to column 31 and erase the character there". */
	if (c->col <= 1) return;
	c->col--;
	c->stuck = 0;
	if (mm->c[c->row][c->col].kind == K_ATTR && !QON(m, Q_PEN_ATTRIBUTES)) {
		/* the erased code carried attributes for what follows: the texts do not say what is in
		 * effect now ([RU] test comments assume the previous attributes return) */
		m_right_attrs_unknown(mm, c->row, c->col);
		c->pen.unk = U_FG | U_IT | U_UL | U_FL | U_BG;
	}
	m_empty_at(mm, c->row, c->col);
	m_direct_touch(c, 0);
}

static void m_delete_to_end_of_row(struct model *m, struct m_chan *c)
{
	struct m_mem *mm;
	int i;
	if (c->style == S_NONE) return;
	c->last_cmd = CL_DER;
	if (!c->cursor_known) m_poison(m, c, "DER with unknown cursor position");
	mm = m_target(c);
	/* (f)(1)(vii) [RU]: erase "starting at the current cursor location and in all columns to its right on the same row" */
	for (i = c->col; i <= 33; i++) m_empty_at(mm, c->row, i);
	if (!QON(m, Q_PEN_ATTRIBUTES)) {
		/* C.14: "the display attributes of the first deleted character shall remain in effect if there is a
		 * displayable character to the left of the cursor [= C.7 left-neighbour rule]; otherwise, the most recently
		 * received PAC shall set the display attributes." */
		c->pen = c->pac;
		if (!m_row_empty(mm, c->row)) c->pen.unk |= U_FL | U_BG;
	}
	c->stuck = 0;
	m_direct_touch(c, 1);
}

static void m_tab_offset(struct model *m, struct m_chan *c, int n)
{
	if (c->style == S_NONE) return;
	c->last_cmd = CL_TO;
	if (!c->cursor_known) m_poison(m, c, "TO with unknown cursor position");
	/* (e)(1)(ii) [RU]: 1-3 columns right, "character cells skipped over will be unaffected"; cannot pass column 32 */
	if (QON(m, Q_TO_DESTRUCTIVE)) {
		struct m_mem *mm = m_target(c);
		int i, lim = QON(m, Q_CURSOR_COL33) ? 33 : 32, col = c->col;
		for (i = n; i > 0 && col < lim; i--) { if (col <= 32) m_empty_at(mm, c->row, col); col++; }
		c->col = col;
	} else {
		int lim = QON(m, Q_CURSOR_COL33) ? 33 : 32;
		c->col += n;
		if (c->col > lim) c->col = lim;
	}
	c->stuck = 0;
	m_direct_touch(c, 0);
}

static void m_carriage_return(struct model *m, struct m_chan *c)
{
	if (c->style == S_NONE) return;
	c->last_cmd = CL_CR;
	if (c->style == S_ROLL) {
		/* (f)(1)(iii) [RU]: top row of the window erased, others roll up, base row blank, cursor at column 1 */
		m_lb_flush(c);
		m_roll(c, &c->mem[c->disp], c->base - c->depth + 1 < 0 ? 0 : c->base - c->depth + 1, c->base);
		if (c->lb) m_clear_row(&c->mem[c->disp ^ 1], c->row);
		c->col = 1; c->stuck = 0;
		if (!QON(m, Q_ATTRS_SURVIVE_ROW_END)) c->pen = c->pac = m_default_attr;   /* C.14: row created by CR, no PAC: white, non-underlined, ... */
		c->unflushed = 0;
		return;
	}
	if (c->style == S_TEXT) {
		/* EIA-608-B 7.4 [DC]: next row column 1; on the last row the text scrolls like roll-up */
		m_lb_flush(c);
		if (c->row < 14) c->row++;
		else {
			m_roll(c, &c->mem[c->disp], 0, 14);
			if (c->lb) m_clear_row(&c->mem[c->disp ^ 1], 14);
		}
		c->col = 1; c->stuck = 0;
		if (!QON(m, Q_ATTRS_SURVIVE_ROW_END)) c->pen = c->pac = m_default_attr;
		c->unflushed = 0;
		return;
	}
	/* (f)(2)(i), (f)(3)(i) [DC]: "Carriage Returns have no effect" in pop-on and paint-on style */
	if (QON(m, Q_CR_POP_ON_SHOWS_ROW) && c->style == S_POP) {
		/* caption.c copied the cursor row of the non-displayed memory into the displayed memory when CR arrived
		 * with the cursor on or below the last row of the roll-up window it remembers: text loaded in pop-on
		 * style became visible without End Of Caption (and without a caption event) */
		int last = c->irow1 + c->iroll - 1;
		if (last > 14) last = 14;
		if (!c->cursor_known) m_poison(m, c, "CR (as implemented) with unknown cursor");
		if (c->row >= last) memcpy(c->mem[c->disp].c[c->row], c->mem[c->disp ^ 1].c[c->row], sizeof c->mem[0].c[0]);
	}
	if (QON(m, Q_CR_IN_POP_PAINT)) {
		/* caption.c keeps treating the rows of the last roll-up window (default rows 13-15) as a
		 * window in every style: above its base row CR moves the cursor down one row, on or below
		 * it CR scrolls that window in the memory being written and blanks the cursor row */
		int last = c->irow1 + c->iroll - 1, r;
		struct m_mem *D = &c->mem[c->disp], *H = &c->mem[c->disp ^ 1];
		if (last > 14) last = 14;
		if (!c->cursor_known) m_poison(m, c, "CR (as implemented) with unknown cursor");
		m_lb_flush(c);
		if (c->row < last) {
			c->row++;
		} else {
			struct m_mem *page = (c->style == S_POP) ? H : D;
			for (r = c->irow1; r < c->irow1 + c->iroll - 1 && r < 14; r++) memcpy(page->c[r], page->c[r + 1], sizeof page->c[r]);
			m_clear_row(m_target(c), c->row);
			if (c->lb && c->style != S_POP) m_clear_row(D, c->row);
		}
		c->col = 1; c->stuck = 0;
		if (c->style == S_PAINT) c->unflushed = 0;
	}
}

static void m_erase_displayed(struct model *m, struct m_chan *c)
{
	(void)m;
	c->last_cmd = CL_EDM;
	m_erase(&c->mem[c->disp]);
	if (c->lb && c->style != S_POP) m_erase(&c->mem[c->disp ^ 1]);
	if (c->style == S_ROLL || c->style == S_PAINT || c->style == S_NONE) c->unflushed = 0;
}

static void m_misc(struct model *m, int f, int chbit, int cmd)
{
	int txt = QON(m, Q_SHARED_CHANNEL_STATE) ? m->sh_text : m->text[f];
	struct m_chan *cc = &m->ch[f * 2 + chbit];       /* caption channel */
	struct m_chan *tc = &m->ch[4 + f * 2 + chbit];   /* text channel */
	struct m_chan *c = txt ? tc : cc;                /* channel non-mode codes go to */

	if (cmd == 0x0 || cmd == 0x9 || (cmd >= 0x5 && cmd <= 0x7) || cmd == 0xF || cmd == 0xA || cmd == 0xB)
		m_lb_flush(c);                              /* caption.c: switch_channel() flushes the channel of the current mode */

	switch (cmd) {
	case 0x0: /* RCL: 15.119 (f)(2); (f)(1)(x) does not erase; (f)(2)(iv) [DC] cursor unchanged */
		if (!txt) cc->unflushed = 0;
		cc->style = S_POP; cc->last_cmd = CL_RCL;
		goto caption_selected;
	case 0x9: /* RDC: (f)(3); (f)(1)(x) */
		if (!txt) cc->unflushed = 0;
		cc->style = S_PAINT; cc->last_cmd = CL_RDC;
		goto caption_selected;
	case 0x5: case 0x6: case 0x7: { /* RU2..RU4 */
		int n = cmd - 3;
		cc->last_cmd = CL_RU;
		if (cc->style == S_ROLL) {
			if (n != cc->depth && QON(m, Q_RU_DEPTH_CHANGE_ERASES)) {
				m_erase(&cc->mem[0]); m_erase(&cc->mem[1]);
				cc->depth = n; cc->base = 14; cc->row = 14; cc->col = 1; cc->stuck = 0;
				cc->iroll = n; cc->irow1 = 14 - n + 1;
				if (!QON(m, Q_ATTRS_SURVIVE_ROW_END)) cc->pen = cc->pac = m_default_attr;   /* restarts on an empty row 15 */
			} else if (n < cc->depth) {
				/* (f)(1)(iv) [RU]: rows turned off "should also be erased from memory" */
				int r;
				for (r = cc->base - cc->depth + 1; r <= cc->base - n; r++) if (r >= 0) m_clear_row(&cc->mem[cc->disp], r);
				cc->depth = n;
			} else if (n > cc->depth) {
				if (cc->base < n - 1)
					m_poison(m, cc, "roll-up window enlarged beyond the top of the screen (Annex C.4 leaves the action open)");
				cc->depth = n;
			}
			/* (f)(1)(ix), Annex C.15: no cursor movement */
		} else {
			/* (f)(1)(x): "will cause any pop-on or paint-on caption to be erased from displayed memory and non-displayed memory";
			 * (f)(1)(ii): base row defaults to row 15, cursor at column 1 */
			m_erase(&cc->mem[0]); m_erase(&cc->mem[1]);
			cc->style = S_ROLL; cc->depth = n; cc->base = 14; cc->row = 14; cc->col = 1; cc->stuck = 0;
			cc->cursor_known = 1;
			cc->iroll = n; cc->irow1 = 14 - n + 1;
			if (!QON(m, Q_ATTRS_SURVIVE_ROW_END)) cc->pen = cc->pac = m_default_attr;
			if (cc->poisoned) {
				/* the pen of caption.c survives the restart; what happened to it while the channel was outside the rule texts is not modelled */
				cc->poisoned = 0; cc->poison_why = NULL;
				if (QON(m, Q_ATTRS_SURVIVE_ROW_END)) cc->pen.unk = U_FG | U_IT | U_UL | U_FL | U_BG;
			}
		}
		if (!txt || (m_mem_empty(&cc->mem[0]) && m_mem_empty(&cc->mem[1]))) cc->unflushed = 0;
		goto caption_selected;
	}
	case 0xF: /* EOC: (f) "displayed caption to become non-displayed (and vice versa) without being erased"; C.11; (f)(2) pop-on style */
		cc->disp ^= 1;
		if (QON(m, Q_EOC_ERASES_HIDDEN)) m_erase(&cc->mem[cc->disp ^ 1]);
		cc->style = S_POP; cc->last_cmd = CL_EOC;
		cc->unflushed = 0;
		/* texts silent on the cursor after EOC ("A Preamble Address Code should follow") */
		cc->cursor_known = 0;
		cc->row = 14; cc->col = 1; cc->stuck = 0;   /* where caption.c puts it; only matters while the channel is not compared */
		goto caption_selected;
	case 0xA: /* TR: EIA-608-B 7.4 [DC]: erases the text memory, cursor to the top-left */
		tc->last_cmd = CL_TR;
		if (!QON(m, Q_TR_NO_CLEAR)) {
			m_erase(&tc->mem[0]); m_erase(&tc->mem[1]);
			tc->unflushed = 0;
			if (tc->poisoned) {
				tc->poisoned = 0; tc->poison_why = NULL;
				if (QON(m, Q_ATTRS_SURVIVE_ROW_END)) tc->pen.unk = U_FG | U_IT | U_UL | U_FL | U_BG;
			}
		} else if (txt) tc->unflushed = 0;
		else if (tc->unflushed) m_poison(m, tc, "TR (not clearing) moved the cursor away from a row with a pending word");
		tc->row = 0; tc->col = 1; tc->stuck = 0; tc->cursor_known = 1;
		if (!QON(m, Q_ATTRS_SURVIVE_ROW_END)) tc->pen = tc->pac = m_default_attr;
		goto text_selected;
	case 0xB: /* RTD */
		tc->last_cmd = CL_RTD;
		if (txt) tc->unflushed = 0;
		goto text_selected;
	case 0xC: /* EDM; EIA-608-B 7.7 / B.7 [DC]: acted upon for caption processing also in Text Mode */
		if (txt && QON(m, Q_EDM_ENM_IN_TEXT_MODE)) { m_erase(&tc->mem[0]); m_erase(&tc->mem[1]); tc->unflushed = 0; tc->last_cmd = CL_EDM; }
		else m_erase_displayed(m, cc);
		return;
	case 0xE: /* ENM (f)(2)(v) */
		if (txt && QON(m, Q_EDM_ENM_IN_TEXT_MODE)) return;
		cc->last_cmd = CL_ENM;
		if (cc->lb && cc->style != S_POP) return;      /* caption.c: ENM only acts in pop-on style */
		m_erase(&cc->mem[cc->disp ^ 1]);
		return;
	case 0x1: m_backspace(m, c); return;
	case 0x4: m_delete_to_end_of_row(m, c); return;
	case 0x8: m_flash_on(m, c); return;
	case 0xD: m_carriage_return(m, c); return;
	default: return;                                /* AOF, AON: reserved */
	}
caption_selected:
	if (QON(m, Q_SHARED_CHANNEL_STATE)) { m->sh_text = 0; m->sh_chbit = chbit; }
	else { m->text[f] = 0; m->cur[f] = chbit; }
	return;
text_selected:
	if (QON(m, Q_SHARED_CHANNEL_STATE)) { m->sh_text = 1; m->sh_chbit = chbit; }
	else { m->text[f] = 1; m->cur[f] = chbit; }
}

static void m_control(struct model *m, int f, int c1, int c2)
{
	int chbit = (c1 >> 3) & 1, g = c1 & 7;
	int txt = QON(m, Q_SHARED_CHANNEL_STATE) ? m->sh_text : m->text[f];
	struct m_chan *c = &m->ch[(txt ? 4 : 0) + f * 2 + chbit];

	if (c2 < 0x20) return;
	if ((g == 4 || g == 5) && c2 < 0x30) { m_misc(m, f, chbit, c2 & 15); return; }
	if (!QON(m, Q_SHARED_CHANNEL_STATE) && m->cur[f] != chbit) {
		/* a non-mode code for the other data channel: never generated (see design note) */
		m->n_offchannel++;
		m_poison(m, &m->ch[f * 2], "code for a data channel that was not selected by a resume command");
		m_poison(m, &m->ch[f * 2 + 1], "code for a data channel that was not selected by a resume command");
		m_poison(m, &m->ch[4 + f * 2], "code for a data channel that was not selected by a resume command");
		m_poison(m, &m->ch[4 + f * 2 + 1], "code for a data channel that was not selected by a resume command");
		return;
	}
	if (c2 >= 0x40) { m_pac(m, c, c1, c2); return; }
	switch (g) {
	case 0: if (c2 < 0x30) m_bg_fg_attr(m, c, c1, c2); break;
	case 1:
		if (c2 < 0x30) m_midrow(m, c, c2);
		else if (c2 == 0x39) m_transparent_space(m, c);
		else { m_put_char(m, c, 0x1100u | (unsigned)c2, 1); c->last_cmd = CL_SPECIAL; }
		break;
	case 2: case 3: m_ext_char(m, c, ((unsigned)(0x10 | g) << 8) | (unsigned)c2); break;
	case 7:
		if (c2 >= 0x21 && c2 <= 0x23) m_tab_offset(m, c, c2 & 3);
		else if (c2 >= 0x2D && c2 <= 0x2F) m_bg_fg_attr(m, c, c1, c2);
		break;
	default: break;
	}
}

/* One byte pair (7-bit, parity removed) of field f (0 = line 21, 1 = line 284). */
static void m_feed(struct model *m, int f, int b1, int b2)
{
	if (b1 == 0 && b2 == 0) {
		/* (i)(1) [RU]: control codes are "transmitted twice in succession": a null pair in between ends the succession */
		if (!QON(m, Q_DEDUP_ACROSS_NULLS)) m->last[f] = -1;
		if (QON(m, Q_LINE_BUFFER) && f == 0) {
			/* caption.c flushes the current row at the second null pair after text (field 1 only) */
			int chbit = QON(m, Q_SHARED_CHANNEL_STATE) ? m->sh_chbit : m->cur[f], txt = QON(m, Q_SHARED_CHANNEL_STATE) ? m->sh_text : m->text[f];
			if (chbit >= 0) {
				struct m_chan *c = &m->ch[(txt ? 4 : 0) + f * 2 + chbit];
				if (c->style != S_NONE) { if (c->nul_ct == 2) m_lb_flush(c); c->nul_ct += 2; }
			}
		}
		return;
	}
	if (b1 >= 0x10 && b1 <= 0x1F) {
		int pair = b1 << 8 | b2;
		int dedup = !(f == 1 && QON(m, Q_FIELD2_NO_DEDUP));
		if (dedup && m->last[f] == pair) { m->last[f] = -1; return; }   /* the redundant repeat is ignored (one repetition) */
		m_control(m, f, b1, b2);
		m->last[f] = pair;
		return;
	}
	m->last[f] = -1;
	if (b1 >= 0x20 || b2 >= 0x20) {
		int chbit, txt, i;
		struct m_chan *c;
		if (QON(m, Q_SHARED_CHANNEL_STATE)) { chbit = m->sh_chbit; txt = m->sh_text; }
		else { chbit = m->cur[f]; txt = m->text[f]; }
		if (chbit < 0) return;
		c = &m->ch[(txt ? 4 : 0) + f * 2 + chbit];
		c->nul_ct = 0;
		for (i = 0; i < 2; i++) {
			int b = i ? b2 : b1;
			if (b < 0x20) continue;
			m_put_char(m, c, (unsigned)b, 0);
			c->last_cmd = (b == 0x20) ? CL_SPACE : CL_CHAR;
		}
	}
}

#endif
