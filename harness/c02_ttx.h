/* Shared by the C02 / C03 harness: an independent Teletext transmitter
 * (EN 300 706 section 8 error protection, section 9 packet formats), the
 * Latin national option sub-sets (EN 300 706 tables 32/33/35/36) and a Level 1
 * display model written from EN 300 706 section 12.2, table 26.
 *
 * Nothing in here uses the library: no hamm.h tables, no lang.c, no teletext.c.
 * The self-test in c02_ttx_faithful.c cross-checks the encoders against the
 * library's *decoders*.
 */
#ifndef C02_TTX_H
#define C02_TTX_H

#include <stdint.h>
#include <string.h>

/* ------------------------------------------------------------------ */
/* 8.1 odd parity, 8.2 Hamming 8/4, 8.3 Hamming 24/18                  */

static inline unsigned tx_pop(unsigned v)
{
	unsigned n = 0;
	for (; v; v >>= 1) n += v & 1;
	return n;
}

static inline uint8_t tx_par(unsigned c)
{
	c &= 0x7f;
	return (uint8_t)((tx_pop(c) & 1) ? c : (c | 0x80));
}

/* b1..b8 = P1 D1 P2 D2 P3 D3 P4 D4, b1 transmitted first = lsb */
static inline uint8_t tx_ham8(unsigned d)
{
	unsigned D1 = d & 1, D2 = (d >> 1) & 1, D3 = (d >> 2) & 1, D4 = (d >> 3) & 1;
	unsigned P1 = 1 ^ D1 ^ D3 ^ D4;
	unsigned P2 = 1 ^ D1 ^ D2 ^ D4;
	unsigned P3 = 1 ^ D1 ^ D2 ^ D3;
	unsigned P4 = 1 ^ P1 ^ D1 ^ P2 ^ D2 ^ P3 ^ D3 ^ D4;
	return (uint8_t)(P1 | D1 << 1 | P2 << 2 | D2 << 3 | P3 << 4 | D3 << 5 | P4 << 6 | D4 << 7);
}

/* 24 bits b1..b24: P1 P2 D1 P3 D2 D3 D4 P4 D5..D11 P5 D12..D18 P6.
 * P1..P5: odd parity over the positions (1..23) whose index has bit 0..4 set,
 * P6: odd parity over all 24 bits. */
static inline void tx_ham24(uint8_t *p, unsigned d)
{
	unsigned b[25], pos, k, i = 0, sum;
	memset(b, 0, sizeof b);
	for (pos = 1; pos <= 23; pos++) {
		if ((pos & (pos - 1)) == 0) continue;        /* 1,2,4,8,16 are parity */
		b[pos] = (d >> i++) & 1;
	}
	for (k = 0; k < 5; k++) {
		sum = 0;
		for (pos = 1; pos <= 23; pos++)
			if ((pos >> k) & 1) sum ^= b[pos];
		b[1u << k] = sum ^ 1;
	}
	sum = 0;
	for (pos = 1; pos <= 23; pos++) sum ^= b[pos];
	b[24] = sum ^ 1;
	p[0] = p[1] = p[2] = 0;
	for (pos = 1; pos <= 24; pos++)
		p[(pos - 1) >> 3] |= (uint8_t)(b[pos] << ((pos - 1) & 7));
}

/* ------------------------------------------------------------------ */
/* 9.x packets.  A packet here is the 42 bytes after the framing code. */

enum { PK_HEADER, PK_FILLER, PK_ROW, PK_X26, PK_X27, PK_X28, PK_830, PK_MIP, PK_KINDS };
static const char *const pk_kind_name[PK_KINDS] = { "header", "filler", "row", "x26", "x27", "x28", "830", "mip" };

struct ttx_pkt {
	uint8_t d[42];
	int mag;       /* 1..8 */
	int y;         /* packet number */
	int kind;
	int tx;        /* owning transmission or -1 */
	int row;       /* PK_ROW: row; PK_X26/27/28: designation */
};

/* control bits C4..C14: bit n of `c` is Cn */
#define CB(n) (1u << (n))

static inline void tx_mrag(uint8_t *d, int mag, int y)
{
	d[0] = tx_ham8((unsigned)(mag & 7) | (unsigned)(y & 1) << 3);
	d[1] = tx_ham8((unsigned)y >> 1);
}

/* page: two hex digits (tens<<4 | units); subcode S4 S3 S2 S1 as 0x3F7F-style value */
static inline void tx_header(uint8_t d[42], int mag, int page, int subcode, unsigned c, int national, const uint8_t text[32])
{
	unsigned S1 = subcode & 15, S2 = (subcode >> 4) & 7, S3 = (subcode >> 8) & 15, S4 = (subcode >> 12) & 3;
	unsigned C12 = (national >> 2) & 1, C13 = (national >> 1) & 1, C14 = national & 1;
	int i;
	tx_mrag(d, mag, 0);
	d[2] = tx_ham8(page & 15);
	d[3] = tx_ham8((page >> 4) & 15);
	d[4] = tx_ham8(S1);
	d[5] = tx_ham8(S2 | (!!(c & CB(4))) << 3);
	d[6] = tx_ham8(S3);
	d[7] = tx_ham8(S4 | (!!(c & CB(5))) << 2 | (!!(c & CB(6))) << 3);
	d[8] = tx_ham8((!!(c & CB(7))) | (!!(c & CB(8))) << 1 | (!!(c & CB(9))) << 2 | (!!(c & CB(10))) << 3);
	d[9] = tx_ham8((!!(c & CB(11))) | C12 << 1 | C13 << 2 | C14 << 3);
	for (i = 0; i < 32; i++) d[10 + i] = tx_par(text[i]);
}

static inline void tx_row(uint8_t d[42], int mag, int row, const uint8_t text[40])
{
	int i;
	tx_mrag(d, mag, row);
	for (i = 0; i < 40; i++) d[2 + i] = tx_par(text[i]);
}

/* page link, 9.6.1: units, tens, S1, S2+M1, S3, S4+M2+M3; magazine relative (XOR) */
static inline void tx_link(uint8_t *d, int cur_mag, int pgno, int subcode)
{
	unsigned m = (unsigned)(((pgno >> 8) & 7) ^ (cur_mag & 7));
	d[0] = tx_ham8(pgno & 15);
	d[1] = tx_ham8((pgno >> 4) & 15);
	d[2] = tx_ham8(subcode & 15);
	d[3] = tx_ham8(((subcode >> 4) & 7) | (m & 1) << 3);
	d[4] = tx_ham8((subcode >> 8) & 15);
	d[5] = tx_ham8(((subcode >> 12) & 3) | ((m >> 1) & 1) << 2 | ((m >> 2) & 1) << 3);
}

struct tx_link { int pgno, subno; };

static inline void tx_x27_0(uint8_t d[42], int mag, const struct tx_link link[6], unsigned control, unsigned crc)
{
	int i;
	tx_mrag(d, mag, 27);
	d[2] = tx_ham8(0);
	for (i = 0; i < 6; i++) tx_link(d + 3 + i * 6, mag, link[i].pgno, link[i].subno);
	d[39] = tx_ham8(control);
	d[40] = (uint8_t)crc; d[41] = (uint8_t)(crc >> 8);
}

static inline unsigned tx_triplet(unsigned address, unsigned mode, unsigned data)
{
	return (address & 0x3f) | (mode & 0x1f) << 6 | (data & 0x7f) << 11;
}

static inline void tx_x26(uint8_t d[42], int mag, int designation, const unsigned trip[13])
{
	int i;
	tx_mrag(d, mag, 26);
	d[2] = tx_ham8((unsigned)designation);
	for (i = 0; i < 13; i++) tx_ham24(d + 3 + i * 3, trip[i]);
}

struct tx_bits { unsigned trip[13]; int n; };
static inline void tx_put(struct tx_bits *b, unsigned v, int count)
{
	int i;
	for (i = 0; i < count; i++, b->n++)
		if (b->n < 13 * 18 && ((v >> i) & 1))
			b->trip[b->n / 18] |= 1u << (b->n % 18);
}

/* X/28/0 format 1 (9.4.2): function, coding, G0/G2 designation, second G0, panels,
 * CLUT 2+3 (16 x 12 bit), default screen/row colour, bbg substitution, CLUT remap */
static inline void tx_x28_0(uint8_t d[42], int mag, int y, unsigned charset, unsigned charset2,
			    const uint16_t clut[16], unsigned screen, unsigned rowc, unsigned bbg, unsigned remap)
{
	struct tx_bits b;
	int i;
	memset(&b, 0, sizeof b);
	tx_put(&b, 0, 4); tx_put(&b, 0, 3);
	tx_put(&b, charset, 7); tx_put(&b, charset2, 7);
	tx_put(&b, 0, 1); tx_put(&b, 0, 1); tx_put(&b, 0, 1); tx_put(&b, 0, 4);
	for (i = 0; i < 16; i++) tx_put(&b, clut[i], 12);
	tx_put(&b, screen, 5); tx_put(&b, rowc, 5); tx_put(&b, bbg, 1); tx_put(&b, remap, 3);
	tx_mrag(d, mag, y);
	d[2] = tx_ham8(0);
	for (i = 0; i < 13; i++) tx_ham24(d + 3 + i * 3, b.trip[i]);
}

/* 8/30 format 1 (9.8.1) */
static inline void tx_830_1(uint8_t d[42], int designation, int init_pgno, int init_sub, unsigned ni,
			    const uint8_t rest[9], const uint8_t status[20])
{
	int i;
	tx_mrag(d, 8, 30);
	d[2] = tx_ham8((unsigned)designation);
	tx_link(d + 3, 0, init_pgno, init_sub);
	d[9] = (uint8_t)(ni >> 8); d[10] = (uint8_t)ni;
	for (i = 0; i < 9; i++) d[11 + i] = rest[i];      /* time offset, MJD, UTC */
	d[20] = d[21] = 0x15;                              /* reserved */
	for (i = 0; i < 20; i++) d[22 + i] = tx_par(status[i]);
}

/* ------------------------------------------------------------------ */
/* Character sets: EN 300 706 table 35 (Latin G0), table 36 (national option
 * sub-sets), table 33 (which sub-set a region + C12..C14 designates).      */

enum { NS_NONE, NS_CZECH, NS_ENGLISH, NS_ESTONIAN, NS_FRENCH, NS_GERMAN, NS_ITALIAN, NS_LETTISH,
       NS_POLISH, NS_PORTUGUESE, NS_RUMANIAN, NS_SERBIAN, NS_SWEDISH, NS_TURKISH, NS_COUNT };

static const char *const ns_name[NS_COUNT] = { "none", "czech-slovak", "english", "estonian", "french", "german",
	"italian", "lettish-lithuanian", "polish", "portuguese-spanish", "rumanian", "serbian-croatian-slovenian",
	"swedish-finnish-hungarian", "turkish" };

static const uint8_t ns_pos[13] = { 0x23, 0x24, 0x40, 0x5B, 0x5C, 0x5D, 0x5E, 0x5F, 0x60, 0x7B, 0x7C, 0x7D, 0x7E };

/* U+E800: the API documents this private code for the Turkish currency sign */
static const uint16_t ns_tab[NS_COUNT][13] = {
	/* none     */ { 0x0023, 0x00A4, 0x0040, 0x005B, 0x005C, 0x005D, 0x005E, 0x005F, 0x0060, 0x007B, 0x007C, 0x007D, 0x007E },
	/* czech    */ { 0x0023, 0x016F, 0x010D, 0x0165, 0x017E, 0x00FD, 0x00ED, 0x0159, 0x00E9, 0x00E1, 0x011B, 0x00FA, 0x0161 },
	/* english  */ { 0x00A3, 0x0024, 0x0040, 0x2190, 0x00BD, 0x2192, 0x2191, 0x0023, 0x2014, 0x00BC, 0x2016, 0x00BE, 0x00F7 },
	/* estonian */ { 0x0023, 0x00F5, 0x0160, 0x00C4, 0x00D6, 0x017D, 0x00DC, 0x00D5, 0x0161, 0x00E4, 0x00F6, 0x017E, 0x00FC },
	/* french   */ { 0x00E9, 0x00EF, 0x00E0, 0x00EB, 0x00EA, 0x00F9, 0x00EE, 0x0023, 0x00E8, 0x00E2, 0x00F4, 0x00FB, 0x00E7 },
	/* german   */ { 0x0023, 0x0024, 0x00A7, 0x00C4, 0x00D6, 0x00DC, 0x005E, 0x005F, 0x00B0, 0x00E4, 0x00F6, 0x00FC, 0x00DF },
	/* italian  */ { 0x00A3, 0x0024, 0x00E9, 0x00B0, 0x00E7, 0x2192, 0x2191, 0x0023, 0x00F9, 0x00E0, 0x00F2, 0x00E8, 0x00EC },
	/* lettish  */ { 0x0023, 0x0024, 0x0160, 0x0117, 0x0119, 0x017D, 0x010D, 0x016B, 0x0161, 0x0105, 0x0173, 0x017E, 0x012F },
	/* polish   */ { 0x0023, 0x0144, 0x0105, 0x01B5, 0x015A, 0x0141, 0x0107, 0x00F3, 0x0119, 0x017C, 0x015B, 0x0142, 0x017A },
	/* portug.  */ { 0x00E7, 0x0024, 0x00A1, 0x00E1, 0x00E9, 0x00ED, 0x00F3, 0x00FA, 0x00BF, 0x00FC, 0x00F1, 0x00E8, 0x00E0 },
	/* rumanian */ { 0x0023, 0x00A4, 0x0162, 0x00C2, 0x015E, 0x0102, 0x00CE, 0x0131, 0x0163, 0x00E2, 0x015F, 0x0103, 0x00EE },
	/* serbian  */ { 0x0023, 0x00CB, 0x010C, 0x0106, 0x017D, 0x0110, 0x0160, 0x00EB, 0x010D, 0x0107, 0x017E, 0x0111, 0x0161 },
	/* swedish  */ { 0x0023, 0x00A4, 0x00C9, 0x00C4, 0x00D6, 0x00C5, 0x00DC, 0x005F, 0x00E9, 0x00E4, 0x00F6, 0x00E5, 0x00FC },
	/* turkish  */ { 0xE800, 0x011F, 0x0130, 0x015E, 0x00D6, 0x00C7, 0x00DC, 0x011E, 0x0131, 0x015F, 0x00F6, 0x00E7, 0x00FC },
};

/* Table 33, Latin entries only; -1 = reserved or a non-Latin G0 set (not generated). */
static const int8_t region_ns[9][8] = {
	/*  0 */ { NS_ENGLISH, NS_GERMAN, NS_SWEDISH, NS_ITALIAN, NS_FRENCH, NS_PORTUGUESE, NS_CZECH, -1 },
	/*  8 */ { NS_POLISH, NS_GERMAN, NS_SWEDISH, NS_ITALIAN, NS_FRENCH, -1, NS_CZECH, -1 },
	/* 16 */ { NS_ENGLISH, NS_GERMAN, NS_SWEDISH, NS_ITALIAN, NS_FRENCH, NS_PORTUGUESE, NS_TURKISH, -1 },
	/* 24 */ { -1, -1, -1, -1, -1, NS_SERBIAN, -1, NS_RUMANIAN },
	/* 32 */ { -1, NS_GERMAN, NS_ESTONIAN, NS_LETTISH, -1, -1, NS_CZECH, -1 },
	/* 40 */ { -1, -1, -1, -1, -1, -1, -1, -1 },
	/* 48 */ { -1, -1, -1, -1, -1, -1, NS_TURKISH, -1 },
	/* 56 */ { -1, -1, -1, -1, -1, -1, -1, -1 },
	/* 64 */ { NS_ENGLISH, -1, -1, -1, NS_FRENCH, -1, -1, -1 },
};

static inline int ns_for(int region, int national)
{
	if (region < 0 || region > 64 || (region & 7)) return -1;
	return region_ns[region >> 3][national & 7];
}

static inline int ns_is_option_pos(unsigned code)
{
	int i;
	for (i = 0; i < 13; i++) if (ns_pos[i] == code) return 1;
	return 0;
}

static inline unsigned l1_g0(int ns, unsigned code)
{
	int i;
	if (code == 0x7F) return 0x25A0;
	for (i = 0; i < 13; i++)
		if (ns_pos[i] == code) return ns_tab[ns][i];
	return code;
}

/* Code points that depict the same glyph of the standard's tables. */
static inline int uc_same_glyph(unsigned a, unsigned b)
{
	static const uint16_t eq[][2] = { { 0x00D0, 0x0110 }, { 0x2014, 0x2015 }, { 0x2016, 0x2551 } };
	unsigned i;
	if (a == b) return 1;
	for (i = 0; i < sizeof eq / sizeof eq[0]; i++)
		if ((a == eq[i][0] && b == eq[i][1]) || (a == eq[i][1] && b == eq[i][0])) return 1;
	return 0;
}

/* The API maps G1 block mosaics to U+EE00..U+EE7F: "the contiguous form has bit 5
 * (0x20) set, the separate form cleared".  Every G1 code has bit 0x20 set, so the
 * mapping replaces that bit by the contiguous flag. */
static inline unsigned l1_mosaic_uc(unsigned code, int separated)
{
	return 0xEE00u + (code & 0x5F) + (separated ? 0 : 0x20);
}

static inline int uc_is_blank(unsigned u)
{
	return u == 0x20 || u == 0xA0 || u == 0xEE00 || u == 0xEE20;
}

/* ------------------------------------------------------------------ */
/* Level 1 display model, EN 300 706 12.2 table 26.                    */

enum { SZ_NORMAL, SZ_DW, SZ_DH, SZ_DS, SZ_OVER_TOP, SZ_OVER_BOTTOM, SZ_DH2, SZ_DS2 }; /* = documented vbi_size order */

#define L1_UNSPEC   1   /* the standard does not define this cell (double width in the last column) */
#define L1_SKIPCHAR 2   /* character from the second G0 set (ESC), set not defined without X/28 */
#define L1_FILLER   4   /* row below a double height row, under a normal size cell: background only */

struct l1_cell {
	uint16_t uc;
	uint8_t fg, bg, flash, conceal, box, size, flags;
};

#define L1_Q_HELD_NO_RESET 1   /* quirk: held mosaic character reset only at the start of a row */

/* Formats one row.  codes: 40 seven-bit codes (0xFF = byte with parity error -> space).
 * first_col: 0 for rows 1..24, 8 for the header.  Returns 1 if a double height/size
 * attribute is in force anywhere (the row below is then not displayed);
 * *dh_cells = number of well defined double height/size cells. */
static int l1_row(const uint8_t *codes, int first_col, int ns, int quirks, struct l1_cell *out, int *dh_cells)
{
	int fg = 7, bg = 0, flash = 0, conceal = 0, box = 0, size = SZ_NORMAL;
	int mosaic = 0, sep = 0, hold = 0, esc = 0, covered = 0, dh_attr = 0, ndh = 0;
	unsigned held = l1_mosaic_uc(0x20, 0);
	const unsigned held_blank = l1_mosaic_uc(0x20, 0);
	int c;

	for (c = 0; c < first_col; c++) {
		memset(&out[c], 0, sizeof out[c]);
		out[c].flags = L1_UNSPEC;
	}
	for (c = first_col; c < 40; c++) {
		unsigned code = codes[c];
		struct l1_cell cell;
		int psize = size;
		if (code > 0x7F) code = 0x20;

		/* "set-at" attributes */
		switch (code) {
		case 0x09: flash = 0; break;
		case 0x0C: size = SZ_NORMAL; break;
		case 0x18: conceal = 1; break;
		case 0x19: sep = 0; break;
		case 0x1A: sep = 1; break;
		case 0x1C: bg = 0; break;
		case 0x1D: bg = fg; break;
		case 0x1E: hold = 1; break;
		default: break;
		}
		if (size != psize && !(quirks & L1_Q_HELD_NO_RESET)) held = held_blank;

		memset(&cell, 0, sizeof cell);
		if (code < 0x20)
			cell.uc = (uint16_t)((hold && mosaic) ? held : 0x20);
		else if (mosaic && (code & 0x20)) {
			held = l1_mosaic_uc(code, sep);
			cell.uc = (uint16_t)held;
		} else {
			cell.uc = (uint16_t)l1_g0(ns, code);
			if (esc) cell.flags |= L1_SKIPCHAR;
		}
		cell.fg = (uint8_t)fg; cell.bg = (uint8_t)bg; cell.flash = (uint8_t)flash;
		cell.conceal = (uint8_t)conceal; cell.box = (uint8_t)box; cell.size = (uint8_t)size;

		if (covered) {
			out[c] = out[c - 1];
			out[c].size = SZ_OVER_TOP;
			covered = 0;
		} else {
			out[c] = cell;
			if (size == SZ_DW || size == SZ_DS) {
				if (c < 39) covered = 1;
				else out[c].flags |= L1_UNSPEC;
			}
			if ((size == SZ_DH || size == SZ_DS) && !(out[c].flags & L1_UNSPEC)) ndh++;
		}

		/* "set-after" attributes */
		psize = size;
		switch (code) {
		case 0x00: case 0x01: case 0x02: case 0x03: case 0x04: case 0x05: case 0x06: case 0x07:
			fg = (int)code; conceal = 0;
			if (mosaic) { mosaic = 0; if (!(quirks & L1_Q_HELD_NO_RESET)) held = held_blank; }
			break;
		case 0x08: flash = 1; break;
		case 0x0A: if (c < 39 && codes[c + 1] == 0x0A) box = 0; break;
		case 0x0B: if (c < 39 && codes[c + 1] == 0x0B) box = 1; break;
		case 0x0D: size = SZ_DH; dh_attr = 1; break;
		case 0x0E: size = SZ_DW; break;
		case 0x0F: size = SZ_DS; dh_attr = 1; break;
		case 0x10: case 0x11: case 0x12: case 0x13: case 0x14: case 0x15: case 0x16: case 0x17:
			fg = (int)code & 7; conceal = 0;
			if (!mosaic) { mosaic = 1; if (!(quirks & L1_Q_HELD_NO_RESET)) held = held_blank; }
			break;
		case 0x1B: esc ^= 1; break;
		case 0x1F: hold = 0; break;
		default: break;
		}
		if (size != psize && !(quirks & L1_Q_HELD_NO_RESET)) held = held_blank;
	}
	if (dh_cells) *dh_cells = ndh;
	return dh_attr;
}

/* Row below a row containing double height: lower halves, else background only. */
static void l1_lower_row(const struct l1_cell *up, struct l1_cell *lo)
{
	int c;
	for (c = 0; c < 40; c++) {
		if (up[c].flags & L1_UNSPEC) {
			memset(&lo[c], 0, sizeof lo[c]);
			lo[c].flags = L1_UNSPEC;
		} else if (up[c].size == SZ_DH) {
			lo[c] = up[c]; lo[c].size = SZ_DH2;
		} else if (up[c].size == SZ_DS && c < 39) {
			lo[c] = up[c]; lo[c].size = SZ_DS2;
			lo[c + 1] = up[c]; lo[c + 1].size = SZ_OVER_BOTTOM;
			c++;
		} else {
			lo[c] = up[c];
			lo[c].uc = 0x20; lo[c].size = SZ_NORMAL; lo[c].flags = L1_FILLER;
		}
	}
}

/* rows[r] = 40 codes or NULL (row never received: spaces).  hdr = 32 codes (columns 8..39).
 * out[25][40]. */
static void l1_page(const uint8_t *const rows[25], const uint8_t *hdr, int ns, int quirks, struct l1_cell out[25][40])
{
	uint8_t buf[40];
	int r;
	memset(buf, 0x20, sizeof buf);
	memcpy(buf + 8, hdr, 32);
	l1_row(buf, 8, ns, quirks, out[0], NULL);
	for (r = 1; r <= 24; r++) {
		int dh;
		if (rows[r]) memcpy(buf, rows[r], 40); else memset(buf, 0x20, 40);
		dh = l1_row(buf, 0, ns, quirks, out[r], NULL);
		if (dh && r < 24) {
			l1_lower_row(out[r], out[r + 1]);
			r++;
		}
	}
}

#endif /* C02_TTX_H */
