/* C06 - DVB VBI multiplexer output is standard-conformant and demultiplexes to its input.
 *
 * One case = one multiplexer (PES or TS, callback or coroutine output, random
 * data_identifier / PES size bounds / PID) fed a sequence of 5-30 frames, some of
 * which the documentation says must be rejected.  Every byte the multiplexer
 * emits goes through (i) the independent parser of c06_dvb_parser.h, which checks
 * the packet layout rule by rule and extracts the lines, compared with the input;
 * (ii) the library's own demultiplexer, whose frames must equal the input lines
 * grouped by the statement's frame rule (a packet whose first line number is not
 * greater than the last line starts a new frame) with the PTS of the frame's
 * first packet.  (iii) rejected frames: FALSE, not one byte of output, and the
 * next valid frame is accepted and correct.
 */
#include "vf.h"
#include <stdlib.h>
#include <string.h>
#include "c06_dvb_gen.h"

/* ---------------- the library demultiplexer's output ---------------- */

struct gline { int kind; unsigned id, line; uint8_t data[42]; };
struct group { int n; int64_t pts; struct gline l[80]; };

#define MAXGRP 80
static struct group got[MAXGRP], want[MAXGRP], cur;
static int n_got, n_want, got_overflow, cur_started;

static int kind_of_demux_id(unsigned id)
{
	switch (id) {
	case VBI_SLICED_TELETEXT_B: return DK_TTX;
	case VBI_SLICED_VPS: return DK_VPS;
	case VBI_SLICED_WSS_625: return DK_WSS;
	case VBI_SLICED_CAPTION_625_F1: return DK_CC;
	}
	return 0;
}

static vbi_bool demux_cb(vbi_dvb_demux *dx, void *ud, const vbi_sliced *s, unsigned int n, int64_t pts)
{
	struct group *g;
	unsigned i;
	(void)dx; (void)ud;
	if (n_got >= MAXGRP) { got_overflow = 1; return TRUE; }
	g = &got[n_got++];
	g->n = 0; g->pts = pts;
	for (i = 0; i < n && i < 80; i++) {
		struct gline *l = &g->l[g->n++];
		l->id = s[i].id; l->line = s[i].line; l->kind = kind_of_demux_id(s[i].id);
		memcpy(l->data, s[i].data, 42);
		if (l->kind == DK_WSS) l->data[1] &= 0x3F;
	}
	if (n > 80) got_overflow = 1;
	return TRUE;
}

/* the packets that were sent (sliced lines only), and the statement's frame
 * rule applied to them */
#define MAXPKT 40
static struct group pkt[MAXPKT];
static unsigned pkt_size[MAXPKT];
static int n_pkt;

static void want_packet(const struct dg_frame *f, unsigned pes_size)
{
	struct group *g;
	int i;
	if (n_pkt >= MAXPKT) return;
	pkt_size[n_pkt] = pes_size;
	g = &pkt[n_pkt++];
	g->n = 0; g->pts = f->pts & 0x1FFFFFFFFll;
	for (i = 0; i < f->n_exp; i++) {
		const struct dp_line *e = &f->exp[i];
		struct gline *l;
		if (e->kind == DK_RAW || g->n >= 80) continue;
		l = &g->l[g->n++];
		l->kind = e->kind; l->line = e->line; l->id = 0;
		memcpy(l->data, e->data, 42);
	}
}

static void build_want(int from)
{
	int k, i;
	n_want = 0;
	cur.n = 0;
	for (k = from; k < n_pkt; k++) {
		const struct group *g = &pkt[k];
		if (k == from) cur.pts = g->pts;
		/* the statement's frame rule: "recognisable by a non-increasing line number"; lines whose number is not
		 * known (0) take no part in it (EN 301 775 4.5.2: line_offset 0 = undefined), and the generator never puts
		 * one in front of the first known line of a frame */
		int last_known = 0, q;
		for (q = cur.n - 1; q >= 0 && !last_known; q--) last_known = (int)cur.l[q].line;
		if (g->n > 0 && cur.n > 0 && g->l[0].line != 0 && (int)g->l[0].line <= last_known) {
			if (n_want < MAXGRP) want[n_want++] = cur;
			cur.n = 0; cur.pts = g->pts;
		}
		for (i = 0; i < g->n && cur.n < 80; i++) cur.l[cur.n++] = g->l[i];
	}
}

/* returns NULL if got[] equals want[], else the key suffix; why = detail */
static const char *compare_groups(char *why, size_t whylen)
{
	int g, k;
	if (got_overflow) { snprintf(why, whylen, "demultiplexer delivered more than %d frames or a frame of more than 80 lines", MAXGRP); return "frame-count"; }
	if (n_got != n_want && vf_verbose) {
		for (g = 0; g < n_want; g++) vf_log("  want frame %d: %d lines, first %u, last %u, pts 0x%llx\n", g, want[g].n, want[g].n ? want[g].l[0].line : 0, want[g].n ? want[g].l[want[g].n - 1].line : 0, (unsigned long long)want[g].pts);
		for (g = 0; g < n_got; g++) vf_log("  got  frame %d: %d lines, first %u, last %u, pts 0x%llx\n", g, got[g].n, got[g].n ? got[g].l[0].line : 0, got[g].n ? got[g].l[got[g].n - 1].line : 0, (unsigned long long)got[g].pts);
	}
	if (n_got != n_want) { snprintf(why, whylen, "%d frames expected by the frame rule from %d packets, demultiplexer delivered %d", n_want, n_pkt, n_got); return "frame-count"; }
	for (g = 0; g < n_got; g++) {
		if (got[g].pts != want[g].pts) { snprintf(why, whylen, "frame %d delivered with PTS 0x%llx, sent with 0x%llx", g, (unsigned long long)got[g].pts, (unsigned long long)want[g].pts); return "pts"; }
		if (got[g].n != want[g].n) { snprintf(why, whylen, "frame %d delivered with %d lines, sent with %d", g, got[g].n, want[g].n); return "line-count"; }
		for (k = 0; k < got[g].n; k++) {
			const struct gline *a = &got[g].l[k], *e = &want[g].l[k];
			if (a->kind != e->kind || a->line != e->line) {
				snprintf(why, whylen, "frame %d line %d delivered as id 0x%x line %u, sent %s line %u", g, k, a->id, a->line, dp_kind_name(e->kind), e->line);
				return "line-identity";
			}
			if (memcmp(a->data, e->data, dp_payload_bytes(e->kind))) {
				snprintf(why, whylen, "frame %d %s line %u delivered %s, sent %s", g, dp_kind_name(e->kind), e->line,
					vf_hex(a->data, dp_payload_bytes(e->kind)), vf_hex(e->data, dp_payload_bytes(e->kind)));
				return "payload";
			}
		}
	}
	return NULL;
}

/* ---------------- the case ---------------- */

static struct dg_frame frame;
static struct dg_out out;
static struct dp_pes pes;
static struct dp_ts_state tsst;

static unsigned pick_di(struct vf_rng *r)
{
	switch (vf_below(r, 4)) {
	case 0: return 0x10;
	case 1: return 0x10 + vf_below(r, 16);
	default: return 0x99 + vf_below(r, 3);
	}
}

static void pick_sizes(struct vf_rng *r, unsigned *mn, unsigned *mx)
{
	switch (vf_below(r, 8)) {
	case 0: *mn = 0; break;
	case 1: case 2: *mn = 184 * (unsigned)vf_range(r, 1, 9); break;
	case 3: *mn = (unsigned)vf_range(r, 1, 3000); break;
	case 4: *mn = vf_chance(r, 1, 6) ? (unsigned)vf_range(r, 20000, 70000) : 184; break;
	default: *mn = (unsigned)vf_range(r, 0, 400); break;
	}
	switch (vf_below(r, 8)) {
	case 0: *mx = UINT_MAX; break;
	case 1: *mx = 1472; break;
	case 2: *mx = *mn + 184 * (unsigned)vf_range(r, 0, 8); break;
	case 3: *mx = (unsigned)vf_range(r, 0, 4000); break;
	case 4: *mx = *mn > 10 ? *mn - (unsigned)vf_range(r, 1, 10) : 0; break;
	case 5: *mx = *mn + (unsigned)vf_range(r, 0, 183); break;
	default: *mx = (unsigned)vf_range(r, 184, 2400); break;
	}
}

static int configure(struct vf_rng *r, vbi_dvb_mux *mx, struct dg_cfg *c, int what)
{
	if (what & 1) {
		unsigned di = pick_di(r), bad = (unsigned[]){ 0, 0x0F, 0x20, 0x7F, 0x80, 0x98, 0x9C, 0xFF, 0x100, UINT_MAX }[vf_below(r, 10)];
		vf_phase("vbi_dvb_mux_set_data_identifier");
		if (!vbi_dvb_mux_set_data_identifier(mx, di) || vbi_dvb_mux_get_data_identifier(mx) != di) {
			vf_fail("model:C06:config:data-identifier", "set_data_identifier(0x%x) failed or get returned 0x%x", di, vbi_dvb_mux_get_data_identifier(mx));
			return 0;
		}
		if (vbi_dvb_mux_set_data_identifier(mx, bad) || vbi_dvb_mux_get_data_identifier(mx) != di) {
			vf_fail("model:C06:config:data-identifier", "set_data_identifier(0x%x) must fail and leave 0x%x, get returns 0x%x", bad, di, vbi_dvb_mux_get_data_identifier(mx));
			return 0;
		}
		c->di = di;
	}
	if (what & 2) {
		unsigned mn, mxs, emn, emx;
		pick_sizes(r, &mn, &mxs);
		dg_round_sizes(mn, mxs, &emn, &emx);
		vf_phase("vbi_dvb_mux_set_pes_packet_size");
		if (!vbi_dvb_mux_set_pes_packet_size(mx, mn, mxs)
		    || vbi_dvb_mux_get_min_pes_packet_size(mx) != emn || vbi_dvb_mux_get_max_pes_packet_size(mx) != emx) {
			vf_fail("model:C06:config:packet-size", "set_pes_packet_size(%u, %u): documented rounding gives %u-%u, accessors return %u-%u", mn, mxs, emn, emx,
				vbi_dvb_mux_get_min_pes_packet_size(mx), vbi_dvb_mux_get_max_pes_packet_size(mx));
			return 0;
		}
		c->min_sz = emn; c->max_sz = emx;
	}
	return 1;
}

static vbi_dvb_mux *new_mux(const struct dg_cfg *c, struct dg_out *o)
{
	vbi_dvb_mux *mx;
	vf_phase("vbi_dvb_mux_new");
	if (c->ts) mx = vbi_dvb_ts_mux_new(c->pid, c->cor ? NULL : dg_mux_cb, o);
	else mx = vbi_dvb_pes_mux_new(c->cor ? NULL : dg_mux_cb, o);
	return mx;
}

/* A valid frame was refused.  Would a fresh multiplexer with the same settings take it? */
static int fresh_mux_accepts(struct vf_rng *r, const struct dg_cfg *c, const struct dg_frame *f)
{
	static struct dg_out o2;
	struct dg_cfg c2 = *c;
	vbi_dvb_mux *m2;
	vbi_bool ok;
	memset(&o2, 0, offsetof(struct dg_out, buf));
	o2.len = 0; o2.n_units = 0; o2.integrity[0] = 0; o2.overflow = 0; o2.cb_calls = o2.cor_calls = 0;
	c2.cor = 0;
	m2 = new_mux(&c2, &o2);
	if (!m2) return -1;
	vbi_dvb_mux_set_data_identifier(m2, c->di);
	vbi_dvb_mux_set_pes_packet_size(m2, c->min_sz, c->max_sz);
	ok = dg_run(r, m2, &c2, f, &o2);
	vbi_dvb_mux_delete(m2);
	return ok ? 1 : 0;
}

static void reset_out(struct dg_out *o)
{
	o->len = 0; o->n_units = 0; o->overflow = 0; o->cb_calls = 0; o->cor_calls = 0; o->bad_cb_size = 0; o->integrity[0] = 0;
}

static int run_case(struct vf_rng *r, long idx)
{
	struct dg_cfg c;
	struct dg_opts opts = { 4, 0, 0, 0 };
	vbi_dvb_mux *mx;
	vbi_dvb_demux *dx;
	int nframes, i, last_reject = RJ_NONE, n_acc = 0, n_rej = 0, rejects_per = (int)vf_below(r, 3), recut = vf_chance(r, 1, 3);
	int64_t base_pts = (int64_t)(vf_u64(r) & 0x1FFFFFFFFll);
	char why[400];
	(void)idx;

	if (vf_verbose) setvbuf(stdout, NULL, _IONBF, 0);
	memset(&c, 0, sizeof c);
	c.ts = vf_chance(r, 1, 2);
	c.cor = vf_chance(r, 1, 2);
	/* Teletext lines whose line number is not known (0) are legal input, anywhere in the frame, also several in a row */
	opts.line0 = vf_chance(r, 1, 4) ? 2 : 0;
	if (opts.line0) vf_count("streams_with_undefined_line_numbers", 1);
	c.pid = vf_chance(r, 1, 4) ? (unsigned[]){ 0x10, 0x11, 0x1FFE, 0x1FFD, 0x100, 0x1234 }[vf_below(r, 6)] : (unsigned)vf_range(r, 0x10, 0x1FFE);
	c.di = 0x10; c.min_sz = 184; c.max_sz = 65504;

	if (c.ts && vf_chance(r, 1, 8)) {
		unsigned bad = (unsigned[]){ 0, 1, 0x0F, 0x1FFF, 0x2000, UINT_MAX }[vf_below(r, 6)];
		vbi_dvb_mux *m = vbi_dvb_ts_mux_new(bad, NULL, NULL);
		if (m) { vf_fail("model:C06:config:pid", "vbi_dvb_ts_mux_new accepted PID 0x%x", bad); vbi_dvb_mux_delete(m); return 1; }
	}
	reset_out(&out);
	mx = new_mux(&c, &out);
	if (!mx) { vf_fail("harness:alloc", "mux_new failed (ts=%d pid=0x%x)", c.ts, c.pid); return 0; }
	if (vbi_dvb_mux_get_data_identifier(mx) != 0x10 || vbi_dvb_mux_get_min_pes_packet_size(mx) != 184 || vbi_dvb_mux_get_max_pes_packet_size(mx) != 65504)
		vf_fail("model:C06:config:defaults", "defaults are di=0x%x min=%u max=%u", vbi_dvb_mux_get_data_identifier(mx),
			vbi_dvb_mux_get_min_pes_packet_size(mx), vbi_dvb_mux_get_max_pes_packet_size(mx));
	if (!configure(r, mx, &c, (vf_chance(r, 3, 4) ? 1 : 0) | (vf_chance(r, 3, 5) ? 2 : 0))) { vbi_dvb_mux_delete(mx); return 1; }

	vf_phase("vbi_dvb_demux_new");
	dx = c.ts ? _vbi_dvb_ts_demux_new(demux_cb, NULL, c.pid) : vbi_dvb_pes_demux_new(demux_cb, NULL);
	if (dx && vf_verbose && getenv("C06_DEMUX_LOG")) vbi_dvb_demux_set_log_fn(dx, (vbi_log_mask)-1, vbi_log_on_stderr, NULL);
	if (!dx) { vf_fail("harness:alloc", "demux_new failed"); vbi_dvb_mux_delete(mx); return 0; }
	dp_ts_init(&tsst, c.pid);
	n_got = n_want = got_overflow = cur_started = n_pkt = 0;

	nframes = vf_range(r, 5, 30);
	vf_sample("%s %s pid=0x%x di=0x%02x size=%u-%u frames=%d", c.ts ? "TS" : "PES", c.cor ? "coroutine" : "callback", c.pid, c.di, c.min_sz, c.max_sz, nframes);

	for (i = 0; i <= nframes && !vf_failed(); i++) {
		int want_reject = 0, kind = RJ_NONE, parsed = 0;
		int64_t pts = dg_gen_pts(r, base_pts, i);
		vbi_bool ok;

		if (i > 0 && i < nframes && vf_chance(r, 1, 8))
			if (!configure(r, mx, &c, 1 + (int)vf_below(r, 3))) break;

		if (i < nframes && rejects_per && vf_chance(r, (unsigned)rejects_per, 6)) want_reject = 1;
		if (i == nframes) {
			/* flush frame: one Teletext line 7 makes the demultiplexer deliver what it holds */
			struct dg_opts fo = { 0, 7, 0, 1 };
			dg_gen_accept(r, &c, &fo, &frame, pts);
			frame.n = 1;
			dg_build_expect(&frame, c.di);
			dg_set_expect_by_size(&frame, &c);
		} else if (want_reject) {
			int tries;
			for (tries = 0; tries < 8; tries++) {
				kind = 1 + (int)vf_below(r, RJ_N - 1);
				if (dg_gen_reject(r, &c, &frame, kind, pts)) break;
				dg_frame_free(&frame);
				kind = RJ_NONE;
			}
			if (kind == RJ_NONE) dg_gen_accept(r, &c, &opts, &frame, pts);
		} else {
			dg_gen_accept(r, &c, &opts, &frame, pts);
		}
		if (frame.expect != DG_REJECT && c.cor && frame.n == 0) {
			frame.expect = DG_REJECT; frame.reject_kind = RJ_EMPTY_COR; frame.reject_note = "coroutine with zero lines";
		}

		reset_out(&out);
		if (vf_verbose)
			vf_log("frame %d (%s %s di=0x%02x size=%u-%u) expect=%s kind=%s need=%u: %s\n", i, c.ts ? "TS" : "PES", c.cor ? "coroutine" : "callback", c.di, c.min_sz, c.max_sz,
			       frame.expect == DG_ACCEPT ? "accept" : frame.expect == DG_REJECT ? "reject" : "either", dg_rj_name[frame.reject_kind], frame.need, dg_describe(&frame));
		ok = dg_run(r, mx, &c, &frame, &out);
		if (vf_verbose)
			vf_log("   -> %s, %zu bytes in %d units\n", ok ? "accepted" : "rejected", out.len, out.n_units);

		if (out.integrity[0]) {
			vf_fail("model:C06:cor-buffer-contract", "frame %d (%s): %s; %s", i, dg_rj_name[frame.reject_kind], out.integrity, dg_describe(&frame));
			dg_frame_free(&frame);
			break;
		}
		if (!ok) {
			if (out.len || out.cb_calls)
				vf_fail("model:C06:reject-produced-output", "frame %d refused (expected %s, %s) but %zu bytes were delivered in %d callbacks; %s", i,
					frame.expect == DG_REJECT ? "refusal" : "acceptance", frame.reject_note ? frame.reject_note : "", out.len, out.cb_calls, dg_describe(&frame));
			else if (frame.expect == DG_ACCEPT) {
				int fresh = last_reject != RJ_NONE ? fresh_mux_accepts(r, &c, &frame) : 0;
				if (fresh == 1)
					vf_fail("model:C06:unusable-after-reject", "frame %d is valid and a fresh multiplexer with the same settings accepts it, but this one refuses it after having refused a frame for '%s' (%s %s di=0x%02x size=%u-%u need=%u); %s", i,
						dg_rj_name[last_reject], c.ts ? "TS" : "PES", c.cor ? "coroutine" : "callback", c.di, c.min_sz, c.max_sz, frame.need, dg_describe(&frame));
				else
					vf_fail("model:C06:valid-frame-rejected", "frame %d inside the documented constraints was refused (%s %s di=0x%02x size=%u-%u need=%u); %s", i,
						c.ts ? "TS" : "PES", c.cor ? "coroutine" : "callback", c.di, c.min_sz, c.max_sz, frame.need, dg_describe(&frame));
			}
			if (frame.expect == DG_EITHER) vf_count("undocumented_size_corner_rejected", 1);
			if (frame.expect == DG_REJECT) {
				char nm[64];
				snprintf(nm, sizeof nm, "rejected_%s", dg_rj_name[frame.reject_kind]);
				vf_count(nm, 1);
				vf_sig("R %s %s %s %s", dg_rj_name[frame.reject_kind], dg_fixed(c.di) ? "fixed" : "var", c.ts ? "ts" : "pes", c.cor ? "cor" : "cb");
				n_rej++;
				last_reject = frame.reject_kind;
			}
			dg_frame_free(&frame);
			continue;
		}

		/* accepted */
		if (frame.expect == DG_REJECT) {
			vf_fail("model:C06:invalid-frame-accepted", "frame %d must be refused (%s: %s) but was accepted with %zu bytes of output; %s", i,
				dg_rj_name[frame.reject_kind], frame.reject_note, out.len, dg_describe(&frame));
			dg_frame_free(&frame);
			break;
		}
		if (frame.expect == DG_EITHER) vf_count("undocumented_size_corner_accepted", 1);
		if (out.overflow || out.len == 0) {
			vf_fail("model:C06:conformance:output-size", "frame %d accepted but output is %s", i, out.overflow ? "larger than any legal packet" : "empty");
			dg_frame_free(&frame);
			break;
		}
		{
			const uint8_t *pp = out.buf;
			size_t pn = out.len;
			const char *rule = NULL;
			if (c.ts) {
				size_t k;
				int complete = 0, n_complete = 0;
				if (out.len % 188) rule = "ts-packet-size", snprintf(why, sizeof why, "%zu bytes of TS output are not a multiple of 188", out.len);
				if (!rule && !c.cor)
					for (k = 0; k < (size_t)out.n_units; k++)
						if (out.unit[k] != 188) { rule = "ts-packet-size"; snprintf(why, sizeof why, "callback %zu delivered %u bytes", k, out.unit[k]); break; }
				for (k = 0; !rule && k + 188 <= out.len; k += 188) {
					if (complete) { rule = "ts-extra-packets"; snprintf(why, sizeof why, "transport packets follow the end of the frame's PES packet"); break; }
					rule = dp_ts_push(&tsst, out.buf + k, &complete, why, sizeof why);
					n_complete += complete;
					vf_count("ts_packets", 1);
				}
				if (!rule && !complete) { rule = "ts-pes-incomplete"; snprintf(why, sizeof why, "%zu TS bytes end inside a PES packet (%zu of %zu bytes)", out.len, tsst.have, tsst.need); }
				pp = tsst.pes; pn = tsst.have;
			} else if (!c.cor && out.cb_calls != 1) {
				rule = "pes-callback-count"; snprintf(why, sizeof why, "%d callbacks for one frame", out.cb_calls);
			}
			if (!rule) rule = dp_parse_pes(pp, pn, &pes, why, sizeof why);
			if (rule) {
				char key[96];
				snprintf(key, sizeof key, "model:C06:conformance:%s", rule);
				vf_fail(key, "frame %d (%s %s di=0x%02x size=%u-%u): %s; first bytes %s; %s", i, c.ts ? "TS" : "PES", c.cor ? "coroutine" : "callback",
					c.di, c.min_sz, c.max_sz, why, vf_hex(out.buf, out.len > 64 ? 64 : out.len), dg_describe(&frame));
			} else {
				rule = dg_compare(&pes, &frame, &c, why, sizeof why);
				if (rule) {
					char key[96];
					snprintf(key, sizeof key, "model:C06:content:%s", rule);
					vf_fail(key, "frame %d (%s %s di=0x%02x size=%u-%u): %s; %s", i, c.ts ? "TS" : "PES", c.cor ? "coroutine" : "callback",
						c.di, c.min_sz, c.max_sz, why, dg_describe(&frame));
				} else parsed = 1;
			}
		}
		if (parsed) {
			size_t off = 0;
			int k;
			const char *stuff = pes.split257 ? "split257" : pes.n_padded_units ? "padded-unit" : pes.n_stuffing_units ? "units" : "none";
			unsigned ntsp = pes.size / 184;
			want_packet(&frame, pes.size);
			vf_phase("vbi_dvb_demux_feed");
			for (k = 0; k < out.n_units; k++) {
				/* the statement does not say in which pieces the demultiplexer gets the bytes: in one stream of
				   three every output unit is cut once more, often next to the end of the PES header (C07 does
				   this systematically; here it keeps the round trip honest) */
				size_t u = out.unit[k], cut = 0;
				if (recut && u > 1) {
					static const unsigned near_hdr[] = { 1, 4, 6, 9, 45, 46, 47, 48, 92, 184, 188, 192, 235 };
					cut = vf_chance(r, 1, 2) ? near_hdr[vf_below(r, sizeof near_hdr / sizeof near_hdr[0])] : (size_t)vf_range(r, 1, (int)u - 1);
					if (cut >= u) cut = u / 2;
				}
				if (cut) {
					uint8_t *p1 = malloc(cut), *p2 = malloc(u - cut);       /* exactly sized blocks: ASan sees look-behind / look-ahead */
					if (p1 && p2) {
						memcpy(p1, out.buf + off, cut); memcpy(p2, out.buf + off + cut, u - cut);
						vbi_dvb_demux_feed(dx, p1, (unsigned)cut);
						free(p1); p1 = NULL;
						vbi_dvb_demux_feed(dx, p2, (unsigned)(u - cut));
						vf_count("demux_units_recut", 1);
					}
					free(p1); free(p2);
				} else if (u) vbi_dvb_demux_feed(dx, out.buf + off, (unsigned)u);
				off += u;
			}
			n_acc++;
			vf_count("frames_accepted", 1);
			vf_count("lines_sent", frame.n_exp);
			vf_count("raw_lines_sent", frame.n_exp_raw);
			vf_count("stuffing_units", pes.n_stuffing_units);
			vf_count("units_with_appended_stuffing_byte", pes.n_padded_units);
			vf_count("stuffing_257_split", pes.split257);
			if (last_reject != RJ_NONE) vf_count("valid_frame_after_reject_ok", 1);
			vf_sig("A %s %s %s tsp=%s stuff=%s raw=%d afterrej=%d", dg_fixed(c.di) ? "fixed" : "var", c.ts ? "ts" : "pes", c.cor ? "cor" : "cb",
			       ntsp == 1 ? "1" : ntsp <= 8 ? "2-8" : ">8", stuff, frame.n_exp_raw > 0, last_reject != RJ_NONE);
			last_reject = RJ_NONE;
		}
		dg_frame_free(&frame);
	}

	/* (ii) what the library's demultiplexer made of the stream */
	if (!vf_failed()) {
		const char *rule;
		int g;
		build_want(0);
		rule = compare_groups(why, sizeof why);
		if (rule && c.ts && n_pkt > 1 && pkt_size[0] == 184) {
			/* Named deviation: is the difference exactly the loss of the first PES
			 * packet of the transport stream, which fits a single TS packet? */
			char why2[400];
			build_want(1);
			if (!compare_groups(why2, sizeof why2)) {
				vf_fail("model:C06:demux:first-single-ts-packet-pes-lost", "TS pid=0x%x: the stream's first PES packet (184 bytes = one TS packet, %d lines, PTS 0x%llx) never reached a frame; everything else matches (%s)",
					c.pid, pkt[0].n, (unsigned long long)pkt[0].pts, why);
				rule = NULL;
			} else build_want(0);
		}
		if (rule) {
			char key[96];
			snprintf(key, sizeof key, "model:C06:demux:%s", rule);
			vf_fail(key, "%s (%s pid=0x%x)", why, c.ts ? "TS" : "PES", c.pid);
		}
		for (g = 0; g < n_got && g < n_want; g++) vf_count("demux_lines_compared", got[g].n);
		vf_count("demux_frames_compared", n_got < n_want ? n_got : n_want);
	}
	vf_phase("vbi_dvb_demux_delete");
	vbi_dvb_demux_delete(dx);
	vf_phase("vbi_dvb_mux_delete");
	vbi_dvb_mux_delete(mx);
	vf_count("streams", 1);
	return n_acc > 0 || n_rej > 0;
}

/* ---------------- oracle self-test on hand vectors ---------------- */

static void build_hand_packet(uint8_t *p, unsigned di)
{
	int i;
	memset(p, 0xFF, 184);
	p[0] = 0; p[1] = 0; p[2] = 1; p[3] = 0xBD; p[4] = 0; p[5] = 184 - 6;
	p[6] = 0x84; p[7] = 0x80; p[8] = 0x24;
	p[9] = 0x23; p[10] = 0x00; p[11] = 0x03; p[12] = 0x00; p[13] = 0x03;   /* PTS = 2^30 + 2^15 + 1 */
	p[45] = (uint8_t)di;
	/* Teletext, first field line 7 */
	p[46] = 0x02; p[47] = 0x2C; p[48] = 0xE7; p[49] = 0xE4;
	for (i = 0; i < 42; i++) p[50 + i] = (uint8_t)(0x80 >> (i & 7));       /* sliced byte = 1 << (i & 7) */
	/* VPS first field line 16 */
	p[92] = 0xC3; p[93] = 0x0E; p[94] = 0xF0;
	for (i = 0; i < 13; i++) p[95 + i] = (uint8_t)(i + 1);
	/* stuffing unit up to the end: 184 - 108 = 76 bytes */
	p[108] = 0xFF; p[109] = 74;
}

static void selftest(void)
{
	static struct dp_pes q;
	uint8_t p[368];
	char why[300];
	const char *rule;
	unsigned a, b;
	int i, complete;
	struct dp_ts_hdr h;

	build_hand_packet(p, 0x99);
	rule = dp_parse_pes(p, 184, &q, why, sizeof why);
	if (rule) { vf_fail("selftest:C06", "hand packet rejected: %s %s", rule, why); return; }
	if (q.pts != ((1ll << 30) | (1ll << 15) | 1) || q.n_lines != 2 || q.lines[0].kind != DK_TTX || q.lines[0].line != 7
	    || q.lines[1].kind != DK_VPS || q.lines[1].line != 16 || q.n_stuffing_units != 1 || q.data_identifier != 0x99)
		vf_fail("selftest:C06", "hand packet misread: pts=%llx n=%d", (unsigned long long)q.pts, q.n_lines);
	for (i = 0; i < 42; i++) if (q.lines[0].data[i] != (1u << (i & 7))) vf_fail("selftest:C06", "teletext bit order wrong at byte %d", i);
	for (i = 0; i < 13; i++) if (q.lines[1].data[i] != i + 1) vf_fail("selftest:C06", "VPS byte %d wrong", i);

	build_hand_packet(p, 0x99); p[48] = 0xC7; p[92] = 0xFF; memset(p + 94, 0xFF, 14);   /* second field line 7, VPS -> stuffing */
	rule = dp_parse_pes(p, 184, &q, why, sizeof why);
	if (rule || q.n_lines != 1 || q.lines[0].line != 320 || q.n_stuffing_units != 2) vf_fail("selftest:C06", "second field line misread (%s)", rule ? rule : "ok");
	build_hand_packet(p, 0x99); p[11] &= ~1;
	rule = dp_parse_pes(p, 184, &q, why, sizeof why);
	if (!rule || strcmp(rule, "pts-markers")) vf_fail("selftest:C06", "missing PTS marker not detected (%s)", rule ? rule : "ok");
	build_hand_packet(p, 0x99); p[109] = 75;
	rule = dp_parse_pes(p, 184, &q, why, sizeof why);
	if (!rule || strcmp(rule, "du-crosses-end")) vf_fail("selftest:C06", "data unit crossing the end not detected (%s)", rule ? rule : "ok");
	build_hand_packet(p, 0x10);
	rule = dp_parse_pes(p, 184, &q, why, sizeof why);
	if (!rule || strcmp(rule, "du-fixed-length")) vf_fail("selftest:C06", "variable length unit under data_identifier 0x10 not detected (%s)", rule ? rule : "ok");
	build_hand_packet(p, 0x99);
	rule = dp_parse_pes(p, 183, &q, why, sizeof why);
	if (!rule || strcmp(rule, "pes-size")) vf_fail("selftest:C06", "size 183 not detected");
	build_hand_packet(p, 0x99); p[94] = 0xF1;      /* VPS on line 17 */
	rule = dp_parse_pes(p, 184, &q, why, sizeof why);
	if (!rule || strcmp(rule, "du-line-offset")) vf_fail("selftest:C06", "VPS on line 17 not detected (%s)", rule ? rule : "ok");
	build_hand_packet(p, 0x99); p[48] = 0xE7; p[94] = 0xF0; p[46] = 0x02;
	/* teletext line 7 then VPS 16: fine; now swap order by making teletext line 17 */
	p[48] = 0xF1;
	rule = dp_parse_pes(p, 184, &q, why, sizeof why);
	if (!rule || strcmp(rule, "line-order")) vf_fail("selftest:C06", "descending lines not detected (%s)", rule ? rule : "ok");

	/* transport packet header 47 52 34 17: PUSI, PID 0x1234, payload only, counter 7 */
	memset(p, 0xFF, 188);
	p[0] = 0x47; p[1] = 0x52; p[2] = 0x34; p[3] = 0x17;
	dp_ts_header(p, &h);
	if (!h.pusi || h.tei || h.pid != 0x1234 || h.afc != 1 || h.scrambling || h.cc != 7) vf_fail("selftest:C06", "TS header misread");
	build_hand_packet(p + 4, 0x99);
	dp_ts_init(&tsst, 0x1234);
	rule = dp_ts_push(&tsst, p, &complete, why, sizeof why);
	if (rule || !complete || tsst.have != 184) vf_fail("selftest:C06", "single TS packet PES not reassembled (%s)", rule ? rule : "incomplete");
	p[3] = 0x19;
	rule = dp_ts_push(&tsst, p, &complete, why, sizeof why);
	if (!rule || strcmp(rule, "ts-continuity")) vf_fail("selftest:C06", "continuity jump not detected");

	dg_round_sizes(0, UINT_MAX, &a, &b); if (a != 184 || b != 65504) vf_fail("selftest:C06", "rounding (0,max)");
	dg_round_sizes(185, 400, &a, &b); if (a != 368 || b != 368) vf_fail("selftest:C06", "rounding (185,400) -> %u %u", a, b);
	dg_round_sizes(1234, 1234, &a, &b); if (a != 1288 || b != 1288) vf_fail("selftest:C06", "rounding (1234,1234) -> %u %u", a, b);
	dg_round_sizes(70000, 5, &a, &b); if (a != 65504 || b != 65504) vf_fail("selftest:C06", "rounding (70000,5) -> %u %u", a, b);
	if (dp_rev8(0x01) != 0x80 || dp_rev8(0xE4) != 0x27) vf_fail("selftest:C06", "rev8");
}

int main(int argc, char **argv) { return vf_main(argc, argv, run_case, selftest); }
