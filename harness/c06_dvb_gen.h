/* Frame generator and multiplexer driver shared by the C06 and C07 harnesses.
 *
 * Acceptable frames stay inside the constraints documented for
 * vbi_dvb_mux_feed()/vbi_dvb_mux_cor() (src/dvb_mux.c doc comments and
 * test/test-dvb_mux.cc is_correct_line()):
 *   Teletext B (ids TELETEXT_B_625, _L10_625, _L25_625) lines 7-22 and 320-335
 *   VPS line 16, Caption 625 (CAPTION_625, _625_F1) line 21, WSS 625 line 23
 *   raw VBI_625 lines 7-23 and 320-336 inside sp->start[]/count[], sp with
 *   scanning 625, YUV420, 13.5 MHz, offset >= 132, offset + bytes_per_line <= 852,
 *   synchronous; lines strictly ascending; everything must fit the maximum PES size.
 * Rejectable frames are exactly the ones the same documentation says fail.
 */
#ifndef C06_DVB_GEN_H
#define C06_DVB_GEN_H

#include <stdlib.h>
#include <string.h>
#include <limits.h>
#include "vf.h"
#include "dvb_mux.h"
#include "dvb_demux.h"
#include "c06_dvb_parser.h"

enum { DG_ACCEPT = 0, DG_REJECT, DG_EITHER };
enum { RJ_NONE = 0, RJ_BAD_LINE, RJ_ORDER, RJ_DUPLICATE, RJ_SERVICE, RJ_TOO_MANY, RJ_TOO_MANY_RAW,
       RJ_NO_RAW, RJ_NO_SP, RJ_BAD_SP, RJ_RAW_RANGE, RJ_EMPTY_COR, RJ_N };
static const char *const dg_rj_name[RJ_N] = { "none", "bad-line", "line-order", "duplicate-line", "unknown-service",
	"too-many-lines", "too-many-lines-raw", "no-raw", "no-sp", "bad-sp", "raw-outside-sp", "empty-cor" };

#define DG_MAXSL 96
#define DG_MAXEXP 64

struct dg_cfg {
	int ts;
	unsigned pid;
	unsigned di;
	unsigned min_sz, max_sz;        /* as the documentation says they are rounded */
	int cor;
};

struct dg_opts {
	int allow_raw;                  /* 0 never, else 1 in N frames may carry raw lines */
	unsigned first_line_max;        /* 0 = free; else the first line of the frame is Teletext on a line <= this */
	int line0;                      /* Teletext lines with line number 0 (C07 robustness only) */
	int no_mask;                    /* always service_mask = all */
	int no_retarget;                /* do not aim at packets that end one byte short of a legal size */
};

struct dg_frame {
	int n;
	vbi_sliced sl[DG_MAXSL];
	vbi_service_set mask;
	int64_t pts;
	vbi_sampling_par sp;
	uint8_t *raw;                   /* exactly sized heap block or NULL */
	size_t raw_size;
	const vbi_sampling_par *sp_arg; /* what is passed to the multiplexer */
	const uint8_t *raw_arg;
	int null_sliced;                /* RJ_EMPTY_COR: pass a NULL array */
	int expect, reject_kind;
	const char *reject_note;
	int n_exp, n_exp_raw;
	struct dp_line exp[DG_MAXEXP];
	const uint8_t *exp_samples[DG_MAXEXP];
	unsigned need;                  /* minimum PES bytes incl. header for the expected lines */
	int has_line0;
};

static int dg_fixed(unsigned di) { return di >= 0x10 && di <= 0x1F; }

static void dg_frame_free(struct dg_frame *f)
{
	free(f->raw);
	f->raw = NULL;
}

/* documentation of vbi_dvb_mux_set_pes_packet_size() */
static void dg_round_sizes(unsigned min_req, unsigned max_req, unsigned *mn, unsigned *mx)
{
	uint64_t a = min_req, b = max_req;
	a = (a + 183) / 184 * 184;
	if (a < 184) a = 184;
	if (a > 65504) a = 65504;
	b = b / 184 * 184;
	if (b > 65504) b = 65504;
	if (b < a) b = a;
	*mn = (unsigned)a; *mx = (unsigned)b;
}

/* ---------------- sampling parameters + raw frame ---------------- */

static void dg_gen_sp(struct vf_rng *r, struct dg_frame *f, int narrow)
{
	vbi_sampling_par *sp = &f->sp;
	int rows;
	memset(sp, 0, sizeof *sp);
	sp->scanning = 625;
	sp->sampling_format = VBI_PIXFMT_YUV420;
	sp->sampling_rate = 13500000;
	sp->synchronous = TRUE;
	switch (vf_below(r, 6)) {
	case 0: case 1: sp->offset = 132; sp->bytes_per_line = 720; break;
	case 2: sp->offset = vf_range(r, 132, 851); sp->bytes_per_line = vf_range(r, 1, 852 - sp->offset); break;
	case 3: sp->offset = vf_range(r, 132, 800); sp->bytes_per_line = vf_range(r, 1, vf_chance(r, 1, 2) ? 45 : 300);
		if (sp->offset + sp->bytes_per_line > 852) sp->bytes_per_line = 852 - sp->offset; break;
	case 4: sp->offset = 132 + vf_range(r, 0, 20); sp->bytes_per_line = 852 - sp->offset - vf_range(r, 0, 3); break;
	default: sp->bytes_per_line = (int[]){ 40, 41, 80, 250, 251, 252, 502, 503, 1 }[vf_below(r, 9)];
		sp->offset = vf_range(r, 132, 852 - sp->bytes_per_line); break;
	}
	if (narrow) {
		sp->start[0] = 8; sp->count[0] = 15; sp->start[1] = 321; sp->count[1] = 15;
		sp->interlaced = vf_chance(r, 1, 2);
	} else if (vf_chance(r, 1, 3)) {
		int k = vf_range(r, 0, 3), e = vf_range(r, 0, 3);
		sp->interlaced = TRUE;
		sp->start[0] = 7 - k; sp->start[1] = 320 - k; sp->count[0] = sp->count[1] = 17 + k + e;
	} else {
		int k0 = vf_range(r, 0, 6), k1 = vf_range(r, 0, 8);
		sp->interlaced = FALSE;
		sp->start[0] = 7 - k0; sp->count[0] = 17 + k0 + vf_range(r, 0, 4);
		sp->start[1] = 320 - k1; sp->count[1] = 17 + k1 + vf_range(r, 0, 4);
	}
	rows = sp->count[0] + sp->count[1];
	f->raw_size = (size_t)rows * (size_t)sp->bytes_per_line;
	f->raw = malloc(f->raw_size ? f->raw_size : 1);
	vf_bytes(r, f->raw, f->raw_size);
	f->sp_arg = sp;
	f->raw_arg = f->raw;
}

static int dg_line_in_sp(const vbi_sampling_par *sp, unsigned line)
{
	int fld = line >= 313;
	return (int)line >= sp->start[fld] && (int)line < sp->start[fld] + sp->count[fld];
}

static const uint8_t *dg_raw_row(const struct dg_frame *f, unsigned line)
{
	const vbi_sampling_par *sp = &f->sp;
	int fld = line >= 313;
	int row = (int)line - sp->start[fld];
	if (sp->interlaced) row = row * 2 + fld;
	else if (fld) row += sp->count[0];
	return f->raw + (size_t)row * (size_t)sp->bytes_per_line;
}

/* ---------------- expectation from the sliced array ---------------- */

static int dg_kind_of(vbi_service_set id)
{
	switch (id) {
	case VBI_SLICED_TELETEXT_B_625: case VBI_SLICED_TELETEXT_B_L10_625: case VBI_SLICED_TELETEXT_B_L25_625: return DK_TTX;
	case VBI_SLICED_VPS: return DK_VPS;
	case VBI_SLICED_WSS_625: return DK_WSS;
	case VBI_SLICED_CAPTION_625: case VBI_SLICED_CAPTION_625_F1: return DK_CC;
	case VBI_SLICED_VBI_625: return DK_RAW;
	}
	return 0;
}

/* Builds f->exp[] (the lines a conformant stream must carry) and f->need from
 * f->sl[], f->mask, f->sp.  Only meaningful for acceptable frames. */
static void dg_build_expect(struct dg_frame *f, unsigned di)
{
	int i, fixed = dg_fixed(di);
	unsigned need = 46;
	f->n_exp = f->n_exp_raw = 0;
	f->has_line0 = 0;
	for (i = 0; i < f->n; i++) {
		const vbi_sliced *s = &f->sl[i];
		int kind = dg_kind_of(s->id);
		struct dp_line *l;
		if (!(s->id & f->mask) || !kind) continue;
		if (f->n_exp >= DG_MAXEXP) break;
		l = &f->exp[f->n_exp];
		memset(l, 0, sizeof *l);
		l->kind = kind; l->line = s->line; l->second_field = s->line >= 313; l->raw_idx = -1;
		f->exp_samples[f->n_exp] = NULL;
		if (s->line == 0) f->has_line0 = 1;
		switch (kind) {
		case DK_TTX: memcpy(l->data, s->data, 42); need += 46; break;
		case DK_VPS: memcpy(l->data, s->data, 13); need += fixed ? 46 : 16; break;
		case DK_WSS: l->data[0] = s->data[0]; l->data[1] = s->data[1] & 0x3F; need += fixed ? 46 : 5; break;
		case DK_CC: l->data[0] = s->data[0]; l->data[1] = s->data[1]; need += fixed ? 46 : 5; break;
		case DK_RAW: {
			unsigned nsm = (unsigned)f->sp.bytes_per_line;
			l->first_pixel = (unsigned)f->sp.offset - 132;
			l->n_samples = nsm;
			f->exp_samples[f->n_exp] = f->raw ? dg_raw_row(f, s->line) : NULL;
			need += fixed ? 46 * ((nsm + 39) / 40) : nsm + 6 * ((nsm + 250) / 251);
			f->n_exp_raw++;
			break; }
		}
		f->n_exp++;
	}
	f->need = need;
}

static void dg_set_expect_by_size(struct dg_frame *f, const struct dg_cfg *c)
{
	/* With variable length units and raw data the last byte of the packet may be
	 * unusable (a 257 byte unit cannot be followed by one stuffing byte); the
	 * documentation does not say which way such a frame goes. */
	if (f->need <= c->max_sz) {
		f->expect = DG_ACCEPT;
		if (!dg_fixed(c->di) && f->n_exp_raw > 0 && c->max_sz - f->need <= 2) f->expect = DG_EITHER;
	} else {
		f->expect = DG_REJECT;
	}
}

/* Variable length units: choose the raw line length so that exactly `spare`
 * bytes remain up to the next legal packet size (1 = too small for a stuffing
 * unit, the multiplexer has to extend the last data unit). */
static void dg_retarget_raw(struct vf_rng *r, struct dg_frame *f, const struct dg_cfg *c, unsigned spare)
{
	unsigned cur = (unsigned)f->sp.bytes_per_line, per = cur + 6 * ((cur + 250) / 251);
	unsigned base = f->need - (unsigned)f->n_exp_raw * per;
	unsigned maxbpl = 852 - (unsigned)f->sp.offset, start = vf_below(r, maxbpl), k;
	for (k = 0; k < maxbpl; k++) {
		unsigned b = 1 + (start + k) % maxbpl;
		unsigned need = base + (unsigned)f->n_exp_raw * (b + 6 * ((b + 250) / 251));
		if (need > c->max_sz) continue;
		if ((need < c->min_sz) ? (need + spare == c->min_sz) : ((need + spare) % 184 == 0)) {
			f->sp.bytes_per_line = (int)b;
			free(f->raw);
			f->raw_size = (size_t)(f->sp.count[0] + f->sp.count[1]) * b;
			f->raw = malloc(f->raw_size);
			vf_bytes(r, f->raw, f->raw_size);
			f->raw_arg = f->raw;
			return;
		}
	}
}

/* ---------------- acceptable frames ---------------- */

static const vbi_service_set dg_junk_ids[] = { VBI_SLICED_CAPTION_525, VBI_SLICED_CAPTION_525_F1, VBI_SLICED_TELETEXT_A,
	VBI_SLICED_VPS_F2, VBI_SLICED_WSS_CPR1204, VBI_SLICED_TELETEXT_B_525, VBI_SLICED_TELETEXT_C_525, VBI_SLICED_VBI_525, 0 };

static int64_t dg_gen_pts(struct vf_rng *r, int64_t base, int i)
{
	switch (vf_below(r, 10)) {
	case 0: return (int64_t)(vf_u64(r) & 0x1FFFFFFFFll);
	case 1: return 0x1FFFFFFFFll - vf_range(r, 0, 3);
	case 2: return (int64_t)vf_u64(r);                          /* bits 33-63 are discarded */
	case 3: return -(int64_t)vf_range(r, 1, 100000);
	case 4: return (int64_t)vf_range(r, 0, 3);
	case 5: return (int64_t)1 << vf_range(r, 0, 34);
	default: return base + (int64_t)i * 3600;
	}
}

static void dg_fill_line(struct vf_rng *r, vbi_sliced *s, vbi_service_set id, unsigned line)
{
	memset(s, 0, sizeof *s);
	s->id = id; s->line = line;
	vf_bytes(r, s->data, sizeof s->data);
}

static void dg_gen_accept(struct vf_rng *r, const struct dg_cfg *c, const struct dg_opts *o, struct dg_frame *f, int64_t pts)
{
	static const unsigned cand[] = { 1, 3, 6, 7, 8, 9, 10, 11, 12, 13, 14, 15, 16, 17, 18, 19, 20, 21, 22, 23, 24, 27, 31, 100,
		314, 319, 320, 321, 322, 323, 324, 325, 326, 327, 328, 329, 330, 331, 332, 333, 334, 335, 336, 337, 344 };
	int i, want_raw, n_raw = 0, dens, maskkind, n_known = 0;
	unsigned forced = 0;

	memset(f, 0, offsetof(struct dg_frame, exp));
	f->pts = pts;
	want_raw = o->allow_raw > 0 && vf_chance(r, 1, (unsigned)o->allow_raw);
	if (want_raw) dg_gen_sp(r, f, vf_chance(r, 1, 8));
	else if (vf_chance(r, 1, 6)) dg_gen_sp(r, f, 0);      /* valid sp/raw passed although no raw line is selected */

	maskkind = o->no_mask ? 0 : (int)vf_below(r, 10);
	if (maskkind < 5) f->mask = (vbi_service_set)-1;
	else if (maskkind < 7) f->mask = VBI_SLICED_TELETEXT_B_625 | VBI_SLICED_VPS | VBI_SLICED_WSS_625 | VBI_SLICED_CAPTION_625 | VBI_SLICED_VBI_625;
	else {
		f->mask = 0;
		if (vf_chance(r, 3, 4)) f->mask |= (vbi_service_set[]){ VBI_SLICED_TELETEXT_B_625, VBI_SLICED_TELETEXT_B_L10_625, VBI_SLICED_TELETEXT_B_L25_625 }[vf_below(r, 3)];
		if (vf_chance(r, 1, 2)) f->mask |= VBI_SLICED_VPS;
		if (vf_chance(r, 1, 2)) f->mask |= VBI_SLICED_WSS_625;
		if (vf_chance(r, 1, 2)) f->mask |= (vbi_service_set[]){ VBI_SLICED_CAPTION_625, VBI_SLICED_CAPTION_625_F1, VBI_SLICED_CAPTION_625_F2 }[vf_below(r, 3)];
		if (vf_chance(r, 1, 2)) f->mask |= VBI_SLICED_VBI_625;
	}
	if (o->first_line_max) {
		unsigned hi = o->first_line_max > 22 ? 22 : o->first_line_max;
		forced = vf_chance(r, 1, 2) ? 7 : (unsigned)vf_range(r, 7, (int)hi);
		f->mask |= VBI_SLICED_TELETEXT_B_625;
	}
	dens = (int)vf_below(r, 4);     /* 0 sparse, 1-2 medium, 3 full */

	for (i = 0; i < (int)(sizeof cand / sizeof cand[0]) && f->n < DG_MAXSL - 8; i++) {
		unsigned line = cand[i];
		unsigned fl = line >= 313 ? line - 313 : line;
		int vbi = (fl >= 7 && fl <= 23 && line != 100);
		unsigned w_ttx = 0, w_vps = 0, w_cc = 0, w_wss = 0, w_raw = 0, tot, pick;

		/* line0 == 1: anywhere (C07 robustness); line0 == 2: only behind a line with a known number that the stream will
		 * carry, so that the frame still begins with a known line number (C06: frames are recognised by those), and only in
		 * frames without raw VBI lines: the multiplexer derives the field of an undefined line from the last known line of the
		 * same run of sliced lines, a run that begins behind a raw line of the second field has none (design-notes/C06.md) */
		if (o->line0 && vf_chance(r, 1, 6) && (o->line0 == 1 || (n_known > 0 && !want_raw))) {
			dg_fill_line(r, &f->sl[f->n++], VBI_SLICED_TELETEXT_B_625, 0);
			f->mask |= VBI_SLICED_TELETEXT_B_625;
			if (vf_chance(r, 1, 2)) dg_fill_line(r, &f->sl[f->n++], VBI_SLICED_TELETEXT_B_625, 0);     /* two in a row */
		}
		if (forced) {
			if (line < forced) continue;
			if (line == forced) {
				dg_fill_line(r, &f->sl[f->n++], VBI_SLICED_TELETEXT_B_625, line);
				n_known++;
				continue;
			}
		}
		if (!vbi) {
			/* only entries the service mask removes may sit on other lines */
			if (f->mask != (vbi_service_set)-1 && vf_chance(r, 1, 12)) {
				vbi_service_set id = dg_junk_ids[vf_below(r, sizeof dg_junk_ids / sizeof dg_junk_ids[0])];
				if (!(id & f->mask)) dg_fill_line(r, &f->sl[f->n++], id, line);
			} else if (vf_chance(r, 1, 40)) {
				dg_fill_line(r, &f->sl[f->n++], VBI_SLICED_NONE, line);
			}
			continue;
		}
		if (!vf_chance(r, dens == 0 ? 1 : dens == 3 ? 19 : 5 * (unsigned)dens, 20)) continue;
		if (f->mask != (vbi_service_set)-1 && vf_chance(r, 1, 16)) {
			vbi_service_set id = dg_junk_ids[vf_below(r, sizeof dg_junk_ids / sizeof dg_junk_ids[0])];
			if (!(id & f->mask)) { dg_fill_line(r, &f->sl[f->n++], id, line); continue; }
		}
		if (fl <= 22) w_ttx = 6;
		if (line == 16) w_vps = 8;
		if (line == 21) w_cc = 8;
		if (line == 23) w_wss = 10;
		if (want_raw && n_raw < 3 && dg_line_in_sp(&f->sp, line)) w_raw = (fl == 23) ? 4 : 2;
		tot = w_ttx + w_vps + w_cc + w_wss + w_raw;
		if (!tot) continue;
		pick = vf_below(r, tot);
		if (pick < w_ttx)
			dg_fill_line(r, &f->sl[f->n++], (vbi_service_set[]){ VBI_SLICED_TELETEXT_B_625, VBI_SLICED_TELETEXT_B_625,
				VBI_SLICED_TELETEXT_B_L10_625, VBI_SLICED_TELETEXT_B_L25_625 }[vf_below(r, 4)], line);
		else if (pick < w_ttx + w_vps) dg_fill_line(r, &f->sl[f->n++], VBI_SLICED_VPS, line);
		else if (pick < w_ttx + w_vps + w_cc)
			dg_fill_line(r, &f->sl[f->n++], vf_chance(r, 1, 2) ? VBI_SLICED_CAPTION_625 : VBI_SLICED_CAPTION_625_F1, line);
		else if (pick < w_ttx + w_vps + w_cc + w_wss) dg_fill_line(r, &f->sl[f->n++], VBI_SLICED_WSS_625, line);
		else { dg_fill_line(r, &f->sl[f->n++], VBI_SLICED_VBI_625, line); n_raw++; }
		if (pick < w_ttx + w_vps + w_cc + w_wss && (f->sl[f->n - 1].id & f->mask)) n_known++;
	}
	dg_build_expect(f, c->di);
	while (f->need > c->max_sz && f->n > 0) {
		f->n--;
		dg_build_expect(f, c->di);
	}
	if (!o->no_retarget && !dg_fixed(c->di) && f->n_exp_raw > 0 && f->raw && f->need <= c->max_sz && vf_chance(r, 1, 3)) {
		dg_retarget_raw(r, f, c, vf_chance(r, 2, 3) ? 1 : (unsigned)vf_range(r, 0, 3));
		dg_build_expect(f, c->di);
	}
	dg_set_expect_by_size(f, c);
	if (f->expect == DG_EITHER && vf_chance(r, 1, 2) && f->n > 0) {
		/* mostly keep clear of the undocumented corner */
		f->n--;
		dg_build_expect(f, c->di);
		dg_set_expect_by_size(f, c);
	}
	f->reject_kind = RJ_NONE;
}

/* ---------------- frames the documentation says are rejected ---------------- */

static int dg_included_index(struct vf_rng *r, const struct dg_frame *f, int need_nonzero_line)
{
	int idx[DG_MAXSL], n = 0, i;
	for (i = 0; i < f->n; i++)
		if ((f->sl[i].id & f->mask) && dg_kind_of(f->sl[i].id) && (!need_nonzero_line || f->sl[i].line))
			idx[n++] = i;
	return n ? idx[vf_below(r, (unsigned)n)] : -1;
}

static void dg_insert_sorted(struct dg_frame *f, const vbi_sliced *s)
{
	int i, j;
	for (i = 0; i < f->n && f->sl[i].line < s->line; i++) ;
	if (i < f->n && f->sl[i].line == s->line) { f->sl[i] = *s; return; }
	if (f->n >= DG_MAXSL) return;
	for (j = f->n; j > i; j--) f->sl[j] = f->sl[j - 1];
	f->sl[i] = *s;
	f->n++;
}

/* Returns 0 if this kind cannot be produced for the configuration. */
static int dg_gen_reject(struct vf_rng *r, const struct dg_cfg *c, struct dg_frame *f, int kind, int64_t pts)
{
	struct dg_opts o = { 0, 0, 0, 1 };
	vbi_sliced s;
	int i;

	f->reject_note = "";
	switch (kind) {
	case RJ_BAD_LINE: {
		static const struct { vbi_service_set id; unsigned line; } bad[] = {
			{ VBI_SLICED_TELETEXT_B_625, 6 }, { VBI_SLICED_TELETEXT_B_625, 23 }, { VBI_SLICED_TELETEXT_B_L10_625, 319 },
			{ VBI_SLICED_TELETEXT_B_625, 336 }, { VBI_SLICED_TELETEXT_B_L25_625, 1 }, { VBI_SLICED_TELETEXT_B_625, 31 },
			{ VBI_SLICED_TELETEXT_B_625, 32 }, { VBI_SLICED_TELETEXT_B_625, 100 }, { VBI_SLICED_TELETEXT_B_625, 312 },
			{ VBI_SLICED_TELETEXT_B_625, 345 }, { VBI_SLICED_TELETEXT_B_625, 625 }, { VBI_SLICED_TELETEXT_B_625, 0x7FFFFFFF },
			{ VBI_SLICED_VPS, 15 }, { VBI_SLICED_VPS, 17 }, { VBI_SLICED_VPS, 329 }, { VBI_SLICED_VPS, 0 },
			{ VBI_SLICED_CAPTION_625, 20 }, { VBI_SLICED_CAPTION_625_F1, 22 }, { VBI_SLICED_CAPTION_625, 334 }, { VBI_SLICED_CAPTION_625, 0 },
			{ VBI_SLICED_WSS_625, 22 }, { VBI_SLICED_WSS_625, 24 }, { VBI_SLICED_WSS_625, 336 }, { VBI_SLICED_WSS_625, 0 },
			{ VBI_SLICED_WSS_625, 500 }, { VBI_SLICED_VPS, 0xFFFFFFFFu },
		};
		unsigned k = vf_below(r, sizeof bad / sizeof bad[0]);
		dg_gen_accept(r, c, &o, f, pts);
		dg_fill_line(r, &s, bad[k].id, bad[k].line);
		dg_insert_sorted(f, &s);
		f->reject_note = "service on a line it is not permitted on";
		break; }
	case RJ_ORDER: {
		int a;
		o.allow_raw = 2;
		dg_gen_accept(r, c, &o, f, pts);
		if (f->n < 2) return 0;
		a = (int)vf_below(r, (unsigned)f->n - 1);
		s = f->sl[a]; f->sl[a] = f->sl[a + 1]; f->sl[a + 1] = s;
		if (!f->sl[a].line || !f->sl[a + 1].line) return 0;
		if (!dg_kind_of(f->sl[a].id) || !dg_kind_of(f->sl[a + 1].id)) return 0;
		f->reject_note = "descending line numbers";
		break; }
	case RJ_DUPLICATE: {
		int a, j;
		unsigned fl;
		o.allow_raw = 2;
		dg_gen_accept(r, c, &o, f, pts);
		a = dg_included_index(r, f, 1);
		if (a < 0 || f->n >= DG_MAXSL) return 0;
		for (j = f->n; j > a; j--) f->sl[j] = f->sl[j - 1];
		f->n++;
		if (vf_chance(r, 1, 2)) vf_bytes(r, f->sl[a + 1].data, sizeof f->sl[a + 1].data);
		/* the second copy may be another service: sliced after raw, raw after sliced */
		fl = f->sl[a].line >= 313 ? f->sl[a].line - 313 : f->sl[a].line;
		if (vf_chance(r, 1, 2)) {
			j = a + (int)vf_below(r, 2);
			if (f->sl[j].id == VBI_SLICED_VBI_625 && fl >= 7 && fl <= 22) f->sl[j].id = VBI_SLICED_TELETEXT_B_625;
			else if (f->sl[j].id != VBI_SLICED_VBI_625 && f->raw && dg_line_in_sp(&f->sp, f->sl[j].line)) f->sl[j].id = VBI_SLICED_VBI_625;
		}
		f->reject_note = "line coded twice";
		break; }
	case RJ_SERVICE: {
		static const vbi_service_set unk[] = { VBI_SLICED_CAPTION_525, VBI_SLICED_CAPTION_525_F1, VBI_SLICED_CAPTION_525_F2,
			VBI_SLICED_2xCAPTION_525, VBI_SLICED_CAPTION_625_F2, VBI_SLICED_TELETEXT_A, VBI_SLICED_TELETEXT_BD_525,
			VBI_SLICED_TELETEXT_B_525, VBI_SLICED_TELETEXT_C_525, VBI_SLICED_TELETEXT_D_525, VBI_SLICED_VBI_525,
			VBI_SLICED_VPS_F2, VBI_SLICED_WSS_CPR1204, VBI_SLICED_CAPTION_625 | VBI_SLICED_WSS_625,
			VBI_SLICED_TELETEXT_B_625 | VBI_SLICED_VPS, VBI_SLICED_VPS | VBI_SLICED_CAPTION_625, VBI_SLICED_VPS | VBI_SLICED_VPS_F2 };
		vbi_service_set id = unk[vf_below(r, sizeof unk / sizeof unk[0])];
		unsigned line = 13;
		dg_gen_accept(r, c, &o, f, pts);
		if (id & VBI_SLICED_VPS) line = 16;
		else if (id & VBI_SLICED_CAPTION_625) line = 21;
		else if (id & VBI_SLICED_WSS_625) line = 23;
		else line = (unsigned)vf_range(r, 7, 22) + (vf_chance(r, 1, 2) ? 313 : 0);
		dg_fill_line(r, &s, id, line);
		dg_insert_sorted(f, &s);
		f->reject_note = "service that cannot be encoded";
		break; }
	case RJ_TOO_MANY: case RJ_TOO_MANY_RAW: {
		unsigned line;
		memset(f, 0, offsetof(struct dg_frame, exp));
		f->pts = pts; f->mask = (vbi_service_set)-1;
		if (kind == RJ_TOO_MANY_RAW) {
			dg_gen_sp(r, f, 0);
			if (vf_chance(r, 2, 3)) {       /* long lines so that few of them overflow the packet */
				f->sp.offset = 132 + vf_range(r, 0, 30);
				f->sp.bytes_per_line = 852 - f->sp.offset - vf_range(r, 0, 60);
				free(f->raw);
				f->raw_size = (size_t)(f->sp.count[0] + f->sp.count[1]) * (size_t)f->sp.bytes_per_line;
				f->raw = malloc(f->raw_size);
				vf_bytes(r, f->raw, f->raw_size);
				f->raw_arg = f->raw;
			}
		}
		for (line = 7; line <= 336 && f->n < DG_MAXSL; line = (line == 23) ? 320 : line + 1) {
			unsigned fl = line >= 313 ? line - 313 : line;
			int raw_ok = kind == RJ_TOO_MANY_RAW && dg_line_in_sp(&f->sp, line);
			if (raw_ok && (fl == 23 || vf_chance(r, 1, 3))) dg_fill_line(r, &f->sl[f->n++], VBI_SLICED_VBI_625, line);
			else if (line == 23) dg_fill_line(r, &f->sl[f->n++], VBI_SLICED_WSS_625, line);
			else if (fl <= 22) dg_fill_line(r, &f->sl[f->n++], line == 16 && vf_chance(r, 1, 2) ? VBI_SLICED_VPS : VBI_SLICED_TELETEXT_B_625, line);
			dg_build_expect(f, c->di);
			if (f->need > c->max_sz + (kind == RJ_TOO_MANY_RAW && !dg_fixed(c->di) ? 2u : 0u)) {
				if (kind == RJ_TOO_MANY_RAW && f->sl[f->n - 1].id != VBI_SLICED_VBI_625 && f->n_exp_raw == 0) continue;
				if (vf_chance(r, 1, 2)) break;  /* minimal overflow half of the time */
			}
		}
		dg_build_expect(f, c->di);
		dg_set_expect_by_size(f, c);
		if (f->expect != DG_REJECT) return 0;
		if (kind == RJ_TOO_MANY_RAW && f->n_exp_raw == 0) return 0;
		f->reject_note = "more data than the maximum PES packet size holds";
		break; }
	case RJ_NO_RAW: case RJ_NO_SP: {
		o.allow_raw = 1;
		for (i = 0; i < 6; i++) {
			dg_gen_accept(r, c, &o, f, pts);
			if (f->n_exp_raw > 0) break;
			dg_frame_free(f);
		}
		if (f->n_exp_raw == 0) return 0;
		if (kind == RJ_NO_RAW) { f->raw_arg = NULL; if (vf_chance(r, 1, 3)) f->sp_arg = NULL; }
		else f->sp_arg = NULL;
		f->reject_note = kind == RJ_NO_RAW ? "VBI_625 line but raw == NULL" : "VBI_625 line but sp == NULL";
		break; }
	case RJ_BAD_SP: {
		o.allow_raw = 1;
		dg_gen_accept(r, c, &o, f, pts);
		if (!f->raw) dg_gen_sp(r, f, 0);
		switch (vf_below(r, 9)) {
		case 0: f->sp.scanning = 525; f->reject_note = "sp.scanning 525"; break;
		case 1: f->sp.scanning = 0; f->reject_note = "sp.scanning 0"; break;
		case 2: f->sp.sampling_format = VBI_PIXFMT_YUYV; f->reject_note = "sp.sampling_format YUYV"; break;
		case 3: f->sp.sampling_rate = vf_chance(r, 1, 2) ? 27000000 : 13500001; f->reject_note = "sp.sampling_rate"; break;
		case 4: f->sp.synchronous = FALSE; f->reject_note = "sp.synchronous FALSE"; break;
		case 5: f->sp.offset = vf_range(r, 0, 131); if (f->sp.offset + f->sp.bytes_per_line > 852) f->sp.bytes_per_line = 1;
			f->reject_note = "sp.offset < 132"; break;
		case 6: f->sp.offset = 852 - f->sp.bytes_per_line + vf_range(r, 1, 5); f->reject_note = "sp.offset + bytes_per_line > 852"; break;
		case 7: f->sp.offset = vf_chance(r, 1, 2) ? INT_MAX : -1; f->reject_note = "sp.offset out of range"; break;
		default: f->sp.count[0] = f->sp.count[1] = 0; f->reject_note = "sp.count both 0"; break;
		}
		break; }
	case RJ_RAW_RANGE: {
		static const unsigned out[] = { 7, 23, 320, 336 };
		dg_gen_accept(r, c, &o, f, pts);
		dg_frame_free(f);
		if (vf_chance(r, 1, 2)) {
			/* the raw image covers the line, EN 301 775 cannot carry it (raw VBI lines 7-23 / 320-336 only) */
			unsigned cand[16], nc = 0, l;
			int tries;
			for (tries = 0; tries < 8 && !nc; tries++) {
				dg_frame_free(f);
				dg_gen_sp(r, f, 0);
				for (l = (unsigned)f->sp.start[0]; l < (unsigned)(f->sp.start[0] + f->sp.count[0]) && nc < 16; l++) if (l >= 1 && (l < 7 || l > 23)) cand[nc++] = l;
				for (l = (unsigned)f->sp.start[1]; l < (unsigned)(f->sp.start[1] + f->sp.count[1]) && nc < 16; l++) if (l < 320 || l > 336) cand[nc++] = l;
			}
			if (nc) {
				dg_fill_line(r, &s, VBI_SLICED_VBI_625, cand[vf_below(r, nc)]);
				dg_insert_sorted(f, &s);
				f->mask |= VBI_SLICED_VBI_625;
				f->reject_note = "VBI_625 line inside the raw image but not a line EN 301 775 can carry";
				break;
			}
			dg_frame_free(f);
		}
		dg_gen_sp(r, f, 1);
		dg_fill_line(r, &s, VBI_SLICED_VBI_625, out[vf_below(r, 4)]);
		dg_insert_sorted(f, &s);
		f->reject_note = "VBI_625 line outside sp.start/count";
		break; }
	case RJ_EMPTY_COR:
		if (!c->cor) return 0;
		memset(f, 0, offsetof(struct dg_frame, exp));
		f->pts = pts; f->mask = (vbi_service_set)-1;
		f->null_sliced = vf_chance(r, 1, 2);
		if (f->null_sliced) f->n = vf_range(r, 0, 5);
		f->reject_note = f->null_sliced ? "coroutine with sliced == NULL" : "coroutine with zero lines";
		break;
	default:
		return 0;
	}
	f->expect = DG_REJECT;
	f->reject_kind = kind;
	f->n_exp = f->n_exp_raw = 0;
	return 1;
}

static const char *dg_describe(const struct dg_frame *f)
{
	static char b[1200];
	int i, o = 0;
	o += snprintf(b + o, sizeof b - (size_t)o, "mask=0x%x pts=0x%llx ", f->mask, (unsigned long long)f->pts);
	if (f->sp_arg)
		o += snprintf(b + o, sizeof b - (size_t)o, "sp{off=%d bpl=%d start=%d,%d count=%d,%d il=%d scan=%d} ", f->sp.offset, f->sp.bytes_per_line,
			f->sp.start[0], f->sp.start[1], f->sp.count[0], f->sp.count[1], f->sp.interlaced, f->sp.scanning);
	o += snprintf(b + o, sizeof b - (size_t)o, "raw=%s lines(id@line):", f->raw_arg ? "yes" : "NULL");
	for (i = 0; i < f->n && o < (int)sizeof b - 40; i++)
		o += snprintf(b + o, sizeof b - (size_t)o, " %x@%u", f->sl[i].id, f->sl[i].line);
	return b;
}

/* ---------------- driving the multiplexer ---------------- */

#define DG_OUTMAX 72000
#define DG_MAXUNITS 4096

struct dg_out {
	uint8_t buf[DG_OUTMAX];
	size_t len;
	int n_units;
	unsigned unit[DG_MAXUNITS];     /* sizes of the pieces as they left the multiplexer */
	int overflow;
	int cb_calls, cor_calls;
	int bad_cb_size;
	char integrity[256];            /* non-empty: the coroutine broke its buffer contract */
};

static void dg_out_add(struct dg_out *o, const uint8_t *p, size_t n)
{
	if (o->len + n > DG_OUTMAX) { o->overflow = 1; return; }
	memcpy(o->buf + o->len, p, n);
	o->len += n;
	if (o->n_units < DG_MAXUNITS) o->unit[o->n_units++] = (unsigned)n;
	else o->unit[DG_MAXUNITS - 1] += (unsigned)n;
}

static vbi_bool dg_mux_cb(vbi_dvb_mux *mx, void *ud, const uint8_t *packet, unsigned int size)
{
	struct dg_out *o = ud;
	(void)mx;
	o->cb_calls++;
	dg_out_add(o, packet, size);
	return TRUE;
}

/* Feeds one frame; returns the multiplexer's verdict.  out must be reset by the caller. */
static vbi_bool dg_run(struct vf_rng *r, vbi_dvb_mux *mx, const struct dg_cfg *c, const struct dg_frame *f, struct dg_out *out)
{
	if (!c->cor) {
		vf_phase("vbi_dvb_mux_feed");
		return vbi_dvb_mux_feed(mx, f->n || !vf_chance(r, 1, 2) ? f->sl : NULL, (unsigned)f->n, f->mask, f->raw_arg, f->sp_arg, f->pts);
	} else {
		const vbi_sliced *s = f->null_sliced ? NULL : f->sl;
		unsigned s_left = (unsigned)f->n;
		int strategy = (int)vf_below(r, 6), iter = 0;
		vbi_bool ok = TRUE;
		vf_phase("vbi_dvb_mux_cor");
		do {
			unsigned b, left, written;
			uint8_t *buf, *p, pat = (uint8_t)(0xA5 ^ iter);
			size_t k;
			switch (strategy) {
			case 0: b = f->need < 1500 ? 1 : (unsigned)vf_range(r, 1, 64); break;
			case 1: b = (unsigned)vf_range(r, 1, 50); break;
			case 2: b = (unsigned)vf_range(r, 1, 400); break;
			case 3: b = (unsigned[]){ 46, 183, 184, 185, 187, 188, 189, 368, 376 }[vf_below(r, 9)]; break;
			case 4: b = (unsigned)vf_range(r, 4096, 70000); break;
			default: b = (unsigned)vf_range(r, 1, 3000); break;
			}
			if (f->need > 20000 && b < 2000) b = (unsigned)vf_range(r, 2000, 9000);
			buf = malloc(b);
			memset(buf, pat, b);
			p = buf; left = b;
			ok = vbi_dvb_mux_cor(mx, &p, &left, &s, &s_left, f->mask, f->raw_arg, f->sp_arg, f->pts);
			out->cor_calls++;
			if (p < buf || p > buf + b || left != b - (unsigned)(p - buf)) {
				snprintf(out->integrity, sizeof out->integrity, "after vbi_dvb_mux_cor: *buffer - start = %ld, *buffer_left = %u, buffer size %u", (long)(p - buf), left, b);
				free(buf);
				return ok;
			}
			written = (unsigned)(p - buf);
			for (k = written; k < b; k++)
				if (buf[k] != pat) {
					snprintf(out->integrity, sizeof out->integrity, "vbi_dvb_mux_cor returned %d with %u of %u bytes stored but byte %zu behind them was modified", ok, written, b, k);
					break;
				}
			if (!ok && written) {
				snprintf(out->integrity, sizeof out->integrity, "vbi_dvb_mux_cor failed but advanced *buffer by %u", written);
			}
			if (ok) dg_out_add(out, buf, written);
			free(buf);
			if (out->integrity[0] || !ok) break;
			if (!written && s_left) {
				snprintf(out->integrity, sizeof out->integrity, "vbi_dvb_mux_cor succeeded without output and without consuming the frame");
				break;
			}
		} while (s_left > 0 && ++iter < 200000);
		return ok;
	}
}

/* Compares what the independent parser found in a PES packet with what the frame must carry. */
static const char *dg_compare(const struct dp_pes *p, const struct dg_frame *f, const struct dg_cfg *c, char *why, size_t whylen)
{
	int i;
	if (p->size < c->min_sz || p->size > c->max_sz)
		DP_FAIL("size-bounds", "PES packet size %u outside configured bounds %u-%u", p->size, c->min_sz, c->max_sz);
	if (p->data_identifier != c->di)
		DP_FAIL("data-identifier-value", "data_identifier 0x%02x, configured 0x%02x", p->data_identifier, c->di);
	if (p->pts != (f->pts & 0x1FFFFFFFFll))
		DP_FAIL("pts-value", "PTS 0x%llx, sent 0x%llx", (unsigned long long)p->pts, (unsigned long long)(f->pts & 0x1FFFFFFFFll));
	if (p->n_lines_total != f->n_exp)
		DP_FAIL("line-count", "packet carries %d lines, frame has %d encodable lines", p->n_lines_total, f->n_exp);
	for (i = 0; i < f->n_exp && i < p->n_lines; i++) {
		const struct dp_line *a = &p->lines[i], *e = &f->exp[i];
		if (a->kind != e->kind || a->line != e->line)
			DP_FAIL("line-identity", "line %d of the packet is %s on line %u, frame has %s on line %u", i, dp_kind_name(a->kind), a->line, dp_kind_name(e->kind), e->line);
		if (e->kind == DK_RAW) {
			if (a->first_pixel != e->first_pixel || a->n_samples != e->n_samples)
				DP_FAIL("raw-extent", "raw line %u carries pixels %u+%u, frame has %u+%u", e->line, a->first_pixel, a->n_samples, e->first_pixel, e->n_samples);
			if (f->exp_samples[i] && memcmp(p->raw[a->raw_idx], f->exp_samples[i], e->n_samples))
				DP_FAIL("raw-samples", "samples of raw line %u differ from the raw frame", e->line);
		} else if (memcmp(a->data, e->data, dp_payload_bytes(e->kind))) {
			DP_FAIL("payload", "%s line %u: stream carries %s, frame has %s", dp_kind_name(e->kind), e->line,
				vf_hex(a->data, dp_payload_bytes(e->kind)), vf_hex(e->data, dp_payload_bytes(e->kind)));
		}
	}
	return NULL;
}

#endif
