"""C19 rig: faulty proxy clients against the real daemon, witnesses, token monitor.

Built on rig/proxy_rig.py (Rig, PyConn, CClient, Layout, the C18 controller and
monitors).  Three kinds of work units, each a pure function of (seed, tier, index):

* witnessed fault batch: one daemon + 2-3 witness processes (real client
  library, lock-step, C18 monitors) + a list of fault cases, one raw-socket
  connection each;
* solo fault batch: the same without witnesses, so that the device is closed
  whenever the faulty client holds no service (other daemon paths);
* token schedule: raw-socket token clients (and witnesses) of all priorities
  request / return / release / confirm / ignore / disconnect; monitors over the
  totally ordered controller log and the H1 client-table trace.

No verdict depends on wall-clock speed: quiescence is reached by round trips
(sockets are FIFO), never by sleeping; every blocking wait has a watchdog whose
expiry is INCONCLUSIVE.  See design-notes/C19.md.
"""
import json, os, random, struct, subprocess, sys, time

VERIF = os.path.dirname(os.path.dirname(os.path.abspath(__file__)))
if VERIF not in sys.path:
    sys.path.insert(0, VERIF)
import build                                  # noqa: E402
from rig import proxy_rig as P                # noqa: E402
from rig.proxy_rig import (Rig, PyConn, Outcome, Inconclusive, DaemonDied, ClientGone,   # noqa: E402
                           AbortSchedule, C18Controller, Monitor, classify_sanitizer)

RSS_LIMIT_MB = 3000          # safety net for the shared machine (a daemon that allocates without bound is killed by ASan)
MAX_SILENT = 6               # silent faulty connections kept open at the same time
JUNK = 4096                  # trailing bytes after a header whose length field is out of range

_ioctl_cache = {}


def ioctls(repo):
    """the ioctl requests the tree itself accepts in MSG_TYPE_CHN_IOCTL_REQ (harness/c19_ioctls.c)"""
    if repo not in _ioctl_cache:
        exe = build.build_binary("c19_ioctls", ["harness/c19_ioctls.c"], "plain", repo=repo)
        o = subprocess.run([exe], capture_output=True, text=True, timeout=120)
        tab = [x for x in json.loads(o.stdout) if x["api"] == 2]
        _ioctl_cache[repo] = sorted(tab, key=lambda x: x["request"])
    return _ioctl_cache[repo]


def prebuild(repo):
    build.build_daemon("asan", repo=repo)
    build.build_binary("c18_client", ["harness/c18_client.c"], "asan", repo=repo)
    P.layout(repo)
    ioctls(repo)


# ============================================================================
# messages

CLIENT_TYPES = ["MSG_TYPE_CONNECT_REQ", "MSG_TYPE_SERVICE_REQ", "MSG_TYPE_CHN_TOKEN_REQ", "MSG_TYPE_CHN_NOTIFY_REQ",
                "MSG_TYPE_CHN_SUSPEND_REQ", "MSG_TYPE_CHN_IOCTL_REQ", "MSG_TYPE_CHN_RECLAIM_CNF", "MSG_TYPE_CLOSE_REQ",
                "MSG_TYPE_DAEMON_PID_REQ", "MSG_TYPE_DAEMON_PID_CNF"]
DAEMON_BODY = {   # daemon -> client types: the struct whose size a well-formed instance has
    "MSG_TYPE_CONNECT_CNF": "VBIPROXY_CONNECT_CNF", "MSG_TYPE_CONNECT_REJ": "VBIPROXY_CONNECT_REJ",
    "MSG_TYPE_SLICED_IND": "VBIPROXY_SLICED_IND", "MSG_TYPE_SERVICE_CNF": "VBIPROXY_SERVICE_CNF",
    "MSG_TYPE_SERVICE_REJ": "VBIPROXY_SERVICE_REJ", "MSG_TYPE_CHN_TOKEN_CNF": "VBIPROXY_CHN_TOKEN_CNF",
    "MSG_TYPE_CHN_TOKEN_IND": "VBIPROXY_CHN_TOKEN_IND", "MSG_TYPE_CHN_NOTIFY_CNF": "VBIPROXY_CHN_NOTIFY_CNF",
    "MSG_TYPE_CHN_RECLAIM_REQ": "VBIPROXY_CHN_RECLAIM_REQ", "MSG_TYPE_CHN_SUSPEND_CNF": "VBIPROXY_CHN_SUSPEND_CNF",
    "MSG_TYPE_CHN_SUSPEND_REJ": "VBIPROXY_CHN_SUSPEND_REJ", "MSG_TYPE_CHN_IOCTL_CNF": "VBIPROXY_CHN_IOCTL_CNF",
    "MSG_TYPE_CHN_IOCTL_REJ": "VBIPROXY_CHN_IOCTL_REJ", "MSG_TYPE_CHN_CHANGE_IND": "VBIPROXY_CHN_CHANGE_IND",
}
REPLY = {   # what a well-formed request is answered with (None: nothing, "EOF": connection closed)
    "MSG_TYPE_CONNECT_REQ": ("MSG_TYPE_CONNECT_CNF", "MSG_TYPE_CONNECT_REJ"),
    "MSG_TYPE_SERVICE_REQ": ("MSG_TYPE_SERVICE_CNF", "MSG_TYPE_SERVICE_REJ"),
    "MSG_TYPE_CHN_TOKEN_REQ": ("MSG_TYPE_CHN_TOKEN_CNF",),
    "MSG_TYPE_CHN_NOTIFY_REQ": ("MSG_TYPE_CHN_NOTIFY_CNF",),
    "MSG_TYPE_CHN_SUSPEND_REQ": ("MSG_TYPE_CHN_SUSPEND_CNF", "MSG_TYPE_CHN_SUSPEND_REJ"),
    "MSG_TYPE_CHN_IOCTL_REQ": ("MSG_TYPE_CHN_IOCTL_CNF", "MSG_TYPE_CHN_IOCTL_REJ"),
    "MSG_TYPE_CHN_RECLAIM_CNF": None,
    "MSG_TYPE_CLOSE_REQ": "EOF",
    "MSG_TYPE_DAEMON_PID_REQ": "EOF",
}


def short(tname):
    return tname.replace("MSG_TYPE_", "") if isinstance(tname, str) else "T%s" % tname


class Msgs:
    """well-formed messages, built from the tree's own layout"""

    def __init__(self, lay, ioc):
        self.lay = lay
        self.ioc = ioc
        c = lay.const
        self.BG, self.IA, self.REC = c["VBI_CHN_PRIO_BACKGROUND"], c["VBI_CHN_PRIO_INTERACTIVE"], c["VBI_CHN_PRIO_RECORD"]
        self.F_RELEASE, self.F_TOKEN, self.F_FLUSH = c["VBI_PROXY_CHN_RELEASE"], c["VBI_PROXY_CHN_TOKEN"], c["VBI_PROXY_CHN_FLUSH"]
        self.F_NORM, self.F_FAIL = c["VBI_PROXY_CHN_NORM"], c["VBI_PROXY_CHN_FAIL"]
        self.get_ioctl = [x for x in ioc if not x["perm"]][:1] or [{"request": 0x80085617, "size": 8, "perm": 0}]
        self.set_ioctl = [x for x in ioc if x["perm"]][:1] or [{"request": 0x40085618, "size": 8, "perm": 1}]

    def tid(self, t):
        return self.lay.type[t] if isinstance(t, str) else int(t)

    def valid(self, tname, over=None):
        """a well-formed message of (client->daemon) type tname; over = {field: value}"""
        lay = self.lay
        over = dict(over or {})
        if tname == "MSG_TYPE_CONNECT_REQ":
            f = {"services": 0x3, "strict": 0, "buffers": 2, "scanning": 0, "flags": 0}
            kw = {}
            for k in list(over):
                if k in f:
                    f[k] = over.pop(k)
            kw.update(over)
            return lay.connect_req(services=f["services"], strict=f["strict"], buffers=f["buffers"],
                                   scanning=f["scanning"], flags=f["flags"], name=b"c19-faulty", **kw)
        if tname == "MSG_TYPE_SERVICE_REQ":
            f = {"reset": 0, "commit": 1, "strict": 0, "services": 0x4}
            f.update(over)
            return lay.msg(tname, f)
        if tname == "MSG_TYPE_CHN_TOKEN_REQ":
            f = {"chn_prio": self.BG, "chn_profile.is_valid": 1, "chn_profile.sub_prio": 0x10,
                 "chn_profile.allow_suspend": 0, "chn_profile.min_duration": 0, "chn_profile.exp_duration": 0}
            f.update(over)
            return lay.msg(tname, f)
        if tname in ("MSG_TYPE_CHN_NOTIFY_REQ", "MSG_TYPE_CHN_SUSPEND_REQ"):
            f = {"notify_flags": 0, "scanning": 0, "cause": 0}
            f.update(over)
            return lay.msg(tname, f)
        if tname == "MSG_TYPE_CHN_IOCTL_REQ":
            io = self.get_ioctl[0]
            f = {"request": io["request"], "arg_size": io["size"]}
            f.update(over)
            n = over.get("_arg_len", io["size"])
            return lay.ioctl_req(f["request"], b"\0" * n, arg_size=f["arg_size"])
        if tname in ("MSG_TYPE_CHN_RECLAIM_CNF", "MSG_TYPE_CLOSE_REQ"):
            return lay.simple(tname)
        if tname == "MSG_TYPE_DAEMON_PID_REQ":
            f = lay.magics("daemon_pid_req")
            f.update(over)
            return lay.msg(tname, f)
        if tname == "MSG_TYPE_DAEMON_PID_CNF":
            f = {"magics.protocol_magic": lay.const["VBIPROXY_MAGIC_STR"].encode(), "pid": 1}
            f.update(over)
            return lay.msg(tname, f)
        raise KeyError(tname)

    def any_type(self, t):
        """a message of type t (name or number) with a body of the size that type has in the protocol"""
        if isinstance(t, str) and t in self.lay.req and t in CLIENT_TYPES:
            return self.valid(t)
        if isinstance(t, str) and t in DAEMON_BODY:
            n = self.lay.size[DAEMON_BODY[t]]
            if t == "MSG_TYPE_SLICED_IND":
                n = self.lay.const["VBIPROXY_SLICED_IND_SIZE_0_0"]
            body = bytearray(n)
            if n >= 16 and t.startswith("MSG_TYPE_CONNECT"):
                body[0:16] = self.lay.const["VBIPROXY_MAGIC_STR"].encode()[:16]
            return self.lay.header(self.lay.hdr + n, self.lay.type[t]) + bytes(body)
        return self.lay.header(self.lay.hdr, self.tid(t))

    def valid_len(self, tname):
        return len(self.valid(tname)) if tname in CLIENT_TYPES else len(self.any_type(tname))


# ============================================================================
# fault cases (pure function of seed, tier and the tree's layout)

STATES = ["S0", "S1", "S2", "S3", "S4"]
#  S0 connected, nothing sent          S1 connect confirmed, no service (holds nothing)
#  S2 connect confirmed, Teletext      S3 S2 + channel request at background priority (token holder when granted)
#  S4 S3 + a second client asked for the channel, so that the daemon has asked this one for the token back


def protocol_run(m, name):
    """[(type name, bytes)] of a valid protocol run"""
    if name == "pid":
        return [("MSG_TYPE_DAEMON_PID_REQ", m.valid("MSG_TYPE_DAEMON_PID_REQ"))]
    run = [("MSG_TYPE_CONNECT_REQ", m.valid("MSG_TYPE_CONNECT_REQ", {"services": 0x403, "strict": 1})),
           ("MSG_TYPE_SERVICE_REQ", m.valid("MSG_TYPE_SERVICE_REQ", {"services": 0x4, "strict": 0})),
           ("MSG_TYPE_CHN_TOKEN_REQ", m.valid("MSG_TYPE_CHN_TOKEN_REQ")),
           ("MSG_TYPE_CHN_NOTIFY_REQ", m.valid("MSG_TYPE_CHN_NOTIFY_REQ", {"notify_flags": m.F_FLUSH})),
           ("MSG_TYPE_CHN_NOTIFY_REQ", m.valid("MSG_TYPE_CHN_NOTIFY_REQ", {"notify_flags": m.F_NORM, "scanning": 625})),
           ("MSG_TYPE_CHN_NOTIFY_REQ", m.valid("MSG_TYPE_CHN_NOTIFY_REQ", {"notify_flags": m.F_FAIL})),
           ("MSG_TYPE_CHN_NOTIFY_REQ", m.valid("MSG_TYPE_CHN_NOTIFY_REQ", {"notify_flags": m.F_TOKEN})),
           ("MSG_TYPE_CHN_IOCTL_REQ", m.valid("MSG_TYPE_CHN_IOCTL_REQ")),
           ("MSG_TYPE_CHN_IOCTL_REQ", m.valid("MSG_TYPE_CHN_IOCTL_REQ", {"request": 0x12345678, "arg_size": 4, "_arg_len": 4})),
           ("MSG_TYPE_CHN_TOKEN_REQ", m.valid("MSG_TYPE_CHN_TOKEN_REQ", {"chn_profile.sub_prio": 0x30})),
           ("MSG_TYPE_CHN_RECLAIM_CNF", m.valid("MSG_TYPE_CHN_RECLAIM_CNF")),
           ("MSG_TYPE_CHN_SUSPEND_REQ", m.valid("MSG_TYPE_CHN_SUSPEND_REQ")),
           ("MSG_TYPE_CHN_NOTIFY_REQ", m.valid("MSG_TYPE_CHN_NOTIFY_REQ", {"notify_flags": m.F_RELEASE})),
           ("MSG_TYPE_CLOSE_REQ", m.valid("MSG_TYPE_CLOSE_REQ"))]
    return run


INT_EXTREMES = [0, 1, 2, 3, -1, -2, -3, 4, 31, 32, 33, 127, 128, 255, 256, 525, 625, 0x7fff, 0x8000, 0xffff, 0x10000,
                0x7fffffff, -0x80000000, 0x80000000, 0xffffffff, 0x7fffffffffffffff, -0x8000000000000000]
STRICT_QUICK = [-128, -127, -64, -16, -4, -3, -2, -1, 0, 1, 2] + list(range(3, 80)) + [100, 126, 127]

FIELD_TABLE = [  # (message type, state, field, values or None = INT_EXTREMES)
    ("MSG_TYPE_CONNECT_REQ", "S0", "strict", "STRICT"),
    ("MSG_TYPE_CONNECT_REQ", "S0", "buffer_count", None),
    ("MSG_TYPE_CONNECT_REQ", "S0", "scanning", None),
    ("MSG_TYPE_CONNECT_REQ", "S0", "client_flags", None),
    ("MSG_TYPE_CONNECT_REQ", "S0", "pid", None),
    ("MSG_TYPE_CONNECT_REQ", "S0", "services", "SERVICES"),
    ("MSG_TYPE_CONNECT_REQ", "S0", "magics.protocol_compat_version", None),
    ("MSG_TYPE_CONNECT_REQ", "S0", "magics.protocol_version", None),
    ("MSG_TYPE_CONNECT_REQ", "S0", "magics.endian_magic", "ENDIAN"),
    ("MSG_TYPE_CONNECT_REQ", "S0", "magics.protocol_magic", "MAGIC"),
    ("MSG_TYPE_CONNECT_REQ", "S0", "client_name", "NAME"),
    ("MSG_TYPE_SERVICE_REQ", "S2", "strict", "STRICT"),
    ("MSG_TYPE_SERVICE_REQ", "S1", "strict", "STRICT"),
    ("MSG_TYPE_SERVICE_REQ", "S2", "services", "SERVICES"),
    ("MSG_TYPE_SERVICE_REQ", "S2", "reset", None),
    ("MSG_TYPE_SERVICE_REQ", "S2", "commit", None),
    ("MSG_TYPE_CHN_TOKEN_REQ", "S2", "chn_prio", None),
    ("MSG_TYPE_CHN_TOKEN_REQ", "S3", "chn_prio", None),
    ("MSG_TYPE_CHN_TOKEN_REQ", "S2", "chn_profile.is_valid", None),
    ("MSG_TYPE_CHN_TOKEN_REQ", "S2", "chn_profile.sub_prio", None),
    ("MSG_TYPE_CHN_TOKEN_REQ", "S2", "chn_profile.allow_suspend", None),
    ("MSG_TYPE_CHN_TOKEN_REQ", "S2", "chn_profile.min_duration", None),
    ("MSG_TYPE_CHN_TOKEN_REQ", "S3", "chn_profile.min_duration", None),
    ("MSG_TYPE_CHN_TOKEN_REQ", "S2", "chn_profile.exp_duration", None),
    ("MSG_TYPE_CHN_NOTIFY_REQ", "S2", "notify_flags", "FLAGS"),
    ("MSG_TYPE_CHN_NOTIFY_REQ", "S3", "notify_flags", "FLAGS"),
    ("MSG_TYPE_CHN_NOTIFY_REQ", "S4", "notify_flags", "FLAGS"),
    ("MSG_TYPE_CHN_NOTIFY_REQ", "S1", "notify_flags", "FLAGS"),
    ("MSG_TYPE_CHN_NOTIFY_REQ", "S2", "scanning", "SCANNING"),
    ("MSG_TYPE_CHN_NOTIFY_REQ", "S2", "cause", None),
    ("MSG_TYPE_CHN_SUSPEND_REQ", "S2", "notify_flags", None),
    ("MSG_TYPE_CHN_IOCTL_REQ", "S2", "request", "IOCTL"),
    ("MSG_TYPE_CHN_IOCTL_REQ", "S3", "request", "IOCTL"),
    ("MSG_TYPE_CHN_IOCTL_REQ", "S1", "request", "IOCTL"),
    ("MSG_TYPE_CHN_IOCTL_REQ", "S2", "arg_size", None),
    ("MSG_TYPE_DAEMON_PID_REQ", "S0", "magics.endian_magic", "ENDIAN"),
    ("MSG_TYPE_DAEMON_PID_REQ", "S0", "magics.protocol_compat_version", None),
]


def _field_values(m, kind, tier, rng):
    lay = m.lay
    if kind is None:
        return list(INT_EXTREMES)
    if kind == "STRICT":
        return list(STRICT_QUICK) if tier == "quick" else list(range(-128, 128)) + [0x7fffffff, -0x80000000]
    if kind == "SERVICES":
        return [0, 1, 0x3, 0x4, 0x41f, 0x60, 0x800, 0x1000, 0x2000, 0x7fffffff, 0x80000000, 0xffffffff, 0x1fffffff,
                P.RAW_625, P.RAW_525, P.RAW_625 | P.RAW_525 | 0x41f, 0xffff0000]
    if kind == "ENDIAN":
        return [lay.const["VBIPROXY_ENDIAN_MISMATCH"], 0, 0xffffffff, lay.const["VBIPROXY_ENDIAN_MAGIC"] ^ 1]
    if kind == "MAGIC":
        g = lay.const["VBIPROXY_MAGIC_STR"].encode()
        return [b"\0" * 16, b"\xff" * 16, g[:15] + b"X", g.lower(), g[1:] + b" "]
    if kind == "NAME":
        return [b"\xff" * 64, b"A" * 64, b"%s%n%s%n" * 8, b"\0" * 64]
    if kind == "FLAGS":
        return list(range(0, 32)) + [0x20, 0x40, 0xff, 0x7fffffff, 0x80000000, 0xffffffff, 0xffffffe0]
    if kind == "SCANNING":
        return [("both", 8, v) for v in (0, 1, 525, 625, 624, 0x7fffffff, 0x80000000, 0xffffffff)]
    if kind == "IOCTL":
        v = [("ioctl", x["request"], x["size"]) for x in m.ioc]
        v += [("ioctl", x["request"], x["size"] + d) for x in m.ioc[:6] for d in (-1, 1)]
        v += [("ioctl", r, s) for r in (0, 1, 0xffffffff, 0x80000000, 0x5401, 0x541b, 0x5421, 0xc0045627 ^ 0x10000) for s in (0, 4)]
        return v
    raise KeyError(kind)


def val_class(v):
    if isinstance(v, (bytes, bytearray)):
        return "bytes"
    if isinstance(v, tuple):
        return v[0]
    if v < 0:
        return "neg" if v > -0x8000 else "min"
    if v <= 3:
        return "small"
    if v < 0x8000:
        return "mid"
    return "huge"


def gen_fault_cases(lay, ioc, seed, tier):
    """-> (witnessed cases, solo cases); every case is a JSON-able recipe rebuilt into bytes at run time"""
    m = Msgs(lay, ioc)
    rng = random.Random((int(seed) << 20) ^ 0xC19)
    quick = tier == "quick"
    W, S = [], []

    # 1. valid protocol runs truncated at every byte; disconnect or silence afterwards
    for rname in ("full", "pid"):
        run = protocol_run(m, rname)
        total = sum(len(b) for _, b in run)
        for cut in range(0, total + 1):
            ends = ["close"]
            if not quick:
                ends = ["close", "silent", "halfclose"]
            else:
                # silence: at every message boundary, inside every header, and at every 4th byte (phase from the seed)
                off, at_hdr = 0, False
                for _, b in run:
                    if off <= cut < off + lay.hdr + 1:
                        at_hdr = True
                    off += len(b)
                if at_hdr or (cut + seed) % 4 == 0:
                    ends.append("silent")
                if (cut + seed) % 16 == 1:
                    ends.append("halfclose")
            for end in ends:
                modes = ["step"] if quick else ["step", "pipe"]
                if quick and (cut * 7 + seed) % 8 == 0:
                    modes.append("pipe")
                for mode in modes:
                    W.append({"kind": "trunc", "run": rname, "cut": cut, "end": end, "mode": mode, "state": "S0"})
    # the same run with the client's services never granted / no token (solo: device closed between cases)
    run = protocol_run(m, "full")
    total = sum(len(b) for _, b in run)
    step = 3 if quick else 1
    for cut in range((seed % step), total + 1, step):
        S.append({"kind": "trunc", "run": "full", "cut": cut, "end": "close", "mode": "step", "state": "S0"})

    # 2. header length field: 0 .. sizeof(msg)+k and far beyond, for every message type
    maxlen = lay.size["VBIPROXY_MSG"]
    far = [maxlen + 16, 0xffff, 0x10000, 0x7fffffff, 0x80000000, 0xfffffff8, 0xffffffff]
    for t in CLIENT_TYPES:
        v = m.valid_len(t)
        near = set(range(0, lay.hdr + 2)) | {v - 2, v - 1, v, v + 1, v + 2, maxlen - 1, maxlen, maxlen + 1, maxlen + 8}
        for st in (("S0", "S2") if quick else ("S0", "S1", "S2", "S3")):
            for L in sorted(x for x in near if x >= 0) + far:
                W.append({"kind": "hdrlen", "type": t, "len": L, "state": st, "end": "close"})
    for L in range(0, maxlen + 9):
        reps = 1 if quick else len(CLIENT_TYPES)
        for r in range(reps):
            t = CLIENT_TYPES[(L + seed + r) % len(CLIENT_TYPES)]
            st = ("S0", "S2", "S3", "S1")[(L // len(CLIENT_TYPES) + r + seed) % 4]
            W.append({"kind": "hdrlen", "type": t, "len": L, "state": st,
                      "end": "silent" if (L + seed) % 9 == 0 else "close"})
    for t in ("MSG_TYPE_SERVICE_REQ", "MSG_TYPE_CONNECT_REQ", "MSG_TYPE_CHN_IOCTL_REQ"):
        for L in list(range(0, lay.hdr)) + [maxlen + 1, 0xffffffff]:
            S.append({"kind": "hdrlen", "type": t, "len": L, "state": "S1" if t != "MSG_TYPE_CONNECT_REQ" else "S0", "end": "close"})

    # 3. every message type in every connection state
    types = sorted(lay.type_name.values(), key=lambda n: lay.type[n]) + [lay.type["MSG_TYPE_COUNT"], 25, 255, 0x7fffffff, 0xffffffff]
    for st in STATES:
        for t in types:
            W.append({"kind": "type", "type": t, "state": st, "end": "close"})
            if st != "S4":
                S.append({"kind": "type", "type": t, "state": st, "end": "close"})
            if not quick:
                W.append({"kind": "type", "type": t, "state": st, "end": "silent"})

    # 4. integer (and string) fields at their extremes
    for (t, st, field, kind) in FIELD_TABLE:
        for v in _field_values(m, kind, tier, rng):
            if isinstance(v, (bytes, bytearray)):
                v = {"hex": bytes(v).hex()}
            c = {"kind": "field", "type": t, "state": st, "field": field, "value": v, "end": "close"}
            W.append(c)
            if st in ("S0", "S1") or field in ("notify_flags", "request", "strict"):
                S.append(dict(c))
    if not quick:
        for _ in range(6000):
            (t, st, field, kind) = rng.choice(FIELD_TABLE)
            vals = _field_values(m, kind, tier, rng)
            v = rng.choice(vals)
            if isinstance(v, int) and rng.random() < 0.5:
                v = rng.choice([rng.getrandbits(8), rng.getrandbits(16), rng.getrandbits(32), -rng.getrandbits(31)])
            if isinstance(v, (bytes, bytearray)):
                v = {"hex": bytes(v).hex()}
            W.append({"kind": "field", "type": t, "state": rng.choice([st, st, "S2", "S3", "S4"]) if st != "S0" else "S0",
                      "field": field, "value": v, "end": rng.choice(["close", "close", "silent"])})

    # 5. unstructured bytes
    for i in range(48 if quick else 1500):
        n = rng.choice([1, 2, 7, 8, 9, 16, 64, 300, 992, 1000, 3000])
        W.append({"kind": "junk", "state": rng.choice(["S0", "S0", "S2", "S3"]), "n": n, "rseed": rng.getrandbits(32),
                  "end": rng.choice(["close", "close", "silent"])})
    for i in range(12 if quick else 200):
        S.append({"kind": "junk", "state": rng.choice(["S0", "S1", "S2"]), "n": rng.choice([3, 8, 40, 992, 2000]),
                  "rseed": rng.getrandbits(32), "end": "close"})

    for i, c in enumerate(W):
        c["id"] = i
    for i, c in enumerate(S):
        c["id"] = i
        c["solo"] = True
    return W, S


def gen_fault_batches(lay, ioc, seed, tier, nbatch_w, nbatch_s):
    W, S = gen_fault_cases(lay, ioc, seed, tier)
    rng = random.Random((int(seed) << 8) ^ 0x19C)
    rng.shuffle(W)
    rng.shuffle(S)
    out = []
    for b in range(nbatch_w):
        out.append({"kind": "fault", "seed": seed, "tier": tier, "index": b, "witnesses": 2 + (b + seed) % 2,
                    "cases": W[b::nbatch_w]})
    for b in range(nbatch_s):
        out.append({"kind": "fault", "seed": seed, "tier": tier, "index": nbatch_w + b, "witnesses": 0,
                    "cases": S[b::nbatch_s]})
    return [b for b in out if b["cases"]]
