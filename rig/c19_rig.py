"""C19 rig: faulty proxy clients against the real daemon, witnesses, token monitor.

Built on rig/proxy_rig.py (Rig, PyConn, CClient, Layout, the C18 controller and
monitors).  Three kinds of work units, each a pure function of (seed, tier, index):

* witnessed fault batch: one daemon + 2-3 witness processes (real client
  library, lock-step, C18 monitors) + a list of fault cases, one raw-socket
  connection each;
* solo fault batch: the same without witnesses, so that the device is closed
  whenever the faulty client holds no service (other daemon paths);
* token schedule: raw-socket token clients (and witnesses) of all priorities
  request / return / release / confirm / ignore / disconnect; monitors over the
  totally ordered controller log and the H1 client-table trace.

No verdict depends on wall-clock speed: quiescence is reached by round trips
(sockets are FIFO), never by sleeping; every blocking wait has a watchdog whose
expiry is INCONCLUSIVE.  See design-notes/C19.md.
"""
import json, os, random, socket, struct, subprocess, sys, time

VERIF = os.path.dirname(os.path.dirname(os.path.abspath(__file__)))
if VERIF not in sys.path:
    sys.path.insert(0, VERIF)
import build                                  # noqa: E402
from rig import proxy_rig as P                # noqa: E402
from rig.proxy_rig import (Rig, PyConn, Outcome, Inconclusive, DaemonDied, ClientGone,   # noqa: E402
                           AbortSchedule, C18Controller, Monitor, classify_sanitizer)

MAX_SILENT = 6               # silent faulty connections kept open at the same time
JUNK = 4096                  # trailing bytes after a header whose length field is out of range

_ioctl_cache = {}


def ioctls(repo):
    """the ioctl requests the tree itself accepts in MSG_TYPE_CHN_IOCTL_REQ (harness/c19_ioctls.c)"""
    if repo not in _ioctl_cache:
        exe = build.build_binary("c19_ioctls", ["harness/c19_ioctls.c"], "plain", repo=repo)
        o = subprocess.run([exe], capture_output=True, text=True, timeout=120)
        tab = [x for x in json.loads(o.stdout) if x["api"] == 2]
        _ioctl_cache[repo] = sorted(tab, key=lambda x: x["request"])
    return _ioctl_cache[repo]


def prebuild(repo):
    build.build_daemon("asan", repo=repo)
    build.build_binary("c18_client", ["harness/c18_client.c"], "asan", repo=repo)
    P.layout(repo)
    ioctls(repo)


# ============================================================================
# messages

CLIENT_TYPES = ["MSG_TYPE_CONNECT_REQ", "MSG_TYPE_SERVICE_REQ", "MSG_TYPE_CHN_TOKEN_REQ", "MSG_TYPE_CHN_NOTIFY_REQ",
                "MSG_TYPE_CHN_SUSPEND_REQ", "MSG_TYPE_CHN_IOCTL_REQ", "MSG_TYPE_CHN_RECLAIM_CNF", "MSG_TYPE_CLOSE_REQ",
                "MSG_TYPE_DAEMON_PID_REQ", "MSG_TYPE_DAEMON_PID_CNF"]
DAEMON_BODY = {   # daemon -> client types: the struct whose size a well-formed instance has
    "MSG_TYPE_CONNECT_CNF": "VBIPROXY_CONNECT_CNF", "MSG_TYPE_CONNECT_REJ": "VBIPROXY_CONNECT_REJ",
    "MSG_TYPE_SLICED_IND": "VBIPROXY_SLICED_IND", "MSG_TYPE_SERVICE_CNF": "VBIPROXY_SERVICE_CNF",
    "MSG_TYPE_SERVICE_REJ": "VBIPROXY_SERVICE_REJ", "MSG_TYPE_CHN_TOKEN_CNF": "VBIPROXY_CHN_TOKEN_CNF",
    "MSG_TYPE_CHN_TOKEN_IND": "VBIPROXY_CHN_TOKEN_IND", "MSG_TYPE_CHN_NOTIFY_CNF": "VBIPROXY_CHN_NOTIFY_CNF",
    "MSG_TYPE_CHN_RECLAIM_REQ": "VBIPROXY_CHN_RECLAIM_REQ", "MSG_TYPE_CHN_SUSPEND_CNF": "VBIPROXY_CHN_SUSPEND_CNF",
    "MSG_TYPE_CHN_SUSPEND_REJ": "VBIPROXY_CHN_SUSPEND_REJ", "MSG_TYPE_CHN_IOCTL_CNF": "VBIPROXY_CHN_IOCTL_CNF",
    "MSG_TYPE_CHN_IOCTL_REJ": "VBIPROXY_CHN_IOCTL_REJ", "MSG_TYPE_CHN_CHANGE_IND": "VBIPROXY_CHN_CHANGE_IND",
}
REPLY = {   # what a well-formed request is answered with (None: nothing, "EOF": connection closed)
    "MSG_TYPE_CONNECT_REQ": ("MSG_TYPE_CONNECT_CNF", "MSG_TYPE_CONNECT_REJ"),
    "MSG_TYPE_SERVICE_REQ": ("MSG_TYPE_SERVICE_CNF", "MSG_TYPE_SERVICE_REJ"),
    "MSG_TYPE_CHN_TOKEN_REQ": ("MSG_TYPE_CHN_TOKEN_CNF",),
    "MSG_TYPE_CHN_NOTIFY_REQ": ("MSG_TYPE_CHN_NOTIFY_CNF",),
    "MSG_TYPE_CHN_SUSPEND_REQ": ("MSG_TYPE_CHN_SUSPEND_CNF", "MSG_TYPE_CHN_SUSPEND_REJ"),
    "MSG_TYPE_CHN_IOCTL_REQ": ("MSG_TYPE_CHN_IOCTL_CNF", "MSG_TYPE_CHN_IOCTL_REJ"),
    "MSG_TYPE_CHN_RECLAIM_CNF": None,
    "MSG_TYPE_CLOSE_REQ": "EOF",
    "MSG_TYPE_DAEMON_PID_REQ": "EOF",
}


def short(tname):
    return tname.replace("MSG_TYPE_", "") if isinstance(tname, str) else "T%s" % tname


class Msgs:
    """well-formed messages, built from the tree's own layout"""

    def __init__(self, lay, ioc):
        self.lay = lay
        self.ioc = ioc
        c = lay.const
        self.BG, self.IA, self.REC = c["VBI_CHN_PRIO_BACKGROUND"], c["VBI_CHN_PRIO_INTERACTIVE"], c["VBI_CHN_PRIO_RECORD"]
        self.F_RELEASE, self.F_TOKEN, self.F_FLUSH = c["VBI_PROXY_CHN_RELEASE"], c["VBI_PROXY_CHN_TOKEN"], c["VBI_PROXY_CHN_FLUSH"]
        self.F_NORM, self.F_FAIL = c["VBI_PROXY_CHN_NORM"], c["VBI_PROXY_CHN_FAIL"]
        self.get_ioctl = [x for x in ioc if not x["perm"]][:1] or [{"request": 0x80085617, "size": 8, "perm": 0}]
        self.set_ioctl = [x for x in ioc if x["perm"]][:1] or [{"request": 0x40085618, "size": 8, "perm": 1}]

    def tid(self, t):
        return self.lay.type[t] if isinstance(t, str) else int(t)

    def valid(self, tname, over=None):
        """a well-formed message of (client->daemon) type tname; over = {field: value}"""
        lay = self.lay
        over = dict(over or {})
        if tname == "MSG_TYPE_CONNECT_REQ":
            f = {"services": 0x3, "strict": 0, "buffers": 2, "scanning": 0, "flags": 0}
            kw = {}
            for k in list(over):
                if k in f:
                    f[k] = over.pop(k)
            kw.update(over)
            return lay.connect_req(services=f["services"], strict=f["strict"], buffers=f["buffers"],
                                   scanning=f["scanning"], flags=f["flags"], name=b"c19-faulty", **kw)
        if tname == "MSG_TYPE_SERVICE_REQ":
            f = {"reset": 0, "commit": 1, "strict": 0, "services": 0x4}
            f.update(over)
            return lay.msg(tname, f)
        if tname == "MSG_TYPE_CHN_TOKEN_REQ":
            f = {"chn_prio": self.BG, "chn_profile.is_valid": 1, "chn_profile.sub_prio": 0x10,
                 "chn_profile.allow_suspend": 0, "chn_profile.min_duration": 0, "chn_profile.exp_duration": 0}
            f.update(over)
            return lay.msg(tname, f)
        if tname in ("MSG_TYPE_CHN_NOTIFY_REQ", "MSG_TYPE_CHN_SUSPEND_REQ"):
            f = {"notify_flags": 0, "scanning": 0, "cause": 0}
            f.update(over)
            return lay.msg(tname, f)
        if tname == "MSG_TYPE_CHN_IOCTL_REQ":
            io = self.get_ioctl[0]
            f = {"request": io["request"], "arg_size": io["size"]}
            f.update(over)
            n = over.get("_arg_len", io["size"])
            # VBIPROXY_CHN_IOCTL_REQ_SIZE(n) is one byte short of arg_data + n: pack, then cut
            body = bytearray(lay.const["VBIPROXY_CHN_IOCTL_REQ_SIZE_0"] + n + 8)
            lay.put(body, "chn_ioctl_req.request", f["request"])
            lay.put(body, "chn_ioctl_req.arg_size", f["arg_size"])
            body = bytes(body[:lay.const["VBIPROXY_CHN_IOCTL_REQ_SIZE_0"] + n])
            return lay.header(lay.hdr + len(body), lay.type[tname]) + body
        if tname in ("MSG_TYPE_CHN_RECLAIM_CNF", "MSG_TYPE_CLOSE_REQ"):
            return lay.simple(tname)
        if tname == "MSG_TYPE_DAEMON_PID_REQ":
            f = lay.magics("daemon_pid_req")
            f.update(over)
            return lay.msg(tname, f)
        if tname == "MSG_TYPE_DAEMON_PID_CNF":
            f = {"magics.protocol_magic": lay.const["VBIPROXY_MAGIC_STR"].encode(), "pid": 1}
            f.update(over)
            return lay.msg(tname, f)
        raise KeyError(tname)

    def any_type(self, t):
        """a message of type t (name or number) with a body of the size that type has in the protocol"""
        if isinstance(t, str) and t in self.lay.req and t in CLIENT_TYPES:
            return self.valid(t)
        if isinstance(t, str) and t in DAEMON_BODY:
            n = self.lay.size[DAEMON_BODY[t]]
            if t == "MSG_TYPE_SLICED_IND":
                n = self.lay.const["VBIPROXY_SLICED_IND_SIZE_0_0"]
            body = bytearray(n)
            if n >= 16 and t.startswith("MSG_TYPE_CONNECT"):
                body[0:16] = self.lay.const["VBIPROXY_MAGIC_STR"].encode()[:16]
            return self.lay.header(self.lay.hdr + n, self.lay.type[t]) + bytes(body)
        return self.lay.header(self.lay.hdr, self.tid(t))

    def valid_len(self, tname):
        return len(self.valid(tname)) if tname in CLIENT_TYPES else len(self.any_type(tname))


# ============================================================================
# fault cases (pure function of seed, tier and the tree's layout)

STATES = ["S0", "S1", "S2", "S3", "S4"]
#  S0 connected, nothing sent          S1 connect confirmed, no service (holds nothing)
#  S2 connect confirmed, Teletext      S3 S2 + channel request at background priority (token holder when granted)
#  S4 S3 + a second client asked for the channel, so that the daemon has asked this one for the token back


def protocol_run(m, name):
    """[(type name, bytes)] of a valid protocol run"""
    if name == "pid":
        return [("MSG_TYPE_DAEMON_PID_REQ", m.valid("MSG_TYPE_DAEMON_PID_REQ"))]
    run = [("MSG_TYPE_CONNECT_REQ", m.valid("MSG_TYPE_CONNECT_REQ", {"services": 0x403, "strict": 1})),
           ("MSG_TYPE_SERVICE_REQ", m.valid("MSG_TYPE_SERVICE_REQ", {"services": 0x4, "strict": 0})),
           ("MSG_TYPE_CHN_TOKEN_REQ", m.valid("MSG_TYPE_CHN_TOKEN_REQ")),
           ("MSG_TYPE_CHN_NOTIFY_REQ", m.valid("MSG_TYPE_CHN_NOTIFY_REQ", {"notify_flags": m.F_FLUSH})),
           ("MSG_TYPE_CHN_NOTIFY_REQ", m.valid("MSG_TYPE_CHN_NOTIFY_REQ", {"notify_flags": m.F_NORM, "scanning": 625})),
           ("MSG_TYPE_CHN_NOTIFY_REQ", m.valid("MSG_TYPE_CHN_NOTIFY_REQ", {"notify_flags": m.F_FAIL})),
           ("MSG_TYPE_CHN_NOTIFY_REQ", m.valid("MSG_TYPE_CHN_NOTIFY_REQ", {"notify_flags": m.F_TOKEN})),
           ("MSG_TYPE_CHN_IOCTL_REQ", m.valid("MSG_TYPE_CHN_IOCTL_REQ")),
           ("MSG_TYPE_CHN_IOCTL_REQ", m.valid("MSG_TYPE_CHN_IOCTL_REQ", {"request": 0x12345678, "arg_size": 4, "_arg_len": 4})),
           ("MSG_TYPE_CHN_TOKEN_REQ", m.valid("MSG_TYPE_CHN_TOKEN_REQ", {"chn_profile.sub_prio": 0x30})),
           ("MSG_TYPE_CHN_RECLAIM_CNF", m.valid("MSG_TYPE_CHN_RECLAIM_CNF")),
           ("MSG_TYPE_CHN_SUSPEND_REQ", m.valid("MSG_TYPE_CHN_SUSPEND_REQ")),
           ("MSG_TYPE_CHN_NOTIFY_REQ", m.valid("MSG_TYPE_CHN_NOTIFY_REQ", {"notify_flags": m.F_RELEASE})),
           ("MSG_TYPE_CLOSE_REQ", m.valid("MSG_TYPE_CLOSE_REQ"))]
    return run


INT_EXTREMES = [0, 1, 2, 3, -1, -2, -3, 4, 31, 32, 33, 127, 128, 255, 256, 525, 625, 0x7fff, 0x8000, 0xffff, 0x10000,
                0x7fffffff, -0x80000000, 0x80000000, 0xffffffff, 0x7fffffffffffffff, -0x8000000000000000]
STRICT_QUICK = [-128, -127, -64, -16, -4, -3, -2, -1, 0, 1, 2] + list(range(3, 80)) + [100, 126, 127]

FIELD_TABLE = [  # (message type, state, field, values or None = INT_EXTREMES)
    ("MSG_TYPE_CONNECT_REQ", "S0", "strict", "STRICT"),
    ("MSG_TYPE_CONNECT_REQ", "S0", "buffer_count", None),
    ("MSG_TYPE_CONNECT_REQ", "S0", "scanning", None),
    ("MSG_TYPE_CONNECT_REQ", "S0", "client_flags", None),
    ("MSG_TYPE_CONNECT_REQ", "S0", "pid", None),
    ("MSG_TYPE_CONNECT_REQ", "S0", "services", "SERVICES"),
    ("MSG_TYPE_CONNECT_REQ", "S0", "magics.protocol_compat_version", None),
    ("MSG_TYPE_CONNECT_REQ", "S0", "magics.protocol_version", None),
    ("MSG_TYPE_CONNECT_REQ", "S0", "magics.endian_magic", "ENDIAN"),
    ("MSG_TYPE_CONNECT_REQ", "S0", "magics.protocol_magic", "MAGIC"),
    ("MSG_TYPE_CONNECT_REQ", "S0", "client_name", "NAME"),
    ("MSG_TYPE_SERVICE_REQ", "S2", "strict", "STRICT"),
    ("MSG_TYPE_SERVICE_REQ", "S1", "strict", "STRICT"),
    ("MSG_TYPE_SERVICE_REQ", "S2", "services", "SERVICES"),
    ("MSG_TYPE_SERVICE_REQ", "S2", "reset", None),
    ("MSG_TYPE_SERVICE_REQ", "S2", "commit", None),
    ("MSG_TYPE_CHN_TOKEN_REQ", "S2", "chn_prio", None),
    ("MSG_TYPE_CHN_TOKEN_REQ", "S3", "chn_prio", None),
    ("MSG_TYPE_CHN_TOKEN_REQ", "S2", "chn_profile.is_valid", None),
    ("MSG_TYPE_CHN_TOKEN_REQ", "S2", "chn_profile.sub_prio", None),
    ("MSG_TYPE_CHN_TOKEN_REQ", "S2", "chn_profile.allow_suspend", None),
    ("MSG_TYPE_CHN_TOKEN_REQ", "S2", "chn_profile.min_duration", None),
    ("MSG_TYPE_CHN_TOKEN_REQ", "S3", "chn_profile.min_duration", None),
    ("MSG_TYPE_CHN_TOKEN_REQ", "S2", "chn_profile.exp_duration", None),
    ("MSG_TYPE_CHN_NOTIFY_REQ", "S2", "notify_flags", "FLAGS"),
    ("MSG_TYPE_CHN_NOTIFY_REQ", "S3", "notify_flags", "FLAGS"),
    ("MSG_TYPE_CHN_NOTIFY_REQ", "S4", "notify_flags", "FLAGS"),
    ("MSG_TYPE_CHN_NOTIFY_REQ", "S1", "notify_flags", "FLAGS"),
    ("MSG_TYPE_CHN_NOTIFY_REQ", "S2", "scanning", "SCANNING"),
    ("MSG_TYPE_CHN_NOTIFY_REQ", "S2", "cause", None),
    ("MSG_TYPE_CHN_SUSPEND_REQ", "S2", "notify_flags", None),
    ("MSG_TYPE_CHN_IOCTL_REQ", "S2", "request", "IOCTL"),
    ("MSG_TYPE_CHN_IOCTL_REQ", "S3", "request", "IOCTL"),
    ("MSG_TYPE_CHN_IOCTL_REQ", "S1", "request", "IOCTL"),
    ("MSG_TYPE_CHN_IOCTL_REQ", "S2", "arg_size", None),
    ("MSG_TYPE_DAEMON_PID_REQ", "S0", "magics.endian_magic", "ENDIAN"),
    ("MSG_TYPE_DAEMON_PID_REQ", "S0", "magics.protocol_compat_version", None),
]


def _field_values(m, kind, tier, rng):
    lay = m.lay
    if kind is None:
        return list(INT_EXTREMES)
    if kind == "STRICT":
        return list(STRICT_QUICK) if tier == "quick" else list(range(-128, 128)) + [0x7fffffff, -0x80000000]
    if kind == "SERVICES":
        return [0, 1, 0x3, 0x4, 0x41f, 0x60, 0x800, 0x1000, 0x2000, 0x7fffffff, 0x80000000, 0xffffffff, 0x1fffffff,
                P.RAW_625, P.RAW_525, P.RAW_625 | P.RAW_525 | 0x41f, 0xffff0000]
    if kind == "ENDIAN":
        return [lay.const["VBIPROXY_ENDIAN_MISMATCH"], 0, 0xffffffff, lay.const["VBIPROXY_ENDIAN_MAGIC"] ^ 1]
    if kind == "MAGIC":
        g = lay.const["VBIPROXY_MAGIC_STR"].encode()
        return [b"\0" * 16, b"\xff" * 16, g[:15] + b"X", g.lower(), g[1:] + b" "]
    if kind == "NAME":
        return [b"\xff" * 64, b"A" * 64, b"%s%n%s%n" * 8, b"\0" * 64]
    if kind == "FLAGS":
        return list(range(0, 32)) + [0x20, 0x40, 0xff, 0x7fffffff, 0x80000000, 0xffffffff, 0xffffffe0]
    if kind == "SCANNING":
        return [("both", 8, v) for v in (0, 1, 525, 625, 624, 0x7fffffff, 0x80000000, 0xffffffff)]
    if kind == "IOCTL":
        v = [("ioctl", x["request"], x["size"]) for x in m.ioc]
        v += [("ioctl", x["request"], x["size"] + d) for x in m.ioc[:6] for d in (-1, 1)]
        v += [("ioctl", r, s) for r in (0, 1, 0xffffffff, 0x80000000, 0x5401, 0x541b, 0x5421, 0xc0045627 ^ 0x10000) for s in (0, 4)]
        return v
    raise KeyError(kind)


def val_class(v):
    if isinstance(v, (bytes, bytearray)):
        return "bytes"
    if isinstance(v, tuple):
        return v[0]
    if v < 0:
        return "neg" if v > -0x8000 else "min"
    if v <= 3:
        return "small"
    if v < 0x8000:
        return "mid"
    return "huge"


def gen_fault_cases(lay, ioc, seed, tier):
    """-> (witnessed cases, solo cases); every case is a JSON-able recipe rebuilt into bytes at run time"""
    m = Msgs(lay, ioc)
    rng = random.Random((int(seed) << 20) ^ 0xC19)
    quick = tier == "quick"
    W, S = [], []

    # 1. valid protocol runs truncated at every byte; disconnect or silence afterwards
    for rname in ("full", "pid"):
        run = protocol_run(m, rname)
        total = sum(len(b) for _, b in run)
        for cut in range(0, total + 1):
            ends = ["close"]
            if not quick:
                ends = ["close", "silent", "halfclose"]
            else:
                # silence: at every message boundary, inside every header, and at every 4th byte (phase from the seed)
                off, at_hdr = 0, False
                for _, b in run:
                    if off <= cut < off + lay.hdr + 1:
                        at_hdr = True
                    off += len(b)
                if at_hdr or (cut + seed) % 2 == 0:
                    ends.append("silent")
                if (cut + seed) % 8 == 1:
                    ends.append("halfclose")
            for end in ends:
                modes = ["step"] if quick else ["step", "pipe"]
                if quick and (cut * 7 + seed) % 3 == 0:
                    modes.append("pipe")
                for mode in modes:
                    W.append({"kind": "trunc", "run": rname, "cut": cut, "end": end, "mode": mode, "state": "S0"})
    # the same run with the client's services never granted / no token (solo: device closed between cases)
    run = protocol_run(m, "full")
    total = sum(len(b) for _, b in run)
    step = 3 if quick else 1
    for cut in range((seed % step), total + 1, step):
        S.append({"kind": "trunc", "run": "full", "cut": cut, "end": "close", "mode": "step", "state": "S0"})

    # 2. header length field: 0 .. sizeof(msg)+k and far beyond, for every message type
    maxlen = lay.size["VBIPROXY_MSG"]
    far = [maxlen + 16, 0xffff, 0x10000, 0x7fffffff, 0x80000000, 0xfffffff8, 0xffffffff]
    for t in CLIENT_TYPES:
        v = m.valid_len(t)
        near = set(range(0, lay.hdr + 2)) | {v - 2, v - 1, v, v + 1, v + 2, maxlen - 1, maxlen, maxlen + 1, maxlen + 8}
        for st in (("S0", "S2") if quick else ("S0", "S1", "S2", "S3")):
            for L in sorted(x for x in near if x >= 0) + far:
                W.append({"kind": "hdrlen", "type": t, "len": L, "state": st, "end": "close"})
    for L in range(0, maxlen + 9):
        reps = 1 if quick else len(CLIENT_TYPES)
        for r in range(reps):
            t = CLIENT_TYPES[(L + seed + r) % len(CLIENT_TYPES)]
            st = ("S0", "S2", "S3", "S1")[(L // len(CLIENT_TYPES) + r + seed) % 4]
            W.append({"kind": "hdrlen", "type": t, "len": L, "state": st,
                      "end": "silent" if (L + seed) % 9 == 0 else "close"})
    for t in ("MSG_TYPE_SERVICE_REQ", "MSG_TYPE_CONNECT_REQ", "MSG_TYPE_CHN_IOCTL_REQ"):
        for L in list(range(0, lay.hdr)) + [maxlen + 1, 0xffffffff]:
            S.append({"kind": "hdrlen", "type": t, "len": L, "state": "S1" if t != "MSG_TYPE_CONNECT_REQ" else "S0", "end": "close"})

    # 3. every message type in every connection state
    types = sorted(lay.type_name.values(), key=lambda n: lay.type[n]) + [lay.type["MSG_TYPE_COUNT"], 25, 255, 0x7fffffff, 0xffffffff]
    for st in STATES:
        for t in types:
            W.append({"kind": "type", "type": t, "state": st, "end": "close"})
            if st != "S4":
                S.append({"kind": "type", "type": t, "state": st, "end": "close"})
            if not quick:
                W.append({"kind": "type", "type": t, "state": st, "end": "silent"})

    # 4. integer (and string) fields at their extremes
    for (t, st, field, kind) in FIELD_TABLE:
        for v in _field_values(m, kind, tier, rng):
            if isinstance(v, (bytes, bytearray)):
                v = {"hex": bytes(v).hex()}
            c = {"kind": "field", "type": t, "state": st, "field": field, "value": v, "end": "close"}
            W.append(c)
            if st in ("S0", "S1") or field in ("notify_flags", "request", "strict"):
                S.append(dict(c))
    if not quick:
        for _ in range(6000):
            (t, st, field, kind) = rng.choice(FIELD_TABLE)
            vals = _field_values(m, kind, tier, rng)
            v = rng.choice(vals)
            if isinstance(v, int) and rng.random() < 0.5:
                v = rng.choice([rng.getrandbits(8), rng.getrandbits(16), rng.getrandbits(32), -rng.getrandbits(31)])
            if isinstance(v, (bytes, bytearray)):
                v = {"hex": bytes(v).hex()}
            W.append({"kind": "field", "type": t, "state": rng.choice([st, st, "S2", "S3", "S4"]) if st != "S0" else "S0",
                      "field": field, "value": v, "end": rng.choice(["close", "close", "silent"])})

    # 5. unstructured bytes
    for i in range(48 if quick else 1500):
        n = rng.choice([1, 2, 7, 8, 9, 16, 64, 300, 992, 1000, 3000])
        W.append({"kind": "junk", "state": rng.choice(["S0", "S0", "S2", "S3"]), "n": n, "rseed": rng.getrandbits(32),
                  "end": rng.choice(["close", "close", "silent"])})
    for i in range(12 if quick else 200):
        S.append({"kind": "junk", "state": rng.choice(["S0", "S1", "S2"]), "n": rng.choice([3, 8, 40, 992, 2000]),
                  "rseed": rng.getrandbits(32), "end": "close"})

    # 6. a well-formed request written slowly: its first bytes, then frames are captured (and queued for this very
    #    client when it holds services), then the rest.  The completed request must be served like any other.
    slow = [("MSG_TYPE_SERVICE_REQ", {"services": 0x4, "strict": 0}), ("MSG_TYPE_SERVICE_REQ", {"services": 0, "strict": 0, "reset": 1}),
            ("MSG_TYPE_SERVICE_REQ", {"services": 0x3, "strict": 0, "reset": 1}),
            ("MSG_TYPE_CHN_TOKEN_REQ", {}), ("MSG_TYPE_CHN_NOTIFY_REQ", {"notify_flags": m.F_FLUSH}),
            ("MSG_TYPE_CHN_IOCTL_REQ", {}), ("MSG_TYPE_CHN_SUSPEND_REQ", {})]
    for (t, over) in slow:
        n = len(m.valid(t, over))
        cuts = sorted(set([1, 4, lay.hdr - 1, lay.hdr, lay.hdr + 1, lay.hdr + 4, n - 1]))
        if not quick:
            cuts = list(range(1, n))
        for cut in cuts:
            if not (0 < cut < n):
                continue
            for st in ("S2", "S1"):
                if quick and st == "S1" and cut not in (4, lay.hdr, n - 1):
                    continue
                for ticks in ((1,) if quick else (1, 3)):
                    c = {"kind": "slow", "type": t, "over": over, "cut": cut, "ticks": ticks, "state": st, "end": "close"}
                    W.append(c)
                    if st == "S2":
                        S.append(dict(c))

    # 7. a subscriber that stops reading until the daemon's socket to it is congested (a data message half written,
    #    the daemon only waits for writability), then goes away: the daemon's write fails hard
    for i in range(8 if quick else 60):
        W.append({"kind": "congest", "state": "S2", "frames": 150 + 10 * (i % 4), "end": ("close", "close", "halfclose")[i % 3]})

    for i, c in enumerate(W):
        c["id"] = i
    for i, c in enumerate(S):
        c["id"] = i
        c["solo"] = True
    return W, S


def gen_fault_batches(lay, ioc, seed, tier, nbatch_w, nbatch_s):
    W, S = gen_fault_cases(lay, ioc, seed, tier)
    rng = random.Random((int(seed) << 8) ^ 0x19C)
    rng.shuffle(W)
    rng.shuffle(S)
    out = []
    for b in range(nbatch_w):
        out.append({"kind": "fault", "seed": seed, "tier": tier, "index": b, "witnesses": 2 + (b + seed) % 2,
                    "cases": W[b::nbatch_w]})
    for b in range(nbatch_s):
        out.append({"kind": "fault", "seed": seed, "tier": tier, "index": nbatch_w + b, "witnesses": 0,
                    "cases": S[b::nbatch_s]})
    return [b for b in out if b["cases"]]


# ============================================================================
# rig with C19 extras

class C19Rig(Rig):
    def __init__(self, repo, tag="c19"):
        Rig.__init__(self, repo, "select", tag=tag)
        self._err_off = 0
        self._conn_n = 0

    def stderr_new(self):
        try:
            with open(self.derr, "rb") as f:
                f.seek(self._err_off)
                d = f.read()
        except OSError:
            return ""
        self._err_off += len(d)
        return d.decode("latin1")

    def named_conn(self, prefix="f"):
        self._conn_n += 1
        name = "%s.%s%d" % (self.id, prefix, self._conn_n)
        c = PyConn(self, name)
        c.peer = "_" + name            # how hook H1 prints the abstract address
        self.conns.append(c)
        return c

    def fd_profile(self):
        """-> (sockets, fifos, listing) of the daemon's open file descriptors.  Only what a client
        connection can make the daemon hold is counted: sockets (connections) and FIFOs (the
        simulated device's tick pipe); regular files (trace, logs, whatever the sanitizer
        runtime opens for itself) are listed for the record but are not the daemon's client resources."""
        d = "/proc/%d/fd" % self.daemon.pid
        socks = fifos = 0
        names = []
        try:
            for f in os.listdir(d):
                try:
                    t = os.readlink(os.path.join(d, f))
                except OSError:
                    continue
                names.append("%s=%s" % (f, t))
                if t.startswith("socket:"):
                    socks += 1
                elif t.startswith("pipe:") or t == self.fifo:
                    fifos += 1
        except OSError:
            return -1, -1, ""
        return socks, fifos, " ".join(sorted(names))

    def daemon_fds(self):
        s, f, _ = self.fd_profile()
        return -1 if s < 0 else s + f

    def device_open_count(self):
        self.trace_tail()
        return self.tr_opens - self.tr_closes


WITNESS_KEYS = {
    "model:C18:lost-frame": "model:C19:witness-frame-missing",
    "model:C18:client-dropped": "model:C19:witness-dropped",
    "model:C18:device-not-closed": "model:C19:device-not-closed",
    "model:C18:device-not-open": "model:C19:device-not-open",
    "crash:client": "model:C19:witness-process-ended",
}


class WitnessOut:
    """Outcome facade handed to the C18 controller / monitor code: counters pass
    through with a prefix, violation keys are re-keyed to C19, C18's coverage
    signatures are dropped (C19 has its own)."""

    def __init__(self, out, extra_fn):
        self._out = out
        self._extra = extra_fn
        self.sigs = set()
        self.counters = out.counters
        self.inconclusive = out.inconclusive
        self.harness_errors = out.harness_errors
        self.cases = 0
        self.samples = []
        self.violations = out.violations

    def count(self, k, n=1):
        self._out.count("witness_" + k, n)

    def violation(self, key, detail, extra=None):
        if key in WITNESS_KEYS:
            key = WITNESS_KEYS[key]
        elif key.startswith("model:C18:"):
            key = "model:C19:witness:" + key[len("model:C18:"):]
        self._out.violation(key, detail, self._extra())


WITNESS_SERVICES = [(0x41f, 0), (0x3, 1), (0x404, 0), (0x18, 1), (0x7, 2), (0x403, -1)]


class Witnesses(C18Controller):
    """2-3 real client processes in lock-step, driven through the C18 controller's operations"""

    def __init__(self, repo, rig, out, extra_fn, descr):
        C18Controller.__init__(self, repo, {"kind": "c19-witness", "variant": "select", "ops": [], "descr": descr},
                               WitnessOut(out, extra_fn))
        self.rig = rig
        self.real_out = out

    def join(self, n, rng, prio_bg=True):
        for slot in range(n):
            svc, strict = WITNESS_SERVICES[(slot + rng.randrange(len(WITNESS_SERVICES))) % len(WITNESS_SERVICES)]
            self.op_connect({"c": slot, "svc": svc, "strict": strict, "buffers": rng.choice([1, 2, 5]),
                             "scanning": 0, "flags": 0})
            c = self.slots.get(slot)
            if c is None or not c.connected:
                raise AbortSchedule("witness %d could not connect" % slot)
            if prio_bg:
                # background priority without a channel request (is_valid = FALSE), as the API documents it
                self.cmd(c, "chn %d 0 0 0 0" % 1, "chn")

    def tick(self, n=1):
        self.op_tick({"n": n})

    def leave_all(self, rng=None):
        order = sorted(s for s, c in self.slots.items() if c is not None and c.connected and not c.eof)
        if rng:
            rng.shuffle(order)
        for slot in order:
            if self.union() != 0:
                self.tick(1)
            self.op_close({"c": slot})

    def finish_procs(self):
        errs = {}
        for c in self.procs:
            errs[c.name] = c.finish()
        return errs

    def monitor(self):
        """the C18 stream monitors over the witnesses' logs.  C18's "device services = union of the
        clients' services" rule is about all clients; faulty clients hold services too and their
        grants are not always knowable, so that sub-check is neutralised here (the entry takes the
        traced value); completeness and content per witness are what C19 asks for."""
        tr = self.rig.read_trace()
        by_seq = {f["seq"]: f for f in tr["frames"]}
        for e in self.ctl:
            if e["k"] == "tick" and e["seq"] in by_seq:
                e["union"] = by_seq[e["seq"]]["svc"]
        Monitor(self).check()
        self.real_out.count("witness_frames_checked", self.real_out.counters.get("witness_frames_content_equal", 0)
                            - self.real_out.counters.get("_wfc_prev", 0))
        self.real_out.counters["_wfc_prev"] = self.real_out.counters.get("witness_frames_content_equal", 0)


# ============================================================================
# fault batches

class CaseAbort(Exception):
    pass


class FaultBatch:
    def __init__(self, repo, batch, out):
        self.repo = repo
        self.batch = batch
        self.out = out
        self.lay = P.layout(repo)
        self.m = Msgs(self.lay, ioctls(repo))
        self.rig = None
        self.wit = None
        self.case = None
        self.silent = []
        self.rng = random.Random((int(batch["seed"]) << 16) ^ (batch["index"] * 104729 + 7))
        self.tn = self.lay.type_name

    # -- bookkeeping -------------------------------------------------------
    def extra(self):
        b = {k: v for k, v in self.batch.items() if k != "cases"}
        return {"batch": b, "case": self.case}

    def v(self, key, detail):
        c = self.case
        if c is not None:
            detail = "%s | case %s" % (detail, json.dumps(c, sort_keys=True)[:500])
        self.out.violation(key, detail, self.extra())

    # -- building the bytes of a case ---------------------------------------
    def build(self, c):
        """-> (chunks, mtype, fkind): chunks = [(bytes, reply spec or None)]"""
        m, lay = self.m, self.lay
        k = c["kind"]
        if k == "trunc":
            run = protocol_run(m, c["run"])
            cut = c["cut"]
            chunks, off = [], 0
            mtype, part = "END", "complete"
            for tname, b in run:
                if cut >= off + len(b):
                    chunks.append((b, REPLY.get(tname)))
                elif cut > off or (cut == off):
                    if cut > off:
                        chunks.append((b[:cut - off], None))
                    mtype = tname
                    part = "boundary" if cut == off else ("hdr" if cut - off < lay.hdr else ("hdr-only" if cut - off == lay.hdr else "body"))
                    break
                off += len(b)
            if c["mode"] == "pipe":
                chunks = [(b"".join(b for b, _ in chunks), None)] if chunks else []
            return chunks, mtype, "trunc-%s-%s-%s" % (part, c["mode"], c["end"])
        if k == "hdrlen":
            t, L = c["type"], c["len"]
            good = m.valid(t)
            body = good[lay.hdr:]
            want = max(0, min(L - lay.hdr, 8192))
            if L < lay.hdr or L > lay.size["VBIPROXY_MSG"]:
                body = (body + bytes(JUNK))[:max(JUNK, len(body))]      # must never be read
            elif want <= len(body):
                body = body[:want]
            else:
                body = body + bytes(want - len(body))
            v = len(good)
            cls = ("lt-hdr" if L < lay.hdr else "lt-valid" if L < v else "valid" if L == v else
                   "gt-valid" if L <= lay.size["VBIPROXY_MSG"] else "gt-max")
            return [(lay.header(L, lay.type[t]) + body, None)], t, "hdrlen-%s-%s" % (cls, c["end"])
        if k == "type":
            t = c["type"]
            return [(m.any_type(t), None)], (t if isinstance(t, str) else "T%d" % min(t, 99)), "type-%s" % c["end"]
        if k == "field":
            t, f, v = c["type"], c["field"], c["value"]
            over = {}
            vc = None
            if isinstance(v, dict):
                v = bytes.fromhex(v["hex"])
            if isinstance(v, (list, tuple)):
                vc = v[0]
                if v[0] == "ioctl":
                    over = {"request": v[1], "arg_size": v[2], "_arg_len": max(0, min(v[2], 900))}
                elif v[0] == "both":
                    over = {"notify_flags": v[1], "scanning": v[2]}
            elif t == "MSG_TYPE_CONNECT_REQ" and f in ("buffer_count",):
                over = {"buffer_count": v}
            else:
                over = {f: v}
            if t == "MSG_TYPE_CHN_IOCTL_REQ" and f == "arg_size":
                over = {"arg_size": v, "_arg_len": m.get_ioctl[0]["size"]}
            return [(m.valid(t, over), None)], t, "field-%s-%s" % (f, vc or val_class(v))
        if k == "slow":
            data = m.valid(c["type"], c.get("over") or None)
            part = "hdr" if c["cut"] < lay.hdr else ("hdr-only" if c["cut"] == lay.hdr else "body")
            return [(data, None)], c["type"], "slow-%s-t%d" % (part, c["ticks"])
        if k == "congest":
            return [], "SLICED_IND", "congest-%s" % c["end"]
        if k == "junk":
            r = random.Random(c["rseed"])
            return [(bytes(r.getrandbits(8) for _ in range(c["n"])), None)], "JUNK", "junk-%s" % c["end"]
        raise KeyError(k)

    def alive_or_raise(self, what):
        """An end-of-file may be the first sign of a daemon that is just exiting (its sockets close
        before the process can be reaped).  The listening socket closes before any client socket, so a
        fresh probe decides without waiting: it fails iff the daemon is going down."""
        if not self.rig.daemon_alive():
            raise DaemonDied("daemon died during %s (rc=%s)" % (what, self.rig.daemon.returncode))
        self.rig.barrier()

    # -- connection states -----------------------------------------------------
    def rpc(self, c, data, want, async_sink=None):
        """send a complete well-formed message, wait for its reply -> (type name, body) or (None, None) on EOF"""
        if c.send(data) < 0:
            return None, None
        if want is None:
            return "none", b""
        if want == "EOF":
            ty, body = c.recv_msg(want_types=(), keep_other=async_sink if async_sink is not None else [])
            return None, None
        ids = [self.lay.type[w] for w in want]
        ty, body = c.recv_msg(want_types=ids, keep_other=async_sink if async_sink is not None else [])
        if ty is None:
            return None, None
        return self.tn.get(ty, ty), body

    def flush(self, c, rounds=2, sink=None):
        """harmless request/confirm round trips: everything the daemon had queued for this
        connection before has arrived when the last confirm is here (FIFO).  Two rounds, because the
        daemon sends a pending indication only after the reply of the round trip that found it pending."""
        sink = sink if sink is not None else []
        for _ in range(rounds):
            ty, _b = self.rpc(c, self.m.valid("MSG_TYPE_CHN_SUSPEND_REQ"), REPLY["MSG_TYPE_CHN_SUSPEND_REQ"], sink)
            if ty is None:
                return False
        return True

    def enter_state(self, c, st):
        """-> reached state; raises CaseAbort when a well-formed prologue is refused"""
        m = self.m
        if st == "S0":
            return st, None
        svc = 0 if st == "S1" else 0x3
        ty, body = self.rpc(c, m.valid("MSG_TYPE_CONNECT_REQ", {"services": svc, "strict": 0}), REPLY["MSG_TYPE_CONNECT_REQ"])
        if ty != "MSG_TYPE_CONNECT_CNF":
            self.alive_or_raise("a well-formed connect")
            self.v("model:C19:valid-connect-refused", "a well-formed CONNECT_REQ (services 0x%x, strict 0) was answered with %s"
                   % (svc, ty or "end-of-file"))
            raise CaseAbort()
        if st in ("S1", "S2"):
            return st, None
        ty, body = self.rpc(c, m.valid("MSG_TYPE_CHN_TOKEN_REQ", {"chn_profile.sub_prio": 0x20}), REPLY["MSG_TYPE_CHN_TOKEN_REQ"])
        if ty is None:
            raise CaseAbort()
        if not self.lay.get(body, "chn_token_cnf.token_ind"):
            self.out.count("state_S3_without_token")
            return "S3", None
        if st == "S3":
            return st, None
        # S4: a second client with a better sub-priority asks; the daemon reclaims the token from c
        h = self.rig.named_conn("h")
        ty, _b = self.rpc(h, m.valid("MSG_TYPE_CONNECT_REQ", {"services": 0, "strict": 0}), REPLY["MSG_TYPE_CONNECT_REQ"])
        if ty == "MSG_TYPE_CONNECT_CNF":
            self.rpc(h, m.valid("MSG_TYPE_CHN_TOKEN_REQ", {"chn_profile.sub_prio": 0x40}), REPLY["MSG_TYPE_CHN_TOKEN_REQ"])
        sink = []
        self.flush(c, 2, sink)
        rec = any(ty == self.lay.type["MSG_TYPE_CHN_RECLAIM_REQ"] for ty, _ in sink)
        if not rec:
            self.out.count("state_S4_without_reclaim")
        return ("S4" if rec else "S3"), h

    # -- one case ------------------------------------------------------------------
    def run_case(self, case):
        out, rig = self.out, self.rig
        self.case = case
        chunks, mtype, fkind = self.build(case)
        if case["state"] in ("S3", "S4") and self.silent:
            # a connection that never asked for a priority counts as "interactive" and keeps the
            # daemon from granting the token to background clients: let the silent ones go first
            for s in self.silent:
                s.close()
            self.silent = []
            rig.barrier()
        c = rig.named_conn("f")
        helper = None
        try:
            st, helper = self.enter_state(c, case["state"])
            dropped_early = False
            if case["kind"] == "slow":
                self.run_slow(c, case, chunks[0][0], st)
                chunks = []
            if case["kind"] == "congest" and self.wit is not None:
                try:
                    c.s.setsockopt(socket.SOL_SOCKET, socket.SO_RCVBUF, 2048)
                except OSError:
                    pass
                for _ in range(case["frames"]):
                    self.wit.tick(1)            # the witnesses read in lock-step, this client never does
                out.count("congestion_frames", case["frames"])
                out.count("congested_subscribers")
            for data, want in chunks:
                if want is None:
                    if c.send(data) < 0:
                        dropped_early = True
                        break
                else:
                    ty, _b = self.rpc(c, data, want)
                    if ty is None:
                        dropped_early = True
                        if want != "EOF":
                            out.count("valid_prefix_dropped")
                        break
            end = case.get("end", "close")
            if end == "close":
                c.close()
            elif end == "halfclose":
                try:
                    c.s.shutdown(1)
                except OSError:
                    pass
            rig.barrier()
            got = [] if end == "close" else c.poll()
            if end == "halfclose":
                c.close()
                rig.barrier()
            elif end == "silent":
                if c.eof:
                    c.close()
                else:
                    self.silent.append(c)
            if end == "close":
                outcome = "x"
            elif c.eof:
                outcome = "dropped"
            elif any(ty != self.lay.type["MSG_TYPE_SLICED_IND"] for ty, _ in got):
                outcome = "answered"
            else:
                outcome = "kept"
        except CaseAbort:
            c.close()
            st, outcome = case["state"], "abort"
        finally:
            if helper is not None:
                helper.close()
        if helper is not None:
            rig.barrier()
        while len(self.silent) > MAX_SILENT:
            self.silent.pop(0).close()
            rig.barrier()
        mt = short(mtype)
        out.sigs.add("%s:%s:%s:%s:%s" % ("solo" if case.get("solo") else "wit", st, mt, fkind, outcome))
        out.count("faulty_connections")
        out.count("faulty_by_state:" + st)
        out.count("faulty_by_type:" + mt)
        out.count("faulty_by_kind:" + case["kind"])
        out.count("faulty_by_end:" + case.get("end", "close"))
        if case["kind"] == "trunc":
            out.count("truncation_points")
        elif case["kind"] == "hdrlen":
            out.count("header_lengths")
        elif case["kind"] == "type":
            out.count("type_state_pairs")
        elif case["kind"] == "field":
            out.count("field_extremes")
        if outcome != "x":
            out.count("connection_%s_by_daemon" % outcome)
        self.after_case()

    def run_slow(self, c, case, data, st):
        """first part of a well-formed request, frames, the rest: the request must be answered (or the connection
        dropped - the statement allows that for any client), and a subscriber must go on receiving frames"""
        out, rig, lay = self.out, self.rig, self.lay
        prop = self.batch.get("prop", "C19")
        cut = case["cut"]
        if c.send(data[:cut]) < 0:
            return
        rig.barrier()
        for _ in range(case["ticks"]):
            if self.wit is not None:
                self.wit.tick(1)
            else:
                rig.tick(1)
                rig.barrier()
        self.alive_or_raise("frames captured while a request was half written")
        if c.send(data[cut:]) < 0:
            out.count("slow_request_connection_dropped")
            return
        want = REPLY.get(case["type"])
        ids = [lay.type[w] for w in want]
        # no waiting on the clock: after two barriers the daemon's main loop has served this socket at least twice
        # since the last byte arrived, so the reply (or the end-of-file) is in the socket now or will never be
        ty, body, got_reply = None, None, False
        for _ in range(3):
            rig.barrier()
            for (t2, b2) in c.poll():
                if t2 in ids and not got_reply:
                    ty, body, got_reply = t2, b2, True
            if got_reply or c.eof:
                break
        if not got_reply and not c.eof:
            self.alive_or_raise("waiting for the reply to a slowly written request")
            self.v("model:%s:slow-request-not-answered" % prop,
                   "a well-formed %s written in two pieces (%d + %d bytes) with %d frame(s) captured in between was neither answered "
                   "nor the connection closed (state %s)" % (short(case["type"]), cut, len(data) - cut, case["ticks"], st))
            raise CaseAbort()
        out.count("slow_requests")
        if not got_reply:
            self.alive_or_raise("a slowly written request")
            out.count("slow_request_connection_dropped")
            return
        out.count("slow_requests_answered")
        # still subscribed?  (not after a request that gave all services up, not without services)
        over = case.get("over") or {}
        subscribed = st == "S2" and not (case["type"] == "MSG_TYPE_SERVICE_REQ" and over.get("reset") and not over.get("services"))
        if subscribed and lay.type.get("MSG_TYPE_SLICED_IND") is not None:
            c.poll()
            before = sum(1 for ty2, _ in c.msgs if ty2 == lay.type["MSG_TYPE_SLICED_IND"])
            for _ in range(2):
                if self.wit is not None:
                    self.wit.tick(1)
                else:
                    rig.tick(1)
                    rig.barrier()
            rig.barrier()
            c.poll()
            after = sum(1 for ty2, _ in c.msgs if ty2 == lay.type["MSG_TYPE_SLICED_IND"])
            out.count("slow_request_frames_expected", 2)
            out.count("slow_request_frames_received", after - before)
            if after - before != 2 and not c.eof:
                self.v("model:%s:slow-writer-frames" % prop,
                       "after its slowly written %s was answered the subscriber received %d frame(s) for 2 captured (state %s, cut %d)"
                       % (short(case["type"]), after - before, st, cut))

    def after_case(self):
        out, rig = self.out, self.rig
        # 1. alive, sanitizer-silent
        if not rig.daemon_alive():
            raise DaemonDied("daemon is gone (rc=%s)" % rig.daemon.returncode)
        out.count("daemon_alive_checks")
        new = rig.stderr_new()
        if new:
            for k, d in classify_sanitizer(new, self.repo, out.counters):
                self.v(k, "daemon: " + d)
        # 2. resources: exactly the connections that are still open are held
        for s in list(self.silent):
            s.poll()
            if s.eof:
                s.close()
                self.silent.remove(s)
        want = self.baseline + len(self.silent)
        have = rig.daemon_fds()
        for _ in range(3):
            if have == want or have < 0:
                break
            rig.barrier()
            for s in list(self.silent):
                s.poll()
                if s.eof:
                    s.close()
                    self.silent.remove(s)
            want = self.baseline + len(self.silent)
            have = rig.daemon_fds()
        out.count("fd_checks")
        if have >= 0 and have != want:
            self.v("model:C19:fd-leak", "daemon holds %d sockets+pipes, expected %d (baseline %d + %d faulty connections still open): %s"
                   % (have, want, self.baseline, len(self.silent), rig.fd_profile()[2]))
            self.baseline += have - want            # report once, not for every following case
        if self.wit is None:
            if not self.silent and rig.device_open_count() != 0:
                self.v("model:C19:device-not-closed", "no client is connected but the capture device is still open (opens=%d closes=%d)"
                       % (rig.tr_opens, rig.tr_closes))
        else:
            # 3. the witnesses keep receiving: one frame, lock-step
            self.wit.tick(1)

    # -- one daemon life ---------------------------------------------------------------
    def segment(self, cases, pos):
        out = self.out
        self.rig = rig = C19Rig(self.repo, tag="c19f")
        self.silent = []
        self.wit = None
        died = None
        nw = self.batch.get("witnesses", 0)
        try:
            try:
                rig.start()
                self.fd0 = rig.daemon_fds()
                out.count("daemon_starts")
                if nw:
                    self.wit = Witnesses(self.repo, rig, out, self.extra, "fault batch %s/%s" % (self.batch["seed"], self.batch["index"]))
                    self.wit.join(nw, self.rng)
                    self.wit.tick(3)
                rig.barrier()
                self.baseline = rig.daemon_fds()
                while pos < len(cases):
                    case = cases[pos]
                    pos += 1
                    self.run_case(case)
                self.case = None
                # epilogue: faulty clients are gone -> resources back to the baseline
                for s in self.silent:
                    s.close()
                self.silent = []
                rig.barrier()
                self.after_case()
                if self.wit is not None:
                    self.wit.tick(2)
                    self.wit.leave_all(self.rng)
                    rig.barrier()
                if rig.device_open_count() != 0:
                    self.v("model:C19:device-not-closed", "all clients have left but the capture device is still open (opens=%d closes=%d)"
                           % (rig.tr_opens, rig.tr_closes))
                have = rig.daemon_fds()
                if have >= 0 and have != self.fd0:
                    rig.barrier()
                    have = rig.daemon_fds()
                out.count("fd_checks")
                if have >= 0 and have != self.fd0:
                    self.v("model:C19:fd-leak", "after the last client left the daemon holds %d sockets+pipes, %d at start-up: %s"
                           % (have, self.fd0, rig.fd_profile()[2]))
            except DaemonDied as e:
                died = str(e)
            except (AbortSchedule, ClientGone) as e:
                if not rig.daemon_alive():
                    died = str(e)
                else:
                    out.inconclusive.append("C19 fault batch %s/%s: %s" % (self.batch["seed"], self.batch["index"], e))
                    pos = len(cases)
            except Inconclusive as e:
                if not rig.daemon_alive():
                    died = str(e)
                else:
                    out.inconclusive.append("C19 fault batch %s/%s case %s: %s"
                                            % (self.batch["seed"], self.batch["index"], (self.case or {}).get("id"), e))
                    pos = len(cases)
            self.finish(died)
        finally:
            rig.close()
        return pos

    def finish(self, died):
        out, rig = self.out, self.rig
        errs = self.wit.finish_procs() if self.wit is not None else {}
        was_alive = rig.daemon_alive()
        rc = rig.stop_daemon()
        text = rig.daemon_stderr()
        found = classify_sanitizer(text, self.repo, out.counters)
        for k, d in found:
            self.v(k, "daemon: " + d)
        if died is not None or not was_alive:
            out.count("daemon_deaths")
            if not found:
                self.v("model:C19:daemon-died", "the daemon process ended (rc=%s) while serving: %s; stderr tail: %s"
                       % (rig.daemon.returncode, died, text[-500:].replace("\n", " / ")))
        elif not found:
            if rc is None:
                out.inconclusive.append("daemon did not exit on SIGTERM within the watchdog")
            elif rc != 0:
                self.v("model:C19:daemon-exit-status", "daemon exit status %s after SIGTERM; stderr tail: %s"
                       % (rc, text[-500:].replace("\n", " / ")))
        for name, t in errs.items():
            for k, d in classify_sanitizer(t, self.repo, out.counters, ignore_startup_leak=False):
                if k.startswith("leak:"):
                    out.count("client_library_leak_reports")
                    continue
                if died is not None:
                    continue
                self.v("witness:" + k, "witness %s: %s" % (name, d))
        if self.wit is not None and died is None:
            self.wit.monitor()

    def run(self):
        cases = self.batch["cases"]
        self.out.cases += 1
        pos = 0
        guard = 0
        while pos < len(cases) and guard < 60:
            guard += 1
            pos = self.segment(cases, pos)
        if pos < len(cases):
            self.out.inconclusive.append("C19 fault batch %s/%s: daemon died %d times, %d cases not run"
                                         % (self.batch["seed"], self.batch["index"], guard, len(cases) - pos))
        return self.out


def run_fault_batch(repo, batch):
    out = Outcome()
    try:
        FaultBatch(repo, batch, out).run()
    except Exception as e:
        import traceback
        out.harness_errors.append("C19 fault controller: %s\n%s" % (e, traceback.format_exc()[-1500:]))
    out.counters.pop("_wfc_prev", None)
    if not out.samples:
        cs = batch["cases"]
        out.samples.append({"batch": "%s/%s" % (batch["seed"], batch["index"]), "witnesses": batch.get("witnesses", 0),
                            "cases": len(cs), "first_cases": cs[:3]})
    return out.to_json()


# ============================================================================
# token monitor (pure function over the totally ordered controller log)
#
# log entries: {"e": kind, "c": client id, ...}
#   send-req   valid=0/1      a TOKEN_REQ goes out (gives up a token held: the client library does the same)
#   send-notify flags=n       a NOTIFY_REQ goes out (TOKEN: token returned, RELEASE: request revoked + token returned)
#   send-cnf                  a RECLAIM_CNF goes out
#   conf                      the daemon has processed the client's last send (its confirm, or a later round trip, is here)
#   grant      via=cnf|ind    TOKEN_CNF with token_ind / TOKEN_IND received
#   reclaim                   RECLAIM_REQ received
#   gone                      the client closed the connection / was dropped
# Soundness without timing assumptions: sends are logged before they are made and receptions
# after they happened, so a holding interval in the log is contained in the real one; a grant
# that arrives between a send and its "conf" was emitted by the daemon before it processed that
# send (FIFO) and is cancelled by it.

def token_monitor(log):
    """-> (violations [(key, detail)], stats)"""
    st = {}
    viol = []
    stats = {"grants": 0, "void_grants": 0, "holder_checks": 0, "reclaims": 0}

    def S(c):
        if c not in st:
            st[c] = {"holds": False, "reclaimed": False, "asked": False, "pending": None}
        return st[c]

    def ctx(i):
        return " | log: " + "; ".join("%s:%s%s" % (x["c"], x["e"], ("(%s)" % ",".join("%s=%s" % (k, v) for k, v in x.items() if k not in ("e", "c"))) if len(x) > 2 else "")
                                       for x in log[max(0, i - 14):i + 1])

    for i, x in enumerate(log):
        e, c = x["e"], x["c"]
        s = S(c)
        if e == "send-req":
            s["holds"] = False
            s["reclaimed"] = False
            s["pending"] = ("req", x.get("valid", 0))
            if x.get("valid", 0):
                s["asked"] = True
        elif e == "send-notify":
            fl = x.get("flags", 0)
            if fl & 1:
                s["holds"] = False
                s["reclaimed"] = False
                s["pending"] = ("rel",)
            elif fl & 2:
                s["holds"] = False
                s["reclaimed"] = False
                s["pending"] = ("ret",)
            else:
                s["pending"] = ("other",)
        elif e == "send-cnf":
            if s["reclaimed"]:
                s["holds"] = False
                s["reclaimed"] = False
                s["pending"] = ("other",)
            else:
                s["pending"] = ("cnf",)
        elif e == "reclaim":
            stats["reclaims"] += 1
            s["reclaimed"] = True
        elif e == "conf":
            p, s["pending"] = s["pending"], None
            if p:
                if p[0] == "req" and not p[1]:
                    s["asked"] = False
                elif p[0] == "rel":
                    s["asked"] = False
                elif p[0] == "cnf" and s["reclaimed"]:
                    # the reclaim crossed the confirm on the wire: the daemon may have taken it
                    s["holds"] = False
                    s["reclaimed"] = False
        elif e == "gone":
            s["holds"] = False
            s["asked"] = False
            s["pending"] = None
            s["reclaimed"] = False
        elif e == "grant":
            p = s["pending"]
            if x.get("via") == "ind" and p and p[0] in ("req", "ret", "rel"):
                stats["void_grants"] += 1
                continue
            stats["grants"] += 1
            stats["holder_checks"] += 1
            others = sorted(k for k, v in st.items() if k != c and v["holds"])
            if others:
                viol.append(("model:C19:two-token-holders",
                             "client %s is granted the token while %s still hold(s) it (not returned, released, "
                             "reclaim-confirmed or disconnected)" % (c, ",".join(others)) + ctx(i)))
            asked = s["asked"] or (x.get("via") == "cnf" and p and p[0] == "req" and p[1])
            if not asked:
                viol.append(("model:C19:grant-without-request",
                             "client %s is granted the token without an outstanding channel request" % c + ctx(i)))
            s["holds"] = True
            s["reclaimed"] = False
    return viol, stats


HOLDER_STATES = (1, 2, 4)       # REQ_TOKEN_RECLAIM, _RELEASE, _GRANTED: granted and not yet given back
TOKEN_NAMES = {0: "NONE", 1: "RECLAIM", 2: "RELEASE", 3: "GRANT", 4: "GRANTED", 5: "RETURNED"}


def table_monitor(events, bg_prio):
    """the daemon's own view (hook H1, client table at the end of main loop iterations)"""
    viol, trans = [], set()
    last = {}
    n = 0
    for kind, d in events:
        if kind != "L":
            continue
        n += 1
        holders = [c for c in d["clients"] if c["tok"] in HOLDER_STATES]
        if len(holders) > 1:
            viol.append(("model:C19:two-token-holders:daemon-state",
                         "client table at main loop iteration %s: %s" % (d.get("it"), ", ".join(
                             "%s(fd %d)=%s" % (c["peer"], c["fd"], TOKEN_NAMES.get(c["tok"], c["tok"])) for c in holders))))
        now = {}
        for c in d["clients"]:
            if c["tok"] in (3, 4) and not (c["valid"] and c["prio"] == bg_prio):
                viol.append(("model:C19:grant-without-request:daemon-state",
                             "client table at iteration %s: %s(fd %d) is in token state %s with priority %d, profile valid %d"
                             % (d.get("it"), c["peer"], c["fd"], TOKEN_NAMES.get(c["tok"]), c["prio"], c["valid"])))
            k = (c["fd"], c["pid"], c["peer"])
            now[k] = c["tok"]
            if k in last and last[k] != c["tok"]:
                trans.add("%s>%s" % (TOKEN_NAMES.get(last[k], last[k]), TOKEN_NAMES.get(c["tok"], c["tok"])))
        last = now
    return viol, trans, n


def selftest():
    """hand-written logs with known verdicts -> list of failures"""
    bad = []

    def run(name, log, want):
        got = sorted(set(k for k, _ in token_monitor(log)[0]))
        if got != sorted(want):
            bad.append("%s: expected %s, monitor says %s" % (name, want, got))
    A, B = "a", "b"
    req = lambda c, v=1: [{"e": "send-req", "c": c, "valid": v}]
    cnfg = lambda c: [{"e": "grant", "c": c, "via": "cnf"}, {"e": "conf", "c": c}]
    cnf0 = lambda c: [{"e": "conf", "c": c}]
    ind = lambda c: [{"e": "grant", "c": c, "via": "ind"}]
    ret = lambda c: [{"e": "send-notify", "c": c, "flags": 2}]
    rel = lambda c: [{"e": "send-notify", "c": c, "flags": 1}]
    run("hand-over after return", req(A) + cnfg(A) + req(B) + cnf0(B) + [{"e": "reclaim", "c": A}] + ret(A) + cnf0(A) + ind(B), [])
    run("second grant while held", req(A) + cnfg(A) + req(B) + cnfg(B), ["model:C19:two-token-holders"])
    run("indication while held", req(A) + cnfg(A) + req(B) + cnf0(B) + ind(B), ["model:C19:two-token-holders"])
    run("grant crossing a return is void", req(A) + cnfg(A) + ret(A) + ind(A) + cnf0(A) + req(B) + cnfg(B), [])
    run("grant after the return was confirmed counts", req(A) + cnfg(A) + ret(A) + cnf0(A) + ind(A) + req(B) + cnfg(B),
        ["model:C19:two-token-holders"])
    run("never asked", req(A, 0) + cnf0(A) + ind(A), ["model:C19:grant-without-request"])
    run("asked, released, granted", req(A) + cnf0(A) + rel(A) + cnf0(A) + ind(A), ["model:C19:grant-without-request"])
    run("released with a grant in flight", req(A) + cnf0(A) + rel(A) + ind(A) + cnf0(A), [])
    run("unasked confirm does not end the hold", req(A) + cnfg(A) + [{"e": "send-cnf", "c": A}] + cnf0(A) + req(B) + cnf0(B) + ind(B),
        ["model:C19:two-token-holders"])
    run("asked confirm ends the hold", req(A) + cnfg(A) + req(B) + cnf0(B) + [{"e": "reclaim", "c": A}, {"e": "send-cnf", "c": A}]
        + cnf0(A) + ind(B), [])
    run("reclaim crossing an unasked confirm", req(A) + cnfg(A) + [{"e": "send-cnf", "c": A}, {"e": "reclaim", "c": A}] + cnf0(A)
        + req(B) + cnfg(B), [])
    run("disconnect ends the hold", req(A) + cnfg(A) + [{"e": "gone", "c": A}] + req(B) + cnfg(B), [])
    run("re-request gives the token up", req(A) + cnfg(A) + req(A) + cnf0(A) + req(B) + cnfg(B), [])
    run("same client granted twice", req(A) + cnfg(A) + [{"e": "reclaim", "c": A}] + ind(A), [])
    tv, tt, _n = table_monitor([("L", {"it": 1, "clients": [{"fd": 5, "pid": 1, "peer": "x", "tok": 4, "prio": 1, "valid": 1},
                                                           {"fd": 6, "pid": 1, "peer": "y", "tok": 2, "prio": 1, "valid": 1}]})], 1)
    if [k for k, _ in tv] != ["model:C19:two-token-holders:daemon-state"]:
        bad.append("table monitor: two holders not reported: %r" % (tv,))
    tv, tt, _n = table_monitor([("L", {"it": 1, "clients": [{"fd": 5, "pid": 1, "peer": "x", "tok": 5, "prio": 1, "valid": 1},
                                                           {"fd": 6, "pid": 1, "peer": "y", "tok": 3, "prio": 1, "valid": 1}]}),
                                ("L", {"it": 2, "clients": [{"fd": 5, "pid": 1, "peer": "x", "tok": 0, "prio": 1, "valid": 1},
                                                           {"fd": 6, "pid": 1, "peer": "y", "tok": 4, "prio": 1, "valid": 1}]})], 1)
    if tv or tt != {"RETURNED>NONE", "GRANT>GRANTED"}:
        bad.append("table monitor: clean hand-over misjudged: %r %r" % (tv, tt))
    return bad


# ============================================================================
# token schedules

POLICIES = ["cnf", "cnf", "ret", "ret", "rel", "ignore", "ignore", "late"]


def gen_token_schedule(seed, index, tier):
    """pure function of (seed, index, tier); the controller skips operations that are impossible when their turn comes"""
    rng = random.Random((int(seed) << 24) ^ (index * 6151 + 0xC19))
    quick = tier == "quick"
    nw = (0, 1, 1, 2)[index % 4]
    nt = rng.randint(2, 5)
    nops = rng.randint(30, 60) if quick else rng.randint(60, 160)
    ops = []
    BG, IA, REC = 1, 2, 3

    def profile(prio=None, valid=None):
        return {"prio": prio if prio is not None else rng.choice([BG] * 14 + [IA, REC, 0]),
                "valid": valid if valid is not None else rng.choice([1, 1, 1, 1, 0]),
                "sub": rng.choice([0, 0x10, 0x10, 0x20, 0x30, 0x40, 0xff]),
                "min": rng.choice([0, 0, 0, 3600, 3600, 1, -1]), "exp": rng.choice([0, 60, -1]),
                "susp": rng.choice([0, 1])}

    for w in range(nw):
        ops.append({"op": "wconnect", "w": w, "svc": rng.choice([0x41f, 0x3, 0x404]), "strict": rng.choice([0, 1]),
                    "bg": 1 if rng.random() < 0.85 else 0})
    for c in range(nt):
        ops.append({"op": "connect", "c": c, "svc": rng.choice([0, 0, 0x4, 0x3]) if nw else rng.choice([0x4, 0x3, 0]),
                    "policy": rng.choice(POLICIES), "bg": 1 if rng.random() < 0.93 else 0})
    if nw:
        ops.append({"op": "tick", "n": 2})

    # directed opening: A gets the token, B asks with a better claim, A does one of the things a holder can do
    a, b = rng.sample(range(nt), 2)
    how = index % 10
    pa = dict(profile(BG, 1), sub=0x10, min=rng.choice([0, 3600]))
    pb = dict(profile(BG, 1), sub=rng.choice([0x10, 0x20, 0x40]), min=rng.choice([0, 3600]))
    if how in (0, 9):
        # B has the same claim and has to wait: whatever A does now, it was not asked to
        pa["min"], pb["sub"] = 3600, 0x10
    ops.append(dict({"op": "req", "c": a}, **pa))
    ops.append(dict({"op": "req", "c": b}, **pb))
    if how == 0:
        ops.append({"op": "cnf", "c": a})                      # confirm (asked or not)
    elif how == 1:
        ops.append({"op": "notify", "c": a, "flags": 2})       # return
    elif how == 2:
        ops.append({"op": "notify", "c": a, "flags": 1})       # release
    elif how == 3:
        ops.append({"op": rng.choice(["close", "drop"]), "c": a})   # disconnect while holding
    elif how == 4:
        ops.append(dict({"op": "req", "c": a}, **profile(BG, 1)))   # ask again
    elif how == 5:
        ops.append({"op": "notify", "c": b, "flags": 2})       # the one who waits "returns" a token it does not have
    elif how == 6:
        ops.append({"op": "cnf", "c": b})                      # the one who waits confirms a reclaim nobody sent
    elif how == 7:
        ops.append({"op": "intruder"})                          # a connection that never asks for a priority
    elif how == 8:
        ops.append({"op": "notify", "c": a, "flags": 4})       # channel flush by the holder
    elif how == 9:
        ops.append({"op": "notify", "c": a, "flags": rng.choice([0, 8, 16])})   # harmless notifications by the holder
        ops.append({"op": "cnf", "c": a})
    ops.append({"op": "react"})
    if nw:
        ops.append({"op": "tick", "n": 1})

    w = dict(req=22, ret=10, rel=6, flush=4, notify=4, cnf=9, close=3, drop=4, connect=7, tick=8 if nw else 0,
             wreq=5 if nw else 0, wnotify=4 if nw else 0, react=8, intruder=3)
    names = list(w)
    weights = [w[k] for k in names]
    for _ in range(nops):
        k = rng.choices(names, weights)[0]
        c = rng.randrange(nt)
        if k == "req":
            ops.append(dict({"op": "req", "c": c}, **profile()))
        elif k == "ret":
            ops.append({"op": "notify", "c": c, "flags": 2})
        elif k == "rel":
            ops.append({"op": "notify", "c": c, "flags": 1})
        elif k == "flush":
            ops.append({"op": "notify", "c": c, "flags": rng.choice([4, 4, 6, 5, 12])})
        elif k == "notify":
            ops.append({"op": "notify", "c": c, "flags": rng.choice([0, 3, 7, 8, 16, 31, 18, 0xffffffff])})
        elif k == "cnf":
            ops.append({"op": "cnf", "c": c})
        elif k in ("close", "drop"):
            ops.append({"op": k, "c": c})
        elif k == "connect":
            ops.append({"op": "connect", "c": c, "svc": rng.choice([0, 0, 0x4, 0x3]), "policy": rng.choice(POLICIES),
                        "bg": 1 if rng.random() < 0.9 else 0})
        elif k == "tick":
            ops.append({"op": "tick", "n": rng.randint(1, 3)})
        elif k == "wreq":
            ops.append(dict({"op": "wreq", "w": rng.randrange(nw)}, **profile(rng.choice([BG, BG, BG, IA]))))
        elif k == "wnotify":
            ops.append({"op": "wnotify", "w": rng.randrange(nw), "flags": rng.choice([2, 2, 1, 4])})
        elif k == "react":
            ops.append({"op": "react"})
        elif k == "intruder":
            ops.append({"op": "intruder"})
    ops.append({"op": "react"})
    return {"kind": "token", "seed": seed, "index": index, "tier": tier, "nw": nw, "nt": nt, "ops": ops}


class Tok:
    """a token client as the controller sees it (raw connection or witness process)"""

    def __init__(self, cid, conn=None, proc=None, policy="late"):
        self.cid, self.conn, self.proc, self.policy = cid, conn, proc, policy
        self.alive = True
        self.unanswered = False      # a RECLAIM_REQ is waiting for a reaction
        self.holds = False           # controller's running guess (for schedule decisions and signatures only)
        self.seen = 0                # witness events already absorbed


class TokenRun(FaultBatch):
    def __init__(self, repo, sched, out):
        FaultBatch.__init__(self, repo, {"kind": "token", "seed": sched["seed"], "tier": sched["tier"], "index": sched["index"],
                                         "witnesses": sched["nw"], "cases": []}, out)
        self.sched = sched
        self.log = []
        self.toks = {}               # slot -> Tok (raw)
        self.wtoks = {}              # witness slot -> Tok
        self.gen = 0
        self.events_of_op = []

    def extra(self):
        return {"schedule": self.sched}

    def v(self, key, detail):
        self.out.violation(key, detail, self.extra())

    # -- log ----------------------------------------------------------------
    def L(self, e, t, **kw):
        kw["e"] = e
        kw["c"] = t.cid
        self.log.append(kw)
        self.events_of_op.append((e, t.cid))
        if e == "grant":
            t.holds = True
            self.out.count("token_grants_seen")
        elif e == "reclaim":
            t.unanswered = True
            self.out.count("token_reclaims_seen")
        elif e == "gone":
            t.alive = False
            t.holds = False
            t.unanswered = False

    # -- raw token clients -------------------------------------------------------
    def absorb(self, t, msgs):
        ty_ind, ty_rec = self.lay.type["MSG_TYPE_CHN_TOKEN_IND"], self.lay.type["MSG_TYPE_CHN_RECLAIM_REQ"]
        for ty, body in msgs:
            if ty == ty_ind:
                self.L("grant", t, via="ind")
            elif ty == ty_rec:
                self.L("reclaim", t)
            elif ty == self.lay.type["MSG_TYPE_CHN_CHANGE_IND"]:
                self.out.count("token_change_indications")
            elif ty == self.lay.type["MSG_TYPE_SLICED_IND"]:
                self.out.count("token_client_frames")
            else:
                self.out.count("token_other_messages")

    def t_rpc(self, t, data, want):
        """send on a raw token client, absorb what arrives before the reply -> (type name, body)"""
        sink = []
        ty, body = self.rpc(t.conn, data, want, sink)
        self.absorb(t, sink)
        if ty is None:
            self.alive_or_raise("a token operation")
            if t.alive:
                self.L("gone", t)
                self.out.count("token_clients_dropped_by_daemon")
                t.conn.close()
        return ty, body

    def t_flush(self, t, rounds=2):
        for _ in range(rounds):
            if not t.alive:
                return
            self.t_rpc(t, self.m.valid("MSG_TYPE_CHN_SUSPEND_REQ"), REPLY["MSG_TYPE_CHN_SUSPEND_REQ"])

    # -- witnesses as token clients -------------------------------------------------
    def w_absorb(self, t):
        c = t.proc
        evs = c.events[t.seen:]
        t.seen = len(c.events)
        for ev in evs:
            k = ev.get("ev")
            if k == "callback":
                if ev.get("granted"):
                    self.L("grant", t, via="ind")
                if ev.get("reclaimed"):
                    self.L("reclaim", t)
            elif k == "chn":
                if ev.get("has_token") == 1 and ev.get("ret") == 1:
                    self.L("grant", t, via="cnf")
                self.L("conf", t)
            elif k == "notify":
                self.L("conf", t)
            elif k in ("error", "closed"):
                if t.alive:
                    self.L("gone", t)

    def w_cmd(self, t, line, ack):
        self.wit.cmd(t.proc, line, ack)
        self.w_absorb(t)

    # -- quiescence ------------------------------------------------------------------
    def settle(self):
        """every indication the daemon has decided on is with its client (and in the log)"""
        for t in list(self.toks.values()):
            if t.alive:
                self.t_flush(t)
        if self.wtoks:
            self.rig.barrier()
            for t in self.wtoks.values():
                if t.alive and not t.proc.eof and t.proc.connected:
                    self.w_cmd(t, "drain", "drained")
                else:
                    self.w_absorb(t)

    def react(self, explicit=False):
        for _round in range(6):
            todo = [t for t in list(self.toks.values()) + list(self.wtoks.values()) if t.alive and t.unanswered]
            did = False
            for t in todo:
                pol = t.policy
                if pol == "late" and not explicit:
                    continue
                if pol == "ignore":
                    t.unanswered = False
                    self.out.count("token_ops:ignored_reclaim")
                    continue
                t.unanswered = False
                did = True
                if t.proc is not None:
                    self.do_wnotify(t, 1 if pol == "rel" else 2)
                elif pol in ("cnf", "late"):
                    self.do_cnf(t)
                else:
                    self.do_notify(t, 1 if pol == "rel" else 2)
            if not did:
                break
            self.settle()

    # -- operations ----------------------------------------------------------------------
    def do_req(self, t, op):
        m = self.m
        self.L("send-req", t, valid=1 if op["valid"] else 0)
        t.holds = False
        ty, body = self.t_rpc(t, m.valid("MSG_TYPE_CHN_TOKEN_REQ", {
            "chn_prio": op["prio"], "chn_profile.is_valid": op["valid"], "chn_profile.sub_prio": op["sub"],
            "chn_profile.allow_suspend": op["susp"], "chn_profile.min_duration": op["min"],
            "chn_profile.exp_duration": op["exp"]}), REPLY["MSG_TYPE_CHN_TOKEN_REQ"])
        if ty is None:
            return
        if self.lay.get(body, "chn_token_cnf.token_ind"):
            self.L("grant", t, via="cnf")
        self.L("conf", t)

    def do_notify(self, t, flags):
        if flags & 3:
            if not t.holds:
                self.out.count("token_ops:return_not_held")
            t.holds = False
            t.unanswered = False
        self.L("send-notify", t, flags=flags & 0xff)
        ty, _b = self.t_rpc(t, self.m.valid("MSG_TYPE_CHN_NOTIFY_REQ", {"notify_flags": flags}), REPLY["MSG_TYPE_CHN_NOTIFY_REQ"])
        if ty is not None:
            self.L("conf", t)

    def do_cnf(self, t):
        if not t.unanswered and not any(x["e"] == "reclaim" and x["c"] == t.cid for x in self.log[-40:]):
            self.out.count("token_ops:unsolicited_cnf")
        t.unanswered = False
        self.L("send-cnf", t)
        if t.conn.send(self.m.valid("MSG_TYPE_CHN_RECLAIM_CNF")) < 0:
            self.L("gone", t)
            return
        # no reply to a confirm: a harmless round trip tells when it has been processed
        ty, _b = self.t_rpc(t, self.m.valid("MSG_TYPE_CHN_SUSPEND_REQ"), REPLY["MSG_TYPE_CHN_SUSPEND_REQ"])
        if ty is not None:
            self.L("conf", t)
            # the controller's guess follows the monitor's rule only roughly; it is not used for verdicts
            t.holds = False

    def do_wnotify(self, t, flags):
        if flags & 3:
            t.holds = False
            t.unanswered = False
        self.L("send-notify", t, flags=flags)
        self.w_cmd(t, "notify %x 0" % flags, "notify")

    def op_connect(self, op):
        slot = op["c"]
        old = self.toks.get(slot)
        if old is not None and old.alive:
            return
        self.gen += 1
        conn = self.rig.named_conn("t%d." % slot)
        t = Tok("t%d.%d" % (slot, self.gen), conn=conn, policy=op.get("policy", "late"))
        t.peer = conn.peer
        ty, body = self.rpc(conn, self.m.valid("MSG_TYPE_CONNECT_REQ", {"services": op.get("svc", 0), "strict": 0}),
                            REPLY["MSG_TYPE_CONNECT_REQ"])
        if ty != "MSG_TYPE_CONNECT_CNF":
            self.alive_or_raise("a well-formed connect")
            self.v("model:C19:valid-connect-refused", "token client %s: a well-formed CONNECT_REQ (services 0x%x) was answered with %s"
                   % (t.cid, op.get("svc", 0), ty or "end-of-file"))
            conn.close()
            return
        self.toks[slot] = t
        self.out.count("token_ops:connect")
        if op.get("bg"):
            # background priority without a channel request: otherwise the newcomer counts as interactive
            # and the daemon grants the token to nobody
            self.do_req(t, {"prio": self.m.BG, "valid": 0, "sub": 0, "susp": 0, "min": 0, "exp": 0})

    def op_wconnect(self, op):
        slot = op["w"]
        self.wit.op_connect({"c": slot, "svc": op["svc"], "strict": op["strict"], "buffers": 2, "scanning": 0, "flags": 0})
        c = self.wit.slots.get(slot)
        if c is None or not c.connected:
            raise AbortSchedule("witness %d could not connect" % slot)
        t = Tok("w%d" % slot, proc=c, policy=self.rng.choice(["ret", "ret", "rel", "ignore"]))
        t.seen = len(c.events)
        self.wtoks[slot] = t
        if op.get("bg"):
            self.L("send-req", t, valid=0)
            self.w_cmd(t, "chn 1 0 0 0 0", "chn")

    def live(self, op):
        t = self.toks.get(op["c"])
        return t if t is not None and t.alive else None

    def op_req(self, op):
        t = self.live(op)
        if t:
            self.out.count("token_ops:request")
            self.do_req(t, op)

    def op_notify(self, op):
        t = self.live(op)
        if t:
            fl = op["flags"]
            self.out.count("token_ops:" + ("release" if fl & 1 else "return" if fl & 2 else "flush" if fl & 4 else "notify_other"))
            self.do_notify(t, fl)

    def op_cnf(self, op):
        t = self.live(op)
        if t:
            self.out.count("token_ops:reclaim_confirm")
            self.do_cnf(t)

    def leave(self, op, clean):
        t = self.live(op)
        if not t:
            return
        if t.holds:
            self.out.count("token_ops:disconnect_holding")
        self.out.count("token_ops:close" if clean else "token_ops:drop")
        self.L("gone", t)
        if clean:
            t.conn.send(self.m.valid("MSG_TYPE_CLOSE_REQ"))
        t.conn.close()
        self.rig.barrier()

    def op_close(self, op):
        self.leave(op, True)

    def op_drop(self, op):
        self.leave(op, False)

    def op_tick(self, op):
        if self.wit is not None and self.wit.union() != 0:
            self.wit.tick(op["n"])
            for t in self.wtoks.values():
                self.w_absorb(t)

    def op_wreq(self, op):
        t = self.wtoks.get(op["w"])
        if t and t.alive and not t.proc.eof:
            self.out.count("token_ops:witness_request")
            self.L("send-req", t, valid=1 if op["valid"] else 0)
            t.holds = False
            self.w_cmd(t, "chn %d %d %d %d %d" % (op["prio"], op["valid"], op["sub"] & 0xff, max(0, op["min"]), op["susp"]), "chn")

    def op_wnotify(self, op):
        t = self.wtoks.get(op["w"])
        if t and t.alive and not t.proc.eof:
            self.out.count("token_ops:witness_notify")
            self.do_wnotify(t, op["flags"])

    def op_react(self, op):
        self.out.count("token_ops:react")
        self.react(explicit=True)

    def op_intruder(self, op):
        # a connection that sends nothing has the default (interactive) priority while it lasts
        self.out.count("token_ops:intruder")
        c = self.rig.named_conn("i")
        self.rig.barrier()
        victim = [t for t in self.toks.values() if t.alive]
        if victim:
            self.do_notify(victim[0], 0)           # any request makes the daemon look at the priorities again
        self.settle()
        c.close()
        self.rig.barrier()

    # -- run -------------------------------------------------------------------------------
    def run(self):
        out, sched = self.out, self.sched
        out.cases += 1
        out.count("token_schedules")
        self.rig = rig = C19Rig(self.repo, tag="c19t")
        died = None
        try:
            try:
                rig.start()
                self.fd0 = rig.daemon_fds()
                self.baseline = self.fd0
                if sched["nw"]:
                    self.wit = Witnesses(self.repo, rig, out, self.extra, "token schedule %s/%s" % (sched["seed"], sched["index"]))
                for op in sched["ops"]:
                    self.events_of_op = []
                    before = {t.cid: (t.holds, t.unanswered) for t in list(self.toks.values()) + list(self.wtoks.values())}
                    getattr(self, "op_" + op["op"])(op)
                    self.settle()
                    self.react()
                    self.signature(op, before)
                    if not rig.daemon_alive():
                        raise DaemonDied("daemon is gone (rc=%s)" % rig.daemon.returncode)
                # everybody leaves: raw clients first, then the witnesses
                for slot in sorted(self.toks):
                    self.leave({"c": slot}, slot % 2 == 0)
                rig.barrier()
                if self.wit is not None:
                    order = sorted(self.wtoks)
                    self.rng.shuffle(order)
                    for slot in order:
                        t = self.wtoks[slot]
                        if self.wit.union() != 0:
                            self.op_tick({"n": 1})
                        # the controller makes it leave: logged before the fact, like every send
                        if t.alive:
                            self.L("gone", t)
                        self.wit.op_close({"c": slot})
                        self.settle()
                    rig.barrier()
                if rig.device_open_count() != 0:
                    self.v("model:C19:device-not-closed", "all clients have left but the capture device is still open (opens=%d closes=%d)"
                           % (rig.tr_opens, rig.tr_closes))
                have = rig.daemon_fds()
                if have >= 0 and have != self.fd0:
                    rig.barrier()
                    have = rig.daemon_fds()
                out.count("fd_checks")
                if have >= 0 and have != self.fd0:
                    self.v("model:C19:fd-leak", "after the last client left the daemon holds %d sockets+pipes, %d at start-up: %s"
                           % (have, self.fd0, rig.fd_profile()[2]))
            except DaemonDied as e:
                died = str(e)
            except (AbortSchedule, ClientGone, Inconclusive) as e:
                if not rig.daemon_alive():
                    died = str(e)
                else:
                    out.inconclusive.append("C19 token schedule %s/%s: %s" % (sched["seed"], sched["index"], e))
            self.finish(died)
            self.monitors()
        finally:
            rig.close()
        return out

    def signature(self, op, before):
        k = op["op"]
        if k == "notify":
            fl = op["flags"]
            k = "release" if fl & 1 else "return" if fl & 2 else "flush" if fl & 4 else "notify"
        who = None
        if "c" in op and self.toks.get(op["c"]) is not None:
            who = self.toks[op["c"]].cid
        elif "w" in op and self.wtoks.get(op["w"]) is not None:
            who = self.wtoks[op["w"]].cid
        b = before.get(who, (False, False))
        was = "H" if b[0] and not b[1] else "R" if b[0] else "N"
        res = set()
        for e, cid in self.events_of_op:
            if e in ("grant", "reclaim"):
                res.add(e + ("-self" if cid == who else "-other"))
        self.out.sigs.add("tok:%s:%s:%s" % (k, was, "+".join(sorted(res)) or "quiet"))

    def monitors(self):
        out = self.out
        viol, stats = token_monitor(self.log)
        for k, d in viol:
            self.v(k, d)
        out.count("token_holder_checks", stats["holder_checks"])
        out.count("token_void_grants", stats["void_grants"])
        out.count("token_log_events", len(self.log))
        tr = self.rig.read_trace()
        tv, trans, n = table_monitor(tr["events"], self.m.BG)
        for k, d in tv:
            self.v(k, d)
        out.count("token_table_checks", n)
        for t in trans:
            out.sigs.add("trace:" + t)
            out.count("token_transitions:" + t)


def run_token_schedule(repo, sched):
    out = Outcome()
    try:
        TokenRun(repo, sched, out).run()
    except Exception as e:
        import traceback
        out.harness_errors.append("C19 token controller: %s\n%s" % (e, traceback.format_exc()[-1500:]))
    out.counters.pop("_wfc_prev", None)
    if not out.samples:
        out.samples.append({"token schedule": "%s/%s" % (sched.get("seed"), sched.get("index")), "witnesses": sched["nw"],
                            "token clients": sched["nt"], "ops": len(sched["ops"]), "first_ops": sched["ops"][:8]})
    return out.to_json()
