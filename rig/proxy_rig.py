"""Multi-process rig for the proxy daemon properties C18 and C19.

One Rig = one private temp dir + one `zvbid -nodetach` (flavour asan, hook H1:
simulated capture device clocked by a FIFO, device/token trace file) + any
number of real client processes (harness/c18_client.c, the public client
library) + any number of raw-socket protocol clients (PyConn, C19).

The controller owns *virtual time*: a frame exists only because the controller
wrote one byte into the tick FIFO, clients read only when told to, and in
lock-step phases the next tick is written only after every client that is
supposed to keep up has logged the previous frame.  No verdict depends on
wall-clock speed; every wait has a generous watchdog whose expiry raises
Inconclusive (never a violation).

Used by checks/c18.py and checks/c19.py (functions run_c18_schedule,
run_c19_batch, replay helpers) -- see DESIGN.md section 3, C18 / C19 and
design-notes/C18.md, C19.md.
"""
import ctypes, errno, json, os, random, select, shutil, signal, socket, struct
import subprocess, sys, tempfile, time

VERIF = os.path.dirname(os.path.dirname(os.path.abspath(__file__)))
if VERIF not in sys.path:
    sys.path.insert(0, VERIF)
import build                      # noqa: E402
from vflib import driver          # noqa: E402

TS_BASE = 900000000.0             # must match VERIF_TS_BASE / VERIF_TS_STEP of hook H1
TS_STEP = 0.04
WATCHDOG = float(os.environ.get("VERIF_RIG_WATCHDOG", "90"))   # seconds, expiry => INCONCLUSIVE
SAN_EXIT = 88

RAW_625 = 0x20000000
RAW_525 = 0x40000000
SIM_ALL = 0x41f                   # services the simulator transmits (TTX B, VPS, CC 625, WSS 625)

# struct-hack arrays (last member, allocation sized at run time): bounds-strict
# reports on them are an idiom, real overflows are ASan heap-buffer-overflows.
# Proposed for support/ubsan-idioms.txt in design-notes/C18.md.
LOCAL_IDIOMS = [
    ("vbi_proxyd_send_sliced", "vbi_sliced[1]"),
    ("vbi_proxyd_forward_data", "vbi_sliced[1]"),
]

_libc = None


def _preexec():
    """own session (killpg-able) + die with the controller"""
    global _libc
    os.setsid()
    try:
        if _libc is None:
            _libc = ctypes.CDLL("libc.so.6", use_errno=True)
        _libc.prctl(1, signal.SIGKILL)      # PR_SET_PDEATHSIG
    except Exception:
        pass


def _preexec_daemon():
    """The daemon gives its acquisition thread 2 x 50 ms of wall-clock time to stop
    (vbi_proxyd_stop_acq_thread) and misbehaves when that is missed; raise its
    priority so that a loaded machine does not void thread-path schedules."""
    _preexec()
    try:
        os.nice(-15)
    except OSError:
        pass


class Inconclusive(Exception):
    pass


class DaemonDied(Exception):
    pass


def ts_of(seq):
    return TS_BASE + TS_STEP * float(seq)


def seq_of(ts):
    return int(round((float(ts) - TS_BASE) / TS_STEP))


def san_env(extra=None):
    env = driver.harness_env("asan", extra)
    env["ASAN_OPTIONS"] = ("abort_on_error=0:exitcode=%d:detect_leaks=1:allocator_may_return_null=1:"
                           "handle_abort=0:detect_stack_use_after_return=0:malloc_context_size=12" % SAN_EXIT)
    env["UBSAN_OPTIONS"] = "print_stacktrace=1:halt_on_error=0"
    env["LSAN_OPTIONS"] = "report_objects=0:max_leaks=16"
    return env


def idioms():
    return driver.load_idioms() + LOCAL_IDIOMS


# ----------------------------------------------------------------------------
# wire layout (generated from the tree's own proxy-msg.h)

_layout_cache = {}


def layout(repo):
    if repo not in _layout_cache:
        exe = build.build_binary("c19_layout", ["harness/c19_layout.c"], "plain", with_lib=False, repo=repo)
        o = subprocess.run([exe], capture_output=True, text=True, timeout=60)
        _layout_cache[repo] = Layout(json.loads(o.stdout))
    return _layout_cache[repo]


class Layout:
    def __init__(self, j):
        self.j = j
        self.size = j["sizeof"]
        self.field = j["field"]
        self.type = j["type"]
        self.const = j["const"]
        self.hdr = self.size["VBIPROXY_MSG_HEADER"]
        self.type_name = {v: k for k, v in self.type.items() if k != "MSG_TYPE_COUNT"}
        # client -> daemon messages: (union member, body size accepted by the daemon)
        self.req = {
            "MSG_TYPE_CONNECT_REQ": ("connect_req", self.size["VBIPROXY_CONNECT_REQ"]),
            "MSG_TYPE_SERVICE_REQ": ("service_req", self.size["VBIPROXY_SERVICE_REQ"]),
            "MSG_TYPE_CHN_TOKEN_REQ": ("chn_token_req", self.size["VBIPROXY_CHN_TOKEN_REQ"]),
            "MSG_TYPE_CHN_NOTIFY_REQ": ("chn_notify_req", self.size["VBIPROXY_CHN_NOTIFY_REQ"]),
            "MSG_TYPE_CHN_SUSPEND_REQ": ("chn_notify_req", self.size["VBIPROXY_CHN_NOTIFY_REQ"]),
            "MSG_TYPE_CHN_IOCTL_REQ": ("chn_ioctl_req", self.const["VBIPROXY_CHN_IOCTL_REQ_SIZE_0"]),
            "MSG_TYPE_CHN_RECLAIM_CNF": (None, 0),
            "MSG_TYPE_CLOSE_REQ": (None, 0),
            "MSG_TYPE_DAEMON_PID_REQ": ("daemon_pid_req", self.size["VBIPROXY_DAEMON_PID_REQ"]),
            "MSG_TYPE_DAEMON_PID_CNF": ("daemon_pid_cnf", self.size["VBIPROXY_DAEMON_PID_CNF"]),
        }

    def put(self, body, name, value):
        off, size, signed = self.field[name]
        if isinstance(value, (bytes, bytearray)):
            v = bytes(value)[:size]
            body[off:off + len(v)] = v
            return
        fmt = {1: "b", 2: "h", 4: "i", 8: "q"}[size]
        if not signed:
            fmt = fmt.upper()
        mask = (1 << (8 * size)) - 1
        value &= mask
        if signed and value >= 1 << (8 * size - 1):
            value -= 1 << (8 * size)
        struct.pack_into("<" + fmt, body, off, value)

    def get(self, body, name):
        off, size, signed = self.field[name]
        if size > 8:
            return bytes(body[off:off + size])
        fmt = {1: "b", 2: "h", 4: "i", 8: "q"}[size]
        if not signed:
            fmt = fmt.upper()
        if off + size > len(body):
            return None
        return struct.unpack_from("<" + fmt, body, off)[0]

    def header(self, length, mtype):
        return struct.pack(">II", length & 0xffffffff, mtype & 0xffffffff)

    def msg(self, tname, fields=None, body_len=None):
        """a well-formed message of type tname with the given body fields"""
        member, blen = self.req[tname]
        if body_len is not None:
            blen = body_len
        body = bytearray(blen)
        for k, v in (fields or {}).items():
            self.put(body, member + "." + k, v)
        return self.header(self.hdr + len(body), self.type[tname]) + bytes(body)

    def magics(self, member):
        c = self.const
        return {"magics.protocol_magic": c["VBIPROXY_MAGIC_STR"].encode(),
                "magics.protocol_compat_version": c["VBIPROXY_COMPAT_VERSION"],
                "magics.protocol_version": c["VBIPROXY_VERSION"],
                "magics.endian_magic": c["VBIPROXY_ENDIAN_MAGIC"]}

    def connect_req(self, services=0, strict=0, name=b"faulty", buffers=1, scanning=0, flags=0, pid=1, **over):
        f = self.magics("connect_req")
        f.update({"client_name": name, "pid": pid, "client_flags": flags, "scanning": scanning,
                  "buffer_count": buffers, "services": services, "strict": strict})
        f.update(over)
        return self.msg("MSG_TYPE_CONNECT_REQ", f)

    def service_req(self, services, strict=0, reset=0, commit=1):
        return self.msg("MSG_TYPE_SERVICE_REQ", {"reset": reset, "commit": commit, "strict": strict, "services": services})

    def token_req(self, prio, valid=1, sub_prio=0, min_duration=0, exp_duration=0, allow_suspend=0):
        return self.msg("MSG_TYPE_CHN_TOKEN_REQ", {"chn_prio": prio, "chn_profile.is_valid": valid,
                                                   "chn_profile.sub_prio": sub_prio,
                                                   "chn_profile.allow_suspend": allow_suspend,
                                                   "chn_profile.min_duration": min_duration,
                                                   "chn_profile.exp_duration": exp_duration})

    def notify_req(self, flags, scanning=0, cause=0):
        return self.msg("MSG_TYPE_CHN_NOTIFY_REQ", {"notify_flags": flags, "scanning": scanning, "cause": cause})

    def ioctl_req(self, request, arg=b"", arg_size=None):
        body = bytearray(self.const["VBIPROXY_CHN_IOCTL_REQ_SIZE_0"] + len(arg))
        self.put(body, "chn_ioctl_req.request", request)
        self.put(body, "chn_ioctl_req.arg_size", len(arg) if arg_size is None else arg_size)
        off = self.field["chn_ioctl_req.arg_data"][0]
        body[off:off + len(arg)] = arg[:max(0, len(body) - off)]
        return self.header(self.hdr + len(body), self.type["MSG_TYPE_CHN_IOCTL_REQ"]) + bytes(body)

    def simple(self, tname):
        return self.header(self.hdr, self.type[tname])

    def pid_req(self):
        return self.msg("MSG_TYPE_DAEMON_PID_REQ", self.magics("daemon_pid_req"))


# ----------------------------------------------------------------------------
# raw-socket protocol client

class PyConn:
    """A protocol client speaking the wire format from Python."""

    def __init__(self, rig, name=None):
        self.rig = rig
        self.lay = rig.lay
        self.name = name
        self.s = socket.socket(socket.AF_UNIX, socket.SOCK_STREAM)
        if name:
            self.s.bind("\0" + name)            # abstract address: shows up in the hook's client table
        self.s.settimeout(WATCHDOG)
        self.buf = b""
        self.eof = False
        self.msgs = []                          # every message received: (type, body)
        self.inbox = []                         # received, not yet consumed
        self.sent = 0
        try:
            self.s.connect(rig.sock)
        except OSError as e:
            self.s.close()
            raise DaemonDied("connect to daemon failed: %s" % e)

    def fileno(self):
        return self.s.fileno()

    def send(self, data):
        """-> number of bytes the kernel took (EPIPE etc. => connection is gone)"""
        try:
            self.s.sendall(data)
            self.sent += len(data)
            return len(data)
        except socket.timeout:
            raise Inconclusive("send to daemon timed out")
        except OSError:
            self.eof = True
            return -1

    def _parse(self):
        h = self.lay.hdr
        while len(self.buf) >= h:
            ln, ty = struct.unpack(">II", self.buf[:h])
            if ln < h or ln > 64 << 20:
                self.inbox.append((-1, self.buf))
                self.buf = b""
                break
            if len(self.buf) < ln:
                break
            m = (ty, self.buf[h:ln])
            self.inbox.append(m)
            self.msgs.append(m)
            self.buf = self.buf[ln:]

    def poll(self):
        """non-blocking: every complete message that is in the socket now (removed from the inbox)"""
        self.s.setblocking(False)
        try:
            while not self.eof:
                try:
                    d = self.s.recv(1 << 16)
                except (BlockingIOError, InterruptedError):
                    break
                except OSError:
                    self.eof = True
                    break
                if not d:
                    self.eof = True
                    break
                self.buf += d
        finally:
            self.s.settimeout(WATCHDOG)
        self._parse()
        got, self.inbox = self.inbox, []
        return got

    def recv_msg(self, want_types=None, keep_other=None):
        """blocking: next message (of one of want_types; others go to keep_other);
        (None, None) when the daemon closed the connection"""
        deadline = time.time() + WATCHDOG
        while True:
            while self.inbox:
                ty, body = self.inbox.pop(0)
                if want_types is None or ty in want_types:
                    return ty, body
                if keep_other is not None:
                    keep_other.append((ty, body))
            if self.eof:
                return None, None
            if time.time() > deadline:
                raise Inconclusive("no reply from daemon within %.0f s" % WATCHDOG)
            try:
                d = self.s.recv(1 << 16)
            except socket.timeout:
                raise Inconclusive("no reply from daemon within %.0f s" % WATCHDOG)
            except OSError:
                self.eof = True
                continue
            if not d:
                self.eof = True
                continue
            self.buf += d
            self._parse()

    def close(self):
        try:
            self.s.close()
        except OSError:
            pass
        self.eof = True


# ----------------------------------------------------------------------------
# real client process

class CClient:
    def __init__(self, rig, slot, name):
        self.rig = rig
        self.slot = slot
        self.name = name
        self.errpath = os.path.join(rig.dir, "client-%s.stderr" % name)
        self.logpath = os.path.join(rig.dir, "client-%s.jsonl" % name)
        self.log = open(self.logpath, "wb")
        ef = open(self.errpath, "wb")
        self.p = subprocess.Popen([rig.client_exe, rig.dev, name], stdin=subprocess.PIPE, stdout=subprocess.PIPE,
                                  stderr=ef, env=rig.env, preexec_fn=_preexec, cwd=rig.dir)
        ef.close()
        self.fd = self.p.stdout.fileno()
        os.set_blocking(self.fd, False)
        self.buf = b""
        self.events = []
        self.count = {}
        self.eof = False
        # controller-side model
        self.connected = False
        self.lost = False
        self.granted = 0
        self.stalled = False
        self.max_seq = -1
        self.seqs = set()
        self.caught_up = 0
        self.killed = False
        self.floors = []
        self.dups = 0                 # frames logged with a sequence number seen before

    def send(self, line):
        try:
            os.write(self.p.stdin.fileno(), (line + "\n").encode())
        except OSError:
            self.eof = True

    def feed(self):
        n = 0
        for _ in range(64):            # bounded: a client flooded by a broken daemon must not hold the controller
            try:
                d = os.read(self.fd, 1 << 16)
            except (BlockingIOError, InterruptedError):
                break
            except OSError:
                self.eof = True
                break
            if not d:
                self.eof = True
                break
            self.log.write(d)
            self.buf += d
        while True:
            i = self.buf.find(b"\n")
            if i < 0:
                break
            line, self.buf = self.buf[:i], self.buf[i + 1:]
            try:
                ev = json.loads(line)
            except ValueError:
                ev = {"ev": "garbage", "raw": line[:200].decode("latin1")}
            ev["_tick"] = self.rig.ticks
            self.events.append(ev)
            k = ev.get("ev")
            self.count[k] = self.count.get(k, 0) + 1
            if k == "frame":
                try:
                    s = seq_of(ev["ts"])
                except Exception:
                    s = -1
                if s in self.seqs:
                    self.dups += 1
                self.seqs.add(s)
                if s > self.max_seq:
                    self.max_seq = s
            elif k == "error":
                self.lost = True
                self.connected = False
            n += 1
        return n

    def n(self, kind):
        return self.count.get(kind, 0)

    def kill(self):
        self.killed = True
        try:
            os.killpg(self.p.pid, signal.SIGKILL)
        except OSError:
            pass
        try:
            self.p.wait(timeout=30)
        except Exception:
            pass
        self.feed()
        self.connected = False

    def finish(self):
        """ask the process to quit, reap it, return its stderr"""
        if self.p.poll() is None and not self.killed:
            self.send("quit")
            try:
                self.p.wait(timeout=30)
            except Exception:
                self.kill()
        self.feed()
        try:
            self.p.stdin.close()
        except OSError:
            pass
        self.log.close()
        try:
            return open(self.errpath, "r", errors="replace").read()
        except OSError:
            return ""


# ----------------------------------------------------------------------------

_rig_counter = 0


class Rig:
    def __init__(self, repo, variant="select", tag="r", buffers=None, debug=0):
        global _rig_counter
        _rig_counter += 1
        self.repo = repo
        self.variant = variant
        self.lay = layout(repo)
        self.daemon_exe = build.build_daemon("asan", repo=repo)
        self.client_exe = build.build_binary("c18_client", ["harness/c18_client.c"], "asan", repo=repo)
        self.dir = tempfile.mkdtemp(prefix="vf-rig-%s-" % tag, dir=os.environ.get("VERIF_TMP", "/tmp"))
        self.id = "%s%x%x%x" % (tag[:6], os.getpid(), _rig_counter, random.SystemRandom().getrandbits(20))
        # the device name doubles as the rendezvous: the library derives the
        # socket path from it (/tmp/vbiproxy-verif-sim-<id>-<variant>), there is no socket option
        self.dev = "/verif-sim/%s/%s" % (self.id, variant)
        self.sock = "/tmp/vbiproxy" + self.dev.replace("/", "-")
        self.fifo = os.path.join(self.dir, "tick")
        self.trace = os.path.join(self.dir, "trace")
        self.derr = os.path.join(self.dir, "daemon.stderr")
        os.mkfifo(self.fifo)
        self.tick_fd = os.open(self.fifo, os.O_RDWR)     # keeps the FIFO's buffer alive across device re-opens
        self.env = san_env({"ZVBI_VERIF_TICK": self.fifo, "ZVBI_VERIF_TRACE": self.trace})
        # the daemon leaks one sockaddr (110 bytes) per listening socket at start-up
        # (vbi_proxy_msg_listen_socket: freeaddrinfo() on a hand-made addrinfo); constant,
        # not per connection -> suppressed for the daemon only so that its exit status
        # stays meaningful (design-notes/C19.md).  The function has no other caller in the daemon.
        self.supp = os.path.join(self.dir, "lsan.supp")
        with open(self.supp, "w") as f:
            f.write("leak:vbi_proxy_msg_get_local_socket_addr\n")
        self.denv = dict(self.env)
        self.denv["LSAN_OPTIONS"] = self.env["LSAN_OPTIONS"] + ":suppressions=%s:print_suppressions=0" % self.supp
        # The daemon ends its acquisition thread with pthread_cancel().  Forced unwinding abandons the
        # instrumented frames between the thread function and the cancellation point without running
        # their epilogues, so their red zones stay poisoned on the thread's stack, and libsanitizer
        # (gcc 12) then reports its *own* access to that stale shadow when glibc ends the thread
        # (__asan_handle_no_return -> PlatformUnpoisonStacks -> intercepted sigaltstack writing its
        # local result: "stack-buffer-underflow in __interceptor_sigaltstack").  With the fake stack
        # (detect_stack_use_after_return=1) address-taken locals and their red zones live in
        # heap-like fake frames, the real thread stack is never poisoned and abandoned fake frames
        # are garbage collected: the cause is gone, nothing is filtered (design-notes/C18.md).
        self.denv["ASAN_OPTIONS"] = self.env["ASAN_OPTIONS"].replace("detect_stack_use_after_return=0",
                                                                     "detect_stack_use_after_return=1")
        self._tr_off = 0
        self._tr_buf = b""
        self.tr_last_L = None
        self.tr_frames = -1          # highest seq with an F line
        self.tr_queued = -1          # highest seq known to be queued in the daemon (see queued())
        self.tr_opens = 0
        self.tr_closes = 0
        self.tr_maxq = {}
        self.tr_z = None
        self.buffers = buffers
        self.debug = debug
        self.daemon = None
        self.clients = []
        self.conns = []
        self.ticks = 0
        self.closed = False
        self.daemon_rc = None
        self._probe_n = 0

    # -- daemon ---------------------------------------------------------
    def start(self):
        try:
            os.unlink(self.sock)
        except OSError:
            pass
        cmd = [self.daemon_exe, "-dev", self.dev, "-nodetach", "-maxclients", "16"]
        if self.buffers:
            cmd += ["-buffers", str(self.buffers)]
        if self.debug:
            cmd += ["-debug", str(self.debug)]
        ef = open(self.derr, "ab")
        self.daemon = subprocess.Popen(cmd, stdin=subprocess.DEVNULL, stdout=ef, stderr=ef, env=self.denv,
                                       preexec_fn=_preexec_daemon, cwd=self.dir)
        ef.close()
        deadline = time.time() + WATCHDOG
        while True:
            if self.daemon.poll() is not None:
                raise DaemonDied("daemon exited with %s during start-up: %s"
                                 % (self.daemon.returncode, self.daemon_stderr()[-400:]))
            if os.path.exists(self.sock):
                try:
                    s = socket.socket(socket.AF_UNIX, socket.SOCK_STREAM)
                    s.connect(self.sock)
                    s.close()
                    break
                except OSError:
                    pass
            if time.time() > deadline:
                raise Inconclusive("daemon did not start listening within %.0f s" % WATCHDOG)
            time.sleep(0.005)
        # the connect/close above is a (harmless) zero-byte client; let the daemon digest it
        self.barrier()

    def daemon_alive(self):
        return self.daemon is not None and self.daemon.poll() is None

    def daemon_stderr(self):
        try:
            return open(self.derr, "r", errors="replace").read()
        except OSError:
            return ""

    def daemon_fds(self):
        try:
            return len(os.listdir("/proc/%d/fd" % self.daemon.pid))
        except OSError:
            return -1

    def barrier(self, rounds=2):
        """Round trips on fresh connections (DAEMON_PID_REQ -> confirm or close).
        The daemon's main loop serves every client socket once per iteration and
        a probe needs two iterations (accept, read), so when the 2nd probe is
        through every byte sent and every disconnect made before the barrier
        has been processed and every queued frame whose reader's socket was
        writable has been written.  No sleeping."""
        for _ in range(rounds):
            if not self.daemon_alive():
                raise DaemonDied("daemon is gone (rc=%s)" % self.daemon.returncode)
            self._probe_n += 1
            c = PyConn(self)
            try:
                if c.send(self.lay.pid_req()) < 0:
                    raise DaemonDied("probe: daemon closed the connection")
                # the daemon answers DAEMON_PID_REQ and drops the connection in the same
                # main loop iteration (in this tree before the confirm is even sent):
                # either the confirm or the end-of-file proves the request was processed
                ty, body = c.recv_msg()
                if ty is None and not self.daemon_alive():
                    raise DaemonDied("daemon died during probe (rc=%s)" % self.daemon.returncode)
            finally:
                c.close()
        return True

    def stop_daemon(self):
        """SIGTERM, reap -> exit status (None if it had to be killed)"""
        if self.daemon is None:
            return None
        if self.daemon.poll() is None:
            try:
                self.daemon.send_signal(signal.SIGTERM)
            except OSError:
                pass
            try:
                self.daemon.wait(timeout=WATCHDOG)
            except subprocess.TimeoutExpired:
                try:
                    os.killpg(self.daemon.pid, signal.SIGKILL)
                except OSError:
                    pass
                self.daemon.wait()
                self.daemon_rc = None
                return None
        self.daemon_rc = self.daemon.returncode
        return self.daemon_rc

    # -- time -----------------------------------------------------------
    def tick(self, n=1):
        os.write(self.tick_fd, b"t" * n)
        self.ticks += n

    # -- clients ---------------------------------------------------------
    def new_client(self, slot, name=None):
        c = CClient(self, slot, name or ("c%d" % len(self.clients)))
        self.clients.append(c)
        self.wait(lambda: c.n("start") > 0, "client %s to start" % c.name, [c])
        return c

    def pump(self, timeout):
        live = [c for c in self.clients if not c.eof]
        if not live:
            if timeout:
                time.sleep(min(timeout, 0.01))
            return 0
        try:
            r, _, _ = select.select([c.fd for c in live], [], [], timeout)
        except (InterruptedError, OSError):
            return 0
        n = 0
        for c in live:
            if c.fd in r:
                n += c.feed()
        return n

    def wait(self, pred, what, need=None, soft=None):
        """pump client output until pred(); need = clients whose death ends the
        wait; soft = seconds after which False is returned instead of waiting on"""
        t0 = time.time()
        deadline = t0 + WATCHDOG
        while True:
            if pred():
                return True
            if need:
                for c in need:
                    if c.eof:
                        c.feed()
                        if pred():
                            return True
                        raise ClientGone(c, what)
            if not self.daemon_alive():
                self.pump(0)
                if pred():
                    return True
                raise DaemonDied("daemon died (rc=%s) while waiting for %s" % (self.daemon.returncode, what))
            now = time.time()
            if soft is not None and now > t0 + soft:
                return False
            if now > deadline:
                raise Inconclusive("watchdog (%.0f s) expired waiting for %s" % (WATCHDOG, what))
            self.pump(0.25 if soft is None else min(0.25, soft))

    # -- incremental view of the hook trace ---------------------------------
    def trace_tail(self):
        try:
            with open(self.trace, "rb") as f:
                f.seek(self._tr_off)
                d = f.read()
        except OSError:
            return
        self._tr_off += len(d)
        self._tr_buf += d
        while True:
            i = self._tr_buf.find(b"\n")
            if i < 0:
                break
            ln, self._tr_buf = self._tr_buf[:i], self._tr_buf[i + 1:]
            k = ln[:1]
            if k == b"F":
                m = ln.find(b" seq=")
                self.tr_frames = int(ln[m + 5:ln.find(b" ", m + 5)])
                if self.variant != "thread":
                    self.tr_queued = self.tr_frames
            elif k == b"W":
                # the acquisition thread is back in read(): the previous frame is queued
                self.tr_queued = self.tr_frames
            elif k == b"Z":
                self.tr_z = ln.decode("latin1")
            elif k == b"O":
                self.tr_opens += 1
            elif k == b"C":
                self.tr_closes += 1
                self.tr_queued = self.tr_frames
            elif k == b"L":
                self.tr_last_L = ln.decode("latin1")
                for p in self.tr_last_L.split(" "):
                    if p.startswith("c="):
                        x = p[2:].split(",")
                        if len(x) == 10:
                            pid, q = int(x[1]), int(x[8])
                            if q > self.tr_maxq.get(pid, 0):
                                self.tr_maxq[pid] = q

    def table_entry(self, pid):
        """the client's row in the newest client table of the hook trace"""
        self.trace_tail()
        if not self.tr_last_L:
            return None
        for p in self.tr_last_L.split(" "):
            if p.startswith("c="):
                x = p[2:].split(",")
                if len(x) == 10 and int(x[1]) == pid:
                    return {"fd": int(x[0]), "state": int(x[3]), "tok": int(x[4]), "svc": int(x[7], 16),
                            "q": int(x[8]), "w": int(x[9])}
        return None

    def conn(self, name=None):
        c = PyConn(self, name)
        self.conns.append(c)
        return c

    # -- trace ------------------------------------------------------------
    def read_trace(self):
        return parse_trace(self.trace)

    # -- teardown -----------------------------------------------------------
    def close(self, keep=False):
        if self.closed:
            return
        self.closed = True
        for c in self.conns:
            c.close()
        for c in self.clients:
            try:
                if c.p.poll() is None:
                    os.killpg(c.p.pid, signal.SIGKILL)
                    c.p.wait(timeout=10)
            except Exception:
                pass
            try:
                c.log.close()
                c.p.stdout.close()
                c.p.stdin.close()
            except Exception:
                pass
        if self.daemon is not None and self.daemon.poll() is None:
            try:
                os.killpg(self.daemon.pid, signal.SIGKILL)
                self.daemon.wait(timeout=10)
            except Exception:
                pass
        try:
            os.close(self.tick_fd)
        except OSError:
            pass
        try:
            os.unlink(self.sock)
        except OSError:
            pass
        if keep or os.environ.get("VERIF_KEEP"):
            sys.stderr.write("kept rig dir %s\n" % self.dir)
        else:
            shutil.rmtree(self.dir, ignore_errors=True)


class ClientGone(Exception):
    def __init__(self, client, what):
        Exception.__init__(self, "client %s ended while waiting for %s" % (client.name, what))
        self.client = client


def parse_trace(path):
    frames, events = [], []
    try:
        f = open(path, "r", errors="replace")
    except OSError:
        return {"frames": frames, "events": events, "by_ts": {}}
    with f:
        for ln in f:
            ln = ln.rstrip("\n")
            if not ln:
                continue
            kind = ln[0]
            kv = {}
            rest = ln[2:]
            if kind == "L":
                parts = rest.split(" ")
                d = {"clients": []}
                for p in parts:
                    if p.startswith("it="):
                        d["it"] = int(p[3:])
                    elif p.startswith("dev="):
                        a, b = p[4:].split(",")
                        d["open"] = int(a)
                        d["svc"] = int(b, 16)
                    elif p.startswith("n="):
                        d["n"] = int(p[2:])
                    elif p.startswith("c="):
                        x = p[2:].split(",")
                        if len(x) == 10:
                            d["clients"].append({"fd": int(x[0]), "pid": int(x[1]), "peer": x[2], "state": int(x[3]),
                                                 "tok": int(x[4]), "prio": int(x[5]), "valid": int(x[6]),
                                                 "svc": int(x[7], 16), "q": int(x[8]), "w": int(x[9])})
                events.append(("L", d))
                continue
            for p in rest.split(" "):
                if "=" in p:
                    k, v = p.split("=", 1)
                    kv[k] = v
            if kind == "F":
                fr = {"open": int(kv["open"]), "idx": int(kv["idx"]), "seq": int(kv["seq"]), "ts": kv["ts"],
                      "svc": int(kv["svc"], 16), "raw": int(kv["raw"]), "in": int(kv["in"]), "out": int(kv["out"]),
                      "L": kv.get("L", "")}
                frames.append(fr)
                events.append(("F", fr))
            else:
                events.append((kind, kv))
    return {"frames": frames, "events": events, "by_ts": {f["ts"]: f for f in frames}}


# ----------------------------------------------------------------------------
# reference ("direct capture"): the same simulator, opened in a fresh process

_ref_cache = {}


def reference_frames(repo, n, raw=False):
    key = (repo, raw)
    have = _ref_cache.get(key)
    if have is not None and len(have) >= n:
        return have
    n = max(n, 64)
    exe = build.build_binary("c18_client", ["harness/c18_client.c"], "asan", repo=repo)
    cmd = [exe, "--reference", str(n)] + (["raw"] if raw else [])
    o = subprocess.run(cmd, capture_output=True, text=True, env=san_env(), timeout=600)
    out = []
    for ln in o.stdout.split("\n"):
        if '"ev":"ref"' in ln:
            out.append(json.loads(ln))
    if len(out) != n:
        raise RuntimeError("reference capture failed: %d of %d frames; %s" % (len(out), n, o.stderr[-500:]))
    _ref_cache[key] = out
    return out


def filter_lines(lstr, mask):
    if not lstr:
        return ""
    return ",".join(x for x in lstr.split(",") if int(x.split("@", 1)[0], 16) & mask)


def classify_sanitizer(text, repo, counters=None, ignore_startup_leak=True):
    """-> [(key, detail)] for a process' stderr; the constant 110 byte start-up
    leak of vbi_proxy_msg_listen_socket (one object per listening socket, does
    not grow with connections) is counted, not reported (design-notes/C19.md)."""
    class _R:
        def count(self, k, n=1):
            if counters is not None:
                counters[k] = counters.get(k, 0) + n
    out = []
    for k, d in driver.parse_sanitizer_text(text, repo, _R(), idioms()):
        if ignore_startup_leak and k == "leak:vbi_proxy_msg_get_local_socket_addr" and " in 1 object(s)" in d:
            if counters is not None:
                counters["daemon_startup_addr_leak_seen"] = counters.get("daemon_startup_addr_leak_seen", 0) + 1
            continue
        out.append((k, d))
    return out


# ============================================================================
# C18: schedules, controller, monitors

SERVICE_POOL = [
    0x3, 0x3, 0x41f, 0x41f, 0x4, 0x4, 0x18, 0x400, 0x1, 0x2, 0x7, 0x404, 0x1b, 0x403, 0x41c, 0x8, 0x10,
    0x1000,            # VPS on field 2: admitted, never transmitted by the simulator
    0x2000,            # Teletext A: admitted at some strictness, never transmitted
    0x60, 0x800,       # 525-line services: not available on the 625-line device
    0x64, 0x823,       # mixes of both
    RAW_625 | 0x4,     # raw VBI + VPS
]


def gen_c18_schedule(seed, index, tier):
    """A schedule is a pure function of (seed, index, tier)."""
    rng = random.Random((int(seed) << 24) ^ (index * 7919 + 17))
    quick = tier == "quick"
    variant = "select" if index % 2 == 0 else "thread"
    profile = ("mixed", "mixed", "deepstall", "deepstall", "churn", "churn", "free", "staleq")[index % 8]
    nticks = (300 if quick else 2000)
    if profile == "staleq":
        nticks = 420 if quick else 900
    maxc = 6 if quick else 10
    ops = []
    live = {}            # slot -> True (generator's guess; the controller skips impossible ops)
    stalled = set()
    budget = [nticks]

    def connect(slot=None, svc=None):
        if slot is None:
            free = [s for s in range(maxc) if s not in live]
            if not free:
                return
            slot = rng.choice(free)
        if svc is None:
            svc = rng.choice(SERVICE_POOL)
            if rng.random() < 0.25:
                svc |= rng.choice(SERVICE_POOL)
            if (svc & RAW_625) and rng.random() < 0.6:
                svc &= ~RAW_625
                svc = svc or 0x4
        ops.append({"op": "connect", "c": slot, "svc": svc, "strict": rng.choice([-1, 0, 0, 1, 1, 2]),
                    "buffers": rng.choice([1, 2, 5, 8]), "scanning": rng.choice([0, 0, 625, 625, 525]),
                    "flags": rng.choice([0, 0, 2])})
        live[slot] = True

    def ticks(lo, hi):
        k = min(rng.randint(lo, hi), max(budget[0], 0))
        if k > 0:
            ops.append({"op": "tick", "n": k})
            budget[0] -= k

    def some(pred=None):
        c = [s for s in live if (pred is None or pred(s))]
        return rng.choice(c) if c else None

    def svc_change():
        s = some()
        if s is not None:
            # one change in three arrives together with a captured frame (op_ticksvc)
            pending = s not in stalled and len(live) > 1 and rng.random() < 0.34
            ops.append({"op": "ticksvc" if pending else "svc", "c": s, "reset": rng.choice([0, 1, 1]), "svc": rng.choice(SERVICE_POOL) & ~RAW_625 or 0x4,
                        "strict": rng.choice([-1, 0, 1, 2])})
            if pending:
                budget[0] -= 1

    def leave():
        s = some()
        if s is not None:
            ops.append({"op": rng.choice(["close", "close", "kill"]), "c": s})
            live.pop(s, None)
            stalled.discard(s)

    def stall():
        s = some(lambda x: x not in stalled)
        if s is not None:
            ops.append({"op": "stall", "c": s})
            stalled.add(s)

    def resume():
        if stalled:
            s = rng.choice(sorted(stalled))
            ops.append({"op": "resume", "c": s})
            stalled.discard(s)

    def flush():
        s = some()
        if s is not None:
            ops.append({"op": "flush", "c": s})

    def free_run():
        k = min(rng.randint(15, 50), max(budget[0], 0))
        if k <= 0:
            return
        bursts = []
        left = k
        while left > 0:
            b = min(left, rng.choice([1, 1, 2, 3, 5, 9, 17]))
            bursts.append(b)
            left -= b
        ops.append({"op": "free", "bursts": bursts})
        budget[0] -= k

    if profile == "staleq":
        # Frames that are still queued inside the daemon for a stalled subscriber A when the device's service set
        # shrinks: B, the only client of some services, leaves (or drops them) while A does not read; A then reads
        # on.  The queued frames were captured for the larger set and must still be filtered to what A was granted.
        a_svc = rng.choice([0x1f, 0x1b, 0x7, 0x1f])
        b_svc = rng.choice([0x400, 0x400, 0x404, 0x41c & ~a_svc or 0x400])
        ops.append({"op": "connect", "c": 0, "svc": a_svc, "strict": 0, "buffers": rng.choice([5, 8, 8]), "scanning": 0, "flags": 0})
        ops.append({"op": "connect", "c": 1, "svc": b_svc, "strict": 0, "buffers": 2, "scanning": 0, "flags": 0})
        ops.append({"op": "connect", "c": 2, "svc": rng.choice([0x3, 0x1, a_svc & 0x7]), "strict": 0, "buffers": 2, "scanning": 0, "flags": 0})
        live[0] = live[1] = live[2] = True
        ticks(3, 6)
        ops.append({"op": "stall", "c": 0})
        stalled.add(0)
        ticks(330, 330) if quick else ticks(500, 700)
        if rng.random() < 0.6:
            ops.append({"op": rng.choice(["close", "kill"]), "c": 1})
            live.pop(1, None)
        else:
            ops.append({"op": "svc", "c": 1, "reset": 1, "svc": a_svc & 0x3 or 0x1, "strict": 0})
        ticks(1, 3)
        ops.append({"op": "resume", "c": 0})
        stalled.discard(0)
        ticks(4, 10)
        # epilogue as for every schedule
        ops.append({"op": "tick", "n": 3})
        order = sorted(live)
        rng.shuffle(order)
        for s in order:
            ops.append({"op": rng.choice(["close", "close", "kill"]), "c": s})
            ops.append({"op": "tick", "n": 1})
        return {"kind": "c18", "seed": seed, "index": index, "tier": tier, "variant": variant, "profile": profile,
                "ops": ops}

    # one schedule in three opens with a client that connects without any service while the device is closed and asks
    # for services afterwards ("requesting any service sets ..., changing their services"); it alone clocks the device
    # for a few frames, then it stays or leaves
    if profile != "deepstall" and rng.random() < 0.34:
        s0 = maxc - 1
        ops.append({"op": "connect", "c": s0, "svc": 0, "strict": 0, "buffers": rng.choice([2, 5, 8]), "scanning": rng.choice([0, 625]), "flags": 0})
        live[s0] = True
        ops.append({"op": "svc", "c": s0, "reset": rng.choice([0, 1]), "svc": rng.choice([0x3, 0x7, 0x403, 0x4]), "strict": rng.choice([0, 0, 1])})
        ticks(2, 5)
        if rng.random() < 0.5:
            ops.append({"op": "close", "c": s0})
            live.pop(s0, None)
    # opening: two or three subscribers, a few frames
    connect(0, rng.choice([0x41f, 0x3, 0x7]))
    connect(1)
    if rng.random() < 0.7:
        connect(2)
    ticks(3, 8)

    if profile == "deepstall":
        # one (sometimes two) subscribers stop reading long enough for the daemon's
        # socket buffer and then its frame queue to overflow
        big = some()
        ops.append({"op": "svc", "c": big, "reset": 1, "svc": 0x41f, "strict": 0})
        ops.append({"op": "stall", "c": big})
        stalled.add(big)
        r = rng.random()
        if r < 0.6:
            # a second subscriber of (nearly) everything stalls at the same time: both sockets fill at
            # about the same frame, then both read pointers sit on the queue head while it is released by force
            big2 = some(lambda x: x not in stalled)
            if big2 is not None:
                ops.append({"op": "svc", "c": big2, "reset": 1, "svc": rng.choice([0x41f, 0x41f, 0x1f, 0x403]), "strict": 0})
                ops.append({"op": "stall", "c": big2})
                stalled.add(big2)
        elif r < 0.8:
            stall()
        if len(live) - len(stalled) < 1:
            connect()                # somebody has to keep up, else nothing clocks the device in lock-step
        while budget[0] > 40:
            ticks(10, 40)
            r = rng.random()
            if r < 0.25:
                connect()
            elif r < 0.40:
                svc_change()
            elif r < 0.50:
                flush()
            elif r < 0.58 and len(live) > 2:
                s = some(lambda x: x not in stalled)
                if s is not None:
                    ops.append({"op": rng.choice(["close", "kill"]), "c": s})
                    live.pop(s, None)
        resume()
        ticks(5, 15)
        resume()
        ticks(5, 15)
    else:
        w = {"mixed": dict(tick=40, connect=10, svc=10, leave=7, stall=6, resume=8, flush=4, free=3),
             "churn": dict(tick=30, connect=22, svc=8, leave=20, stall=4, resume=6, flush=3, free=2),
             "free": dict(tick=20, connect=8, svc=6, leave=5, stall=5, resume=6, flush=3, free=25)}[profile]
        names = list(w)
        weights = [w[k] for k in names]
        guard = 0
        while budget[0] > 0 and guard < 5000:
            guard += 1
            a = rng.choices(names, weights)[0]
            if a == "tick":
                ticks(1, 12)
            elif a == "connect":
                connect()
            elif a == "svc":
                svc_change()
            elif a == "leave":
                leave()
                if not live:
                    connect()
            elif a == "stall":
                stall()
            elif a == "resume":
                resume()
            elif a == "flush":
                flush()
            elif a == "free":
                free_run()
    # epilogue: everybody reads again, a few frames, then leave one by one
    for s in sorted(stalled):
        ops.append({"op": "resume", "c": s})
    ops.append({"op": "tick", "n": 3})
    order = sorted(live)
    rng.shuffle(order)
    for s in order:
        ops.append({"op": rng.choice(["close", "close", "kill"]), "c": s})
        ops.append({"op": "tick", "n": 1})
    return {"kind": "c18", "seed": seed, "index": index, "tier": tier, "variant": variant, "profile": profile,
            "ops": ops}


class Outcome:
    """what one schedule / batch produced; JSON-able, merged into the driver's Result by the check"""

    def __init__(self):
        self.violations = []      # {key, detail, extra}
        self.inconclusive = []
        self.harness_errors = []
        self.counters = {}
        self.sigs = set()
        self.cases = 0
        self.trivial = 0
        self.samples = []

    def count(self, k, n=1):
        self.counters[k] = self.counters.get(k, 0) + n

    def violation(self, key, detail, extra=None):
        for v in self.violations:
            if v["key"] == key:
                v["n"] = v.get("n", 1) + 1
                return
        self.violations.append({"key": key, "detail": detail[:1500], "extra": extra or {}})

    def to_json(self):
        return {"violations": self.violations, "inconclusive": self.inconclusive, "harness_errors": self.harness_errors,
                "counters": self.counters, "sigs": sorted(self.sigs), "cases": self.cases, "trivial": self.trivial,
                "samples": self.samples}


SLOW_AFTER = float(os.environ.get("VERIF_RIG_SLOW", "4"))


class C18Controller:
    def __init__(self, repo, sched, out, witnesses_only=False):
        self.repo = repo
        self.sched = sched
        self.out = out
        self.rig = None
        self.slots = {}
        self.procs = []
        self.ctl = []              # totally ordered controller log
        self.last_op = "start"
        self.slow_losses = 0
        self.aborted = None
        self.last_ok_tick = -1     # newest lock-step frame which every client meant to keep up has logged
        self.blocked = None        # a watchdog expired while the daemon was alive: where
        self.op_index = -1
        self.daemon_died = False

    # -- helpers ------------------------------------------------------------
    def readers(self):
        return [c for c in self.slots.values()
                if c is not None and c.connected and not c.lost and not c.eof]

    def union(self):
        u = 0
        for c in self.readers():
            u |= c.granted
        return u

    def log(self, kind, **kw):
        kw["k"] = kind
        kw["ticks"] = self.rig.ticks
        self.ctl.append(kw)

    def device_check(self, where):
        """at a quiescent point: device open <=> some client has a granted service"""
        self.rig.trace_tail()
        is_open = self.rig.tr_opens - self.rig.tr_closes
        u = self.union()
        if (u != 0) != (is_open == 1):
            # Before a verdict: two round trips through the daemon's main loop.  A daemon that is
            # going down (abort / sanitizer report in progress) ends the schedule with its own
            # finding (DaemonDied) instead of a knock-on device violation; a live one has by then
            # processed every disconnect the controller made.
            self.rig.barrier()
            self.rig.trace_tail()
            is_open = self.rig.tr_opens - self.rig.tr_closes
            u = self.union()
        self.log("devcheck", where=where, union=u, open=is_open, opens=self.rig.tr_opens)
        if u != 0 and is_open != 1:
            self.out.violation("model:C18:device-not-open",
                               "after %s: clients hold services 0x%x but the device is not open (opens=%d closes=%d)"
                               % (where, u, self.rig.tr_opens, self.rig.tr_closes), self.extra())
        elif u == 0 and is_open != 0 and self.readers():
            # connected clients none of which holds a service: the statement requires the device open
            # "for the union" and closed "when the last one leaves"; it does not say which for an empty union
            self.out.count("device_open_for_clients_without_services")
        elif u == 0 and is_open != 0:
            self.out.violation("model:C18:device-not-closed",
                               "after %s: the last client has left but the device is still open (opens=%d closes=%d)"
                               % (where, self.rig.tr_opens, self.rig.tr_closes), self.extra())
        self.out.count("device_state_checks")

    def extra(self):
        return {"schedule": self.sched}

    def wait(self, pred, what, need=None, soft=None):
        """Rig.wait, but a client drowning in repeated frames ends the schedule (the monitor
        reports the duplicates) instead of the controller waiting on a daemon that never stops sending"""
        def guarded():
            for c in self.procs:
                if c.dups > 200:
                    raise AbortSchedule("client %s keeps receiving frames it already has (%d repeats)" % (c.name, c.dups))
            return pred()
        return self.rig.wait(guarded, what, need, soft)

    def cmd(self, c, line, ack):
        n0 = c.n(ack)
        c.send(line)
        self.wait(lambda: c.n(ack) > n0, "%s of client %s" % (ack, c.name), [c])
        for ev in reversed(c.events):
            if ev.get("ev") == ack:
                return ev
        return None

    def settle(self, c):
        """let a reading client receive everything the daemon still holds for it:
        drain / barrier / look at the daemon's client table, until the table says
        nothing is queued and no write is pending, then drain once more."""
        for _ in range(400):
            self.cmd(c, "drain", "drained")
            if c.lost or c.eof or not c.connected:
                return
            self.rig.barrier()
            e = self.rig.table_entry(c.p.pid)
            if e is None or (e["q"] == 0 and e["w"] == 0):
                self.cmd(c, "drain", "drained")
                return
        raise Inconclusive("client %s never settled" % c.name)

    # -- operations -----------------------------------------------------------
    def op_connect(self, op):
        slot = op["c"]
        c = self.slots.get(slot)
        if c is None or c.eof or c.p.poll() is not None:
            c = self.rig.new_client(slot, "s%dp%d" % (slot, len(self.procs)))
            self.procs.append(c)
            self.slots[slot] = c
        if c.connected:
            return
        c.lost = False
        ev = self.cmd(c, "connect %x %d %d %d %d" % (op["svc"], op["strict"], op["buffers"], op["scanning"], op["flags"]),
                      "connect")
        if ev.get("ok"):
            c.connected = True
            c.granted = int(ev["granted"], 16)
            c.stalled = False
            c.sub_tick = self.rig.ticks
            c.resume_tick = self.rig.ticks
            self.cmd(c, "free", "ack")
            self.out.count("connects")
            c.empty_connect = (op["svc"] == 0)
            if op["svc"] == 0:
                self.out.count("connects_without_services_device_closed" if self.union() == 0 else "connects_without_services")
            if c.granted & ~op["svc"]:
                # C18 speaks about the services a client "was granted", not about how grants relate to
                # requests: evidence only (never seen)
                self.out.count("grants_exceeding_the_request")
        else:
            self.out.count("connect_rejects")
        self.log("connect", slot=slot, proc=c.name, ok=bool(ev.get("ok")), granted=c.granted if c.connected else 0)
        self.device_check("connect of %s (0x%x strict %d)" % (c.name, op["svc"], op["strict"]))

    def get(self, op):
        c = self.slots.get(op["c"])
        if c is None or not c.connected or c.lost or c.eof:
            return None
        return c

    def op_svc(self, op):
        c = self.get(op)
        if c is None:
            return
        ev = self.cmd(c, "svc %d 1 %x %d" % (op["reset"], op["svc"], op["strict"]), "svc")
        if c.lost or not ev.get("ok"):
            self.log("svc", slot=op["c"], proc=c.name, ok=False)
            return
        c.granted = int(ev["granted"], 16)
        c.sub_tick = self.rig.ticks
        self.out.count("service_changes")
        if getattr(c, "empty_connect", False) and c.granted:
            self.out.count("services_granted_after_connect_without_services")
            c.empty_connect = False
        if int(ev["ret"], 16) & ~op["svc"]:
            self.out.count("grants_exceeding_the_request")
        self.log("svc", slot=op["c"], proc=c.name, ok=True, granted=c.granted)
        self.device_check("service change of %s (0x%x reset %d strict %d)" % (c.name, op["svc"], op["reset"], op["strict"]))

    def op_stall(self, op):
        c = self.get(op)
        if c is None or c.stalled:
            return
        self.cmd(c, "stop", "stopped")
        c.stalled = True
        self.out.count("stalls")
        self.log("stall", slot=op["c"], proc=c.name)

    def op_resume(self, op):
        c = self.get(op)
        if c is None or not c.stalled:
            return
        before = len(c.seqs)
        self.cmd(c, "free", "ack")
        self.settle(c)
        c.stalled = False
        c.resume_tick = self.rig.ticks
        self.out.count("resumes")
        self.out.count("frames_read_after_stall", len(c.seqs) - before)
        self.log("resume", slot=op["c"], proc=c.name)

    def op_close(self, op):
        c = self.get(op)
        if c is None:
            return
        self.cmd(c, "close", "closed")
        c.connected = False
        c.granted = 0
        c.stalled = False
        self.rig.barrier()
        self.out.count("clean_disconnects")
        self.log("close", slot=op["c"], proc=c.name)
        self.device_check("disconnect of %s" % c.name)

    def op_kill(self, op):
        c = self.slots.get(op["c"])
        if c is None or c.eof:
            return
        was = c.connected
        c.kill()
        c.granted = 0
        self.slots[op["c"]] = None
        self.rig.barrier()
        self.out.count("kills")
        self.log("kill", slot=op["c"], proc=c.name, was_connected=was)
        self.device_check("SIGKILL of %s" % c.name)

    def op_flush(self, op):
        c = self.get(op)
        if c is None:
            return
        self.cmd(c, "notify 4 0", "notify")
        self.out.count("channel_flushes")
        self.log("flush", slot=op["c"], proc=c.name)

    def expectation(self):
        return [c for c in self.readers() if not c.stalled and c.granted != 0]

    def signature(self, kind):
        rd = self.readers()
        sets = len(set(c.granted for c in rd))
        self.rig.trace_tail()
        q = 0
        for c in rd:
            if c.stalled:
                q = max(q, self.rig.tr_maxq.get(c.p.pid, 0))
        qb = 0 if q == 0 else 1 if q < 4 else 2 if q < 8 else 3
        nst = sum(1 for c in rd if c.stalled)
        self.out.sigs.add("%s:n%d:s%d:st%d:q%d:%s:%s" % (self.rig.variant[0], len(rd), sets, min(nst, 2), qb, kind, self.last_op))

    def op_tick(self, op):
        for _ in range(op["n"]):
            if self.union() == 0:
                self.out.count("ticks_skipped_device_closed")
                continue
            exp = self.expectation()
            seq = self.rig.ticks
            self.rig.tick()
            self.log("tick", seq=seq, expect=[c.name for c in exp], union=self.union(), lock=True)
            self.out.count("lockstep_ticks")
            self.signature("L")
            self.last_op = "tick"
            self.await_frame(seq, exp)

    def op_ticksvc(self, op):
        """A frame is captured and a service request of ONE client arrives while the daemon is not running (SIGSTOP:
        an injected scheduling delay), so that both are pending when its main loop comes round: the frame is then
        still queued for the other clients when the request is handled.  "Only frames still queued for a client when
        that client itself changes services may be dropped": every other client that keeps up must get the frame."""
        c = self.get(op)
        if c is None or self.union() == 0 or c.stalled or not c.connected or c.lost or self.rig.variant != "select":
            # (device variant `thread`: the frame reaches the main loop through the acquisition thread's pipe, not in the
            # same round; stopping the process there only disturbs the simulated device's blocking read)
            self.op_tick({"op": "tick", "n": 1})
            return self.op_svc(dict(op, op="svc"))
        # The request must not make the daemon reconfigure the device (a frame in flight during a reconfiguration
        # is not a captured frame): the client gives up services which other clients hold as well, nothing new.
        others = 0
        for x in self.procs:
            if x is not c and x.connected and not (x.lost or x.eof):
                others |= x.granted
        keep = c.granted & op["svc"]
        if keep == 0:
            keep = c.granted & -c.granted          # lowest service it has
        if keep == 0 or (c.granted & ~keep) & ~others or (c.granted & RAW_625):
            return self.op_tick({"op": "tick", "n": 1})
        op = dict(op, svc=keep, reset=1, strict=0)
        exp = [x for x in self.expectation() if x is not c]
        seq = self.rig.ticks
        ack0 = c.n("svc")
        self.rig.daemon.send_signal(signal.SIGSTOP)
        try:
            self.rig.tick()
            c.send("svc %d 1 %x %d" % (op["reset"], op["svc"], op["strict"]))
            time.sleep(0.02)     # the client process writes its request into the socket
        finally:
            self.rig.daemon.send_signal(signal.SIGCONT)
        self.log("tick", seq=seq, expect=[x.name for x in exp], union=self.union(), lock=True)
        self.out.count("lockstep_ticks")
        self.out.count("ticks_with_service_request_of_another_client_pending")
        self.signature("L")
        self.last_op = "tick"
        self.wait(lambda: c.n("svc") > ack0, "svc of client %s" % c.name, [c])
        ev = None
        for e in reversed(c.events):
            if e.get("ev") == "svc":
                ev = e
                break
        if c.lost or ev is None or not ev.get("ok"):
            self.log("svc", slot=op["c"], proc=c.name, ok=False)
        else:
            c.granted = int(ev["granted"], 16)
            c.sub_tick = self.rig.ticks
            self.out.count("service_changes")
            self.log("svc", slot=op["c"], proc=c.name, ok=True, granted=c.granted)
        self.await_frame(seq, exp)
        self.device_check("service change of %s with a frame pending (0x%x reset %d strict %d)" % (c.name, op["svc"], op["reset"], op["strict"]))

    def await_frame(self, seq, exp):
        def done():
            return all(c.max_seq >= seq or c.lost or c.eof for c in exp)
        if not exp:
            # nobody keeps up (all subscribers are stalled): still wait until the device has
            # consumed the tick, so that no tick byte is left over for a later device open
            self.wait(lambda: (self.rig.trace_tail() or self.rig.tr_queued >= seq),
                          "the device to deliver frame %d to the daemon" % seq)
            return
        try:
            ok = self.wait(done, "frame %d at %s" % (seq, ",".join(c.name for c in exp)), soft=SLOW_AFTER)
        except ClientGone:
            ok = done()
        if ok:
            if all(c.max_seq >= seq for c in exp):
                self.last_ok_tick = seq
            return
        # slow path: decide without the clock.  Once the device has handed the frame to
        # the daemon and two probe round trips are through, every queued frame has been
        # written to every reader's socket; a reader that drains its socket and still
        # lacks the frame has lost it.
        self.out.count("slow_path_checks")
        self.wait(lambda: (self.rig.trace_tail() or self.rig.tr_queued >= seq),
                      "the device to deliver frame %d to the daemon" % seq)
        self.rig.barrier()
        for c in exp:
            if c.max_seq < seq and not (c.lost or c.eof):
                self.cmd(c, "drain", "drained")
        lag = [c.name for c in exp if c.max_seq < seq and not (c.lost or c.eof)]
        if lag:
            self.log("lost", seq=seq, procs=lag)
            self.slow_losses += 1
            if self.slow_losses >= 3:
                raise AbortSchedule("frames keep getting lost (%s at frame %d)" % (",".join(lag), seq))

    def op_free(self, op):
        if self.union() == 0:
            return
        for b in op["bursts"]:
            for _ in range(b):
                self.log("tick", seq=self.rig.ticks, expect=[], union=self.union(), lock=False)
                self.rig.tick()
            self.out.count("freerun_ticks", b)
            self.signature("F%d" % min(b, 9))
            self.rig.pump(0)
        last = self.rig.ticks - 1
        self.wait(lambda: (self.rig.trace_tail() or self.rig.tr_queued >= last),
                      "the device to deliver frame %d to the daemon" % last)
        for c in self.expectation():
            self.settle(c)
            c.resume_tick = self.rig.ticks
        self.log("free_end")

    # -- run ----------------------------------------------------------------------
    def run(self):
        out = self.out
        sched = self.sched
        self.rig = rig = Rig(self.repo, sched["variant"], tag="c18")
        out.cases += 1
        out.count("schedules_" + sched["variant"])
        try:
            try:
                rig.start()
                for i, op in enumerate(sched["ops"]):
                    self.op_index = i
                    fn = getattr(self, "op_" + op["op"])
                    fn(op)
                    if op["op"] != "tick":
                        self.last_op = op["op"]
                # leave: whoever is still there disconnects
                for slot, c in sorted(self.slots.items()):
                    if c is not None and c.connected and not c.eof:
                        self.op_close({"c": slot})
            except AbortSchedule as e:
                self.aborted = str(e)
            except ClientGone as e:
                self.aborted = str(e)
                self.log("client_gone", proc=e.client.name)
            except DaemonDied as e:
                self.aborted = str(e)
                self.log("daemon_died", msg=str(e))
            except Inconclusive as e:
                self.aborted = str(e)
                out.inconclusive.append("C18 schedule %s/%s (%s): %s" % (sched.get("seed"), sched.get("index"), sched["variant"], e))
                if rig.daemon_alive():
                    # a wait on a *living* daemon expired: by itself no verdict (wall clock), but see run_c18_schedule
                    self.blocked = {"tick": rig.ticks, "op": self.op_index, "what": str(e),
                                    "stalled": [c.name for c in self.readers() if c.stalled]}
            self.finish()
        finally:
            rig.close()
        return out

    def finish(self):
        rig, out = self.rig, self.out
        errs = {}
        for c in self.procs:
            errs[c.name] = c.finish()
        died_early = not rig.daemon_alive()
        # One cause, one finding: when the daemon ended by itself (abort, sanitizer report, crash) that
        # is the violation; frames which nobody could deliver after its death, connections it dropped by
        # dying and a device it never closed are consequences and are not reported on top of it.  What
        # the clients *did* receive is still checked in full, and so is everything up to the last
        # lock-step frame that was delivered completely (the daemon provably lived until then).
        self.daemon_died = died_early
        if died_early:
            out.count("schedules_daemon_died")
        rc = rig.stop_daemon()
        text = rig.daemon_stderr()
        found = classify_sanitizer(text, self.repo, out.counters)
        for k, d in found:
            out.violation(k, "daemon: " + d, self.extra())
        if not found:
            if rc is None:
                out.inconclusive.append("daemon did not exit on SIGTERM within the watchdog")
            elif rc != 0:
                out.violation("model:C18:daemon-exit-status" if not died_early else "crash:daemon:exit%s" % rc,
                              "daemon exit status %s (%s); stderr tail: %s"
                              % (rc, "died during the schedule" if died_early else "after SIGTERM", text[-600:]), self.extra())
        for name, t in errs.items():
            for k, d in classify_sanitizer(t, self.repo, out.counters, ignore_startup_leak=False):
                if k.startswith("leak:"):
                    out.count("client_library_leak_reports")      # not part of C18's statement, see design note
                    continue
                out.violation(k, "client %s: %s" % (name, d), self.extra())
        Monitor(self).check()
        rig.trace_tail()
        if rig.tr_z:
            # Hook H1 saw the main thread enter update_services()/delete() of the capture device while the
            # acquisition thread was still inside its read(): the daemon reconfigures or frees the device
            # under a running reader.  (Up to /repo 0c2ef26 the daemon gave its thread 100 ms of wall-clock
            # time to stop and then went ahead; since 912c3cd it joins the thread unconditionally, so
            # this is not a matter of machine load any more: whenever it is seen it is a defect.)
            out.violation("model:C18:device-changed-under-acquisition-thread",
                          "the daemon entered update_services/delete of the capture device while its acquisition "
                          "thread was still reading it: %s" % rig.tr_z[:160], self.extra())
        if self.aborted and not out.violations and not out.inconclusive:
            out.inconclusive.append("C18 schedule %s/%s aborted without a finding: %s"
                                    % (self.sched.get("seed"), self.sched.get("index"), self.aborted))


class AbortSchedule(Exception):
    pass


class Monitor:
    """Style-4 monitors over the client logs, the controller log and the device trace."""

    def __init__(self, ctl):
        self.ctl = ctl
        self.out = ctl.out
        self.rig = ctl.rig
        self.repo = ctl.repo

    def v(self, key, detail):
        self.out.violation(key, detail, self.ctl.extra())

    def check(self):
        out = self.out
        tr = self.rig.read_trace()
        frames = tr["frames"]
        by_ts = tr["by_ts"]
        need_raw = any(f["raw"] for f in frames)
        maxidx = max([f["idx"] for f in frames] + [0])
        try:
            ref = reference_frames(self.repo, maxidx + 1, raw=False)
            refraw = reference_frames(self.repo, maxidx + 1, raw=True) if need_raw else None
        except Exception as e:
            out.harness_errors.append("reference capture failed: %s" % e)
            return
        # -- the hook's frames are the simulator's frames (trust in H1)
        for i, f in enumerate(frames):
            if f["seq"] != i or f["ts"] != "%.17g" % ts_of(f["seq"]):
                out.harness_errors.append("hook trace: frame numbering broken at %r" % (f,))
                return
            if f["L"] != ref[f["idx"]]["L"]:
                out.harness_errors.append("hook trace: frame idx %d of open %d differs from the direct capture"
                                          % (f["idx"], f["open"]))
                return
            if f["out"] != len([1 for x in f["L"].split(",") if x and int(x.split("@")[0], 16) & f["svc"]]):
                out.harness_errors.append("hook trace: filtered line count wrong in frame %d" % f["seq"])
                return
        out.count("device_frames", len(frames))
        by_seq = {f["seq"]: f for f in frames}

        # -- device services = union of the clients' services, at every lock-step tick
        for e in self.ctl.ctl:
            if e["k"] == "tick" and e["lock"]:
                f = by_seq.get(e["seq"])
                if f is None:
                    continue
                out.count("device_union_checks")
                if f["svc"] != e["union"]:
                    self.v("model:C18:device-services-not-union",
                           "frame %d captured with device services 0x%x, union of the clients' granted services is 0x%x"
                           % (e["seq"], f["svc"], e["union"]))

        # -- per client stream
        got = {}
        for c in self.ctl.procs:
            got[c.name] = self.check_stream(c, by_ts, ref, refraw)

        # -- completeness in lock-step
        died = self.ctl.daemon_died
        horizon = self.ctl.last_ok_tick
        for e in self.ctl.ctl:
            if e["k"] == "tick" and e["lock"]:
                if died and e["seq"] > horizon:
                    out.count("ticks_not_judged_daemon_dead")
                    continue
                for name in e["expect"]:
                    out.count("lockstep_deliveries_expected")
                    if e["seq"] not in got.get(name, ()):
                        self.v("model:C18:lost-frame",
                               "client %s kept up and was subscribed, but never received frame %d (captured, %s); "
                               "frames it has around: %s" % (name, e["seq"], "in device trace" if e["seq"] in by_seq else "NOT in device trace",
                                                             sorted(s for s in got.get(name, ()) if abs(s - e["seq"]) <= 3)))
        # -- nobody was dropped
        for c in self.ctl.procs:
            for ev in c.events:
                if ev.get("ev") == "error":
                    if died and ev.get("_tick", 0) > horizon:
                        out.count("client_errors_not_judged_daemon_dead")
                        continue
                    self.v("model:C18:client-dropped", "client %s lost its connection in %s (errno %s) at tick %d"
                           % (c.name, ev.get("where"), ev.get("errno"), ev.get("_tick", -1)))
                elif ev.get("ev") in ("garbage", "badcmd"):
                    out.harness_errors.append("client %s: %r" % (c.name, ev))
            if c.eof and not c.killed and c.n("quit") == 0:
                self.v("crash:client", "client process %s ended unexpectedly (rc=%s)" % (c.name, c.p.returncode))

    def check_stream(self, c, by_ts, ref, refraw):
        out = self.out
        G = 0
        last = -1
        seqs = set()
        for ev in c.events:
            k = ev.get("ev")
            if k == "connect" and ev.get("ok"):
                G = int(ev["granted"], 16)
                last = -1
            elif k == "svc" and ev.get("ok"):
                G = int(ev["granted"], 16)
            elif k == "closed":
                G = 0
            elif k == "async":
                out.count("async_messages_at_clients")
            elif k == "frame":
                out.count("frames_delivered")
                f = by_ts.get(ev["ts"])
                if f is None:
                    self.v("model:C18:unknown-timestamp", "client %s got a frame with timestamp %s which the device never produced"
                           % (c.name, ev["ts"]))
                    continue
                s = f["seq"]
                if s == last or s in seqs:
                    self.v("model:C18:duplicate-frame", "client %s received frame %d twice" % (c.name, s))
                elif s < last:
                    self.v("model:C18:reordered-frame", "client %s received frame %d after frame %d" % (c.name, s, last))
                elif last >= 0 and s > last + 1:
                    # permitted only for a stalled client, across its own service change, a channel
                    # flush, or while no tick was sent to an open device; the lock-step completeness
                    # rule below decides, this is evidence that queue overflow was exercised
                    out.count("frames_skipped_in_client_streams", s - last - 1)
                last = max(last, s)
                seqs.add(s)
                want = filter_lines(f["L"], G)
                if ev["L"] != want:
                    if (G & (RAW_625 | RAW_525)) and ev["L"] == "" and ev.get("raw") is not None:
                        # named quirk (DESIGN.md section 2 item 5): strict reference first; the
                        # divergence vanishes exactly under "a raw subscriber gets the raw image only"
                        self.v("model:C18:Q-raw-subscriber-gets-no-sliced-lines",
                               "client %s was granted 0x%x (raw VBI plus sliced services) but frame %d carries no sliced "
                               "line, expected %s" % (c.name, G, s, want[:120]))
                        out.count("quirk_raw_subscriber_frames")
                    else:
                        self.line_diff(c, s, G, ev["L"], want, f)
                else:
                    out.count("frames_content_equal")
                    out.count("lines_compared", ev["n"])
                if G & (RAW_625 | RAW_525):
                    if refraw is not None and "raw" in ev:
                        out.count("raw_frames_compared")
                        if ev["raw"] != refraw[f["idx"]]["raw"] or ev.get("rawts") != ev["ts"]:
                            self.v("model:C18:raw-mismatch", "client %s frame %d: raw image hash %s (ts %s), direct capture %s"
                                   % (c.name, s, ev["raw"], ev.get("rawts"), refraw[f["idx"]]["raw"]))
                    elif "raw" not in ev:
                        self.v("model:C18:raw-missing", "client %s holds raw service 0x%x but frame %d carries no raw image"
                               % (c.name, G, s))
        return seqs

    def line_diff(self, c, s, G, have, want, f):
        h = [x for x in have.split(",") if x]
        w = [x for x in want.split(",") if x]
        hk = {x.rsplit(":", 1)[0]: x for x in h}
        wk = {x.rsplit(":", 1)[0]: x for x in w}
        allk = {x.rsplit(":", 1)[0]: x for x in f["L"].split(",") if x}
        ctx = "client %s (granted 0x%x) frame %d (device services 0x%x): " % (c.name, G, s, f["svc"])
        missing = [k for k in wk if k not in hk]
        foreign = [k for k in hk if k not in wk]
        if missing:
            self.v("model:C18:missing-line", ctx + "lines of granted services missing: %s" % ",".join(missing[:8]))
        if foreign:
            notcap = [k for k in foreign if k not in allk]
            if notcap:
                self.v("model:C18:line-not-captured", ctx + "lines which the device did not capture: %s" % ",".join(notcap[:8]))
            else:
                self.v("model:C18:foreign-line", ctx + "lines of services not granted to it: %s" % ",".join(foreign[:8]))
        bad = [k for k in hk if k in wk and hk[k] != wk[k]]
        if bad:
            self.v("model:C18:payload-mismatch", ctx + "payload differs from the direct capture in %s" % ",".join(bad[:8]))
        if not missing and not foreign and not bad:
            self.v("model:C18:line-order", ctx + "same lines in a different order or duplicated: %s" % have[:200])


def run_c18_schedule(repo, sched):
    out = Outcome()
    ctl = None
    try:
        ctl = C18Controller(repo, sched, out)
        ctl.run()
    except Exception as e:            # controller bug or environment trouble: never a verdict
        import traceback
        out.harness_errors.append("C18 controller: %s\n%s" % (e, traceback.format_exc()[-1500:]))
    if ctl is not None and ctl.blocked and not out.violations and not out.harness_errors:
        # "never blocks": one expired watchdog is no verdict (the wall clock is not part of the rig's
        # model).  The schedule is run again; only when the living daemon stops delivering at the very
        # same operation and virtual time again, the standstill belongs to the schedule, not the machine.
        out2 = Outcome()
        ctl2 = None
        try:
            ctl2 = C18Controller(repo, sched, out2)
            ctl2.run()
        except Exception as e:
            out.harness_errors.append("C18 controller (re-run): %s" % e)
        b1, b2 = ctl.blocked, (ctl2.blocked if ctl2 is not None else None)
        if b2 and b1["op"] == b2["op"] and b1["tick"] == b2["tick"] and not out2.violations:
            out.inconclusive = [m for m in out.inconclusive if b1["what"] not in m]
            out.violation("model:C18:delivery-blocked",
                          "in two runs of the schedule the daemon, alive, stopped delivering at operation %d, tick %d: %s; "
                          "clients told not to read at that time: %s"
                          % (b1["op"], b1["tick"], b1["what"], ",".join(b1["stalled"]) or "none"), ctl.extra())
        else:
            for v in out2.violations:
                out.violations.append(v)
            out.count("blocked_schedules_not_reproduced")
    if not out.samples:
        ops = sched["ops"]
        out.samples.append({"schedule": "%s/%s %s %s" % (sched.get("seed"), sched.get("index"), sched["variant"], sched.get("profile")),
                            "ops": len(ops), "first_ops": ops[:6], "counters": dict(out.counters)})
    return out.to_json()
