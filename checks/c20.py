"""C20 - documented cross-thread use of the service decoder and of the raw
decoder is race-free (no data race, no deadlock, no torn result).

The generic driver does not understand ThreadSanitizer output and one case is a
whole multi-threaded process, so this check brings its own runner ("custom"):
every case is one run of harness/c20_threads (flavour tsan) in its own process
with TSAN_OPTIONS=log_path=<workdir>/..., the harness' own monitors report
through the usual JSON-lines file, ThreadSanitizer reports are parsed here.
"""
import json, os, re, shutil, signal, subprocess, tempfile, threading, time, concurrent.futures

import build
from vflib import driver

HARNESS = "c20_threads"
SRCS = ["harness/c20_threads.c", "lib/vf.c", "harness/c20_peek.c"]

# runs and operations (decode calls of thread A) per run.  Race reports and
# hand-over orders vary from run to run, so the budget goes into many runs
# (each with its own stream, yield seed and Teletext/time-stamp profile).
PLAN = {
    "quick":    {"a": (128, 4000), "b": (64, 3000)},
    "thorough": {"a": (1500, 8000), "b": (600, 4000)},
}
STALL_S = 20          # an API call that has not returned / no progress at all for this long => stall
WALL_S = 600          # hard limit per process (a run takes seconds; the in-process watchdog covers every library call)
MAX_STACKS_PER_KEY = 6
MAX_STALL_REPRO = 3   # distinct stall pictures reproduced in isolation
MAX_STALLS = 8        # watchdog expiries after which the remaining cases are not started


def plan(tier):
    """case index -> (mode, params): a pure function of the tier."""
    cases = []
    na, opa = PLAN[tier]["a"]
    nb, opb = PLAN[tier]["b"]
    for i in range(na):
        # p1: yield hook H2 off in one run of five; p4: thread count (bit 0: no
        # second fetcher, bit 1: no channel switcher); p6: Teletext profile 0 = seeded
        p = {"p0": opa, "p1": 1 if i % 5 == 4 else 0, "p2": STALL_S, "p4": (0, 0, 0, 1, 0, 0, 0, 0, 2, 0, 0, 3)[i % 12]}
        if tier == "thorough":
            p["p0"] = opa if i % 3 else opa // 2
        cases.append(("a", p))
    for i in range(nb):
        p = {"p0": opb, "p1": 0, "p2": STALL_S, "p4": (0, 0, 1)[i % 3]}
        cases.append(("b", p))
    return cases


# ----------------------------------------------------------------------------
# ThreadSanitizer report parsing

_FRAME = re.compile(r"^\s+#(\d+) (\S+) (\S+?)(?::\d+)*(?: \(([^)]*)\))?\s*$")
_RUNTIME = ("libtsan", "tsan_interceptors", "sanitizer_common", "libsanitizer")


def _stanzas(block):
    out = []
    for st in re.split(r"\n[ \t]*\n", block):
        lines = [l for l in st.split("\n") if l.strip()]
        if not lines:
            continue
        frames = []
        hdr = None
        for l in lines:
            m = _FRAME.match(l)
            if m:
                frames.append((m.group(2), m.group(3)))
            elif hdr is None and not l.startswith("WARNING") and not l.startswith("==="):
                hdr = l.strip()
        out.append((hdr or "", frames))
    return out


def _classify(frames, repo):
    """-> (entry, inner, chain, where): outermost / innermost function of the
    tree under test in this stack; where in {'lib','harness','none'}"""
    lib = [(fn, loc) for fn, loc in frames
           if (loc.startswith(repo + "/") or loc.startswith("/repo/")) and "/verif/" not in loc]
    user = [(fn, loc) for fn, loc in frames if not any(r in loc for r in _RUNTIME) and "libsanitizer" not in loc]
    chain = "<".join(fn for fn, loc in user[:8])
    if lib:
        return lib[-1][0], lib[0][0], chain, "lib"
    if any("/verif/" in loc for fn, loc in frames):
        return "harness", "harness", chain, "harness"
    return "?", "?", chain, "none"


def parse_tsan(text, repo):
    """-> list of dicts {key, detail, block, harness_only}"""
    reports = []
    # a fatal signal inside the instrumented process (not a race report)
    for m in re.finditer(r"ERROR: ThreadSanitizer: (SEGV|BUS|FPE|ILL|ABRT|stack-overflow|CHECK failed)[^\n]*\n((?:.*\n){0,40})", text):
        frames = [(f.group(2), f.group(3)) for f in (_FRAME.match(l) for l in m.group(2).split("\n")) if f]
        entry, inner, chain, where = _classify(frames, repo)
        reports.append({"key": "crash:%s:%s" % (m.group(1).replace(" ", "-"), inner), "detail": "fatal signal: " + chain,
                        "block": m.group(0)[:3000], "harness_only": where != "lib"})
    for block in re.split(r"^={18}\s*$", text, flags=re.M):
        m = re.search(r"WARNING: ThreadSanitizer: (.+?) \(pid=\d+\)", block)
        if not m:
            continue
        kind = m.group(1).strip()
        st = _stanzas(block)
        summ = re.search(r"SUMMARY: ThreadSanitizer: (.*)", block)
        summary = re.sub(r":\d+", "", summ.group(1)) if summ else ""
        if kind == "data race":
            acc = [(h, f) for h, f in st if re.match(r"(Previous |Atomic |Previous atomic )?(read|write|Read|Write|atomic)", h)]
            sides = []
            for h, f in acc[:2]:
                entry, inner, chain, where = _classify(f, repo)
                if not f:
                    entry, inner, chain, where = "?", "?", "[stack not restored]", "none"
                sides.append((entry, inner, chain, where, h))
            while len(sides) < 2:
                sides.append(("?", "?", "", "none", ""))
            sides.sort(key=lambda s: (s[0], s[2]))
            key = "tsan:race:%s|%s" % (sides[0][0], sides[1][0])
            detail = "%s <- %s  ||  %s <- %s" % (sides[0][4].split(" at ")[0], sides[0][2], sides[1][4].split(" at ")[0], sides[1][2])
            harness_only = all(s[3] != "lib" for s in sides) or any(s[1] == "harness" and s[3] == "harness" for s in sides)
            reports.append({"key": key, "detail": detail, "block": block.strip(), "harness_only": harness_only})
        else:
            slug = re.sub(r"[^a-z0-9]+", "-", kind.lower().split("(")[0].strip()).strip("-")
            stacks = [(h, f) for h, f in st if f and not h.startswith("Thread T") and "created at" not in h and not h.startswith("Location")]
            entries, chains, where = [], [], []
            for h, f in stacks[:4]:
                e, i, c, w = _classify(f, repo)
                entries.append(e)
                chains.append(c)
                where.append(w)
            ents = sorted(set(e for e in entries if e not in ("?",))) or ["?"]
            key = "tsan:%s:%s" % (slug, "|".join(ents))
            detail = "%s: %s" % (kind, "  ||  ".join(chains))
            harness_only = bool(where) and all(w != "lib" for w in where)
            reports.append({"key": key, "detail": detail, "block": block.strip(), "harness_only": harness_only})
    return reports


# ----------------------------------------------------------------------------
# running one case

def _env(workdir, tag):
    env = driver.harness_env("tsan")
    env["TSAN_OPTIONS"] = ("halt_on_error=0:exitcode=66:second_deadlock_stack=1:history_size=5:"
                           "report_signal_unsafe=0:log_path=%s" % os.path.join(workdir, tag + ".tsan"))
    return env


def _cmd(exe, tier, seed, idx, mode, params, outp, gdb=False, verbose=False):
    cmd = [exe, "--seed", str(seed), "--start", str(idx), "--cases", "1", "--tier", tier, "--mode", mode,
           "--budget", "1500", "--out", outp]
    for k, v in sorted(params.items()):
        cmd += ["--" + k, str(v)]
    if gdb:
        cmd += ["--p3", "1"]
    if verbose:
        cmd.append("-v")
    return cmd


def run_one(exe, tier, seed, idx, mode, params, workdir, tag=None, gdb=False, verbose=False):
    """-> dict(rc, outp, tsan_text, stderr, timed_out, gdb)"""
    tag = tag or "case%04d" % idx
    outp = os.path.join(workdir, tag + ".jsonl")
    if os.path.exists(outp):
        os.unlink(outp)
    errp = os.path.join(workdir, tag + ".stderr")
    cmd = _cmd(exe, tier, seed, idx, mode, params, outp, gdb=gdb, verbose=verbose)
    timed_out = False
    with open(errp, "wb") as ef:
        p = subprocess.Popen(cmd, stdout=ef, stderr=ef, env=_env(workdir, tag), cwd=workdir)
        try:
            rc = p.wait(timeout=WALL_S)
        except subprocess.TimeoutExpired:
            timed_out = True
            p.kill()
            rc = p.wait()
    tsan = ""
    for f in sorted(os.listdir(workdir)):
        if f.startswith(tag + ".tsan"):
            tsan += open(os.path.join(workdir, f), "r", errors="replace").read()
    gdbtxt = ""
    gp = os.path.join(workdir, "c20-stall-%d.gdb" % idx)
    if os.path.exists(gp):
        gdbtxt = open(gp, "r", errors="replace").read()[-12000:]
        os.unlink(gp)
    return {"rc": rc, "outp": outp, "tsan": tsan, "stderr": open(errp, "r", errors="replace").read(),
            "timed_out": timed_out, "gdb": gdbtxt, "cmd": " ".join(cmd)}


def _stall_key(detail):
    """deadlock:<calls that did not return> (blocked) or hang:<...> (spinning)"""
    m = re.search(r"phases (\S+) ;", detail or "")
    kind = "hang" if re.search(r"kind spinning ;", detail or "") else "deadlock"
    if not m:
        return kind + ":?"
    stuck = set()
    for x in re.split(r",(?=[A-DM]=)", m.group(1)):
        if "=" in x:
            stuck.add(x.split("=", 1)[1].split("[", 1)[0])
    stuck = sorted(stuck - {"done", "pace", "busy", "?"})
    return kind + ":" + "+".join(stuck or ["no-progress"])


def absorb(res, r, repo, jobname, idx, seen_stacks, stalls):
    """Fold the outcome of one process into the Result."""
    tmp = driver.Result(res.pid, res.tier, res.seed)
    driver._collect(r["outp"], {"name": jobname}, tmp)
    res.cases += tmp.cases
    res.trivial += tmp.trivial
    res.sigs |= tmp.sigs
    for k, v in tmp.counters.items():
        res.count(k, v)
    for s in tmp.samples:
        res.sample(s)
    for v in tmp.violations:
        v.case = idx
        if v.key.startswith("stall:"):
            stalls.append((idx, v))
        elif v.key.startswith("harness:") or v.key.startswith("selftest:"):
            res.harness_errors.append("case %d: %s %s" % (idx, v.key, v.detail))
        else:
            res.violations.append(v)
    if tmp.cases == 0 and r["rc"] in (0, 66) and "DEADLYSIGNAL" not in r["tsan"]:
        res.harness_errors.append("case %d: harness wrote no result" % idx)
    # ThreadSanitizer
    reps = parse_tsan(r["tsan"], repo)
    res.count("tsan_reports", len(reps))
    for rep in reps:
        if rep["harness_only"]:
            res.harness_errors.append("case %d: ThreadSanitizer report inside the harness itself: %s %s" % (idx, rep["key"], rep["detail"][:300]))
            continue
        sk = (rep["key"], rep["detail"])
        n = seen_stacks.get(sk, 0)
        seen_stacks[sk] = n + 1
        per_key = sum(1 for (k, d) in seen_stacks if k == rep["key"])
        if n == 0 and per_key <= MAX_STACKS_PER_KEY:
            res.violation(rep["key"], rep["detail"], job=jobname, case=idx, stderr=rep["block"][-6000:])
    # process level
    rc = r["rc"]
    if r["timed_out"]:
        res.violation("hang:wall:%s" % jobname, "process exceeded %d s wall clock and was killed" % WALL_S, job=jobname, case=idx)
    elif rc == 3:
        res.harness_errors.append("harness self-test failed: %s" % r["stderr"][-400:])
    elif rc == 2:
        res.harness_errors.append("case %d: harness setup error: %s" % (idx, r["stderr"][-400:]))
    elif rc not in (0, 66, 98, 97, 96):
        found = False
        for case, seg in driver.split_by_case(r["stderr"]):
            for k, d in driver.parse_sanitizer_text(seg, repo, res):
                res.violation(k, d, job=jobname, case=idx, stderr=seg[-3000:])
                found = True
        if not found:
            name = ("exit%d" % rc) if rc >= 0 else signal.Signals(-rc).name
            res.violation("crash:%s:scenario-%s" % (name, jobname), "process ended with %s: %s" % (name, r["stderr"][-600:]), job=jobname, case=idx)


def custom(spec, tier, seed, res, repo):
    exe = build.build_binary(HARNESS, SRCS, "tsan", repo=repo)
    workdir = tempfile.mkdtemp(prefix="vf-C20-", dir=os.environ.get("VERIF_TMP", "/tmp"))
    cases = plan(tier)
    seen, stalls = {}, []
    try:
        st = subprocess.run([exe, "--selftest"], capture_output=True, text=True, env=_env(workdir, "selftest"), cwd=workdir)
        if st.returncode != 0 or "selftest ok" not in st.stdout:
            res.harness_errors.append("harness self-test failed (rc %d): %s" % (st.returncode, (st.stdout + st.stderr)[-600:]))
            return
        nproc = max(1, min(driver.NCPU, len(cases)))
        stop = threading.Event()          # enough watchdog expiries seen: every one costs STALL_S of wall clock

        def guarded(i, m, p):
            return None if stop.is_set() else run_one(exe, tier, seed, i, m, p, workdir)

        skipped = 0
        with concurrent.futures.ThreadPoolExecutor(max_workers=nproc) as ex:
            futs = {ex.submit(guarded, i, m, p): (i, m, p) for i, (m, p) in enumerate(cases)}
            for fu in concurrent.futures.as_completed(futs):
                i, m, p = futs[fu]
                r = fu.result()
                if r is None:
                    skipped += 1
                    continue
                absorb(res, r, repo, m, i, seen, stalls)
                if len(stalls) >= MAX_STALLS:
                    stop.set()
        if skipped:
            res.inconclusive.append("run cut short after %d watchdog expiries: %d cases not run" % (len(stalls), skipped))
        # A stall counts only when it is reproduced in isolation (then with gdb
        # stacks, DESIGN.md 1.3).  One representative per stall picture.
        res.count("watchdog_expiries", len(stalls))
        reps, rest = {}, 0
        for idx, v in sorted(stalls, key=lambda t: t[0]):
            k = _stall_key(v.detail)
            if k not in reps and len(reps) < MAX_STALL_REPRO:
                reps[k] = (idx, v)
            elif k not in reps:
                rest += 1
        if rest:
            res.inconclusive.append("%d further stalls with other pictures not re-run" % rest)
        with concurrent.futures.ThreadPoolExecutor(max_workers=max(1, len(reps))) as ex:
            futs = {}
            for k, (idx, v) in reps.items():
                m, p = cases[idx]
                futs[ex.submit(run_one, exe, tier, seed, idx, m, p, workdir, "stall%04d" % idx, True)] = (k, idx, v, m)
            for fu in concurrent.futures.as_completed(futs):
                k, idx, v, m = futs[fu]
                r2 = fu.result()
                t2 = driver.Result(res.pid, tier, seed)
                driver._collect(r2["outp"], {"name": m}, t2)
                again = [x for x in t2.violations if x.key.startswith("stall:")]
                n_same = sum(1 for _, w in stalls if _stall_key(w.detail) == k)
                if again or r2["timed_out"]:
                    d = again[0].detail if again else v.detail
                    res.count("watchdog_expiries_reproduced", 1)
                    res.violation(_stall_key(d), "watchdog expired in %d run(s), first in case %d; reproduced in isolation: %s" % (n_same, idx, d),
                                  job=m, case=idx, stderr=r2["gdb"][-6000:], extra={"gdb": r2["gdb"], "first_expiry": v.detail})
                else:
                    res.inconclusive.append("stall in scenario %s case %d not reproduced in isolation (%s)" % (m, idx, v.detail[:300]))
        res.extra["tsan_distinct_stack_pairs"] = len(seen)
        res.extra["tsan_keys"] = sorted(set(k for k, d in seen))
        res.extra["runs"] = {"a": PLAN[tier]["a"][0], "b": PLAN[tier]["b"][0], "ops_per_run": {"a": PLAN[tier]["a"][1], "b": PLAN[tier]["b"][1]}}
        res.extra["watchdog"] = {"stall_seconds": STALL_S, "expiries": len(stalls)}
        if os.environ.get("VERIF_KEEP"):
            driver.log("kept workdir " + workdir)
    finally:
        if not os.environ.get("VERIF_KEEP"):
            shutil.rmtree(workdir, ignore_errors=True)


def custom_replay(spec, rp, res, repo):
    """Race reports and torn results are schedule dependent: the recorded case
    is re-run up to 6 times; monitors' findings are reported as they come."""
    tier, seed, idx = rp.get("tier", "quick"), rp.get("seed", 1), rp.get("case")
    exe = build.build_binary(HARNESS, SRCS, "tsan", repo=repo)
    cases = plan(tier)
    if idx is None or idx >= len(cases):
        res.harness_errors.append("replay file has no usable case index")
        return
    m, p = cases[idx]
    workdir = tempfile.mkdtemp(prefix="vf-C20-replay-", dir=os.environ.get("VERIF_TMP", "/tmp"))
    try:
        for attempt in range(6):
            seen, stalls = {}, []
            r = run_one(exe, tier, seed, idx, m, p, workdir, tag="replay%d" % attempt,
                        gdb=rp["key"].startswith(("deadlock:", "hang:")), verbose=True)
            if attempt == 0:
                driver.log("replay: " + r["cmd"])
            absorb(res, r, repo, m, idx, seen, stalls)
            for _, v in stalls:
                res.violation(_stall_key(v.detail), v.detail, job=m, case=idx, stderr=r["gdb"][-6000:])
            hit = [v for v in res.violations if v.key == rp["key"]]
            if hit:
                out = [l for l in r["stderr"].split("\n") if l.startswith("VIOL") or l.startswith("    ")]
                driver.log("\n".join(out[:60]))
                if hit[0].stderr:
                    driver.log(hit[0].stderr[-3000:])
                break
            driver.log("attempt %d: key not seen, running the case again" % (attempt + 1))
    finally:
        shutil.rmtree(workdir, ignore_errors=True)


SPEC = {
    "id": "C20",
    "level": "exploration",
    "level_text": ("The documented cross-thread uses are executed for real under ThreadSanitizer (whole library instrumented): "
                   "(a) one thread feeds vbi_decode with generated caption/XDS (network changes, ITV triggers)/VPS traffic and a Teletext page stream with rolling headers "
                   "(same / other network / other magazine / damaged header: every outcome of the header comparison that reads the channel-switch countdown), "
                   "with time stamp gaps that start the countdown, while two threads fetch caption pages 1-8, one requests channel switches (also while the countdown runs) "
                   "and the event handler fetches on every event type; (b) one thread runs vbi_raw_decode while two threads "
                   "add/remove/check one service at a time. Every ThreadSanitizer report in library code is a violation; every concurrently fetched "
                   "page must equal a snapshot the decoding thread itself took inside the fetch's call/return window; every channel switch request is executed or cancelled by a matching header "
                   "no later than the first vbi_decode call that started after it returned (the countdown, read under its mutex after every call, is then 0; requests are also aimed at the first "
                   "instructions of the call of a frame with a time stamp gap, where the countdown is started unless one runs); every raw decode must equal the "
                   "sequential reference of one service set possible inside its window; bounded progress: every API call returns and the decoding thread finishes its "
                   "operation count, judged by a 20 s per-call watchdog whose expiry must reproduce in isolation (then with gdb stacks) before it counts. "
                   "Held on the schedules that occurred (seeded yield hook H2 at the library's own unlock points widens them); not a proof over all interleavings."),
    "level_note": ("Trusted: gcc libtsan happens-before detection; the harness' tick clock (relaxed atomic counter - creates no happens-before edge; x86-64 locked RMW "
                   "gives real-time order); the window monitors in harness/c20_threads.c (self-tested on hand-made logs); the sequential single-thread pass "
                   "that validates the raw-decoder reference on every run; the library's own signal simulator (vbi_raw_vbi_image) to draw the raw images; "
                   "/proc/self/task/<tid>/stat for the blocked/starved/spinning distinction of the watchdog."),
    "technique": "runtime monitoring: ThreadSanitizer + snapshot/version window monitors + bounded-progress watchdog (reproduced, gdb stacks) over seeded multi-threaded runs with yield hook H2",
    "rule": ("one case = one seeded multi-threaded run (scenario a: 2-4 threads, b: 2-3 threads) of a few thousand operations per thread; "
             "signature = observed lock hand-over: (thread, page, site where the decoder had dropped the mutex, number of candidate snapshots, old/new/only state obtained), "
             "order of foreign operations completing inside one vbi_decode call, (image, number of possible service states per toggler, first/later set obtained, services decoded), "
             "order of toggles between two decodes; trivial = run in which no foreign operation ever overlapped a decode call"),
    "assumptions": [
        "documented thread contract: vbi_decode is the only non-reentrant call (vbi.c doc comment); vbi_fetch_cc_page and vbi_channel_switched may be called from other threads; "
        "vbi_fetch_cc_page is 'safe' to call from an event handler (caption.c doc comment); "
        "vbi_raw_decoder_add_services 'while already decoding', _remove_services 'at any time'",
        "a fetched page is compared on all vbi_page fields except the dirty hints, which every fetch consumes",
        "the blank page produced by a channel switch is admitted whenever the fetch window spans more than one snapshot (the reset can be overwritten within the same vbi_decode call)",
        "time stamps violating the 1/30..1/25 s rule are legal input (documented as 'interpreted as frame dropping')",
        "raw images carry a fixed service per line; services are added with strict=0",
    ],
    "jobs": [],
    "custom": custom,
    "custom_replay": custom_replay,
    "min_distinct": 400,
    "min_evaluations": {"quick": 192, "thorough": 2100},
    "min_counters": {
        "a_fetches_overlapping_decode": 300000,
        "a_fetches_returning_inside_event_handler_gap": 30000,
        "a_fetches_with_several_candidate_snapshots": 4000,
        "a_channel_switch_requests": 3000,
        "a_channel_switch_requests_during_decode": 1500,
        "a_switch_requests_judged_not_lost": 2000,
        "a_switch_requests_inside_decode_of_gap_frame": 300,
        "a_caption_events": 30000,
        "a_network_events": 4000,
        "a_trigger_events": 100,
        "a_ttx_page_events": 20000,
        "a_ttx_events_header_same": 10000,
        "a_ttx_events_header_inconclusive": 2500,
        "a_ttx_header_text_network_changes": 600,
        "a_time_stamp_gaps": 2500,
        "a_ttx_rolling_pages_ended_within_40_frames_of_gap_damaged_header": 1000,
        "a_page_state_changes": 20000,
        "b_decodes_overlapping_a_toggle": 10000,
        "b_toggles": 40000,
        "b_check_services_calls": 10000,
    },
}
