SPEC = {
    "id": "C07",
    "level": "exploration",
    "level_text": "Byte streams produced by the real multiplexer (PES and TS, accepted by the independent ISO 13818-1 / EN 301 775 parser before use), the same with Teletext on the undefined line 0, with one of 13 kinds of damage, mutated, truncated, or random bytes with sprinkled headers are demultiplexed once in a single call and then under ~12 (thorough: 40) partitions each - single bytes, random cuts, cuts 0-2 bytes around every structural boundary, fixed sizes - through vbi_dvb_demux_feed and through vbi_dvb_demux_cor with random max_lines, on fresh demultiplexers and on ones reused after vbi_dvb_demux_reset, every chunk in its own exactly sized heap block freed right after the call (ASan+UBSan watch every access). All runs must deliver the identical frame sequence (lines, services, payload, PTS). After damage every frame sent after the first intact packet at which ISO 13818-1 framing is in step again must be delivered exactly, as the last frames of the output. Held on the executions produced, not a proof.",
    "level_note": "Trusted: independent parser / PES framing scanner in harness/c06_dvb_parser.h (self-tested), the real multiplexer as stream source (its output is only used after the parser accepted it), gcc ASan/UBSan runtimes, CPU watchdog for hangs.",
    "technique": "runtime monitoring: metamorphic oracle (partition invariance, both interfaces, reset) + damage-recovery oracle with independent framing model, ASan exact-size chunk blocks, watchdog",
    "rule": "one case = one stream (5-14 frames; 1 in 40 with PES packets of 11-65 kB) and 12/40 partitions; signature per partition = (PES|TS, stream type or damage kind, interface, fresh|reset demultiplexer, partition kind, set of structural positions hit by a cut {packet start, header look-ahead, packet body, inserted bytes}); trivial = stream could not be built",
    "assumptions": [
        "recovery streams start every frame with a Teletext line not above the last line of any earlier frame, so that each frame is recognisable by the statement's frame rule whatever the demultiplexer still holds",
        "PES: the damaged region extends to the span claimed by whatever PES headers (00 00 01, stream_id >= 0xBC, PES_packet_length) a framing-only receiver meets from the damage on (ISO 13818-1 framing, computed by the independent scanner)",
        "TS: when the damage can cost sync and the stream shows two sync bytes 188 apart (or sync + PES start code) off the true packet grid near the damage, recovery is not judged (an honest receiver may lock onto the wrong grid); counted as recovery_skipped_ts_sync_ambiguous",
        "the coroutine cannot report frames without lines and truncates frames to max_lines; the comparison accounts for both",
        "max_lines 0 is not used",
    ],
    "jobs": [
        {"name": "asan", "harness": "c07_dvb_demux", "srcs": ["harness/c07_dvb_demux.c"], "flavour": "asan",
         "cases": {"quick": 20000, "thorough": 160000}, "budget": 60},
    ],
    "min_distinct": 200,
    "min_counters": {"partitions_coroutine": 5000, "partitions_callback": 5000, "recovery_checked": 500,
                     "frames_compared": 100000},
}
