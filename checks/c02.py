SPEC = {
    "id": "C02",
    "level": "exploration",
    "level_text": "Generated Teletext networks (3-40 pages 100-899, subpages none or 01-79, consistent header, national option bits under "
                  "the default regions with Latin sub-sets, rows drawn from the 96 printable codes and all Level 1 spacing attributes except "
                  "black foreground, FLOF X/27/0, erase and no-erase retransmissions, rows in any order or omitted, time filling headers) are "
                  "packetised by an independent transmitter and multiplexed in serial mode or in parallel mode with up to eight magazine "
                  "streams interleaved packet by packet, then fed to the real decoder (vbi_decode) under ASan+UBSan. At every termination "
                  "point (next header with another page number in the same magazine) the page is fetched (wildcard, Level 1.0, Level 1.5) and "
                  "every cell of rows 1-24 and of the header columns 8-39 is compared with an independent Level 1 display model written from "
                  "EN 300 706 12.2; page/subpage number, FLOF links, exactly-one page event, vbi_is_cached and vbi_cache_hi_subno are checked "
                  "at the same points and all pages again at the end. Pages received without X/27/0 are also fetched with navigation: row 24 must read as transmitted. Case 0 sends all 96 codes through every Latin national sub-set "
                  "(tables 33/36). Held on the networks produced, not a proof.",
    "level_note": "Trusted: the transmitter, national option tables and Level 1 display model in harness/c02_ttx.h (written from EN 300 706, "
                  "self-tested on hand vectors, encoders cross-checked against the library's decoders), the transmitter-side cache model in "
                  "harness/c02_ttx_faithful.c, gcc ASan/UBSan runtimes, the UBSan idiom allow-list. Deviations of the implementation from "
                  "12.2 that disappear exactly under a named quirk are reported under the quirk's own key.",
    "technique": "runtime monitoring: history + executable reference model (independent transmitter, cache model and EN 300 706 12.2 "
                 "display model) over generated multiplexes, quirk-parameterised, ASan/UBSan bounds-strict",
    "rule": "one case = one generated network (case 0 = character set sweep); signature = (serial/parallel, most magazines open at a "
            "termination point, classes of spacing attributes generated, erase/no-erase update kinds, shuffled row order); trivial = "
            "a network without spacing attributes and without a retransmission",
    "assumptions": [
        "EN 300 706 12.2 table 26 as implemented in harness/c02_ttx.h (set-at/set-after, held mosaic reset rules, box codes act between a pair, row below double height not displayed)",
        "codes 0/0 and 1/0 (black foreground), double height/size in rows 0, 23, 24, unpaired box codes, a double width character in column 39 and the second G0 set without X/28 are not defined for Level 1/1.5 and are not generated or not compared",
        "consecutive headers of one magazine carry different page numbers (a time filling header is inserted otherwise)",
        "regular 25 Hz timestamps (no desynchronisation)",
    ],
    "jobs": [
        {"name": "asan", "harness": "c02_ttx_faithful", "srcs": ["harness/c02_ttx_faithful.c"], "flavour": "asan",
         "cases": {"quick": 32000, "thorough": 320000}, "budget": 60},
    ],
    "min_distinct": 40,
    "min_counters": {"transmissions_terminated": 5000, "pages_checked": 5000, "page_events": 5000, "erase_updates": 300,
                     "noerase_updates": 300, "wildcard_fetches": 5000, "flof_pages_checked": 300, "charset_codes_checked": 96 * 20,
                     "networks_serial": 100, "networks_parallel": 100, "networks_header_without_page_number": 100,
                     "networks_page_number_flush_against_clock": 100, "final_sweep_pages": 2000},
}
