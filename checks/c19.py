"""C19 - the proxy daemon withstands faulty clients; channel control is held by one client.
Multi-process rig: rig/c19_rig.py (fault generator, controllers, monitors) on top of
rig/proxy_rig.py (daemon + witnesses + raw protocol connections, hook H1)."""
import concurrent.futures, os, sys

VERIF = os.path.dirname(os.path.dirname(os.path.abspath(__file__)))
if VERIF not in sys.path:
    sys.path.insert(0, VERIF)

# work units per tier: (witnessed fault batches, solo fault batches, token schedules, fault-generator sub-seeds)
PLAN = {"quick": (32, 8, 96, 1), "thorough": (576, 96, 3000, 12)}


def _one(args):
    repo, unit = args
    from rig import c19_rig
    if unit["kind"] == "fault":
        return c19_rig.run_fault_batch(repo, unit)
    return c19_rig.run_token_schedule(repo, unit)


def merge(res, o, job):
    res.cases += o["cases"]
    res.trivial += o.get("trivial", 0)
    for s in o["sigs"]:
        res.sigs.add(s)
    for k, v in o["counters"].items():
        res.count(k, v)
    for s in o["samples"]:
        res.sample(s)
    for v in o["violations"]:
        ex = v["extra"]
        case = None
        if ex.get("case"):
            case = "b%s-c%s" % (ex.get("batch", {}).get("index"), ex["case"].get("id"))
        elif ex.get("batch"):
            case = "b%s" % ex["batch"].get("index")
        elif ex.get("schedule"):
            case = "t%s" % ex["schedule"].get("index")
        res.violation(v["key"], v["detail"], job=job, case=case, extra=ex)
    res.inconclusive.extend(o["inconclusive"])
    res.harness_errors.extend(o["harness_errors"])


def units(repo, tier, seed):
    from rig import c19_rig, proxy_rig
    nw, ns, nt, sub = PLAN[tier]
    only = os.environ.get("VERIF_C19_ONLY", "")
    out = []
    if only in ("", "fault"):
        lay, ioc = proxy_rig.layout(repo), c19_rig.ioctls(repo)
        for k in range(sub):
            for b in c19_rig.gen_fault_batches(lay, ioc, seed * 16 + k if k else seed, tier, nw // sub, max(1, ns // sub)):
                b["index"] += k * 1000
                out.append(b)
    if only in ("", "token"):
        out += [c19_rig.gen_token_schedule(seed, i, tier) for i in range(nt)]
    lim = os.environ.get("VERIF_C19_UNITS")
    if lim:
        out = out[:int(lim)]
    return out


def custom(spec, tier, seed, res, repo):
    from rig import c19_rig
    from vflib import driver
    c19_rig.prebuild(repo)
    for msg in c19_rig.selftest():
        res.harness_errors.append("oracle self-test: " + msg)
    if res.harness_errors:
        return
    us = units(repo, tier, seed)
    # longest units first: better packing on the worker pool
    us.sort(key=lambda u: -(len(u.get("cases", ())) * 3 + len(u.get("ops", ()))))
    workers = max(1, min(driver.NCPU, len(us)))
    with concurrent.futures.ProcessPoolExecutor(max_workers=workers) as ex:
        for u, o in zip(us, ex.map(_one, [(repo, u) for u in us])):
            merge(res, o, "faults" if u["kind"] == "fault" else "token")
    if res.inconclusive and res.counters.get("faulty_connections", 0) == 0:
        res.harness_errors.append("no faulty connection was made (all inconclusive)")


def custom_replay(spec, rp, res, repo):
    from rig import c19_rig
    c19_rig.prebuild(repo)
    ex = rp.get("extra", {})
    if ex.get("schedule"):
        for _ in range(3):
            merge(res, c19_rig.run_token_schedule(repo, ex["schedule"]), "token")
            if any(v.key == rp["key"] for v in res.violations):
                break
        return
    b = ex.get("batch")
    if not b:
        res.harness_errors.append("replay file carries neither a schedule nor a batch")
        return
    if ex.get("case"):
        # first the case alone (fresh daemon, same witnesses) ...
        one = dict(b)
        one["cases"] = [ex["case"]]
        merge(res, c19_rig.run_fault_batch(repo, one), "faults")
        if any(v.key == rp["key"] for v in res.violations):
            return
    # ... then the whole batch it came from, regenerated from (seed, tier, index)
    from rig import proxy_rig
    for u in units(repo, b["tier"], rp.get("seed", b["seed"])):
        if u["kind"] == "fault" and u["index"] == b["index"]:
            merge(res, c19_rig.run_fault_batch(repo, u), "faults")


SPEC = {
    "id": "C19",
    "level": "fault_enumeration",
    "level_text": "The real daemon (ASan+UBSan bounds-strict, hook H1: simulated, logically clocked capture device) is attacked "
                  "over its local socket by raw protocol clients while 2-3 witness processes using the public client library "
                  "receive one frame after every faulty connection (lock-step). Enumerated per run: a valid protocol run "
                  "(connect, service request, token request, notify with every flag, ioctl, reclaim confirm, suspend, close; "
                  "daemon-pid request) cut at every byte, followed by disconnect, half-close or silence; every header length "
                  "0..sizeof(message)+8 and far beyond for every client message type; every message type (incl. daemon-only and "
                  "undefined) in every connection state (unconnected, connected without / with services, token holder, token "
                  "being reclaimed); every integer field at its extremes (strictness over its whole range, buffer count, "
                  "scanning, flags, priorities, durations, ioctl request / arg_size); random bytes. Solo batches repeat the "
                  "state-dependent part without witnesses (device closed). Token schedules: 2-5 raw clients and 0-2 witnesses of "
                  "all priorities request, return, release, confirm (asked or not), ignore reclaims, flush, disconnect while "
                  "holding. Monitors: daemon alive and sanitizer-silent after every connection, file descriptors = baseline + "
                  "connections still open, device closed when nobody holds a service, exit status 0 and no leak on SIGTERM; "
                  "witness streams complete, ordered, equal to the direct capture (C18 monitors); at most one token holder at "
                  "every point of the totally ordered controller log and in every traced client table, grants only to clients "
                  "with an outstanding channel request. Held on the connections and schedules executed.",
    "level_note": "Trusted: hook H1 (frames verified against a direct capture per run), the wire layout and ioctl table derived "
                  "from the tree at build time, the controllers and monitors in rig/c19_rig.py and rig/proxy_rig.py (token "
                  "monitor self-tested on hand-written logs at every start), gcc ASan/UBSan/LSan. Not reached: TCP transport, "
                  "real V4L drivers, the acquisition-thread path (C18), the daemon's wall-clock timeouts. Watchdog expiry is "
                  "INCONCLUSIVE, never a violation.",
    "technique": "runtime monitoring: fault enumeration over the wire protocol against the real daemon under ASan+UBSan+LSan with "
                 "lock-step witnesses; invariant monitors at quiescent points (liveness, fd count, device state); history monitor "
                 "for token exclusivity over the ordered controller log and the daemon's traced token states",
    "rule": "one case = one work unit (a daemon life with ~100-170 faulty connections, or one token schedule); signature = "
            "(witnessed|solo, connection state reached, message type hit, fault kind incl. ending, what the daemon did with the "
            "connection) for faults; (token operation, sender's token state, resulting indication) and traced token-state "
            "transition pairs for schedules",
    "assumptions": ["hook H1 replaces exactly the V4L layer (verified per run against a direct capture)",
                    "a client holds the token from receiving TOKEN_CNF(token_ind) / TOKEN_IND until it sends NOTIFY(TOKEN), "
                    "NOTIFY(RELEASE), a new TOKEN_REQ (the client library gives the token up with it), RECLAIM_CNF after a "
                    "RECLAIM_REQ, or disconnects",
                    "a client has asked for channel control iff its last TOKEN_REQ had chn_profile.is_valid set and it has not "
                    "sent NOTIFY(RELEASE) since (documented meaning of is_valid / VBI_PROXY_CHN_RELEASE)"],
    "jobs": [],
    "custom": custom,
    "custom_replay": custom_replay,
    "min_distinct": 150,
    "min_counters": {"faulty_connections": 2500, "truncation_points": 600, "header_lengths": 1000, "type_state_pairs": 140,
                     "field_extremes": 800, "daemon_alive_checks": 2500, "fd_checks": 2500, "witness_frames_checked": 2000,
                     "witness_lockstep_deliveries_expected": 2000, "token_schedules": 30, "token_grants_seen": 40,
                     "token_reclaims_seen": 10, "token_holder_checks": 40, "token_table_checks": 200,
                     "token_ops:disconnect_holding": 3, "token_ops:ignored_reclaim": 3},
}
