# C12 - VPS, PDC and 8/30 codecs are exact inverses; bad input is rejected untouched.
# Unit sizes must mirror units[] in harness/c12_codecs.c (the harness self-test
# compares --p1 with its own count and fails the run on a mismatch).
_PER_CASE = 16
_UNITS = [
    ("vps_cni", 4096), ("vps_pil", 1 << 20), ("vps_pcs_pty", 1024), ("dvb_pil", 1 << 20), ("dvb_header", 65536),
    ("8301_cni", 65536), ("8301_mjd", 100000), ("8301_utc", 86400), ("8301_lto", 256), ("8301_bad_digit", 11 * 16 * 16),
    ("8302_cni", 65536), ("8302_pil", 1 << 20), ("8302_flags_pty", 65536), ("8302_ham_single", 13 * 16 * 8 * 4),
    ("8302_ham_double", 13 * 16 * 28), ("vps_any_buffer", 1 << 18), ("830_any_buffer", 1 << 17), ("out_of_range", 1 << 15),
]
_BLOCKS = sum((n + _PER_CASE - 1) // _PER_CASE for _, n in _UNITS)
_VALUES = sum(n for _, n in _UNITS)

SPEC = {
    "id": "C12",
    "level": "fault_enumeration",
    "level_text": "Per-field exhaustive enumeration on the real codecs: every one of the 4096 VPS CNIs, every 20-bit PIL on each of the three "
                  "carriers (VPS, DVB PDC descriptor, 8/30-2), all PCS x PTY, every 16-bit 8/30-1 and 8/30-2 CNI, every MJD 0..99999, every second "
                  "of the day, every value of the time-offset byte, all LCI/LUF/PRF/PCS/MI/reserved x PTY combinations, every single and double bit "
                  "error of every Hamming byte, every stored nibble value of every BCD digit, every (tag,length) descriptor header - with the other "
                  "fields and all background bytes random (1 background per value in the quick tier, 16 in the thorough tier) - is compared with "
                  "independent table-driven reference codecs: library encode == reference encode of the same background (right bits, nothing else "
                  "touched), decode == reference values, re-encode reproduces the field bits (0xDC3 excepted as documented), refusals leave the output "
                  "byte-identical, single bit errors change nothing. The product of fields is sampled, not enumerated.",
    "level_note": "Trusted: the reference codecs in harness/c12_ref.h (bit-placement tables from ETS 300 231, EN 300 706 9.8, EN 300 468, TR 101 231; "
                  "self-tested on the received sample packets, the MJD reference point and the Hamming code table), guard-page allocator, gcc ASan/UBSan.",
    "technique": "runtime monitoring: enumerative differential oracle (independent reference encoders/decoders) on the real codec functions, "
                 "guard-page buffers, sampled ASan/UBSan pass",
    "rule": "one case = %d consecutive values of one enumerated field (unit) with the other fields and the background drawn from the PRNG; "
            "signature = (codec function, field, boundary class: min/max/mid/BCD-carry/sign/0xDC3/0xDC1-2/service code/unreal date/real date/"
            "out-of-range/invalid BCD/single-bit error/double-bit error/bad header/...); every case is non-trivial" % _PER_CASE,
    "assumptions": [
        "reference bit layouts in harness/c12_ref.h are those of ETS 300 231 / EN 300 706 / EN 300 468 (checked against the sample packets of test/test-vps.cc and test/test-packet-830.cc)",
        "hours >= 24, minutes >= 60, seconds >= 61 in 8/30-1 are treated as invalid input (function documentation and upstream test); second 60 is not judged",
        "a double bit error in a Hamming byte that carries no CNI bit may or may not be refused by vbi_decode_teletext_8302_cni",
        "time_t is 64 bit: no MJD is unrepresentable",
    ],
    "jobs": [
        {"name": "enum", "harness": "c12_codecs", "srcs": ["harness/c12_codecs.c"], "flavour": "plain",
         "cases": {"quick": _BLOCKS, "thorough": 16 * _BLOCKS}, "mode": "enum",
         "params": {"p0": _PER_CASE, "p1": _BLOCKS}, "budget": 20},
        {"name": "asan", "harness": "c12_codecs", "srcs": ["harness/c12_codecs.c"], "flavour": "asan",
         "cases": {"quick": 24000, "thorough": 600000}, "mode": "sample",
         "params": {"p0": _PER_CASE, "p1": _BLOCKS}, "budget": 20},
    ],
    "min_distinct": 60,
    "min_evaluations": {"quick": _BLOCKS, "thorough": 16 * _BLOCKS},
    "min_counters": {
        "values_enumerated": _VALUES, "values_vps_cni": 4096, "values_vps_pil": 1 << 20, "values_dvb_pil": 1 << 20,
        "values_8301_cni": 65536, "values_8301_mjd": 100000, "values_8301_utc": 86400, "values_8301_lto": 256,
        "values_8302_cni": 65536, "values_8302_pil": 1 << 20, "values_8302_flags_pty": 65536,
        "values_8302_ham_single": 13 * 16 * 8, "values_8302_ham_double": 13 * 16 * 28,
        "refusals_checked_unmodified": 10000, "single_bit_errors": 10000, "uncorrectable_inputs": 5000,
        "out_of_range_encodes": 10000, "dc3_cases": 100, "invalid_bcd_inputs": 500, "reencodes": 1000000,
    },
}


def _custom(spec, tier, seed, res, repo):
    # every block of every unit ran (no worker lost a range): exhaustive per field
    res.exhaustive = res.counters.get("values_enumerated", 0) >= _VALUES and not res.violations
    res.extra["exhaustive_scope"] = "per field (others sampled): " + ", ".join("%s=%d" % u for u in _UNITS)


SPEC["custom"] = _custom
