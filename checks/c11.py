from vflib.driver import ASAN_OPTS

# size of the exhaustive script enumeration (must match exh_count_k() in the harness):
# k handlers, each initially registered for type A or B, at most `maxact` actions,
# an action = (one of 6 operations) x (one of 5 target slots) x (which of the k handlers performs it)
def _exh(k, maxact):
    return sum((30 * k) ** a for a in range(maxact + 1)) * 2 ** k


def _exh_total(maxact):
    return sum(_exh(k, maxact) for k in (1, 2, 3))


_ENV = {"ASAN_OPTIONS": ASAN_OPTS + ":quarantine_size_mb=48"}


def _job(name, source):
    return {"name": name, "harness": "c11_events", "srcs": ["harness/c11_events.c"], "flavour": "asan",
            "mode": "exh", "params": {"p0": {"quick": 2, "thorough": 3}, "p1": source},
            "cases": {"quick": _exh_total(2), "thorough": _exh_total(3)}, "budget": 20, "env": _ENV}


SPEC = {
    "id": "C11",
    "level": "exploration",
    "level_text": "Scripted event handlers (6 functions x 4 user pointers, one of them NULL) register, unregister, legacy-add and legacy-remove "
                  "themselves and each other from inside running callbacks while events are raised with vbi_send_event and through "
                  "the real decoder (Teletext pages, VPS, 8/30-1/2, WSS, caption, XDS); every callback is checked on-line against a "
                  "model of the ordered list of registration instances (exactly once, own user pointer, registration order, added-"
                  "during-delivery at most once, removed never again), ASan watches for freed handler records, and vbi_is_cached "
                  "must be true exactly for pages transmitted while the union of masks contained VBI_EVENT_TTX_PAGE. All scripts of "
                  "<=2 (quick) / <=3 (thorough) actions for <=3 handlers are enumerated for three event sources, plus random "
                  "histories. Held on the executions produced, not a proof.",
    "level_note": "Trusted: the instance-list model in harness/c11_events.c (written from the API documentation in src/vbi.c, "
                  "self-tested on a hand history; at the end of every case it is compared with the library's list read through the "
                  "internal header), the independent Teletext/VPS/WSS/XDS transmitters in harness/c13_tx.h, gcc ASan/UBSan runtimes. "
                  "Events raised by the decoder are delimited by a never-touched first handler in a third of the random cases and "
                  "otherwise by (type, position) monotonicity, so an event the decoder raises to nobody is only visible in the former.",
    "technique": "runtime monitoring: executable reference model of the handler list checked at every callback of the real library "
                 "(scripted re-entrant registration histories, exhaustive for short scripts), ASan for freed records, cache probing "
                 "for the acquisition clause",
    "rule": "rand: one case = 2-6 slots with random scripts (<=4 groups of <=4 actions), initial registrations, 4-24 steps of main-"
            "level registration changes, direct events and decoder input; exh: case index enumerates (handlers 1-3, initial mask A/B, "
            "<=p0 actions each = operation x target x performing handler) for event source p1. Signature = (operation, position of the "
            "target relative to the traversal cursor {self,next,prev,last,later,new,absent}, caller first/middle/last, number of actions "
            "already performed in this invocation, event source); trivial = no registration call was made from inside a callback",
    "assumptions": [
        "handlers never call vbi_decode or vbi_send_event (documented: never call vbi_decode from a handler; the event mutex is not recursive)",
        "a mask change that adds or removes the event's type while that event is being delivered makes 0 or 1 calls acceptable",
        "a page counts as transmitted inside a window when header, rows and the terminating header arrive with the union unchanged; "
        "handlers that unregister during the page's own TTX_PAGE event do not un-acquire it",
    ],
    "jobs": [
        {"name": "rand", "harness": "c11_events", "srcs": ["harness/c11_events.c"], "flavour": "asan",
         "mode": "rand", "cases": {"quick": 48000, "thorough": 4800000}, "budget": 20, "env": _ENV},
        _job("exh-direct", 0), _job("exh-network", 1), _job("exh-ttx", 2),
    ],
    "min_distinct": 150,
    "min_counters": {"callbacks": 100000, "actions_in_callbacks": 50000, "events_direct": 100000,
                     "decoder_events_ttx_page": 1000, "decoder_events_network_id": 1000, "decoder_events_caption": 100,
                     "decoder_events_aspect": 100, "decoder_events_local_time": 100, "decoder_events_prog_id": 100,
                     "pages_enabled_cached": 1000, "pages_disabled_not_cached": 1000},
}
