"""C10 - the Teletext cache is a coherent, bounded, reference-safe page store.
See harness/c10_cache.c and design-notes/C10.md."""

ALPHA = 10          # operations per alphabet (harness: ALPHA)
N_CONF = 7          # (alphabet, memory limit) configurations enumerated (harness: exh_conf[])
PREFIX = 3          # one case = one prefix of this many operations
DEPTH = {"quick": 5, "thorough": 6}
EXH_CASES = N_CONF * ALPHA ** PREFIX


def _custom(spec, tier, seed, res, repo):
    # The enumeration is complete for its sub-space iff every prefix case ran
    # to its end (a worker that died skips the rest of that prefix).
    done = res.counters.get("histories", 0)
    want = N_CONF * ALPHA ** DEPTH[tier]
    enumerated = res.extra.get("exhaustive_histories_expected", want)
    res.extra["exhaustive_subspace"] = {
        "what": "all operation sequences of length %d over %d configurations (4 ten-operation alphabets x memory limits), each replayed from an empty cache"
                % (DEPTH[tier], N_CONF),
        "histories_expected": enumerated,
    }
    # 'histories' also counts the random ones, so it can only prove completeness as a lower bound
    res.exhaustive = bool(done >= want and not res.inconclusive)


SPEC = {
    "id": "C10",
    "level": "exploration",
    "level_text": "The real cache code (cache.c through its internal API, plus vbi_chsw_reset / vbi_is_cached / vbi_cache_hi_subno of a real decoder) is driven through (a) every operation sequence of length 5 (quick) / 6 (thorough) over four 10-operation alphabets and seven (alphabet, memory limit) configurations, each sequence replayed from an empty cache - complete for that bounded sub-space - and (b) random histories of 50-2000 operations (put with 12 page function/size classes, get with masks, is-cached, highest-subpage, ref, unref, foreach, page-type updates, channel switches, overlapping network handles) under ASan+UBSan with the library's own CACHE_CONSISTENCY assertions on. After every operation a reference map decides every lookup result / returned version / content, and a structural audit walks hash chains, priority, referenced and networks lists itself and checks every counter and memory_used; at the end all references are released, the cache deleted, and the heap must be back at its baseline (malloc interposition) / LeakSanitizer silent. (c) The same structures are audited from the side of the cache's clients inside the library: a generated Teletext transmission (pages of every function, BTT/AIT/MPT/MOT/MIP page-type updates, POP/DRCS, subpages, clock subcodes, eviction pressure, channel switches by API, time gap and vbi_chsw_reset) runs through a real vbi_decoder, with fetch/title/classify/search calls in between, and after every public call the harness walks vbi->ca: structure and counters as above, every page reference attributable to the harness (the library keeps none across calls), held pages byte-identical until released, look-ups / is-cached / highest-subpage agree with the walk, nothing reachable right after a channel switch, heap back at the baseline after vbi_decoder_delete. Held on the executions produced; beyond the enumerated depth this is sampling, not a proof.",
    "level_note": "Trusted: the reference map and key rules in harness/c10_cache.c (written from the comments in _vbi_cache_put_page / cache-priv.h, self-tested on hand vectors), the audit's reading of cache-priv.h structures, gcc ASan/UBSan/LSan, lib/vf_heap.c. memory_limit is set by writing the field while the cache is empty (libzvbi 0.2 has no call to lower it). Eviction is treated as nondeterministic policy: which unreferenced page goes is not checked, only that eviction happens solely in operations that do not fit the limit, stops as soon as the operation fits, and never hits referenced pages. Network structures never become zombies through this API (only vbi_cache_delete with references outstanding produces them), so that state is not explored.",
    "technique": "runtime monitoring: history + executable reference model (MRU-stamped version map), structural invariant audit after every operation, heap-baseline / LeakSanitizer conservation check, ASan/UBSan; bounded-exhaustive enumeration of operation sequences plus random histories; structural audit and reference attribution after every public call of a real decoder fed with generated transmissions",
    "rule": "exhaustive job: one case = all completions (to the tier's depth) of one 3-operation prefix in one (alphabet, memory limit) configuration, each history replayed from an empty cache; random job: one case = one random history. Signature = abstract cache state reached after an operation (#pages, #referenced, #zombie pages, #networks, #zombie networks, memory-pressure seen, class of the operation); trivial = no history of the case holds a page reference across a put.",
    "assumptions": [
        "the harness is the only client of the cache (single thread), so every reference count is attributable",
        "page size classes are derived from the union layout in cache-priv.h; the self-test pins the two sizes the pressure configurations depend on",
        "memory_limit >= the largest page (4504 bytes) in every configuration, so a put never legitimately fails; allocation failure is not injected",
        "foreach is only required to return (1 iff the callback stopped it, -1 after it went around unstopped, 0 on a network without pages), to hand out stored, intact pages of the right network, at least one if any is stored, and to restore reference counts (visiting order/completeness belongs to C17)",
        "subcodes handed to put lie in the Teletext subcode domain 0..0x3F7F (packet.c masks them so; the cache asserts it for hex pages)",
        "decoder-driven jobs: the library holds no page reference across public calls (true of every get/put site in packet.c, teletext.c, vbi.c, search.c on this tree), so a page on the referenced list that the harness does not hold is a reference that was not released; in-place re-labelling POP->GPOP, DRCS->GDRCS, UNKNOWN->LOP by the formatter is followed, not reported; idle network structures are reclaimed lazily (policy)",
        "eviction is policy, but bounded: a page of a held network may disappear only in an operation that did not fit the limit, and only as far as needed (the largest page that went, put back, must exceed the limit)",
    ],
    "jobs": [
        {"name": "exhaustive", "harness": "c10_cache", "srcs": ["harness/c10_cache.c"], "flavour": "plain", "heap": True,
         "mode": "exh", "cases": {"quick": EXH_CASES, "thorough": EXH_CASES},
         "params": {"p0": DEPTH, "p1": PREFIX, "p3": 1}, "budget": 60},
        {"name": "asan", "harness": "c10_cache", "srcs": ["harness/c10_cache.c"], "flavour": "asan",
         "mode": "rand", "cases": {"quick": 32000, "thorough": 1600000},
         "params": {"p2": 64}, "budget": 30},
        {"name": "heap", "harness": "c10_cache", "srcs": ["harness/c10_cache.c"], "flavour": "plain", "heap": True,
         "mode": "rand", "cases": {"quick": 16000, "thorough": 800000}, "budget": 30},
        # the cache seen from its clients inside the library: a generated Teletext transmission through the real decoder,
        # structural audit + reference attribution after every public call (harness/c10_decoder.c)
        {"name": "decoder-asan", "harness": "c10_decoder", "srcs": ["harness/c10_decoder.c"], "flavour": "asan",
         "mode": "dec", "cases": {"quick": 1600, "thorough": 64000}, "budget": 30},
        {"name": "decoder-heap", "harness": "c10_decoder", "srcs": ["harness/c10_decoder.c"], "flavour": "plain", "heap": True,
         "mode": "dec", "cases": {"quick": 1600, "thorough": 64000}, "budget": 30},
    ],
    "custom": _custom,
    "min_distinct": 150,
    "min_counters": {"puts": 100000, "puts_replacing_held_page": 1000, "get_hits": 10000, "get_wildcard": 1000,
                     "unrefs_of_zombie_pages": 1000, "channel_switches": 1000, "pages_held_across_network_drop": 100,
                     "evictions_observed": 1000, "foreach_visits": 1000, "structural_audits": 1000000,
                     "teardown_heap_checks": 100000, "teardown_leak_checks": 100, "decoder_mode_histories": 1000,
                     "hi_subno_queries": 10000, "is_cached_queries": 1000, "page_type_updates": 1000,
                     "hi_subno_after_removal": 1000, "puts_replacing": 10000, "foreach_not_stopped": 1000, "evictions_by_reuse": 100,
                     "eviction_necessity_checks": 1000, "network_structs_recycled": 1000, "get_misses": 10000, "page_refs": 1000,
                     "ops_under_memory_pressure": 10000,
                     # decoder-driven jobs (harness/c10_decoder.c)
                     "dec_frames": 100000, "dec_structural_audits": 200000, "dec_holds": 10000, "dec_held_pages_replaced": 1000,
                     "dec_pages_held_across_channel_switch": 1000, "dec_channel_switches": 1000, "dec_fetches_ok": 5000,
                     "dec_lookup_checks": 50000, "dec_hi_subno_checks": 50000, "dec_page_event_checks": 5000,
                     "dec_btt_transmissions": 2000, "dec_subtitle_pages_by_btt": 2000, "dec_frames_under_memory_pressure": 20000,
                     "dec_teardown_heap_checks": 1000, "dec_teardown_leak_checks": 50, "dec_zombie_pages_seen": 10000},
}
