_SRCS = ["harness/c15_idl_pfc.c", "harness/c15_idl.c", "harness/c15_pfc.c"]

SPEC = {
    "id": "C15",
    "level": "exploration",
    "level_text": "Generated IDL format A packet streams (all FT option sets, 0-6 address nibbles, explicit/implicit continuity index, data length byte, dummy-byte stuffing at every alignment, repeats, foreign channels/addresses/formats, 0-4 dropped / CRC-damaged / Hamming-damaged packets) and Page Format Clear page sequences (blocks of 0-2047 bytes laid over packet and page boundaries at every alignment, fillers, other pages/streams/magazines in between, dropped and Hamming-damaged packets and headers) are fed to the real demultiplexers through both feed interfaces under ASan+UBSan, from exact-size heap buffers. Independent packetisers written from EN 300 708 know what was sent; every callback is checked against it (bytes, order, no duplicates, nothing foreign, nothing from damaged packets, DATA_LOST / DEPENDENT flags, exactly the damaged PFC blocks missing). Long streams (jobs idl_long, pfc_long): 40-300 logical IDL packets per service so that the continuity index wraps, losses of 1, 2, 15-17, 255-257, 512 packets (a loss of a multiple of 256 packets cannot be seen in an 8 bit continuity index: neither demanded nor forbidden), 30-200 PFC blocks over many pages with up to 8 faults, vbi_idl_demux_reset / vbi_pfc_demux_reset between packets, callbacks returning FALSE, feed_frame calls with several packets of the stream, two contexts (two services / two streams, for PFC also in parallel magazine transmission) fed from one multiplex. Held on the executions produced, not a proof.",
    "level_note": "Trusted: the packetisers, Hamming 8/4 coder, bit-serial CRC and reference parsers in harness/c15_*.c (self-tested on hand vectors, cross-checked against each other on every stream), the readings of EN 300 708 listed under assumptions, gcc ASan/UBSan runtimes.",
    "technique": "runtime monitoring: differential oracle (independent EN 300 708 IDL-A and PFC packetisers + reference parsers) over generated fault-injected packet streams, ASan/UBSan bounds-strict, exact-size input buffers",
    "rule": "Long modes: one case = one or two services / streams with 40-300 logical packets or 30-200 blocks; signature = (options, one/two contexts, gap classes, index wraps, fault classes, reset, callback FALSE). IDL: one case = one service configuration (channel, FT options, address) with 1-12 logical packets, their repeats, foreign packets in between and 0-4 faults; signature = (FT option set, address length, 00/FF run length at the end of a data area, dummy count bucket, repeats used, fault kinds, ambiguous run start). PFC: one case = 1-10 blocks laid over pages of 1-25 packets with other traffic and 0-3 faults; signature = (block size class, alignment class of block end / structure header relative to the packet end, page span, fault kinds). Every case feeds the library, so none is trivial.",
    "assumptions": [
        "EN 300 708 6.5.7.1: a dummy byte follows eight consecutive equal bytes 0x00/0xFF counted over the CRC-protected byte group [explicit CI][DL]user data as it appears on the wire; the dummy byte itself is neither 0x00 nor 0xFF; DL counts the bytes occupied in the user data area including dummy bytes (standard text not available offline; the rule is the one quoted in idl_demux.c)",
        "implicit continuity index: both CRC check bytes are XORed with CI (receiver remainder reads CI twice), as idl_demux.c reads 6.5.5",
        "the API's integer address is the SPA nibbles least significant first; foreign services differ in that integer or in the channel",
        "repeats (RI) of a logical packet are transmitted before the next logical packet of the same service; RI bytes are not corrupted",
        "PFC: faults are packet granular (dropped packet/header, uncorrectable Hamming error in packet address, header, block pointer, separator, structure header or filler); block payload bytes are not protected and are not corrupted",
        "a zero-length PFC block may or may not produce a callback",
        "vbi_idl_demux_reset: the documentation does not say whether the first delivery after a reset carries DATA_LOST - both accepted; a repeat whose original was fed before the reset may or may not be delivered",
        "vbi_pfc_demux_reset: rows fed after a reset and before the next page header of the stream belong to no known page and must not contribute to a delivery; a block in progress is dropped; blocks starting after that header are due",
        "callback returning FALSE: feed / feed_frame return FALSE (documented); IDL: the packet counts as delivered; PFC: blocks that start between that callback and the next page header may or may not be delivered (not documented), everything after that header is due",
        "feed_frame stops at the first line for which feed returns FALSE (as every feed_frame of the library does); whether it should go on is not judged: a frame ends after a damaged packet, and after a callback returned FALSE the remaining lines are fed with a further call",
        "long IDL streams: the first two user bytes of every packet identify service and packet (needed to attribute a callback to a line of a frame with several packets); two PFC streams in one magazine: a page whose header is lost is lost as a whole (its rows would belong to the other stream's page for every receiver)",
    ],
    "jobs": [
        {"name": "idl", "harness": "c15_idl_pfc", "srcs": _SRCS, "flavour": "asan", "mode": "idl",
         "cases": {"quick": 1200000, "thorough": 48000000}, "budget": 20},
        {"name": "pfc", "harness": "c15_idl_pfc", "srcs": _SRCS, "flavour": "asan", "mode": "pfc",
         "cases": {"quick": 640000, "thorough": 24000000}, "budget": 20},
        # long streams: continuity index wraps, several faults far apart, reset() mid-stream, callbacks returning
        # FALSE, frames with several packets of the stream, two contexts on one multiplex
        {"name": "idl_long", "harness": "c15_idl_pfc", "srcs": _SRCS, "flavour": "asan", "mode": "idl-long",
         "cases": {"quick": 16000, "thorough": 240000}, "budget": 20},
        {"name": "pfc_long", "harness": "c15_idl_pfc", "srcs": _SRCS, "flavour": "asan", "mode": "pfc-long",
         "cases": {"quick": 24000, "thorough": 400000}, "budget": 20},
    ],
    "min_distinct": 300,
    "min_counters": {
        "idl_packets_fed": 1000, "idl_dummy_bytes": 100, "idl_run8_at_packet_end": 10,
        "idl_fault_drop": 10, "idl_fault_crc": 10, "idl_fault_hamming_uncorrectable": 10, "idl_fault_hamming_correctable": 10,
        "idl_recovered_by_repeat": 10,
        "pfc_blocks_sent": 1000, "pfc_blocks_delivered": 1000, "pfc_block_ends_at_packet_end": 10,
        "pfc_sh_split": 10, "pfc_block_spans_pages": 10, "pfc_fault_drop_packet": 10, "pfc_fault_drop_header": 10,
        "pfc_fault_hamming": 10,
        # session 6 extension
        "idl_long_streams": 1000, "idl_long_ci_wraps": 1000, "idl_long_gap_16": 100, "idl_long_gap_multiple_of_256": 100,
        "idl_long_gap_flagged": 1000, "idl_long_gap_not_observable": 100, "idl_long_loss_after_one_survivor": 100,
        "idl_long_resets": 100, "idl_long_first_delivery_after_reset": 100, "idl_long_callback_false": 100,
        "idl_long_two_contexts": 100, "idl_long_frames_with_several_service_packets": 1000,
        "pfc_long_streams": 1000, "pfc_long_blocks_delivered_after_a_fault": 1000, "pfc_long_resets": 100,
        "pfc_long_reset_with_block_in_progress": 100, "pfc_long_callback_false": 100, "pfc_long_two_contexts": 100,
        "pfc_long_frames_with_several_rows": 1000, "pfc_long_block_spans_pages": 100, "pfc_long_parallel_transmission": 100,
    },
}
