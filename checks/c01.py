import os

SRCS = ["harness/c01_decoder_fuzz.c"]
# triage aid: a tree with many crashing cases needs more worker restarts to be surveyed completely
_MAXR = int(os.environ.get("VERIF_C01_MAX_RESTARTS", "400"))

SPEC = {
    "id": "C01",
    "level": "exploration",
    "level_text": "Generated histories (structure-aware Teletext transmissions covering every page function, caption/XDS/ITV pairs, VPS, WSS, junk lines, irregular timestamps; mutated at a seeded rate from 0 to 100 %) are decoded by the real service decoder while the read-side API (fetch at all levels, classify, title, links, text/html/ppm/png/xpm export to memory, print, draw, search, channel switch, handler (un)registration, also from inside event handlers) runs in between, under ASan+UBSan(bounds-strict), assert, a per-case CPU watchdog and LeakSanitizer after vbi_decoder_delete; a second job counts heap blocks around new...delete cycles and live bytes across six repetitions of one carousel. Held on the executions produced, not a proof.",
    "level_note": "Trusted: gcc ASan/UBSan/LSan runtimes, the UBSan idiom allow-list, the malloc interposition of lib/vf_heap.c, the harness' own packetiser (self-tested against the library's Hamming/parity decoders and by a page round trip). Uninitialised reads and intra-object overflows that do not pass a statically bounded array are outside what these monitors see.",
    "technique": "runtime monitoring: structure-aware fuzzing of the real decoder under ASan/UBSan/LSan with watchdog, plus heap conservation and carousel-growth accounting",
    "rule": "one case = one decoder life driven by a generated script of 100-5000 operations (frames and read-side calls); non-trivial = at least one page cached or one event raised; signatures = set of page functions in the cache, set of event types raised, set of read-side APIs that succeeded (each separately) plus (profile, mutation bucket, counts)",
    "assumptions": [
        "documented preconditions are honoured: vbi_cache_hi_subno/vbi_search_new only with pgno 0x100-0x8FF, vbi_resolve_link inside the fetched page, vbi_decode never from a handler, enum arguments in range",
        "a vbi_page stays usable until vbi_unref_page as documented, so pages held across later vbi_decode calls are rendered too",
        "vbi_fetch_cc_page is documented as safe inside event handlers; a handler entered with the caption mutex held is reported as a deadlock without executing the blocking call",
    ],
    "jobs": [
        {"name": "asan", "harness": "c01_decoder_fuzz", "srcs": SRCS, "flavour": "asan", "mode": "fuzz",
         "cases": {"quick": 6400, "thorough": 320000}, "budget": 10, "max_restarts": _MAXR},
        {"name": "heap", "harness": "c01_decoder_fuzz", "srcs": SRCS, "flavour": "plain", "mode": "heap", "heap": True,
         "cases": {"quick": 640, "thorough": 16000}, "budget": 20},
        # the same fuzz cases under valgrind memcheck: uninitialised values reaching a branch, an address or a
        # system call (MemorySanitizer is unusable here: libpng/zlib/iconv are not instrumented)
        {"name": "memcheck", "harness": "c01_decoder_fuzz", "srcs": SRCS, "flavour": "plain", "mode": "fuzz", "valgrind": True,
         "cases": {"quick": 160, "thorough": 6400}, "budget": 150},
    ],
    "min_distinct": 50,
    "min_counters": {
        "ttx_lines": 10000, "cc_lines": 1000, "vps_lines": 100, "wss_lines": 100,
        "ev_ttx_page": 1000, "ev_caption": 100, "fetch_vt_ok": 500, "fetch_cc_ok": 100,
        "export_ok": 100, "draw_vt": 100, "search_next": 100, "resolve_link": 1000,
        "stored_lop": 100, "decoder_cycles": 1000, "carousel_rounds": 100,
    },
}
