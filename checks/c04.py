SPEC = {
    "id": "C04",
    "level": "exploration",
    "level_text": "Random payloads of every supported service are rendered as nominal waveforms by the library's own generator (_vbi_raw_vbi_image / _vbi_raw_video_image) for sampled configurations - one Teletext system plus any other services of the video standard, sampling rate 13.5-40 MHz (Teletext) or 2x clock-40 MHz (others) incl. the rates where the slicer's integer step changes value, any window that keeps all requested signals inside the line (down to zero margin), all 23 pixel formats, sequential/interlaced, synchronous or not, exactly/generously covering line ranges, strict -1..2, three frames with a remove/re-add history - and decoded by vbi3_raw_decoder_*, vbi_raw_decoder_*/vbi_raw_decode and both single-line bit slicers under ASan+UBSan. The decoded array must equal the transmitted lines exactly (count, ascending ITU-R line numbers or 0, id within the requested set and of the transmitted service, exactly the payload bits, nothing for blank lines, nothing written beyond the count). Held on the configurations produced, not a proof; the configuration space is continuous.",
    "level_note": "Trusted: the library's waveform generator as transmitter (its signal positions are cross-checked against the oracle's span table in the self-test), the service table in harness/c04_common.h (written from the standards), gcc ASan/UBSan. A line failure that disappears exactly under one named condition (one more sample of line after the signal, 12 % higher sampling rate when within 6 % of the statement's rate floor, caption service not requested on the shared line) is reported under that quirk's own key, never silently tolerated.",
    "technique": "runtime monitoring: transmitter-side round-trip oracle over generated configurations and payloads, four receiver interfaces, ASan/UBSan; named-quirk re-transmission to classify failures",
    "rule": "one case = one configuration (service set, rate, window, pixel format, field layout, line ranges, strictness) x 3 frames with random line subsets and payload classes (random, zeros, ones, alternating, long runs) x 2 raw decoder interfaces + up to 4 single-line slicer calls per frame; signature = (service, slicer function {Y8,YUYV,RGB24,RGBA24,RGB16_LE,RGB16_BE,lowpass}, floor(rate/1 MHz), interlaced, synchronous); trivial = no service line transmitted in any frame",
    "assumptions": [
        "service sets contain at most one Teletext system per video standard (the repository's own test documents that they cannot be told apart); mixed sets, field-dependent services without field order are run for memory safety only (counter configs_unjudged)",
        "strict > 0 is taken to include the 1 us line headroom the library documents; Teletext B is requested as VBI_SLICED_TELETEXT_B, not as its Level 1.0/2.5 subsets",
        "the transmitter (src/io-sim.c) is the reference for where a nominal signal lies; noisy or attenuated signals are outside the statement",
    ],
    "jobs": [
        {"name": "asan", "harness": "c04_raw_roundtrip", "srcs": ["harness/c04_raw_roundtrip.c"], "flavour": "asan",
         "cases": {"quick": 96000, "thorough": 3200000}, "budget": 20},
    ],
    "min_distinct": 400,
    "min_counters": {
        "configs_judged": 1000, "lines_transmitted": 100000, "records_vbi3": 50000, "records_old": 50000,
        "bitslice_new_ok": 10000, "bitslice_old_ok": 10000, "bitslice_points_ok": 500, "bitslice_blank_lines": 1000,
        "func_Y8": 100, "func_YUYV": 100, "func_RGB24": 100, "func_RGBA24": 100, "func_RGB16_LE": 100, "func_RGB16_BE": 100, "func_lowpass": 100,
        "configs_step_boundary_rate": 1000, "configs_signal_ends_at_window_end": 500, "configs_signal_starts_at_window_start": 500,
        "histories_remove": 500, "histories_readd": 500, "decodes_with_small_array": 5000, "decodes_with_exactly_fitting_array": 2000,
        "svc_ttx_a": 100, "svc_ttx_b_625": 100, "svc_ttx_c_625": 100, "svc_ttx_d_625": 100, "svc_vps": 100, "svc_wss_625": 100,
        "svc_cc_625_f1": 100, "svc_cc_625_f2": 100, "svc_ttx_b_525": 100, "svc_ttx_c_525": 100, "svc_ttx_d_525": 100,
        "svc_cc_525_f1": 100, "svc_cc_525_f2": 100,
    },
}
