SPEC = {
    "id": "C04",
    "level": "exploration",
    "level_text": "placeholder",
    "level_note": "placeholder",
    "technique": "runtime monitoring: transmitter-side oracle",
    "rule": "placeholder",
    "assumptions": [],
    "jobs": [
        {"name": "asan", "harness": "c04_raw_roundtrip", "srcs": ["harness/c04_raw_roundtrip.c"], "flavour": "asan",
         "cases": {"quick": 9600, "thorough": 960000}, "budget": 20},
    ],
    "min_distinct": 50,
}
