SPEC = {
    "id": "C08",
    "level": "exploration",
    "level_text": "tbd",
    "level_note": "tbd",
    "technique": "runtime monitoring: differential oracle",
    "rule": "tbd",
    "assumptions": [],
    "jobs": [
        {"name": "asan", "harness": "c08_cc608", "srcs": ["harness/c08_cc608.c"], "flavour": "asan",
         "cases": {"quick": 4800, "thorough": 480000}, "budget": 20},
        {"name": "witness", "harness": "c08_cc608", "srcs": ["harness/c08_cc608.c"], "flavour": "asan",
         "cases": {"quick": 20, "thorough": 20}, "mode": "witness", "budget": 20},
    ],
    "min_distinct": 50,
}
