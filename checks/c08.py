SPEC = {
    "id": "C08",
    "level": "exploration",
    "level_text": ("seeded exploration: generated EIA-608 command/character histories on both fields and all eight "
                   "channels are decoded by the real caption decoder (vbi_decode -> src/caption.c) and every page "
                   "fetched at every comparison point is compared cell by cell with an independent reference "
                   "display-memory model; held means: no divergence on the histories executed, other than the "
                   "named deviations recorded as known findings. The library's second EIA-608 implementation "
                   "(src/cc608_decoder.c, internal API) is driven by the same generated histories followed by a suffix that fixes "
                   "mode, memory and cursor itself (RDC or RCL, EDM, an indent PAC); the addressed row must then hold exactly what "
                   "15.119 says for text at the cursor, DER, BS, TO, EDM and EOC (local postconditions, no model of the history needed)"),
    "level_note": ("trusted base: the reference model harness/c08_model.h, written from the rule texts quoted verbatim "
                   "in /repo/test/cc608-{roll-up,attributes,charsets}.xml (47 CFR 15.119 (d),(e),(f),(h),(i),(n); "
                   "EIA-608-B 6.2, 6.4.2, Annex C.4/C.7/C.11/C.13/C.14/C.15) and, for Text Mode / CR in pop-on and "
                   "paint-on / EDM-ENM in Text Mode, from the paragraph references and quotations in the comments of "
                   "src/cc608_decoder.c (EIA-608-B 7.4, 7.7, B.7; 15.119 (f)(2)(i),(f)(3)(i)); the independent "
                   "encoder harness/c08_enc.h; the model self-test (hand vectors + the three XML streams). "
                   "Where those texts are silent the model does not compare (attribute marked unknown / channel "
                   "poisoned), it never picks a reading."),
    "technique": ("runtime monitoring: differential oracle (history + executable reference model, DESIGN.md section 2 "
                  "styles 2 and 5) under ASan/UBSan; caption events logged by a registered VBI_EVENT_CAPTION handler"),
    "rule": ("case = one generated history (12..900 byte pairs per field, quick; up to 2500 thorough) drawn from 8 "
             "profiles (clean pop-on / roll-up / paint-on / text, wild = any command at any time, targeted: last "
             "column, roll-up base rows 1-5, every pair of commands), one or both fields, control codes doubled / "
             "single / mixed, optional null padding, channel switches within a field; comparison points after EOC, "
             "spaces, PAC/CR/DER/EDM and style switches. Signature = (style, roll depth, cursor row, cursor column "
             "bucket {1, 2-31, 32}, class of the last command, caption|text page) of a non-empty compared page; "
             "trivial = history in which no non-empty page was compared"),
    "assumptions": [
        "reference model c08_model.h implements the quoted rule texts correctly (self-tested on hand vectors and on the repository's three cc608 XML streams)",
        "rule texts quoted in /repo/test/cc608-*.xml and in src/cc608_decoder.c comments are faithful quotations of 47 CFR 15.119 / EIA-608-B",
        "a named quirk explains a divergence only if the model with that set of quirks switched on matches the decoder cell by cell over the whole history",
        "EIA-608-B 6.4.2 extended characters are an optional decoder feature: a decoder that ignores them conforms",
        "codes addressed to a data channel that was not selected by a resume command, and XDS on field 2, are not generated",
        "src/cc608_decoder.c is judged by local postconditions only: compared with the reference model over whole histories it diverges on about half of them (first cause: a colour PAC keeps the cursor column there; mode cc608 of the harness, a triage aid, attributes that one under Q-colour-PAC-keeps-column), and vbi_fetch_cc_page never executes it; its remaining behaviour is not claimed",
    ],
    "jobs": [
        {"name": "asan", "harness": "c08_cc608", "srcs": ["harness/c08_cc608.c"], "flavour": "asan",
         "cases": {"quick": 48000, "thorough": 3000000}, "budget": 20},
        {"name": "witness", "harness": "c08_cc608", "srcs": ["harness/c08_cc608.c"], "flavour": "asan",
         "cases": {"quick": 46, "thorough": 46}, "mode": "witness", "budget": 20},
        # the library's second EIA-608 implementation (src/cc608_decoder.c, internal API): local postconditions of
        # put / DER / BS / TO / EDM / EOC at a cursor fixed by an indent PAC, after an arbitrary generated history
        {"name": "cc608-local", "harness": "c08_cc608", "srcs": ["harness/c08_cc608.c"], "flavour": "asan",
         "cases": {"quick": 32000, "thorough": 1000000}, "mode": "cc608local", "budget": 20},
    ],
    "min_distinct": 300,
    "min_counters": {
        "pages_compared": 100000,
        "cells_compared": 50000000,
        "checkpoints": 50000,
        "caption_events": 50000,
        "page_changes_observed": 20000,
        "page_changes_announced_by_event": 20000,
        "cases_agreeing_with_strict_model": 500,
        "witness_sequences": 23,
        "pop-on": 500, "roll-up": 500, "paint-on": 500, "text": 500, "wild": 1000,
        "edge-last-column": 500, "edge-base-row": 500, "edge-command-pairs": 500,
        "local_cases": 20000, "local_put": 2000, "local_der": 2000, "local_bs": 2000, "local_to": 2000, "local_edm": 2000, "local_eoc": 2000,
    },
}
