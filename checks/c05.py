SPEC = {
    "id": "C05",
    "level": "exploration",
    "level_text": "Valid sampling parameters (all 23 pixel formats, 2-40 MHz, line lengths from the admission boundary to 66 us, 1-3 lines per field, sequential/interlaced/one field, strict -1..2, any service set of the standard) with hostile content: noise, saturated levels, impulses, square waves at the run-in rate, and the valid waveform of every requested service shifted to every horizontal position from fully outside-left to fully outside-right (densely around the last position at which the slicer still searches for the clock run-in, and around the position where the signal just fits) on the last line of the image and of each field. The image is exactly (count[0]+count[1])*bytes_per_line bytes ending (pass 0) or starting (pass 1) flush against a PROT_NONE page, out[] exactly max_lines records against a guard page, single-line buffers exactly samples_per_line*bpp bytes, slicer output buffers exactly the payload size (and one byte less, which must be refused); the same corpus runs again under AddressSanitizer on exactly sized heap blocks. Records beyond the returned count and bytes beyond the service's payload must keep their prefill. Both raw decoder interfaces and both bit slicer interfaces. Held on the executions produced.",
    "level_note": "Trusted: mmap/mprotect guard pages (self-tested for alignment), gcc ASan, the pixel format writer of the harness (hand vectors in the self-test). The configured slicer state (cri_samples) is read only to aim the dense part of the sweep, never as a verdict.",
    "technique": "runtime monitoring: guard-page allocator (plain flavour) and AddressSanitizer on exactly sized buffers under a generated hostile-content position sweep; canary prefill for the output side",
    "rule": "one case = one sampling configuration x 6 plain hostile contents x (every requested service's waveform at <= ~1200 shifts, stride 1 near the search limit and the fit position) x {vbi3_raw_decoder_decode, vbi_raw_decode, vbi3_bit_slicer_slice, vbi_bit_slice} x 2 alignments; signature = (interface, slicer function, bytes per pixel, position of the recognised run-in {early, mid, last 5 % of the search window, signal truncated by the line end, noise}) counted only when a run-in was actually recognised; trivial = no run-in recognised anywhere in the case",
    "assumptions": [
        "sampling parameters are 'valid' as _vbi_sampling_par_valid_log defines it; samples_per_line <= 2700",
        "vbi_bit_slicer_init (legacy, cannot refuse) is only used when the line can hold the signal and the CRI rate does not exceed the sampling rate, as its documentation requires",
    ],
    "jobs": [
        {"name": "guard", "harness": "c05_raw_bounds", "srcs": ["harness/c05_raw_bounds.c"], "flavour": "plain",
         "cases": {"quick": 4800, "thorough": 160000}, "budget": 60},
        {"name": "asan", "harness": "c05_raw_bounds", "srcs": ["harness/c05_raw_bounds.c"], "flavour": "asan",
         "cases": {"quick": 1600, "thorough": 48000}, "budget": 120, "sig_prefix": True},
    ],
    "min_distinct": 150,
    "min_counters": {
        "configs": 6000, "decodes": 1000000, "slice_calls_new": 300000, "slice_calls_old": 200000,
        "cri_match_last5pct": 20000, "cri_match_truncated": 10000, "cri_match_noise": 500,
        "cri_match_Y8_last5pct": 500, "cri_match_YUYV_last5pct": 500, "cri_match_RGB24_last5pct": 500, "cri_match_RGBA24_last5pct": 500,
        "cri_match_RGB16_LE_last5pct": 500, "cri_match_RGB16_BE_last5pct": 500, "cri_match_lowpass_last5pct": 500,
        "cri_match_Y8_truncated": 200, "cri_match_YUYV_truncated": 200, "cri_match_RGB24_truncated": 200, "cri_match_RGBA24_truncated": 200,
        "cri_match_RGB16_LE_truncated": 200, "cri_match_RGB16_BE_truncated": 200, "cri_match_lowpass_truncated": 200,
    },
}
