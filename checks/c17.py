SPEC = {
    "id": "C17",
    "level": "exploration",
    "level_text": "Generated cache populations (single page, only subpages, sparse/dense magazines, holes, hex-numbered pages with and without a MIP, clock-style subcodes >= 0x100, a stale subpage 0 beside subpages, empty cache) are stored through the real Teletext decoder by an independent packetiser; literal and regular-expression patterns (every metacharacter, case folded or not) are searched with vbi_search_new/next/delete from start pages below/inside/above the population, forwards and backwards, with direction changes, second passes, cancels and pages replaced/added between calls, under ASan+UBSan. An independent oracle (haystack rebuilt from vbi_fetch_vt_page output, matched with glibc regcomp/regexec) decides the exact sequence of (page, subpage) a pass must return and that every returned page highlights a real, advancing occurrence; every vbi_search_next runs under a CPU watchdog. Held on the executions produced, not a proof.",
    "level_note": "Trusted: the haystack builder, expected-order function and pattern escaping in harness/c17_search.c (self-tested on hand vectors), glibc regexec (POSIX ERE, REG_NEWLINE) as the reference matcher in the C and C.utf8 locales, vbi_fetch_vt_page as the definition of the displayed text, gcc ASan/UBSan runtimes.",
    "technique": "runtime monitoring: differential oracle (independent Teletext packetiser -> real decoder and cache; reference haystack + glibc regexec; expected page order model) over generated cache populations and call histories; CPU watchdog and progress-callback walk monitor for termination; ASan/UBSan",
    "rule": "one case = one generated cache population plus 1-3 search sessions (pattern, casefold, regexp, start page/subpage, direction, plan: plain / direction change / second pass / pages replaced or added between calls / cancel); signature = (population shape, start page relative to the population {below, cached, hole, above, empty}, direction, wrap needed, number of matching pages {0,1,2-3,4+}, plan); every case is non-trivial except when the pattern alphabet overflows the reference encoding",
    "assumptions": [
        "patterns are non-nullable and drawn from the intersection of the documented ure syntax and POSIX ERE (literals, ., bracket classes of alphanumerics, * + ?, alternation, groups; no anchors)",
        "start pages are valid Teletext page numbers 0x100-0x8FE (not 0xnFF); backward passes follow the documented reading: the start page/subpage is the last one visited, VBI_ANY_SUBNO sorts after every subpage",
        "after a direction change the pass is a fresh pass in the new direction from the current page, which may come first but not again",
        "the searched text is the Level 1/1.5/2.5 rendering without X/26 enhancement packets; concealed/flashing text is not generated",
        "sessions stepping through more than 500 occurrences are cut short; the part seen is still required to be a prefix of the expected sequence",
    ],
    "jobs": [
        {"name": "asan-c", "harness": "c17_search", "srcs": ["harness/c17_search.c"], "flavour": "asan",
         "cases": {"quick": 4800, "thorough": 480000}, "mode": "c", "budget": 4, "max_restarts": 48},
        {"name": "asan-utf8", "harness": "c17_search", "srcs": ["harness/c17_search.c"], "flavour": "asan",
         "cases": {"quick": 1600, "thorough": 160000}, "mode": "utf8", "budget": 4, "max_restarts": 48},
    ],
    "min_distinct": 300,
    "min_counters": {
        "searches": 2000, "next_calls": 20000, "successes": 10000, "not_found": 1000,
        "direction_changes": 100, "second_passes": 50, "pages_replaced": 100, "cancels": 10,
        "empty_cache_cases": 10, "cache_empty": 10, "hex_pages_displayable": 100,
        "subcodes_above_ff_cached": 100, "patterns_literal": 500, "patterns_regexp": 500,
        "patterns_casefold": 500, "pages_with_double_height": 100,
    },
}
