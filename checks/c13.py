_EXH = {"quick": sum(16 ** n for n in range(1, 5)), "thorough": sum(16 ** n for n in range(1, 7))}


def _job(name, mode, cases, params=None):
    return {"name": name, "harness": "c13_ident", "srcs": ["harness/c13_ident.c"], "flavour": "asan",
            "mode": mode, "cases": cases, "params": dict(params or {}), "budget": 20}


SPEC = {
    "id": "C13",
    "level": "exploration",
    "level_text": "Reception histories on VPS, Teletext 8/30 format 1 and 2, WSS 625 and (separately) XDS network name / call "
                  "letters - repeats, single deviating words, genuine station / programme / format changes, in random interleavings; "
                  "CNIs of stations from network-table.h, CNIs missing from the table and zero CNIs - are built by independent "
                  "encoders and decoded by the real service decoder with regular time stamps. Every NETWORK, NETWORK_ID, PROG_ID, "
                  "LOCAL_TIME and ASPECT event is logged with the reception that raised it and checked against five temporal rules "
                  "taken from the statement (R1 values as transmitted, R2 announced only after a repeat / WSS 3 repeats + parity, "
                  "R3 the same announcement not made again while the same values keep arriving, R4 single deviations raise no NETWORK "
                  "event and keep a probe page cached, R5 a change between known stations raises exactly one NETWORK event and drops "
                  "the probe page). Where the carriers name different stations (one CNI in the table, another not) the statement does "
                  "not say which station is 'the identified' one: there only R1-R3 and, against a twin history without the single "
                  "deviations, R4 are judged. All histories of <=4 (quick) / <=6 (thorough) receptions over a 4-value alphabet per "
                  "carrier are enumerated. Job zap: station changes between known stations (625 line carriers, or an XDS network name) "
                  "that come with a time stamp discontinuity - duplicated, early, missing frames, 1 to 600 s lost, bursts of them - "
                  "or are announced with vbi_channel_switched(), identified before or after the decoder's frame drop countdown has "
                  "run out (receptions dense or 2-20 frames apart), also back to the station before on carriers which were silent "
                  "meanwhile; judged when more than 43 regular frames have passed since the last discontinuity and every carrier "
                  "has repeated: exactly one NETWORK event names the new station, at most one blank one before it and none after "
                  "it, old probe page gone; then a steady part without NETWORK events which keeps the new probe page. Control "
                  "phases: change with regular time stamps (one NETWORK event, blank ones count), discontinuity without a change "
                  "(run, not judged). Held on the executions produced, not a proof.",
    "level_note": "Trusted: the encoders in harness/c13_tx.h (written from ETS 300 231, EN 300 706 9.8, EN 300 294, EIA-608; "
                  "self-tested on hand vectors and, in selftest only, against the library's decoders), the rule monitor in "
                  "harness/c13_ident.c, the station table as data, gcc ASan/UBSan. R2 is the weak reading (the value was received "
                  "before: CNI/XDS name in one of the two preceding receptions of the carrier, VPS PID anywhere earlier); the "
                  "Hamming-protected 8/30-2 PID and the local time are only checked for R1. Three recorded deviations of the "
                  "library (Q-shared-repeat-counter, Q-unknown-cni-revokes-identification, Q-stale-cni-of-silent-carrier) are "
                  "reported under their own keys, and only when the library's NETWORK/NETWORK_ID log, cache observations and twin "
                  "outcome of the history equal those of a reference model with exactly these deviations and the violation vanishes "
                  "from the model when the deviation is switched off (DESIGN.md 2.5); every other violation keeps its plain key. "
                  "A fourth one, Q-identification-keeps-frame-drop-countdown (job zap only), is recognised from the log itself: "
                  "blank NETWORK event after N1, the NETWORK event before N1 blank, a time stamp discontinuity between those two, "
                  "and the blank event exactly on the 40th regular frame after it. The zap rules allow 0 = unknown for the CNI "
                  "of a carrier not received since a frame drop countdown may have ended (64 frames after a discontinuity).",
    "technique": "runtime monitoring: temporal rule monitor over the event log of the real decoder driven by independent "
                 "VPS/8-30/WSS/XDS encoders; cache observed with a probe page; twin histories; quirk-parameterised reference "
                 "model for attribution of recorded deviations only; irregular time stamps and vbi_channel_switched() at station "
                 "changes with frame-indexed event log; ASan/UBSan",
    "rule": "hist/xds: one case = 1-4 phases (station settles, probe page, 8-60 receptions with single deviations and programme/"
            "format changes, optional station change) in one of four carrier domains (all carriers name the station / none is in "
            "the table / some send no CNI / they disagree); exh: case index = history over 16 symbols (4 carriers x 4 values). "
            "Signature = (event type, announcing carrier, same/other pattern of the 4 preceding receptions of that carrier, "
            "carriers received in between, domain) plus (rule R4/R5, domain, deviations, carriers); zap: one case = 2-4 phases "
            "(start / change with discontinuity 60 % / change with regular time stamps 15 % / discontinuity only 25 %), signature = "
            "(kind of discontinuity, sparse, back, silent carrier, carriers, announced directly or after a revocation); "
            "trivial = no event was raised",
    "assumptions": [
        "jobs hist, xds, exh: timestamps advance by 1/25 s (1/29.97 s for XDS) so that the time based channel switch detector "
        "stays idle; job zap: time stamps are irregular only at the beginning of a phase, up to and including the frame with the "
        "first identification line of the phase (no identifier can have repeated before the last discontinuity), and regular "
        "from there to the end of the phase",
        "a blank NETWORK / NETWORK_ID event (nuid 0, no CNI, no name) is a documented revocation and carries no value; with "
        "regular time stamps none is expected at a change between known stations (exactly one NETWORK event, blank ones count); "
        "after a time stamp discontinuity or vbi_channel_switched() ('you may also receive blank events ... revoking a previously "
        "sent event, until new information becomes available') one blank NETWORK event may precede the announcement of the new "
        "station, whenever the library gives up waiting (about 1.5 s); a blank one after that announcement revokes the station "
        "being received and is a violation; blank NETWORK / ASPECT events may then be raised on frames without identification lines",
        "a time stamp discontinuity without a station change is documented to be taken for a possible channel switch "
        "(vbi_decode()); the statement does not speak about it: such phases are run for R1-R3 and the sanitizers, their NETWORK "
        "events and cache are not judged, and a re-announcement is not an R3 violation when a discontinuity lies between the two "
        "announcements",
        "the new station is judged when more than 43 regular frames have passed since the last discontinuity and every carrier "
        "has been received three more times (the statement sets no deadline; the library's countdown is 40 frames)",
        "job zap uses stations all of whose transmitted CNIs are in the table, XDS stations without call letters (with call "
        "letters the order name / call letters after a reset decides the nuid, see job xds), no single deviating words",
        "a CNI of zero means that the carrier transmits no identifier (vbi_network: 'zero if unknown or not applicable')",
        "while carriers name different stations the statement does not determine the identified station: NETWORK events and "
        "station changes of such histories are not judged, only what their single deviations cause (twin history)",
        "XDS is exercised on its own (525 line systems), the four 625 line carriers together",
        "CNI 0xDC3 / 0xDC1 / 0xDC2 (ARD/ZDF special case) are left to C12",
    ],
    "jobs": [
        _job("hist", "hist", {"quick": 160000, "thorough": 5000000}),
        _job("xds", "xds", {"quick": 80000, "thorough": 2000000}),
        _job("exh", "exh", _EXH, {"p0": {"quick": 4, "thorough": 6}}),
        _job("zap", "zap", {"quick": 100000, "thorough": 3000000}),
    ],
    "min_distinct": 600,
    "min_counters": {"receptions": 10000000, "ev_network": 200000, "ev_network_id": 1000000, "ev_prog_id_vps": 100000,
                     "ev_prog_id_8302": 2000000, "ev_local_time": 2000000, "ev_aspect": 100000, "single_deviations": 500000,
                     "steady_windows": 200000, "steady_windows_judged_against_twin": 20000, "twin_histories": 10000,
                     "station_changes_known_to_known": 40000, "station_changes_xds": 30000, "probe_pages": 400000,
                     "hamming_single_bit_errors": 300000,
                     "time_gaps": 60000, "vbi_channel_switched_calls": 10000, "station_changes_with_time_gap": 50000,
                     "station_changes_with_time_gap_identified_before_revocation": 30000,
                     "station_changes_with_time_gap_identified_after_revocation": 10000,
                     "station_changes_with_time_gap_back_on_a_carrier_silent_meanwhile": 1000,
                     "time_gaps_without_station_change": 15000, "ev_network_blank_after_time_gap": 30000},
}
