_EXH = {"quick": sum(16 ** n for n in range(1, 5)), "thorough": sum(16 ** n for n in range(1, 7))}


def _job(name, mode, cases, params=None):
    p = dict(params or {})
    return {"name": name, "harness": "c13_ident", "srcs": ["harness/c13_ident.c"], "flavour": "asan",
            "mode": mode, "cases": cases, "params": p, "budget": 20}


SPEC = {
    "id": "C13",
    "level": "exploration",
    "level_text": "Reception histories on VPS, Teletext 8/30 format 1 and 2, WSS 625 and (separately) XDS network name / call "
                  "letters - repeats, single deviating words, genuine station / programme / format changes, in random interleavings; "
                  "CNIs of stations from network-table.h, unknown and zero CNIs - are built by independent encoders and decoded by the "
                  "real service decoder with regular time stamps. Every NETWORK, NETWORK_ID, PROG_ID, LOCAL_TIME and ASPECT event is "
                  "logged with the reception that raised it and checked against five temporal rules taken from the statement "
                  "(R1 values as transmitted, R2 announced only after a repeat / WSS 3 repeats + parity, R3 not again while the value "
                  "keeps arriving, R4 single deviations raise no NETWORK event and keep a probe page cached, R5 a change between known "
                  "stations raises exactly one NETWORK event and drops the probe page). All histories of <=4 (quick) / <=6 (thorough) "
                  "receptions over a 4-value alphabet per carrier are enumerated. Held on the executions produced, not a proof.",
    "level_note": "Trusted: the encoders in harness/c13_tx.h (written from ETS 300 231, EN 300 706 9.8, EN 300 294, EIA-608; "
                  "self-tested on hand vectors and, in selftest only, against the library's decoders), the rule monitor in "
                  "harness/c13_ident.c, the station table as data, gcc ASan/UBSan. R2 is the weak reading (the value was received "
                  "before: CNI/XDS name in one of the two preceding receptions of the carrier, VPS PID anywhere earlier); the "
                  "Hamming-protected 8/30-2 PID and the local time are only checked for R1.",
    "technique": "runtime monitoring: temporal rule monitor over the event log of the real decoder driven by independent "
                 "VPS/8-30/WSS/XDS encoders; cache observed with a probe page; ASan/UBSan",
    "rule": "hist/xds: one case = 1-4 phases (station settles, probe page, 8-60 receptions with single deviations and programme/"
            "format changes, optional station change); exh: case index = history over 16 symbols (4 carriers x 4 values). Signature "
            "= (event type, announcing carrier, same/other pattern of the 4 preceding receptions of that carrier, carriers received "
            "in between, domain) plus (rule R4/R5, domain, deviations, carriers); trivial = no event was raised",
    "assumptions": [
        "timestamps advance by 1/25 s (1/29.97 s for XDS) so that the time based channel switch detector stays idle",
        "a blank NETWORK / NETWORK_ID event (nuid 0, no CNI, no name) is a documented revocation and carries no value",
        "XDS is exercised on its own (525 line systems), the four 625 line carriers together",
        "CNI 0xDC3 / 0xDC1 / 0xDC2 (ARD/ZDF special case) are left to C12",
    ],
    "jobs": [
        _job("hist", "hist", {"quick": 32000, "thorough": 3200000}),
        _job("xds", "xds", {"quick": 16000, "thorough": 1000000}),
        _job("exh", "exh", _EXH, {"p0": {"quick": 4, "thorough": 6}}),
    ],
    "min_distinct": 300,
    "min_counters": {"receptions": 1000000, "ev_network": 10000, "ev_network_id": 50000, "ev_prog_id_vps": 10000,
                     "ev_prog_id_8302": 100000, "ev_local_time": 100000, "ev_aspect": 10000, "single_deviations": 50000,
                     "station_changes_known_to_known": 5000, "station_changes_xds": 5000, "probe_pages": 50000,
                     "hamming_single_bit_errors": 10000},
}
