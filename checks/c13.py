_EXH = {"quick": sum(16 ** n for n in range(1, 5)), "thorough": sum(16 ** n for n in range(1, 7))}


def _job(name, mode, cases, params=None):
    return {"name": name, "harness": "c13_ident", "srcs": ["harness/c13_ident.c"], "flavour": "asan",
            "mode": mode, "cases": cases, "params": dict(params or {}), "budget": 20}


SPEC = {
    "id": "C13",
    "level": "exploration",
    "level_text": "Reception histories on VPS, Teletext 8/30 format 1 and 2, WSS 625 and (separately) XDS network name / call "
                  "letters - repeats, single deviating words, genuine station / programme / format changes, in random interleavings; "
                  "CNIs of stations from network-table.h, CNIs missing from the table and zero CNIs - are built by independent "
                  "encoders and decoded by the real service decoder with regular time stamps. Every NETWORK, NETWORK_ID, PROG_ID, "
                  "LOCAL_TIME and ASPECT event is logged with the reception that raised it and checked against five temporal rules "
                  "taken from the statement (R1 values as transmitted, R2 announced only after a repeat / WSS 3 repeats + parity, "
                  "R3 the same announcement not made again while the same values keep arriving, R4 single deviations raise no NETWORK "
                  "event and keep a probe page cached, R5 a change between known stations raises exactly one NETWORK event and drops "
                  "the probe page). Where the carriers name different stations (one CNI in the table, another not) the statement does "
                  "not say which station is 'the identified' one: there only R1-R3 and, against a twin history without the single "
                  "deviations, R4 are judged. All histories of <=4 (quick) / <=6 (thorough) receptions over a 4-value alphabet per "
                  "carrier are enumerated. Held on the executions produced, not a proof.",
    "level_note": "Trusted: the encoders in harness/c13_tx.h (written from ETS 300 231, EN 300 706 9.8, EN 300 294, EIA-608; "
                  "self-tested on hand vectors and, in selftest only, against the library's decoders), the rule monitor in "
                  "harness/c13_ident.c, the station table as data, gcc ASan/UBSan. R2 is the weak reading (the value was received "
                  "before: CNI/XDS name in one of the two preceding receptions of the carrier, VPS PID anywhere earlier); the "
                  "Hamming-protected 8/30-2 PID and the local time are only checked for R1. Three recorded deviations of the "
                  "library (Q-shared-repeat-counter, Q-unknown-cni-revokes-identification, Q-stale-cni-of-silent-carrier) are "
                  "reported under their own keys, and only when the library's NETWORK/NETWORK_ID log, cache observations and twin "
                  "outcome of the history equal those of a reference model with exactly these deviations and the violation vanishes "
                  "from the model when the deviation is switched off (DESIGN.md 2.5); every other violation keeps its plain key.",
    "technique": "runtime monitoring: temporal rule monitor over the event log of the real decoder driven by independent "
                 "VPS/8-30/WSS/XDS encoders; cache observed with a probe page; twin histories; quirk-parameterised reference "
                 "model for attribution of recorded deviations only; ASan/UBSan",
    "rule": "hist/xds: one case = 1-4 phases (station settles, probe page, 8-60 receptions with single deviations and programme/"
            "format changes, optional station change) in one of four carrier domains (all carriers name the station / none is in "
            "the table / some send no CNI / they disagree); exh: case index = history over 16 symbols (4 carriers x 4 values). "
            "Signature = (event type, announcing carrier, same/other pattern of the 4 preceding receptions of that carrier, "
            "carriers received in between, domain) plus (rule R4/R5, domain, deviations, carriers); trivial = no event was raised",
    "assumptions": [
        "timestamps advance by 1/25 s (1/29.97 s for XDS) so that the time based channel switch detector stays idle",
        "a blank NETWORK / NETWORK_ID event (nuid 0, no CNI, no name) is a documented revocation and carries no value",
        "a CNI of zero means that the carrier transmits no identifier (vbi_network: 'zero if unknown or not applicable')",
        "while carriers name different stations the statement does not determine the identified station: NETWORK events and "
        "station changes of such histories are not judged, only what their single deviations cause (twin history)",
        "XDS is exercised on its own (525 line systems), the four 625 line carriers together",
        "CNI 0xDC3 / 0xDC1 / 0xDC2 (ARD/ZDF special case) are left to C12",
    ],
    "jobs": [
        _job("hist", "hist", {"quick": 160000, "thorough": 5000000}),
        _job("xds", "xds", {"quick": 80000, "thorough": 2000000}),
        _job("exh", "exh", _EXH, {"p0": {"quick": 4, "thorough": 6}}),
        _job("zap", "zap", {"quick": 100000, "thorough": 3000000}),
    ],
    "min_distinct": 600,
    "min_counters": {"receptions": 10000000, "ev_network": 200000, "ev_network_id": 1000000, "ev_prog_id_vps": 100000,
                     "ev_prog_id_8302": 2000000, "ev_local_time": 2000000, "ev_aspect": 100000, "single_deviations": 500000,
                     "steady_windows": 200000, "steady_windows_judged_against_twin": 20000, "twin_histories": 10000,
                     "station_changes_known_to_known": 40000, "station_changes_xds": 30000, "probe_pages": 400000,
                     "hamming_single_bit_errors": 300000},
}
