SPEC = {
    "id": "C09",
    "level": "exploration",
    "level_text": "Generated XDS byte-pair streams (interleaved packets, continue codes, caption interruptions, parity/drop/dup/bit faults) are fed to the real XDS demultiplexer (both feed interfaces) and to the service decoder under ASan+UBSan(bounds-strict); an independent reference receiver written from the EIA-608 XDS framing rules decides which packets are deliverable and the callback log must equal that list exactly (order, class, type, length, bytes, NUL); packets are interrupted at every pair boundary including right behind the start or continue code. In the programme/network information scenario a small pool of meaningful packets, half of them variants of another one that differ in one flag, number or character or are a prefix/extension of its text, is repeated: every VBI_EVENT_PROG_INFO / NETWORK must follow a second identical reception and carry the decoded content of the latest valid packets. Held on the executions produced, not a proof.",
    "level_note": "Trusted: the reference receiver in harness/c09_xds.c (self-tested on hand vectors and cross-checked against the packetiser's bookkeeping on every fault-free stream), gcc ASan/UBSan runtimes, the UBSan idiom allow-list.",
    "technique": "runtime monitoring: differential oracle (independent XDS packetiser + reference receiver) over generated fault-injected streams, ASan/UBSan bounds-strict",
    "rule": "one case = 1-8 generated packets interleaved into one field-2 pair stream plus 0-3 faults; signature = (packet count bucket, max length class, interleaving depth, fault kinds, mid-packet NUL, deliverable count bucket); trivial = fault-free stream with no deliverable packet",
    "assumptions": ["reference receiver models EIA-608 XDS framing as described in DESIGN.md C09", "two unfinished packets never share one (class,type) slot in generated streams"],
    "jobs": [
        {"name": "asan", "harness": "c09_xds", "srcs": ["harness/c09_xds.c"], "flavour": "asan",
         "cases": {"quick": 320000, "thorough": 4000000}, "budget": 20},
    ],
    "min_distinct": 10,
}
