"""C18 - each proxy client gets every captured frame, filtered to its services, in order.
Multi-process rig: rig/proxy_rig.py (controller + monitors), harness/c18_client.c
(real client library), hook H1 in daemon/proxyd.c (simulated, logically clocked device)."""
import concurrent.futures, json, os, sys

VERIF = os.path.dirname(os.path.dirname(os.path.abspath(__file__)))
if VERIF not in sys.path:
    sys.path.insert(0, VERIF)

N_SCHEDULES = {"quick": 40, "thorough": 600}


def _prebuild(repo):
    import build
    from rig import proxy_rig
    build.build_daemon("asan", repo=repo)
    build.build_binary("c18_client", ["harness/c18_client.c"], "asan", repo=repo)
    proxy_rig.layout(repo)


def _one(args):
    repo, sched = args
    from rig import proxy_rig
    # per worker process (C19 keeps the rig's default): every wait of a C18 schedule is a round trip of
    # a few milliseconds; 45 s without progress is a standstill (INCONCLUSIVE, or delivery-blocked when it repeats)
    proxy_rig.WATCHDOG = float(os.environ.get("VERIF_RIG_WATCHDOG", "45"))
    return proxy_rig.run_c18_schedule(repo, sched)


def merge(res, o, job):
    res.cases += o["cases"]
    res.trivial += o.get("trivial", 0)
    for s in o["sigs"]:
        res.sigs.add(s)
    for k, v in o["counters"].items():
        res.count(k, v)
    for s in o["samples"]:
        res.sample(s)
    for v in o["violations"]:
        res.violation(v["key"], v["detail"], job=job, case=v["extra"].get("schedule", {}).get("index"),
                      extra=v["extra"])
    res.inconclusive.extend(o["inconclusive"])
    res.harness_errors.extend(o["harness_errors"])


def slow_batches(repo, tier, seed):
    from rig import c19_rig, proxy_rig
    c19_rig.prebuild(repo)
    lay = proxy_rig.layout(repo)
    W, _S = c19_rig.gen_fault_cases(lay, c19_rig.ioctls(repo), seed, tier)
    slow = [c for c in W if c["kind"] == "slow" and c["state"] == "S2"]
    nb = 4 if tier == "quick" else 16
    return [{"kind": "fault", "seed": seed, "tier": tier, "index": 9000 + i, "witnesses": 2, "prop": "C18", "cases": slow[i::nb]}
            for i in range(nb) if slow[i::nb]]


def _slow_one(args):
    repo, batch = args
    from rig import c19_rig
    return c19_rig.run_fault_batch(repo, batch)


def merge_slow(res, o):
    for s in o["sigs"]:
        res.sigs.add("slow:" + s)
    for k, v in o["counters"].items():
        if k.startswith("slow_") or k in ("witness_frames_checked", "daemon_alive_checks"):
            res.count("slowwriter:" + k, v)
    for v in o["violations"]:
        res.violation(v["key"].replace("model:C19:", "model:C18:slow-writer:"), v["detail"], job="slow-writer", case=v["extra"].get("batch", {}).get("index"),
                      extra=v["extra"])
    res.inconclusive.extend(o["inconclusive"])
    res.harness_errors.extend(o["harness_errors"])


def custom(spec, tier, seed, res, repo):
    from rig import proxy_rig
    from vflib import driver
    _prebuild(repo)
    n = int(os.environ.get("VERIF_C18_SCHEDULES", N_SCHEDULES[tier]))
    if n < N_SCHEDULES[tier]:
        # a deliberately short run (debugging): the evidence thresholds shrink with it
        spec["min_counters"] = {k: (MIN_COUNTERS[k] * n) // (2 * N_SCHEDULES[tier]) for k in
                                ("frames_delivered", "lockstep_deliveries_expected", "device_union_checks", "frames_content_equal")}
        spec["min_distinct"] = max(2, (MIN_DISTINCT * n) // N_SCHEDULES[tier])
    scheds = [proxy_rig.gen_c18_schedule(seed, i, tier) for i in range(n)]
    workers = max(1, min(driver.NCPU, n))
    with concurrent.futures.ProcessPoolExecutor(max_workers=workers) as ex:
        for o in ex.map(_one, [(repo, s) for s in scheds]):
            merge(res, o, "rig")
    # Subscribers that write a well-formed request slowly (its first bytes, frames captured meanwhile, then the rest):
    # raw protocol clients beside two witnesses of the client library, see rig/c19_rig.py FaultBatch.run_slow.  A client
    # that keeps up must get its confirm and go on receiving every frame whatever the pieces its request arrives in.
    bs = slow_batches(repo, tier, seed)
    if bs:
        with concurrent.futures.ProcessPoolExecutor(max_workers=max(1, min(driver.NCPU, len(bs)))) as ex:
            for o in ex.map(_slow_one, [(repo, b) for b in bs]):
                merge_slow(res, o)
    # an all-inconclusive run observed nothing
    if res.inconclusive and res.counters.get("frames_delivered", 0) == 0:
        res.harness_errors.append("no frame was delivered in any schedule (all inconclusive)")


def custom_replay(spec, rp, res, repo):
    from rig import proxy_rig
    _prebuild(repo)
    sched = rp.get("extra", {}).get("schedule")
    if not sched and rp.get("extra", {}).get("batch"):
        from rig import c19_rig
        c19_rig.prebuild(repo)
        b = dict(rp["extra"]["batch"])
        if rp["extra"].get("case"):
            b["cases"] = [rp["extra"]["case"]]
            merge_slow(res, c19_rig.run_fault_batch(repo, b))
            if any(v.key == rp["key"] for v in res.violations):
                return
        for u in slow_batches(repo, b["tier"], rp.get("seed", b["seed"])):
            if u["index"] == b["index"]:
                merge_slow(res, c19_rig.run_fault_batch(repo, u))
        return
    if not sched:
        res.harness_errors.append("replay file carries no schedule")
        return
    # thread-variant schedules are not bit-for-bit replayable (scheduling of the
    # acquisition thread); replay a few times
    for _ in range(3 if sched.get("variant") == "thread" else 1):
        o = proxy_rig.run_c18_schedule(repo, sched)
        merge(res, o, "rig")
        if any(v.key == rp["key"] for v in res.violations):
            break


MIN_DISTINCT = 150
# about a quarter of what a quick run (40 schedules) observes
MIN_COUNTERS = {"frames_delivered": 8000, "lockstep_deliveries_expected": 5000, "device_union_checks": 2000,
                "device_state_checks": 250, "frames_content_equal": 8000, "service_changes": 50, "stalls": 25,
                "resumes": 15, "kills": 30, "clean_disconnects": 60, "channel_flushes": 15,
                "schedules_select": 10, "schedules_thread": 10, "freerun_ticks": 800,
                "frames_read_after_stall": 500, "frames_skipped_in_client_streams": 500, "raw_frames_compared": 20}

SPEC = {
    "id": "C18",
    "level": "exploration",
    "level_text": "The real daemon (ASan+UBSan, hook H1: the library's simulated capture device behind the daemon's normal capture "
                  "interface, clocked one frame per byte by the controller) serves 1-6 (thorough: 10) real client processes using "
                  "the public client library. Seeded schedules interleave ticks with connects (any service set / strictness), "
                  "service changes, stalls (deep enough to overflow socket and frame queue, one or two clients at once), channel "
                  "flushes, clean disconnects and SIGKILLs, in lock-step (a client that is meant to keep up must have logged "
                  "frame n before tick n+1) and in free-running bursts, on the select() path and the acquisition-thread path. "
                  "Monitors over the merged logs demand per client: strictly increasing capture timestamps, no duplicate, no "
                  "loss while keeping up (lock-step), every frame equal to the direct capture of the same simulator restricted "
                  "to the granted services (no missing, foreign or altered line, same timestamp), nobody dropped; for the "
                  "device: services = union of the clients' services at every lock-step tick, open while somebody holds a "
                  "service, closed when the last client has left; for the daemon: sanitizer-silent, exit status 0 on SIGTERM, "
                  "no leak, capture device never touched while the acquisition thread reads it, delivery never at a standstill "
                  "(reproduced twice at the same virtual time). Schedules also contain service requests that arrive together with a captured frame "
                  "(daemon stopped and continued, both pending in one main loop round: everybody but the requester must get the frame) and clients "
                  "that connect without services while the device is closed and ask for them afterwards. Held on the schedules executed, not a proof; the interleavings "
                  "of the daemon's two threads are sampled by the scheduler, not enumerated.",
    "level_note": "Trusted: hook H1 (checked on every run: the frames it hands to the daemon equal a direct capture from the same "
                  "simulator in a fresh process), the controller's virtual clock, the monitors in rig/proxy_rig.py, gcc ASan/UBSan/"
                  "LSan (daemon with the fake stack, see design note). V4L/V4L2/bktr drivers and TCP transport are not reached. "
                  "A single watchdog expiry is INCONCLUSIVE; a standstill of the living daemon that repeats at the same operation "
                  "and tick in a second run is model:C18:delivery-blocked.",
    "technique": "runtime monitoring: multi-process rig (real daemon + real client library processes) under a virtual clock, "
                 "history monitors (order / exactly-once / completeness / content vs. reference capture / device-service union) "
                 "over client logs and a device trace, ASan+UBSan+LSan on daemon and clients",
    "rule": "one case = one seeded schedule (~300 ticks quick, 2000 thorough; profiles mixed / deep stall / churn / free-running; "
            "device variants select and thread alternate); signature = (variant, clients connected, distinct granted service sets, "
            "stalled clients, queue-depth bucket at a stalled client, lock-step or burst size, kind of operation preceding the tick)",
    "assumptions": ["hook H1 replaces exactly the V4L layer; its frames are the simulator's frames (verified per run)",
                    "the granted service set of a client is what the client API reports (vbi_capture_proxy_new / update_services)",
                    "a line belongs to a client iff its service id intersects the granted set",
                    "'a client that keeps up' = a client the controller has told to read and whose log shows frame n before "
                    "tick n+1 is sent (lock-step phases); completeness is demanded only there"],
    "jobs": [],
    "custom": custom,
    "custom_replay": custom_replay,
    "min_distinct": MIN_DISTINCT,
    "min_counters": dict(MIN_COUNTERS),
}
