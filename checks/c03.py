SPEC = {
    "id": "C03",
    "level": "fault_enumeration",
    "level_text": "For each generated transmission (5-9 page transmissions with headers, rows, X/26, X/27/0, X/28/0, 8/30, time filling "
                  "headers; serial or parallel multiplex; erase and no-erase retransmissions; every third one with a page with a hexadecimal "
                  "number that is received while its function is unknown, declared a normal page by a MIP, and received again; every fourth one with TOP: Basic TOP "
                  "Table 1F0, an Additional Information Table and mostly a Multi-Page Table, the tables before or behind the BTT that names them; every "
                  "fourth one with a Magazine Organization Table and an object page (pointer table + object definition triplets) whose object is displayed "
                  "on a normal page at Level 2.5 as default object, through an X/26 invocation and the MOT link, or through an X/26 invocation and X/27/4; "
                  "everywhere M/29/0 or M/29/4, X/28/4, X/28/1, 8/30 format 2) every packet is hit, one fault per run into a "
                  "fresh decoder, by: every single-bit fault of every Hamming 8/4 byte and 24/18 triplet (exhaustive), every single-bit fault "
                  "of every parity protected text byte (exhaustive), all 28 double faults of every address/control byte, sampled double "
                  "faults in header control bytes and data bytes/triplets, sampled bursts (<= 2 errors per byte) and the loss of the packet. "
                  "The observable state (cached page keys, every cached page formatted at Level 1.0/1.5/2.5 with navigation, classification "
                  "of all page numbers, the TOP index page 900 and vbi_page_title() of the listed pages, all events including the programme "
                  "identification of 8/30 format 2) is compared with reference runs of the same transmission on the same code: fault-free, "
                  "without the packet, with subsets of the pages in progress abandoned. Exhaustive over the single faults of the generated "
                  "transmissions only; transmissions themselves are sampled.",
    "level_note": "Trusted: the transmitter in harness/c02_ttx.h (encoders cross-checked against the library's decoders in the self-test), "
                  "the state snapshot through the public API in harness/c03_faults.h. Relational oracle: both runs execute the code under "
                  "test, so a fault-independent error is C02's business, not seen here. >= 3 errors per protected byte are outside the statement.",
    "technique": "runtime monitoring: exhaustive single-fault injection on the sliced byte stream with a relational oracle "
                 "(faulted run versus fault-free / packet-less / abandoned-page reference runs of the same transmission)",
    "rule": "one case = (transmission, packet): all single-bit faults, double faults, bursts and loss of that packet; signature = "
            "(packet kind, byte role, outcome class: corrected, dropped, abandoned-k, row kept earlier content / stayed blank / X/26 position, "
            "keys contained); trivial = packet slot beyond the end of the transmission",
    "assumptions": [
        "rule (b): a cell of a row hit by a parity error shows the fault-free character, the earlier good character or (only if no good row was received before) a blank; everything outside that row equals the fault-free run or the run without the packet",
        "uncorrectable header: the final state equals a run in which some subset of the transmissions in progress at that moment is replaced by time filling headers",
        "header text (row 0) carries alpha colour codes only",
        "uncorrectable header while a BTT, MPT or MOT is in progress: the rows of the table received before the header stay in force (the decoder applies them as they arrive), the rows behind it are lost and the table page itself may or may not be in the cache",
        "the title characters of an Additional Information Table entry are not a text row of a page: faults there are judged by the page number clause only",
        "byte 2 of an object page packet (Hamming 8/4, tells pointer table from object data) counts as address/control byte like the designation code of X/26-X/28",
    ],
    "jobs": [
        {"name": "plain", "harness": "c02_ttx_faithful", "srcs": ["harness/c02_ttx_faithful.c"], "flavour": "plain",
         "mode": "faults", "cases": {"quick": 12 * 128, "thorough": 200 * 128}, "budget": 300},
        {"name": "asan", "harness": "c02_ttx_faithful", "srcs": ["harness/c02_ttx_faithful.c"], "flavour": "asan",
         "mode": "faults", "cases": {"quick": 128, "thorough": 40 * 128}, "budget": 600, "tiers": ("thorough",)},
    ],
    "min_distinct": 30,
    "min_counters": {"faults_single_hamming": 20000, "faults_single_parity": 40000, "faults_double": 5000, "faults_burst": 500,
                     "faults_dropped_packet": 200, "headers_uncorrectable": 50, "packets_header": 20, "packets_row": 100,
                     "packets_x26": 5, "packets_x27": 5, "packets_x28": 2, "packets_830": 2, "packets_mip": 2, "transmissions_with_hex_page_and_mip": 2, "row-kept-earlier-content": 500,
                     "row-stayed-blank": 500, "faults_parity_in_several_bytes_of_a_row": 1000,
                     # session 6: system pages and the other enhancement / service packets
                     "packets_btt": 6, "packets_ait": 3, "packets_mpt": 2, "packets_mot": 6, "packets_pop": 8,
                     "packets_m29-0": 2, "packets_m29-4": 2, "packets_x28-4": 3, "packets_x28-1": 2, "packets_x27-4": 1, "packets_830f2": 4,
                     "transmissions_with_top_tables": 3, "page_numbers_classified_differently_because_of_btt": 50,
                     "transmissions_with_top_navigation_row": 2, "transmissions_with_top_index_page": 3, "page_titles_from_ait": 3,
                     "transmissions_with_mot_and_object_page": 3, "transmissions_with_object_displayed_at_level_2p5": 2,
                     "transmissions_with_default_object_from_mot": 1, "transmissions_with_x26_invocation_through_mot": 1,
                     "transmissions_with_x26_invocation_through_x27_4": 1},
}
