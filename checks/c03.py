SPEC = {
    "id": "C03",
    "level": "fault_enumeration",
    "level_text": "For each generated transmission (5-9 page transmissions with headers, rows, X/26, X/27/0, X/28/0, 8/30, time filling "
                  "headers; serial or parallel multiplex; erase and no-erase retransmissions; every third one with a page with a hexadecimal "
                  "number that is received while its function is unknown, declared a normal page by a MIP, and received again) every packet is hit, one fault per run into a "
                  "fresh decoder, by: every single-bit fault of every Hamming 8/4 byte and 24/18 triplet (exhaustive), every single-bit fault "
                  "of every parity protected text byte (exhaustive), all 28 double faults of every address/control byte, sampled double "
                  "faults in header control bytes and data bytes/triplets, sampled bursts (<= 2 errors per byte) and the loss of the packet. "
                  "The observable state (cached page keys, every cached page formatted at Level 1.0/1.5/2.5 with navigation, classification "
                  "of all page numbers, all events) is compared with reference runs of the same transmission on the same code: fault-free, "
                  "without the packet, with subsets of the pages in progress abandoned. Exhaustive over the single faults of the generated "
                  "transmissions only; transmissions themselves are sampled.",
    "level_note": "Trusted: the transmitter in harness/c02_ttx.h (encoders cross-checked against the library's decoders in the self-test), "
                  "the state snapshot through the public API in harness/c03_faults.h. Relational oracle: both runs execute the code under "
                  "test, so a fault-independent error is C02's business, not seen here. >= 3 errors per protected byte are outside the statement.",
    "technique": "runtime monitoring: exhaustive single-fault injection on the sliced byte stream with a relational oracle "
                 "(faulted run versus fault-free / packet-less / abandoned-page reference runs of the same transmission)",
    "rule": "one case = (transmission, packet): all single-bit faults, double faults, bursts and loss of that packet; signature = "
            "(packet kind, byte role, outcome class: corrected, dropped, abandoned-k, row kept earlier content / stayed blank / X/26 position, "
            "keys contained); trivial = packet slot beyond the end of the transmission",
    "assumptions": [
        "rule (b): a cell of a row hit by a parity error shows the fault-free character, the earlier good character or (only if no good row was received before) a blank; everything outside that row equals the fault-free run or the run without the packet",
        "uncorrectable header: the final state equals a run in which some subset of the transmissions in progress at that moment is replaced by time filling headers",
        "header text (row 0) carries alpha colour codes only",
    ],
    "jobs": [
        {"name": "plain", "harness": "c02_ttx_faithful", "srcs": ["harness/c02_ttx_faithful.c"], "flavour": "plain",
         "mode": "faults", "cases": {"quick": 12 * 128, "thorough": 200 * 128}, "budget": 300},
        {"name": "asan", "harness": "c02_ttx_faithful", "srcs": ["harness/c02_ttx_faithful.c"], "flavour": "asan",
         "mode": "faults", "cases": {"quick": 128, "thorough": 40 * 128}, "budget": 600, "tiers": ("thorough",)},
    ],
    "min_distinct": 30,
    "min_counters": {"faults_single_hamming": 20000, "faults_single_parity": 40000, "faults_double": 5000, "faults_burst": 500,
                     "faults_dropped_packet": 200, "headers_uncorrectable": 50, "packets_header": 20, "packets_row": 100,
                     "packets_x26": 5, "packets_x27": 5, "packets_x28": 2, "packets_830": 2, "packets_mip": 2, "transmissions_with_hex_page_and_mip": 2, "row-kept-earlier-content": 500,
                     "row-stayed-blank": 500},
}
