SPEC = {
    "id": "C14",
    "level": "exploration",
    "level_text": "Generated (PIL, reference time, UTC offset or zone string, ambient TZ) tuples - all 2^20 labels walked, reference times dense around year "
                  "ends, month ends, 28 Feb/1 Mar of leap, non-leap and century years, DST seasons, the epoch, 2^31 and the limits of time_t/struct tm; offsets in "
                  "quarter hours to +-14 h, odd seconds, days and INT_MAX; zoneinfo names, POSIX rules, empty, '=' and 4000-byte strings; TZ unset/set/same/garbage - "
                  "are run through vbi_pil_lto_to_time, vbi_pil_to_time, both PIL validity windows, the PTY window and vbi_pil_is_valid_date. The offset variant is "
                  "compared with independent days-from-civil arithmetic (exact instant); the zone variant is judged by viewing the instants in the zone in a forked "
                  "helper; TZ, tzname, timezone and daylight are compared with a snapshot after every call. Held on the executions produced, not a proof.",
    "level_note": "Trusted: the calendar arithmetic in harness/c14_pdc.c (self-tested), the C library's localtime() in the helper process as the definition of "
                  "'viewed in that zone', gcc ASan/UBSan. Local times that do not exist in a zone (DST gaps, skipped days) are not judged.",
    "technique": "runtime monitoring: differential oracle (independent calendar arithmetic; out-of-process zone viewer) plus environment-snapshot invariant "
                 "after every call, over generated boundary-heavy tuples; ASan/UBSan pass",
    "rule": "one case = one tuple pushed through every function; signature = (year decision -1/0/+1, month-distance bucket, zone kind, ambient TZ kind, "
            "reference-time class, outcome ok/invalid-pil/feb29-non-leap/extreme/gap)",
    "assumptions": [
        "(time_t)-1 as reference time means 'now' to the library and is not used",
        "nearest-year rule as documented in pdc.c: label month at most 5 months after and 6 months before the reference month, both seen in the zone",
        "window shape as documented/quoted from EN 300 231 9.3 in pdc.c: 00:00 of the label day (20:00 of the previous day for labels before 04:00) to 04:00 of the next day; PTY window to 04:00 of the 29th day",
        "reference times beyond +-2^55 s may fail or succeed (struct tm year range); results there are only checked for the label fields",
        "when the library runs localtime()/mktime() under the ambient zone *file* without re-parsing TZ afterwards (tz NULL, tz equal to TZ), glibc itself "
        "rewrites tzname/timezone/daylight for the converted time; that difference is counted, not judged (TZ itself is always compared)",
    ],
    "jobs": [
        {"name": "plain", "harness": "c14_pdc", "srcs": ["harness/c14_pdc.c"], "flavour": "plain",
         "cases": {"quick": 3200000, "thorough": 100000000}, "params": {"p0": {"quick": 25, "thorough": 12}}, "budget": 20},
        {"name": "asan", "harness": "c14_pdc", "srcs": ["harness/c14_pdc.c"], "flavour": "asan",
         "cases": {"quick": 200000, "thorough": 2000000}, "params": {"p0": 30}, "budget": 20},
    ],
    "min_distinct": 150,
    "min_counters": {
        "calls_vbi_pil_lto_to_time": 100000, "calls_vbi_pil_to_time": 50000, "calls_vbi_pil_lto_validity_window": 100000,
        "calls_vbi_pil_validity_window": 50000, "calls_vbi_pty_validity_window": 50000,
        "env_snapshots_compared": 500000, "feb29_refused_non_leap": 1000, "feb29_converted_leap": 300,
        "invalid_pil_refused": 50000, "year_previous": 10000, "year_next": 10000, "year_same": 100000,
        "window_shapes_checked": 100000, "beyond_representable_range": 1000,
    },
}
