SPEC = {
    "id": "C06",
    "level": "exploration",
    "level_text": "Generated frame sequences (Teletext B / VPS / WSS / Caption 625 on their permitted lines, raw VBI_625 lines with random sampling parameters, service masks, 33-bit and out-of-range PTS values, interleaved frames the documentation says are rejected) are fed to the real multiplexer in PES and TS mode, through the callback and through the coroutine with output buffers from 1 byte to several packets, under every data_identifier class and random PES size bounds, all under ASan+UBSan. Every emitted byte is parsed by an independent reader of ISO 13818-1 / EN 300 472 / EN 301 775 (rule by rule: TS header, continuity across the whole run, PES header, PTS markers, size multiple of 184 within bounds, data unit ids/lengths/line offsets, no unit crossing the packet, stuffing) whose extracted lines must equal the input, and by the library's own demultiplexer, whose frames must equal the input grouped by the statement's frame rule with the PTS of the frame's first packet. Rejected frames: FALSE, not one byte of output, next valid frame accepted and correct. Held on the executions produced, not a proof.",
    "level_note": "Trusted: the independent parser in harness/c06_dvb_parser.h (self-tested on hand-built packets incl. negative vectors), the frame generator's reading of the documented constraints (harness/c06_dvb_gen.h), gcc ASan/UBSan runtimes.",
    "technique": "runtime monitoring: independent standard parser + end-to-end differential against the library demultiplexer over generated frame/configuration/reject sequences, ASan/UBSan",
    "rule": "one case = one multiplexer configuration (PES|TS, callback|coroutine, data_identifier, size bounds, PID) and a sequence of 5-30 frames of which 0-50% are rejectable; signatures are per frame: accepted = (fixed|variable unit length, PES|TS, callback|coroutine, TS packets per PES {1,2-8,>8}, stuffing kind {none, units, appended byte, 257-split}, raw data present, first valid frame after a rejected one), rejected = (reject kind, unit length class, PES|TS, callback|coroutine); trivial = a stream in which no frame was accepted or rejected",
    "assumptions": [
        "frames with line number 0 are excluded (the statement's frame boundary rule is defined on line numbers); they are exercised by C07",
        "a frame always occupies exactly one PES packet (vbi_dvb_mux_feed/cor fail otherwise), so 'PES packets per frame' of DESIGN.md is replaced by TS packets per PES packet",
        "variable-length frames with raw data whose size is within 2 bytes of the maximum PES size may be accepted or rejected (the documentation does not say); if accepted the output is checked like any other",
        "an order violation that involves an entry removed by the service mask is not generated (documentation says such entries are discarded without further checks, the code checks their order)",
    ],
    "jobs": [
        {"name": "asan", "harness": "c06_dvb_mux", "srcs": ["harness/c06_dvb_mux.c"], "flavour": "asan",
         "cases": {"quick": 128000, "thorough": 4000000}, "budget": 30},
    ],
    "min_distinct": 60,
    "min_counters": {"frames_accepted": 1000, "demux_frames_compared": 500, "ts_packets": 1000,
                     "valid_frame_after_reject_ok": 50, "raw_lines_sent": 100},
}
