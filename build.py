#!/usr/bin/env python3
"""Content-addressed build of zvbi (library, daemon) and of the verification
harnesses.  Nothing here trusts mtimes or `make`: every object is keyed by
sha256(compiler, flags, source path, source bytes, all headers, config.h) and
rebuilt whenever the key changes, so a check always runs the *current working
tree* of the repository (default /repo, override with VERIF_REPO=<dir>).

Flavours (one sanitizer family per build):
  asan   gcc -O1 ASan + UBSan policy (see DESIGN.md 1.1), CACHE_CONSISTENCY=1
  tsan   gcc -O1 -fsanitize=thread
  plain  gcc -O2, no sanitizer (guard-page harnesses, exhaustive enumerations,
         valgrind, heap accounting)
  cov    gcc -O0 --coverage (thorough tier, informational)
"""
import hashlib, os, subprocess, sys, shutil, glob, concurrent.futures, threading

VERIF = os.path.dirname(os.path.abspath(__file__))
BUILD = os.path.join(VERIF, ".build")
GUARD = "ZVBI_VERIF"

CC = "gcc"
BASE = ["-DHAVE_CONFIG_H", "-D_REENTRANT", "-D_GNU_SOURCE", "-D" + GUARD + "=1",
        "-g", "-fno-omit-frame-pointer", "-w"]
UBSAN = ["-fsanitize=undefined", "-fsanitize=float-cast-overflow",
         "-fsanitize=bounds-strict",
         "-fno-sanitize=shift-base,alignment",
         "-fno-sanitize-recover=all",
         "-fsanitize-recover=bounds,bounds-strict"]
FLAVOURS = {
    "asan":  ["-O1", "-fsanitize=address"] + UBSAN + ["-DCACHE_CONSISTENCY=1"],
    "tsan":  ["-O1", "-fsanitize=thread"],
    "plain": ["-O2"],
    "cov":   ["-O0", "--coverage"],
}
LDFLAVOUR = {
    "asan":  ["-fsanitize=address", "-fsanitize=undefined"],
    "tsan":  ["-fsanitize=thread"],
    "plain": [],
    "cov":   ["--coverage"],
}
LIBS = ["-lpthread", "-lm", "-lpng", "-lz"]
NOT_IN_LIB = {"hammgen.c", "strptime.c", "chains.c"}

_lock = threading.Lock()


def repo_dir():
    return os.path.abspath(os.environ.get("VERIF_REPO", "/repo"))


def _sha(*parts):
    h = hashlib.sha256()
    for p in parts:
        if isinstance(p, str):
            p = p.encode()
        h.update(p)
        h.update(b"\0")
    return h.hexdigest()


def _read(path):
    with open(path, "rb") as f:
        return f.read()


def config_include(repo):
    """-I dir that provides config.h (the tree's own, else the pinned copy)."""
    if os.path.exists(os.path.join(repo, "config.h")):
        return repo
    return os.path.join(VERIF, "support")


def header_key(repo, extra_dirs=()):
    h = hashlib.sha256()
    dirs = [os.path.join(repo, "src"), os.path.join(repo, "daemon")] + list(extra_dirs)
    for d in dirs:
        for p in sorted(glob.glob(os.path.join(d, "*.h")) + glob.glob(os.path.join(d, "*.xbm"))
                        + glob.glob(os.path.join(d, "*.inc"))):
            h.update(p.encode())
            h.update(_read(p))
    ci = config_include(repo)
    for n in ("config.h", "site_def.h"):
        p = os.path.join(ci, n)
        if not os.path.exists(p):
            p = os.path.join(repo, n)
        if os.path.exists(p):
            h.update(_read(p))
    return h.hexdigest()


def include_flags(repo):
    ci = config_include(repo)
    fl = ["-I" + ci]
    if ci != repo:
        fl.append("-I" + repo)
    fl += ["-I" + os.path.join(repo, "src"), "-I" + os.path.join(VERIF, "lib")]
    return fl


def compile_obj(src, flags, hkey, cwd=None):
    """Compile one file into the content-addressed object store."""
    key = _sha(CC, " ".join(flags), os.path.abspath(src), _read(src), hkey)
    odir = os.path.join(BUILD, "obj", key[:2])
    obj = os.path.join(odir, key + ".o")
    if os.path.exists(obj):
        return obj
    os.makedirs(odir, exist_ok=True)
    tmp = obj + ".%d.tmp.o" % os.getpid()
    cmd = [CC] + flags + ["-c", src, "-o", tmp]
    r = subprocess.run(cmd, capture_output=True, text=True, cwd=cwd)
    if r.returncode != 0:
        sys.stderr.write("BUILD FAILED: %s\n%s\n" % (" ".join(cmd), r.stderr[-4000:]))
        raise SystemExit(2)
    os.replace(tmp, obj)
    # gcov notes live next to the object
    gcno = tmp[:-2] + ".gcno"
    if os.path.exists(gcno):
        os.replace(gcno, obj[:-2] + ".gcno")
    return obj


def lib_sources(repo):
    srcs = []
    for p in sorted(glob.glob(os.path.join(repo, "src", "*.c"))):
        if os.path.basename(p) not in NOT_IN_LIB:
            srcs.append(p)
    return srcs


def flavour_flags(flavour, extra=()):
    return BASE + FLAVOURS[flavour] + list(extra)


def build_objs(srcs, flags, hkey, jobs=16):
    with concurrent.futures.ThreadPoolExecutor(max_workers=jobs) as ex:
        return list(ex.map(lambda s: compile_obj(s, flags, hkey), srcs))


def build_lib(flavour, extra=(), repo=None):
    """Returns path of libzvbi.a for this flavour and tree state."""
    repo = repo or repo_dir()
    flags = flavour_flags(flavour, extra) + include_flags(repo)
    hkey = header_key(repo)
    objs = build_objs(lib_sources(repo), flags, hkey)
    akey = _sha(*objs)
    adir = os.path.join(BUILD, "lib", akey[:16])
    lib = os.path.join(adir, "libzvbi.a")
    if not os.path.exists(lib):
        os.makedirs(adir, exist_ok=True)
        tmp = lib + ".%d.tmp" % os.getpid()
        if os.path.exists(tmp):
            os.unlink(tmp)
        subprocess.run(["ar", "rcs", tmp] + objs, check=True)
        os.replace(tmp, lib)
    return lib


def build_binary(name, srcs, flavour, extra_c=(), extra_ld=(), with_lib=True,
                 lib_extra=(), repo=None, extra_objs=()):
    """Compile harness sources (absolute or /verif-relative) against the tree
    and link with the flavour's libzvbi.a.  Returns the binary path."""
    repo = repo or repo_dir()
    srcs = [s if os.path.isabs(s) else os.path.join(VERIF, s) for s in srcs]
    flags = flavour_flags(flavour, extra_c) + include_flags(repo)
    hkey = header_key(repo, [os.path.join(VERIF, "lib"), os.path.join(VERIF, "harness")])
    objs = build_objs(srcs, flags, hkey) + list(extra_objs)
    libs = [build_lib(flavour, lib_extra, repo)] if with_lib else []
    bkey = _sha(name, flavour, " ".join(extra_ld), *(objs + libs))
    bdir = os.path.join(BUILD, "bin", bkey[:16])
    exe = os.path.join(bdir, name)
    if not os.path.exists(exe):
        os.makedirs(bdir, exist_ok=True)
        tmp = exe + ".%d.tmp" % os.getpid()
        cmd = [CC] + LDFLAVOUR[flavour] + ["-o", tmp] + objs + libs + list(extra_ld) + LIBS + ["-ldl", "-rdynamic"]
        r = subprocess.run(cmd, capture_output=True, text=True)
        if r.returncode != 0:
            sys.stderr.write("LINK FAILED: %s\n%s\n" % (" ".join(cmd), r.stderr[-4000:]))
            raise SystemExit(2)
        os.replace(tmp, exe)
    return exe


def build_daemon(flavour, extra=(), repo=None):
    repo = repo or repo_dir()
    return build_binary("zvbid", [os.path.join(repo, "daemon", "proxyd.c")], flavour,
                        extra_c=list(extra), lib_extra=extra, repo=repo)


def prune(max_gb=6.0):
    """Drop the whole object store when it has grown beyond max_gb."""
    total = 0
    for root, _, files in os.walk(BUILD):
        for f in files:
            try:
                total += os.path.getsize(os.path.join(root, f))
            except OSError:
                pass
    if total > max_gb * (1 << 30):
        shutil.rmtree(BUILD, ignore_errors=True)


if __name__ == "__main__":
    fl = sys.argv[1:] or ["asan", "plain", "tsan"]
    for f in fl:
        print(f, build_lib(f))
