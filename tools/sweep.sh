#!/bin/bash
# tools/sweep.sh [-j N] CNN[:letters] ...   -- run tools/mutants.py over seeded changes (all of a property, or the
# letters given, e.g. C07:gh) one after the other; one line per change on stdout (for `vp run`).  With letters the
# RESULTS file is not rewritten; tools/gen_results.py also reads the sweep logs kept under seeded/sweeps/.
jobs=8
if [ "$1" = "-j" ]; then jobs=$2; shift 2; fi
cd "$(dirname "$0")/.."
python3 build.py asan plain tsan >/dev/null 2>&1
for spec in "$@"; do
  id=${spec%%:*}; letters=${spec#*:}
  if [ "$letters" = "$spec" ]; then
    python3 tools/mutants.py $id --seeded --jobs $jobs
  else
    args=""
    for l in $(echo $letters | grep -o .); do args="$args --patch seeded/$id-$l/patch.diff"; done
    python3 tools/mutants.py $id $args --jobs $jobs
  fi
done
