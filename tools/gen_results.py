#!/usr/bin/env python3
"""tools/gen_results.py -- regenerates the machine-written part of DESIGN.md (between the
markers <!-- RESULTS:BEGIN --> and <!-- RESULTS:END -->) from known-findings.json,
mutants/*/RESULTS.json, seeded/*/meta.json + seeded/RESULTS-*.json, checks/registered.json
and /repo's git log.  Hand-written prose stays outside the markers."""
import glob, json, os, re, subprocess

V = os.path.dirname(os.path.dirname(os.path.abspath(__file__)))


def sh(*a):
    return subprocess.run(a, capture_output=True, text=True).stdout


def main():
    out = []
    reg = json.load(open(V + "/checks/registered.json"))
    kf = json.load(open(V + "/known-findings.json"))["findings"]
    props = [json.loads(l) for l in open(V + "/properties.jsonl")]
    out.append("### 7.1 Status per property (generated)\n")
    out.append("| id | registered | open known findings | fixed defects | mutants caught | seeded changes caught |")
    out.append("|---|---|---|---|---|---|")
    for p in props:
        pid = p["id"]
        nopen = sum(1 for f in kf if f["property"] == pid and f["status"] == "open")
        nfix = len({f.get("commit") for f in kf if f["property"] == pid and f["status"] == "fixed"})
        mr = V + "/mutants/%s/RESULTS.json" % pid
        mtxt = "-"
        if os.path.exists(mr):
            r = json.load(open(mr))["results"]
            mtxt = "%d/%d" % (sum(1 for x in r if x.get("result") == "caught"), len(r))
        sr = V + "/seeded/RESULTS-%s.json" % pid
        stxt = "-"
        if os.path.exists(sr):
            r = json.load(open(sr))["results"]
            sup = set()
            for x in r:
                mp = V + "/seeded/%s/meta.json" % x["mutant"].replace("(ported)", "")
                if os.path.exists(mp) and str(json.load(open(mp)).get("status", "")).startswith(("superseded", "not-decided")):
                    sup.add(x["mutant"])
            stxt = "%d/%d" % (sum(1 for x in r if x.get("result") == "caught" and x["mutant"] not in sup), len(r) - len(sup))
            if sup:
                stxt += " (+%d not counted, see 7.4)" % len(sup)
        out.append("| %s | %s | %d | %d | %s | %s |" % (pid, "yes" if pid in reg else "no", nopen, nfix, mtxt, stxt))
    out.append("\n### 7.2 Genuine defects repaired in /repo (`fix:` commits, generated from git log)\n")
    log = sh("git", "-C", "/repo", "log", "--reverse", "--format=%h %s")
    for ln in log.splitlines():
        h, s = ln.split(" ", 1)
        if s.startswith("fix:"):
            props_for = sorted({f["property"] for f in kf if f.get("commit", "").startswith(h[:7]) or h.startswith(f.get("commit", "zzzzzzz")[:7])})
            out.append("* `%s` %s%s" % (h, s[5:], (" — found by " + ", ".join(props_for)) if props_for else ""))
    out.append("\n### 7.3 Open known findings (generated from known-findings.json)\n")
    for f in kf:
        if f["status"] == "open":
            out.append("* **%s** `%s`%s — %s" % (f["property"], f["key"], (" (match `%s`)" % f["match"]) if f.get("match") else "", f["what"]))
    out.append("\n### 7.4 Seeded changes (independently written breaks) and the checks that catch them (generated)\n")
    out.append("| seeded change | property | what it needs to manifest (first line of NOTES.md) | result of the quick check | keys |")
    out.append("|---|---|---|---|---|")
    res = {}
    for sr in glob.glob(V + "/seeded/RESULTS-*.json"):
        for x in json.load(open(sr))["results"]:
            res[x["mutant"].replace("(ported)", "")] = dict(x, ported="(ported)" in x["mutant"])
    for d in sorted(glob.glob(V + "/seeded/C*-*")):
        name = os.path.basename(d)
        mp = d + "/meta.json"
        if not os.path.exists(mp):
            continue
        meta = json.load(open(mp))
        notes = ""
        if os.path.exists(d + "/NOTES.md"):
            for ln in open(d + "/NOTES.md"):
                ln = ln.strip()
                if ln and not ln.startswith("#"):
                    notes = ln[:160]
                    break
        x = res.get(name, {})
        if str(meta.get("status", "")).startswith(("superseded", "not-decided")):
            x = dict(x, result=meta["status"], keys=[])
        out.append("| %s | %s | %s | %s | %s |" % (name, meta.get("property"), notes.replace("|", "/"), (x.get("result", "not run") + (" (re-diffed against HEAD: patch-ported.diff)" if x.get("ported") else "")),
                                                  ", ".join("`%s`" % k for k in x.get("keys", [])[:3])))
    txt = "\n".join(out) + "\n"
    p = V + "/DESIGN.md"
    s = open(p).read()
    b, e = "<!-- RESULTS:BEGIN -->", "<!-- RESULTS:END -->"
    if b not in s:
        s += "\n" + b + "\n" + e + "\n"
    s = s[:s.index(b) + len(b)] + "\n" + txt + s[s.index(e):]
    open(p, "w").write(s)
    print("DESIGN.md results section regenerated (%d lines)" % len(out))


if __name__ == "__main__":
    main()
