#!/usr/bin/env python3
"""tools/verify_seed.py C09 a  -- confirm a seeded break delivered in /tmp/seed-C09-out/a against the
pre-built scratch worktree /tmp/seed-C09: demo passes on the clean tree, patch applies, builds,
`make check` passes (19), demo fails with the patch.  On success copies it to /verif/seeded/C09-a/."""
import json, os, re, shutil, subprocess, sys, glob

pid, letter = sys.argv[1].upper(), sys.argv[2]
wt = "/tmp/seed-%s" % pid
out = "/tmp/seed-%s-out/%s" % (pid, letter)
VERIF = os.path.dirname(os.path.dirname(os.path.abspath(__file__)))


def sh(cmd, cwd=wt, timeout=900):
    try:
        r = subprocess.run(cmd, shell=True, cwd=cwd, capture_output=True, text=True, timeout=timeout)
        return r.returncode, (r.stdout + r.stderr)
    except subprocess.TimeoutExpired as e:
        return 124, "TIMEOUT"


def build_demo():
    if os.path.exists(out + "/build.sh"):
        return sh("sh %s/build.sh" % out)
    if os.path.exists(out + "/demo.sh"):
        return 0, ""
    return sh("gcc -g -I %s -I %s/src -DHAVE_CONFIG_H -D_GNU_SOURCE -D_REENTRANT -o %s/demo %s/demo.c %s/src/.libs/libzvbi.a -lpthread -lm -lpng -lz" % (wt, wt, out, out, wt))


def run_demo():
    if os.path.exists(out + "/demo.sh"):
        return sh("sh %s/demo.sh" % out, timeout=300)
    return sh("%s/demo" % out, timeout=120)


res = {}
sh("git checkout -- . && make -j8 >/dev/null 2>&1")
rc, o = build_demo()
if rc:
    sys.exit("demo does not build on clean tree:\n" + o[-1500:])
rc, o = run_demo()
res["demo_clean_exit"] = rc
print("clean demo exit", rc, o[-300:].replace("\n", " | "))
rc, o = sh("git apply %s/patch.diff" % out)
if rc:
    sys.exit("patch does not apply: " + o)
rc, o = sh("make -j8 2>&1 | tail -5")
rc, o = sh("make check 2>&1 | grep -E '^(PASS|FAIL|ERROR)' | sort | uniq -c")
npass = sum(int(l.split()[0]) for l in o.splitlines() if "PASS" in l)
nfail = sum(int(l.split()[0]) for l in o.splitlines() if "FAIL" in l or "ERROR" in l)
res["make_check"] = "%d pass %d fail" % (npass, nfail)
print("make check with patch:", res["make_check"])
rc, o = build_demo()
if rc:
    print("demo does not build with patch:", o[-800:])
rc, o = run_demo()
res["demo_patched_exit"] = rc
res["demo_patched_output_tail"] = o[-600:]
print("patched demo exit", rc, o[-400:].replace("\n", " | "))
sh("git checkout -- . && make -j8 >/dev/null 2>&1")
ok = res["demo_clean_exit"] == 0 and npass >= 19 and nfail == 0 and res["demo_patched_exit"] != 0
print("CONFIRMED" if ok else "NOT CONFIRMED")
if ok:
    dst = os.path.join(VERIF, "seeded", "%s-%s" % (pid, letter))
    os.makedirs(dst, exist_ok=True)
    for f in glob.glob(out + "/*"):
        if os.path.isfile(f) and not os.path.basename(f) in ("demo",) and os.path.getsize(f) < 200000:
            shutil.copy(f, dst)
    notes = open(out + "/NOTES.md").read() if os.path.exists(out + "/NOTES.md") else ""
    meta = {"property": pid, "id": "%s-%s" % (pid, letter),
            "needs_to_manifest": "see NOTES.md",
            "confirmed_by_me": {"worktree": wt, "demo_on_clean_tree_exit": res["demo_clean_exit"],
                                "make_check_with_patch": res["make_check"], "demo_with_patch_exit": res["demo_patched_exit"],
                                "demo_with_patch_output_tail": res["demo_patched_output_tail"]},
            "ran": ["git apply patch.diff", "make -j8 && make check", "build+run demo on clean and patched tree (tools/verify_seed.py)"],
            "base_commit": subprocess.run(["git", "-C", wt, "rev-parse", "HEAD"], capture_output=True, text=True).stdout.strip()}
    json.dump(meta, open(os.path.join(dst, "meta.json"), "w"), indent=1)
sys.exit(0 if ok else 1)
