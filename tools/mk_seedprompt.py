#!/usr/bin/env python3
"""tools/mk_seedprompt.py CNN g h [round]  -> tools/seedprompts/CNN-r<round>.txt (default 4) : brief for the next pair of independently written
changes, derived from the round-3 brief: new letters, and the list of sites already used extended by every change in
seeded/CNN-* (file names from the patch, first line of NOTES.md)."""
import glob, os, re, sys
VERIF = os.path.dirname(os.path.dirname(os.path.abspath(__file__)))
pid, a, b = sys.argv[1].upper(), sys.argv[2], sys.argv[3]
src = open(os.path.join(VERIF, "tools/seedprompts/%s-r3.txt" % pid)).read()
used = []
for d in sorted(glob.glob(os.path.join(VERIF, "seeded", pid + "-*"))):
    files = sorted(set(re.findall(r"^\+\+\+ b/(\S+)", open(os.path.join(d, "patch.diff")).read(), flags=re.M)))
    first = ""
    np_ = os.path.join(d, "NOTES.md")
    if os.path.exists(np_):
        first = open(np_).read().strip().splitlines()[0][:160]
    used.append("%s: %s -- %s" % (os.path.basename(d), ", ".join(files), first))
src = src.replace("(named e and f)", "(named %s and %s)" % (a, b))
src = src.replace("for e and f", "for %s and %s" % (a, b)).replace("{e, f}", "{%s, %s}" % (a, b))
src = re.sub(r"Changes independent reviewers already wrote for this property \(choose DIFFERENT sites and mechanisms; prefer source files and clauses of the property that none of them touched\):.*?\n\n",
             "Changes independent reviewers already wrote for this property (choose DIFFERENT sites and mechanisms; prefer source files, functions and clauses of the property that none of them touched):\n"
             + "\n".join(" - " + u for u in used) + "\n\n", src, flags=re.S)
src = re.sub(r"for e and f one line each", "for %s and %s one line each" % (a, b), src)
out = os.path.join(VERIF, "tools/seedprompts/%s-r%s.txt" % (pid, sys.argv[4] if len(sys.argv) > 4 else "4"))
open(out, "w").write(src)
print(out, len(src))
