#!/usr/bin/env python3
"""Line coverage of /repo/src (and daemon) reached by a check's harness workload.

  tools/coverage.py C01 [--job asan] [--cases 2000] [--seed 1] [--tier quick] [--files packet.c,teletext.c] [--uncovered teletext.c]

Informational only (never a verdict): it shows which parts of the anchored files the
generated workload reaches, so that the generators can be aimed at what they miss.
Builds an -O0 --coverage copy of the library in a scratch directory under /tmp (removed
afterwards), links the job's harness against it, runs the cases on 16 processes (gcov merges
the counters of concurrent processes), runs gcov and prints per-file line coverage.
"""
import argparse, glob, importlib, os, re, shutil, subprocess, sys, tempfile, concurrent.futures

VERIF = os.path.dirname(os.path.dirname(os.path.abspath(__file__)))
sys.path.insert(0, VERIF)
import build  # noqa: E402


def main():
    ap = argparse.ArgumentParser()
    ap.add_argument("id")
    ap.add_argument("--job")
    ap.add_argument("--cases", type=int, default=2000)
    ap.add_argument("--seed", default="1")
    ap.add_argument("--tier", default="quick")
    ap.add_argument("--files", default="")
    ap.add_argument("--uncovered", default="", help="comma list of files whose uncovered lines are printed")
    ap.add_argument("--keep", action="store_true")
    a = ap.parse_args()
    spec = importlib.import_module("checks." + a.id.lower()).SPEC
    jobs = [j for j in spec["jobs"] if not a.job or j["name"] == a.job]
    if not jobs:
        sys.exit("no such job")
    job = jobs[0]
    repo = build.repo_dir()
    wd = tempfile.mkdtemp(prefix="zvbi-cov-")
    try:
        flags = build.BASE + ["-O0", "--coverage"] + build.include_flags(repo) + list(job.get("cflags", ()))
        srcs = build.lib_sources(repo)
        hsrcs = [os.path.join(VERIF, s) for s in list(job["srcs"]) + ["lib/vf.c"]]

        def cc(src):
            obj = os.path.join(wd, os.path.basename(src)[:-2] + ".o")
            r = subprocess.run([build.CC] + flags + ["-c", src, "-o", obj], capture_output=True, text=True, cwd=wd)
            if r.returncode:
                sys.exit("compile failed: %s\n%s" % (src, r.stderr[-2000:]))
            return obj
        with concurrent.futures.ThreadPoolExecutor(16) as ex:
            objs = list(ex.map(cc, srcs + hsrcs))
        exe = os.path.join(wd, "harness")
        r = subprocess.run([build.CC, "--coverage", "-o", exe] + objs + list(job.get("ldflags", ())) + build.LIBS + ["-ldl", "-rdynamic"],
                           capture_output=True, text=True)
        if r.returncode:
            sys.exit("link failed\n" + r.stderr[-2000:])
        n = a.cases
        nw = 16
        chunk = (n + nw - 1) // nw
        procs = []
        for w in range(nw):
            s = w * chunk
            c = min(chunk, n - s)
            if c <= 0:
                break
            cmd = [exe, "--seed", a.seed, "--start", str(s), "--cases", str(c), "--tier", a.tier,
                   "--out", os.path.join(wd, "w%d.jsonl" % w)]
            if job.get("mode"):
                cmd += ["--mode", job["mode"]]
            if job.get("budget"):
                cmd += ["--budget", str(job["budget"] * 4)]
            for k, v in (job.get("params") or {}).items():
                cmd += ["--" + k, str(v[a.tier] if isinstance(v, dict) else v)]
            procs.append(subprocess.Popen(cmd, cwd=wd, stdout=subprocess.DEVNULL, stderr=subprocess.DEVNULL))
        for p in procs:
            p.wait()
        want = [f for f in a.files.split(",") if f]
        unc = [f for f in a.uncovered.split(",") if f]
        rows = []
        for src in srcs:
            base = os.path.basename(src)
            if want and base not in want:
                continue
            r = subprocess.run(["gcov", "-o", wd, src], capture_output=True, text=True, cwd=wd)
            m = re.search(r"File '%s'\nLines executed:([0-9.]+)%% of (\d+)" % re.escape(src), r.stdout)
            if m:
                rows.append((base, float(m.group(1)), int(m.group(2))))
            if base in unc:
                g = os.path.join(wd, base + ".gcov")
                if os.path.exists(g):
                    print("---- uncovered lines of %s" % base)
                    for ln in open(g, errors="replace"):
                        if ln.lstrip().startswith("#####"):
                            print(ln.rstrip()[:160])
        tot = sum(r[2] for r in rows)
        cov = sum(r[1] * r[2] / 100 for r in rows)
        for b, pc, nl in sorted(rows):
            print("%-22s %6.1f%% of %5d lines" % (b, pc, nl))
        if tot:
            print("%-22s %6.1f%% of %5d lines (%s %s, %d cases)" % ("TOTAL", 100 * cov / tot, tot, a.id, job["name"], n))
    finally:
        if not a.keep:
            shutil.rmtree(wd, ignore_errors=True)
        else:
            print("kept", wd)


if __name__ == "__main__":
    main()
