#!/bin/sh
# tools/seed_worktree.sh <name>  -> pre-built scratch git worktree /tmp/seed-<name> of /repo HEAD
# (build outputs copied from /repo so `make && make check` is incremental), plus /tmp/seed-<name>-out/
set -e
wt=/tmp/seed-$1
git -C /repo worktree remove --force $wt 2>/dev/null || true
rm -rf $wt $wt-out
git -C /repo worktree add --detach $wt HEAD -q
rsync -a --exclude .git /repo/ $wt/
mkdir -p $wt-out
echo $wt
