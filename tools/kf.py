#!/usr/bin/env python3
"""tools/kf.py <property> <key> <open|fixed> [--commit C] [--match RE] [--job J] -- <what>   append a known-findings entry"""
import json, sys, argparse
ap = argparse.ArgumentParser()
ap.add_argument("property"); ap.add_argument("key"); ap.add_argument("status", choices=["open", "fixed"])
ap.add_argument("--commit"); ap.add_argument("--match"); ap.add_argument("--job"); ap.add_argument("what", nargs="+")
a = ap.parse_args()
p = "/verif/known-findings.json"
d = json.load(open(p))
what = " ".join(a.what)
e = {"property": a.property, "key": a.key, "status": a.status}
if a.match: e["match"] = a.match
if a.job: e["job"] = a.job
if a.status == "fixed":
    e["commit"] = a.commit
    what = "fixed: property=%s %s %s" % (a.property, a.commit, what)
e["what"] = what
d["findings"] = [f for f in d["findings"] if not (f["property"] == e["property"] and f["key"] == e["key"] and f.get("match") == e.get("match"))] + [e]
with open(p, "w") as f:
    f.write('{\n "comment": %s,\n "findings": [\n' % json.dumps(d["comment"]))
    f.write(",\n".join("  " + json.dumps(x) for x in d["findings"]))
    f.write("\n ]\n}\n")
