#!/usr/bin/env python3
"""Run the quick (or thorough) check of a property against deliberate breaks.

  tools/mutants.py C09                 # every mutants/C09/*.patch
  tools/mutants.py C09 --seeded        # every seeded/*/patch.diff whose meta.json names C09
  tools/mutants.py C09 --patch f.diff  # one patch
  --repo-tests   also build a full copy of /repo with the patch and run its own
                 test suite (must still pass for a break to count as realistic)

Each patch is applied to a scratch git worktree of /repo HEAD under /tmp (removed
afterwards), the check is pointed at it with VERIF_REPO, and must exit 1 with a
VIOLATION line.  Nothing in /repo or /verif/evidence is touched.
"""
import argparse, glob, json, os, re, shutil, subprocess, sys, time

VERIF = os.path.dirname(os.path.dirname(os.path.abspath(__file__)))


def sh(cmd, **kw):
    return subprocess.run(cmd, shell=isinstance(cmd, str), capture_output=True, text=True, **kw)


def make_worktree(tag):
    wt = "/tmp/zvbi-mut-%s-%d" % (tag, os.getpid())
    sh(["git", "-C", "/repo", "worktree", "remove", "--force", wt])
    r = sh(["git", "-C", "/repo", "worktree", "add", "--detach", wt, "HEAD"])
    if r.returncode:
        sys.exit("worktree add failed: " + r.stderr)
    for f in ("config.h", "site_def.h"):
        if os.path.exists("/repo/" + f):
            shutil.copy("/repo/" + f, wt)
    return wt


def repo_tests(patch):
    """Full copy of /repo + patch -> make && make check.  Returns (ok, summary)."""
    cp = "/tmp/zvbi-rt-%d" % os.getpid()
    shutil.rmtree(cp, ignore_errors=True)
    sh("cp -a /repo %s" % cp)
    try:
        r = sh(["git", "-C", cp, "apply", patch])
        if r.returncode:
            return False, "patch does not apply: " + r.stderr[-300:]
        r = sh("make -j16 >/dev/null 2>%s/make.err && make check 2>&1 | grep -E '^(PASS|FAIL|ERROR|XFAIL|XPASS):' | sort | uniq -c" % cp, cwd=cp)
        out = r.stdout
        npass = sum(int(l.split()[0]) for l in out.splitlines() if " PASS:" in l)
        nfail = sum(int(l.split()[0]) for l in out.splitlines() if re.search(r" (FAIL|ERROR|XPASS):", l))
        if npass == 0:
            err = open(cp + "/make.err").read()[-500:] if os.path.exists(cp + "/make.err") else ""
            return False, "build failed or no tests ran: " + err
        return nfail == 0 and npass >= 19, "%d pass, %d fail" % (npass, nfail)
    finally:
        shutil.rmtree(cp, ignore_errors=True)


def main():
    ap = argparse.ArgumentParser()
    ap.add_argument("id")
    ap.add_argument("--seeded", action="store_true")
    ap.add_argument("--patch", action="append")
    ap.add_argument("--tier", default="quick")
    ap.add_argument("--seed", default="1")
    ap.add_argument("--repo-tests", action="store_true")
    ap.add_argument("--jobs", default=os.environ.get("VERIF_JOBS", "16"))
    a = ap.parse_args()
    pid = a.id.upper()
    patches = []
    if a.patch:
        patches = [os.path.abspath(p) for p in a.patch]
    elif a.seeded:
        for d in sorted(glob.glob(os.path.join(VERIF, "seeded", "*"))):
            mp = os.path.join(d, "meta.json")
            if os.path.exists(mp) and json.load(open(mp)).get("property") == pid:
                patches.append(os.path.join(d, "patch.diff"))
    else:
        patches = sorted(glob.glob(os.path.join(VERIF, "mutants", pid, "*.patch")))
    if not patches:
        sys.exit("no patches")
    wt = make_worktree(pid)
    results = []
    try:
        for p in patches:
            name = os.path.basename(os.path.dirname(p)) if os.path.basename(p) == "patch.diff" else os.path.basename(p)
            sh(["git", "-C", wt, "checkout", "--", "."])
            r = sh(["git", "-C", wt, "apply", p])
            ported = os.path.join(os.path.dirname(p), "patch-ported.diff")
            if r.returncode and os.path.basename(p) == "patch.diff" and os.path.exists(ported):
                # the seeded change was written against an older tree; same break re-diffed by hand against HEAD
                r = sh(["git", "-C", wt, "apply", ported])
                name += "(ported)"
            if r.returncode:
                results.append({"mutant": name, "result": "patch-does-not-apply", "detail": r.stderr[-200:]})
                print("%-45s PATCH DOES NOT APPLY" % name)
                continue
            env = dict(os.environ, VERIF_REPO=wt, VERIF_SEED=a.seed, VERIF_JOBS=a.jobs)
            t0 = time.time()
            r = subprocess.run([os.path.join(VERIF, "check"), pid, "--tier", a.tier], env=env, capture_output=True, text=True)
            keys = re.findall(r"^  key=(\S+)", r.stdout, flags=re.M)
            res = {"mutant": name, "exit": r.returncode, "keys": keys[:6], "wall_s": round(time.time() - t0, 1)}
            if r.returncode == 1 and "VIOLATION property=%s" % pid in r.stdout:
                res["result"] = "caught"
            elif r.returncode == 0:
                res["result"] = "MISSED"
            else:
                res["result"] = "harness-error"
                res["detail"] = (r.stdout + r.stderr)[-400:]
            if a.repo_tests:
                ok, summ = repo_tests(p)
                res["repo_tests"] = summ
                res["repo_tests_pass"] = ok
            results.append(res)
            print("%-45s %-14s %s %s" % (name, res["result"], ",".join(keys[:3]), res.get("repo_tests", "")))
            sys.stdout.flush()
    finally:
        sh(["git", "-C", "/repo", "worktree", "remove", "--force", wt])
        shutil.rmtree(wt, ignore_errors=True)
    caught = sum(1 for r in results if r.get("result") == "caught")
    print("%s: %d/%d caught" % (pid, caught, len(results)))
    outd = os.path.join(VERIF, "seeded" if a.seeded else "mutants", "" if a.seeded else pid)
    if not a.patch:
        with open(os.path.join(outd, "RESULTS-%s.json" % pid if a.seeded else "RESULTS.json"), "w") as f:
            json.dump({"property": pid, "tier": a.tier, "seed": a.seed, "results": results}, f, indent=1)
    else:
        # single patches: merge into the results file they belong to (entry replaced by name), so the tables
        # generated from these files do not go stale when only some changes are re-run
        for p, r in zip(patches, results):
            if os.path.basename(p) == "patch.diff" and os.path.dirname(os.path.dirname(p)) == os.path.join(VERIF, "seeded"):
                rf = os.path.join(VERIF, "seeded", "RESULTS-%s.json" % pid)
            elif os.path.dirname(p) == os.path.join(VERIF, "mutants", pid):
                rf = os.path.join(VERIF, "mutants", pid, "RESULTS.json")
            else:
                continue
            d = json.load(open(rf)) if os.path.exists(rf) else {"property": pid, "tier": a.tier, "seed": a.seed, "results": []}
            r = dict(r, tier=a.tier, seed=a.seed)
            base = r["mutant"].replace("(ported)", "")
            d["results"] = [x for x in d["results"] if x["mutant"].replace("(ported)", "") != base] + [r]
            d["results"].sort(key=lambda x: x["mutant"])
            with open(rf, "w") as f:
                json.dump(d, f, indent=1)
    return 0 if caught == len(results) else 1


if __name__ == "__main__":
    sys.exit(main())
