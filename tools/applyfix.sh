#!/bin/sh
# tools/applyfix.sh <patch> "<commit message>"  -- apply a proposed fix to /repo, build with the
# repository's own autotools build (guard off), run its test suite, commit on success.
set -e
p=$(readlink -f "$1"); msg="$2"
cd /repo
git diff --quiet || { echo "repo dirty"; exit 2; }
git apply --check "$p" 2>/dev/null && git apply "$p" || patch -p1 --no-backup-if-mismatch < "$p"
make -j16 >/tmp/applyfix-make.log 2>&1 || { echo "BUILD FAILED"; tail -20 /tmp/applyfix-make.log; git checkout -- .; exit 1; }
make check >/tmp/applyfix-check.log 2>&1 || true
np=$(grep -c '^PASS' /tmp/applyfix-check.log || true); nf=$(grep -cE '^(FAIL|ERROR)' /tmp/applyfix-check.log || true)
echo "make check: $np pass $nf fail"
if [ "$np" -lt 19 ] || [ "$nf" -ne 0 ]; then echo "TESTS FAILED"; grep -E '^(FAIL|ERROR)' /tmp/applyfix-check.log; git checkout -- .; exit 1; fi
git commit -qam "$msg" && git log --oneline | head -1
