#!/bin/bash
# tools/soak.sh <tier> <seed> [ids...]  -- run checks one after the other, one summary line each (for `vp run`)
tier=$1; seed=$2; shift 2
ids=${@:-$(./check --list)}
for i in $ids; do
  s=$(date +%s)
  VERIF_SEED=$seed ./check $i --tier $tier > soak-$i-$tier-$seed.log 2>&1; rc=$?
  echo "$i tier=$tier seed=$seed rc=$rc t=$(( $(date +%s)-s ))s $(grep -c '^VIOLATION' soak-$i-$tier-$seed.log) violation line(s) | $(tail -1 soak-$i-$tier-$seed.log | cut -c1-200)"
  grep '^VIOLATION' -A1 soak-$i-$tier-$seed.log | cut -c1-400
  grep '^INCONCLUSIVE' soak-$i-$tier-$seed.log | cut -c1-300
done
