#!/usr/bin/env python3
"""tools/redemo.py C03-e [...]  -- re-run the demonstration of a seeded change against the CURRENT /repo HEAD:
demo on the clean tree must pass, with patch.diff (or patch-ported.diff) applied it must fail.  Library built
with build.py (plain flavour, no autotools), scratch worktree under /tmp removed afterwards."""
import os, subprocess, sys, shutil
VERIF = os.path.dirname(os.path.dirname(os.path.abspath(__file__)))
sys.path.insert(0, VERIF)
import build


def sh(cmd, **kw):
    return subprocess.run(cmd, shell=isinstance(cmd, str), capture_output=True, text=True, **kw)


def run(sid):
    d = os.path.join(VERIF, "seeded", sid)
    wt = "/tmp/redemo-%s-%d" % (sid, os.getpid())
    sh(["git", "-C", "/repo", "worktree", "remove", "--force", wt])
    sh(["git", "-C", "/repo", "worktree", "add", "--detach", wt, "HEAD"])
    for f in ("config.h", "site_def.h"):
        if os.path.exists("/repo/" + f):
            shutil.copy("/repo/" + f, wt)
    res = {}
    try:
        for phase in ("clean", "patched"):
            if phase == "patched":
                ok = False
                for pn in ("patch.diff", "patch-ported.diff"):
                    p = os.path.join(d, pn)
                    if os.path.exists(p) and sh(["git", "-C", wt, "apply", p]).returncode == 0:
                        ok = True
                        break
                if not ok:
                    res[phase] = "patch does not apply"
                    break
            lib = build.build_lib("plain", repo=wt)
            demo = os.path.join(wt, "demo-bin")
            srcs = [f for f in os.listdir(d) if f.endswith(".c")]
            if not srcs:
                res[phase] = "no demo.c (script demo)"
                break
            r = sh("gcc -g -O1 -I %s -I %s/src -DHAVE_CONFIG_H -D_GNU_SOURCE -D_REENTRANT -o %s %s %s -lpthread -lm -lpng -lz"
                   % (wt, wt, demo, " ".join(os.path.join(d, s) for s in srcs), lib))
            if r.returncode:
                res[phase] = "demo build failed: " + r.stderr[-300:]
                break
            try:
                r = sh([demo], timeout=300, cwd=wt)
                res[phase] = "exit %d" % r.returncode
                res[phase + "_tail"] = (r.stdout + r.stderr)[-300:]
            except subprocess.TimeoutExpired:
                res[phase] = "timeout"
    finally:
        sh(["git", "-C", "/repo", "worktree", "remove", "--force", wt])
        shutil.rmtree(wt, ignore_errors=True)
    return res


for sid in sys.argv[1:]:
    r = run(sid)
    verdict = "STILL-BREAKS" if r.get("clean") == "exit 0" and r.get("patched", "").startswith("exit") and r.get("patched") != "exit 0" else "CHECK"
    print(sid, verdict, r.get("clean"), "/", r.get("patched"))
    if verdict == "CHECK":
        print("   ", r)
