#!/bin/bash
# tools/prep_seed.sh CNN -- scratch worktree of /repo HEAD under /tmp/seed-CNN with the autotools build
# output copied in (so `make` / `make check` work there), plus the empty output directory for the sub-agent.
set -e
id=$1
wt=/tmp/seed-$id
git -C /repo worktree remove --force $wt 2>/dev/null || true
rm -rf $wt /tmp/seed-$id-out
git -C /repo worktree add --detach $wt HEAD >/dev/null 2>&1
rsync -a --exclude .git /repo/ $wt/
( cd $wt && make -j8 >/dev/null 2>&1 ) || echo "WARNING: make failed in $wt"
mkdir -p /tmp/seed-$id-out
echo $wt ready
