#include <stdio.h>
#include <string.h>
#include "libzvbi.h"
static int fr;
static void h(vbi_event *ev, void *u){ (void)u; if (ev->type==VBI_EVENT_NETWORK) printf("frame %d: NETWORK nuid=%u name='%s'\n", fr, ev->ev.network.nuid, ev->ev.network.name); }
static void vps(vbi_sliced *s, unsigned cni){ memset(s,0,sizeof *s); s->id=VBI_SLICED_VPS; s->line=16; s->data[10]=(cni>>10)&3; s->data[11]=((cni>>2)&0xC0)|(cni&0x3F); s->data[8]=cni&0xC0; }
int main(void){ vbi_decoder *v=vbi_decoder_new(); vbi_sliced s; double t=1000; int i;
 vbi_event_handler_register(v, VBI_EVENT_NETWORK, h, NULL);
 for(i=0;i<10;i++){fr++; vps(&s,0xAC1); t+=0.04; vbi_decode(v,&s,1,t);}
 vbi_channel_switched(v,0);
 fr++; t+=0.04; vbi_decode(v,NULL,0,t);
 fr++; vps(&s,0xAC2); t+=1.0; vbi_decode(v,&s,1,t);
 for(i=0;i<60;i++){fr++; vps(&s,0xAC2); t+=0.04; vbi_decode(v,&s,1,t);}
 vbi_decoder_delete(v); return 0; }
