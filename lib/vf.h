/* Common harness runtime for the zvbi runtime-monitoring checks.
 *
 * A harness implements   int run_case(struct vf_rng *rng, long idx)
 * and calls vf_main().  Every case is a pure function of (--seed, idx, --tier,
 * --mode), so a replay is "--start idx --cases 1" with the same arguments.
 *
 * Reporting (all go to the JSON-lines file given with --out):
 *   vf_fail(key, fmt, ...)    a violation of the property observed in this case;
 *                             key is stable (no line numbers), detail is free text
 *   vf_sig(fmt, ...)          coverage signature of a NON-trivial case; distinct
 *                             signatures are what evidence counts
 *   vf_count(name, n)         free-form event counters (summed by the driver)
 *   vf_sample(fmt, ...)       human-readable description of the case (the driver
 *                             keeps a few for evidence, and all of violating cases)
 *   vf_phase(api)             name of the API about to be called; used to key
 *                             hangs, crashes and guard-page faults
 */
#ifndef VF_H
#define VF_H

#include <stdint.h>
#include <stddef.h>
#include <stdio.h>

#ifdef __cplusplus
extern "C" {
#endif

struct vf_rng { uint64_t s[4]; };

extern int vf_tier;            /* 0 quick, 1 thorough */
extern int vf_verbose;         /* -v: replay mode, print details to stdout */
extern const char *vf_mode;    /* --mode string, "" if none */
extern uint64_t vf_seed;
extern long vf_case;           /* index of the running case */
extern long vf_param[8];       /* --p0..--p7 integer parameters */

void     vf_rng_seed(struct vf_rng *r, uint64_t seed, uint64_t stream);
uint64_t vf_u64(struct vf_rng *r);
uint32_t vf_u32(struct vf_rng *r);
unsigned vf_below(struct vf_rng *r, unsigned n);        /* [0,n) ; n>0 */
int      vf_range(struct vf_rng *r, int lo, int hi);    /* [lo,hi] */
int      vf_chance(struct vf_rng *r, unsigned num, unsigned den);
double   vf_unit(struct vf_rng *r);                     /* [0,1) */
void     vf_bytes(struct vf_rng *r, void *buf, size_t n);

void vf_fail(const char *key, const char *fmt, ...) __attribute__((format(printf, 2, 3)));
void vf_sig(const char *fmt, ...) __attribute__((format(printf, 1, 2)));
void vf_count(const char *name, long n);
void vf_sample(const char *fmt, ...) __attribute__((format(printf, 1, 2)));
void vf_phase(const char *api);
void vf_budget(int cpu_seconds);       /* per-case CPU watchdog (default 20 s) */
int  vf_failed(void);                  /* violations recorded in this case so far */
void vf_log(const char *fmt, ...) __attribute__((format(printf, 1, 2))); /* only with -v */

/* hex dump helper for details: returns static buffer (rotating, 4 slots) */
const char *vf_hex(const void *p, size_t n);

/* Guard-page allocator: the block of `size` bytes ends (end_aligned=1) or
 * starts (end_aligned=0) flush against a PROT_NONE page.  A fault on a guard
 * page is reported as violation "guard:<phase>" and ends the process (exit 96).
 * With end alignment the start is only as aligned as `size` allows. */
void *vf_guard_alloc(size_t size, int end_aligned);
void  vf_guard_free(void *p);

/* Heap accounting, available when the harness is linked with lib/vf_heap.c
 * (plain flavour only).  Counts blocks/bytes currently allocated through
 * malloc/calloc/realloc/memalign by anybody in the process. */
long vf_heap_live_blocks(void);
long vf_heap_live_bytes(void);
int  vf_heap_available(void);
/* Fault injection: the n-th allocation from now fails (0 = off). */
void vf_heap_fail_after(long n);

/* LeakSanitizer check now (ASan flavour; 0 elsewhere).  The report goes to
 * stderr under the current case marker, where the driver picks it up. */
int vf_leak_check(void);

typedef int (*vf_case_fn)(struct vf_rng *rng, long idx);
int vf_main(int argc, char **argv, vf_case_fn run_case, void (*selftest)(void));

#ifdef __cplusplus
}
#endif
#endif
