/* See vf.h */
#include "vf.h"

#include <stdarg.h>
#include <stdlib.h>
#include <string.h>
#include <signal.h>
#include <unistd.h>
#include <fcntl.h>
#include <errno.h>
#include <sys/mman.h>
#include <sys/time.h>
#include <sys/stat.h>

int vf_tier = 0;
int vf_verbose = 0;
const char *vf_mode = "";
uint64_t vf_seed = 1;
long vf_case = -1;
long vf_param[8];

static FILE *out_fp;
static int case_fail_count;
static int cpu_budget = 20;
static long cases_done, cases_trivial;

/* status page shared with the driver */
struct status_page {
	volatile long idx;
	volatile long done;
	char phase[200];
};
static struct status_page status_dummy;
static struct status_page *status = &status_dummy;

/* ---------------- PRNG: xoshiro256** seeded by splitmix64 ---------------- */

static uint64_t splitmix(uint64_t *x)
{
	uint64_t z = (*x += 0x9E3779B97F4A7C15ull);
	z = (z ^ (z >> 30)) * 0xBF58476D1CE4E5B9ull;
	z = (z ^ (z >> 27)) * 0x94D049BB133111EBull;
	return z ^ (z >> 31);
}

void vf_rng_seed(struct vf_rng *r, uint64_t seed, uint64_t stream)
{
	uint64_t x = seed * 0x2545F4914F6CDD1Dull + stream * 0xD1342543DE82EF95ull + 0x1234567;
	int i;
	for (i = 0; i < 4; i++)
		r->s[i] = splitmix(&x);
}

static inline uint64_t rotl(uint64_t x, int k) { return (x << k) | (x >> (64 - k)); }

uint64_t vf_u64(struct vf_rng *r)
{
	uint64_t *s = r->s;
	uint64_t result = rotl(s[1] * 5, 7) * 9;
	uint64_t t = s[1] << 17;
	s[2] ^= s[0]; s[3] ^= s[1]; s[1] ^= s[2]; s[0] ^= s[3];
	s[2] ^= t; s[3] = rotl(s[3], 45);
	return result;
}
uint32_t vf_u32(struct vf_rng *r) { return (uint32_t)(vf_u64(r) >> 32); }
unsigned vf_below(struct vf_rng *r, unsigned n)
{
	if (n <= 1) return 0;
	return (unsigned)(((uint64_t)vf_u32(r) * n) >> 32);
}
int vf_range(struct vf_rng *r, int lo, int hi)
{
	if (hi <= lo) return lo;
	return lo + (int)vf_below(r, (unsigned)(hi - lo) + 1u);
}
int vf_chance(struct vf_rng *r, unsigned num, unsigned den) { return vf_below(r, den) < num; }
double vf_unit(struct vf_rng *r) { return (double)(vf_u64(r) >> 11) / 9007199254740992.0; }
void vf_bytes(struct vf_rng *r, void *buf, size_t n)
{
	uint8_t *p = buf;
	while (n >= 8) { uint64_t v = vf_u64(r); memcpy(p, &v, 8); p += 8; n -= 8; }
	if (n) { uint64_t v = vf_u64(r); memcpy(p, &v, n); }
}

/* ---------------- JSON output ---------------- */

static void json_str(FILE *fp, const char *s)
{
	fputc('"', fp);
	for (; *s; s++) {
		unsigned char c = (unsigned char)*s;
		if (c == '"' || c == '\\') { fputc('\\', fp); fputc(c, fp); }
		else if (c == '\n') fputs("\\n", fp);
		else if (c == '\t') fputs("\\t", fp);
		else if (c < 0x20 || c >= 0x7f) fprintf(fp, "\\u%04x", c);
		else fputc(c, fp);
	}
	fputc('"', fp);
}

/* ---------------- signatures (dedupe inside the worker) ---------------- */

#define SIG_SLOTS (1u << 16)
static char *sig_tab[SIG_SLOTS];
static unsigned sig_n;

static uint64_t fnv(const char *s)
{
	uint64_t h = 1469598103934665603ull;
	for (; *s; s++) { h ^= (unsigned char)*s; h *= 1099511628211ull; }
	return h;
}

void vf_sig(const char *fmt, ...)
{
	char buf[512];
	va_list ap;
	unsigned i;
	va_start(ap, fmt);
	vsnprintf(buf, sizeof buf, fmt, ap);
	va_end(ap);
	if (sig_n >= SIG_SLOTS / 2)
		return; /* table full: further signatures are not counted (conservative) */
	i = (unsigned)(fnv(buf) & (SIG_SLOTS - 1));
	while (sig_tab[i]) {
		if (0 == strcmp(sig_tab[i], buf))
			return;
		i = (i + 1) & (SIG_SLOTS - 1);
	}
	sig_tab[i] = strdup(buf);
	sig_n++;
	if (out_fp) {
		fputs("{\"t\":\"sig\",\"s\":", out_fp);
		json_str(out_fp, buf);
		fputs("}\n", out_fp);
	}
	if (vf_verbose)
		printf("  sig: %s\n", buf);
}

/* ---------------- counters ---------------- */

#define MAX_COUNTERS 256
static struct { const char *name; long n; } counters[MAX_COUNTERS];
static int n_counters;

void vf_count(const char *name, long n)
{
	int i;
	for (i = 0; i < n_counters; i++)
		if (counters[i].name == name || 0 == strcmp(counters[i].name, name)) {
			counters[i].n += n;
			return;
		}
	if (n_counters < MAX_COUNTERS) {
		counters[n_counters].name = strdup(name);
		counters[n_counters].n = n;
		n_counters++;
	}
}

static void flush_counters(void)
{
	int i;
	if (!out_fp) return;
	fprintf(out_fp, "{\"t\":\"cnt\",\"cases\":%ld,\"trivial\":%ld,\"k\":{", cases_done, cases_trivial);
	for (i = 0; i < n_counters; i++) {
		if (i) fputc(',', out_fp);
		json_str(out_fp, counters[i].name);
		fprintf(out_fp, ":%ld", counters[i].n);
		counters[i].n = 0;
	}
	fputs("}}\n", out_fp);
	fflush(out_fp);
	cases_done = 0;
	cases_trivial = 0;
}

/* ---------------- violations, samples ---------------- */

static char sample_buf[2048];
static int sample_set;
static long samples_emitted;

void vf_sample(const char *fmt, ...)
{
	va_list ap;
	va_start(ap, fmt);
	vsnprintf(sample_buf, sizeof sample_buf, fmt, ap);
	va_end(ap);
	sample_set = 1;
	if (vf_verbose)
		printf("  sample: %s\n", sample_buf);
}

void vf_fail(const char *key, const char *fmt, ...)
{
	char buf[4096];
	va_list ap;
	va_start(ap, fmt);
	vsnprintf(buf, sizeof buf, fmt, ap);
	va_end(ap);
	case_fail_count++;
	if (out_fp) {
		fprintf(out_fp, "{\"t\":\"viol\",\"i\":%ld,\"key\":", vf_case);
		json_str(out_fp, key);
		fputs(",\"detail\":", out_fp);
		json_str(out_fp, buf);
		if (sample_set) {
			fputs(",\"sample\":", out_fp);
			json_str(out_fp, sample_buf);
		}
		fputs("}\n", out_fp);
		fflush(out_fp);
	}
	if (vf_verbose || !out_fp)
		printf("VIOL case=%ld key=%s detail=%s\n", vf_case, key, buf);
}

int vf_failed(void) { return case_fail_count; }

void vf_log(const char *fmt, ...)
{
	va_list ap;
	if (!vf_verbose) return;
	va_start(ap, fmt);
	vprintf(fmt, ap);
	va_end(ap);
}

const char *vf_hex(const void *p, size_t n)
{
	static char bufs[4][1024];
	static int slot;
	char *b = bufs[slot = (slot + 1) & 3];
	const uint8_t *q = p;
	size_t i, o = 0;
	for (i = 0; i < n && o + 3 < sizeof bufs[0]; i++)
		o += (size_t)sprintf(b + o, "%02x", q[i]);
	b[o] = 0;
	return b;
}

void vf_phase(const char *api)
{
	strncpy(status->phase, api, sizeof status->phase - 1);
}

void vf_budget(int cpu_seconds) { cpu_budget = cpu_seconds; }

/* ---------------- watchdogs ---------------- */

static void die_with(const char *kind, int code)
{
	/* async-signal-safe: raw write of one JSON line */
	char buf[512];
	int n, fd = out_fp ? fileno(out_fp) : 1;
	char ph[200];
	size_t i;
	for (i = 0; i < sizeof ph - 1 && status->phase[i]; i++) {
		char c = status->phase[i];
		ph[i] = (c == '"' || c == '\\' || (unsigned char)c < 0x20) ? '_' : c;
	}
	ph[i] = 0;
	n = snprintf(buf, sizeof buf, "\n{\"t\":\"viol\",\"i\":%ld,\"key\":\"%s:%s\",\"detail\":\"%s in phase %s\",\"fatal\":1}\n",
		     vf_case, kind, ph, kind, ph);
	if (n > 0) { ssize_t w = write(fd, buf, (size_t)n); (void)w; }
	_exit(code);
}

static void on_vtalrm(int sig) { (void)sig; die_with("hang", 97); }
static void on_alrm(int sig) { (void)sig; die_with("stall", 98); }

static void arm(int cpu_s)
{
	struct itimerval it;
	memset(&it, 0, sizeof it);
	it.it_value.tv_sec = cpu_s;
	setitimer(ITIMER_VIRTUAL, &it, NULL);
	it.it_value.tv_sec = cpu_s * 15 + 30;
	setitimer(ITIMER_REAL, &it, NULL);
}

/* ---------------- guard pages ---------------- */

#define MAX_GUARDS 4096
static struct guard { char *map; size_t maplen; char *user; size_t size; char *guard_lo, *guard_hi; } guards[MAX_GUARDS];
static long pagesz;

void *vf_guard_alloc(size_t size, int end_aligned)
{
	size_t body;
	char *map;
	int i;
	if (!pagesz) pagesz = sysconf(_SC_PAGESIZE);
	body = (size + (size_t)pagesz - 1) / (size_t)pagesz * (size_t)pagesz;
	if (body == 0) body = (size_t)pagesz;
	map = mmap(NULL, body + 2 * (size_t)pagesz, PROT_READ | PROT_WRITE, MAP_PRIVATE | MAP_ANONYMOUS, -1, 0);
	if (map == MAP_FAILED) { perror("mmap"); exit(2); }
	memset(map, 0xA5, body + 2 * (size_t)pagesz);
	mprotect(map, (size_t)pagesz, PROT_NONE);
	mprotect(map + pagesz + body, (size_t)pagesz, PROT_NONE);
	for (i = 0; i < MAX_GUARDS; i++)
		if (!guards[i].map) break;
	if (i == MAX_GUARDS) { fprintf(stderr, "vf_guard_alloc: table full\n"); exit(2); }
	guards[i].map = map;
	guards[i].maplen = body + 2 * (size_t)pagesz;
	guards[i].size = size;
	guards[i].guard_lo = map;
	guards[i].guard_hi = map + pagesz + body;
	guards[i].user = end_aligned ? map + pagesz + body - size : map + pagesz;
	return guards[i].user;
}

void vf_guard_free(void *p)
{
	int i;
	if (!p) return;
	for (i = 0; i < MAX_GUARDS; i++)
		if (guards[i].map && guards[i].user == (char *)p) {
			munmap(guards[i].map, guards[i].maplen);
			guards[i].map = NULL;
			return;
		}
	fprintf(stderr, "vf_guard_free: unknown block\n");
	exit(2);
}

static void on_segv(int sig, siginfo_t *si, void *uc)
{
	char *a = (char *)si->si_addr;
	int i;
	(void)uc;
	for (i = 0; i < MAX_GUARDS; i++) {
		struct guard *g = &guards[i];
		if (!g->map) continue;
		if ((a >= g->guard_lo && a < g->guard_lo + pagesz) || (a >= g->guard_hi && a < g->guard_hi + pagesz)) {
			char buf[600];
			int n, fd = out_fp ? fileno(out_fp) : 1;
			long off = (long)(a - g->user);
			n = snprintf(buf, sizeof buf,
				"\n{\"t\":\"viol\",\"i\":%ld,\"key\":\"guard:%s\",\"detail\":\"access at offset %ld of a %zu-byte block (%s) in phase %s\",\"fatal\":1}\n",
				vf_case, status->phase, off, g->size, off < 0 ? "under-run" : "over-run", status->phase);
			if (n > 0) { ssize_t w = write(fd, buf, (size_t)n); (void)w; }
			_exit(96);
		}
	}
	/* not ours: default action so the driver sees the signal */
	signal(sig, SIG_DFL);
	raise(sig);
}

/* ---------------- optional heap accounting (weak defaults) ---------------- */

__attribute__((weak)) long vf_heap_live_blocks(void) { return -1; }
__attribute__((weak)) long vf_heap_live_bytes(void) { return -1; }
__attribute__((weak)) int  vf_heap_available(void) { return 0; }
__attribute__((weak)) void vf_heap_fail_after(long n) { (void)n; }

/* ---------------- main ---------------- */

static void usage(void)
{
	fprintf(stderr, "usage: harness --seed S --start I --cases N [--tier quick|thorough] [--mode M]\n"
			"               [--out file.jsonl] [--status file] [--budget cpu_s] [--pK n] [-v] [--selftest]\n");
	exit(2);
}

int vf_main(int argc, char **argv, vf_case_fn run_case, void (*selftest)(void))
{
	long start = 0, ncases = 1, i;
	const char *outp = NULL, *statusp = NULL;
	int do_selftest = 0, a;
	int use_guard_handler = 1;

	for (a = 1; a < argc; a++) {
		const char *o = argv[a];
		const char *v = a + 1 < argc ? argv[a + 1] : NULL;
		if (!strcmp(o, "-v")) vf_verbose = 1;
		else if (!strcmp(o, "--selftest")) do_selftest = 1;
		else if (!v) usage();
		else if (!strcmp(o, "--seed")) { vf_seed = strtoull(v, NULL, 0); a++; }
		else if (!strcmp(o, "--start")) { start = strtol(v, NULL, 0); a++; }
		else if (!strcmp(o, "--cases")) { ncases = strtol(v, NULL, 0); a++; }
		else if (!strcmp(o, "--tier")) { vf_tier = !strcmp(v, "thorough"); a++; }
		else if (!strcmp(o, "--mode")) { vf_mode = v; a++; }
		else if (!strcmp(o, "--out")) { outp = v; a++; }
		else if (!strcmp(o, "--status")) { statusp = v; a++; }
		else if (!strcmp(o, "--budget")) { cpu_budget = atoi(v); a++; }
		else if (!strncmp(o, "--p", 3) && o[3] >= '0' && o[3] <= '7' && !o[4]) { vf_param[o[3] - '0'] = strtol(v, NULL, 0); a++; }
		else usage();
	}
	if (outp) {
		out_fp = fopen(outp, "a");
		if (!out_fp) { perror(outp); return 2; }
	}
	if (statusp) {
		int fd = open(statusp, O_RDWR | O_CREAT, 0644);
		void *m;
		if (fd < 0 || ftruncate(fd, 4096) < 0) { perror(statusp); return 2; }
		m = mmap(NULL, 4096, PROT_READ | PROT_WRITE, MAP_SHARED, fd, 0);
		if (m == MAP_FAILED) { perror("mmap status"); return 2; }
		status = m;
		close(fd);
	}
	if (!pagesz) pagesz = sysconf(_SC_PAGESIZE);
	if (use_guard_handler) {
		struct sigaction sa;
		static char altstack[65536];
		stack_t ss;
		ss.ss_sp = altstack; ss.ss_size = sizeof altstack; ss.ss_flags = 0;
		sigaltstack(&ss, NULL);
		memset(&sa, 0, sizeof sa);
		sa.sa_sigaction = on_segv;
		sa.sa_flags = SA_SIGINFO | SA_ONSTACK | SA_RESETHAND;
#if !defined(__SANITIZE_ADDRESS__) && !defined(__SANITIZE_THREAD__)
		sigaction(SIGSEGV, &sa, NULL);
		sigaction(SIGBUS, &sa, NULL);
#else
		(void)sa;
#endif
	}
	signal(SIGVTALRM, on_vtalrm);
	signal(SIGALRM, on_alrm);

	if (selftest) {
		vf_case = -1;
		vf_phase("selftest");
		status->idx = -1;
		arm(120);
		selftest();
		if (case_fail_count) {
			fprintf(stderr, "harness self-test failed\n");
			if (out_fp) fclose(out_fp);
			return 3;
		}
	}
	if (do_selftest) {
		printf("selftest ok\n");
		return 0;
	}

	for (i = start; i < start + ncases; i++) {
		struct vf_rng rng;
		char mark[48];
		int n, r;
		vf_case = i;
		status->idx = i;
		vf_phase("case");
		case_fail_count = 0;
		sample_set = 0;
		n = snprintf(mark, sizeof mark, "@case %ld\n", i);
		{ ssize_t w = write(2, mark, (size_t)n); (void)w; }
		vf_rng_seed(&rng, vf_seed, (uint64_t)i);
		arm(cpu_budget);
		r = run_case(&rng, i);
		cases_done++;
		status->done = i + 1;
		if (r == 0) cases_trivial++; /* convention: return 0 = trivial, 1 = non-trivial */
		if (sample_set && out_fp && (samples_emitted < 3) && !case_fail_count) {
			fprintf(out_fp, "{\"t\":\"sample\",\"i\":%ld,\"s\":", i);
			json_str(out_fp, sample_buf);
			fputs("}\n", out_fp);
			samples_emitted++;
		}
		if ((cases_done & 63) == 0)
			flush_counters();
	}
	{ struct itimerval it; memset(&it, 0, sizeof it); setitimer(ITIMER_VIRTUAL, &it, NULL); setitimer(ITIMER_REAL, &it, NULL); }
	flush_counters();
	if (out_fp) {
		fprintf(out_fp, "{\"t\":\"done\",\"next\":%ld}\n", start + ncases);
		fclose(out_fp);
	}
	return 0;
}

/* ---------------- leak check at a quiescent point (ASan flavour) ---------------- */
extern int __lsan_do_recoverable_leak_check(void) __attribute__((weak));
int vf_leak_check(void)
{
	if (__lsan_do_recoverable_leak_check)
		return __lsan_do_recoverable_leak_check();
	return 0;
}
