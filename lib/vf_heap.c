/* Heap accounting by interposition (plain flavour only; never link this into
 * a sanitizer build).  The executable's own malloc family overrides libc's for
 * every caller in the process, and forwards to glibc's __libc_* entry points.
 * Counters are atomic, so threads are fine. */
#include "vf.h"
#include <stdlib.h>
#include <string.h>
#include <errno.h>
#include <malloc.h>

extern void *__libc_malloc(size_t);
extern void *__libc_calloc(size_t, size_t);
extern void *__libc_realloc(void *, size_t);
extern void *__libc_memalign(size_t, size_t);
extern void  __libc_free(void *);

static long live_blocks, live_bytes;
static long fail_countdown; /* 0 = off */

static int should_fail(void)
{
	if (fail_countdown > 0) {
		if (__atomic_sub_fetch(&fail_countdown, 1, __ATOMIC_SEQ_CST) == 0)
			return 1;
	}
	return 0;
}

static void *account(void *p)
{
	if (p) {
		__atomic_add_fetch(&live_blocks, 1, __ATOMIC_RELAXED);
		__atomic_add_fetch(&live_bytes, (long)malloc_usable_size(p), __ATOMIC_RELAXED);
	}
	return p;
}

static void unaccount(void *p)
{
	if (p) {
		__atomic_sub_fetch(&live_blocks, 1, __ATOMIC_RELAXED);
		__atomic_sub_fetch(&live_bytes, (long)malloc_usable_size(p), __ATOMIC_RELAXED);
	}
}

void *malloc(size_t n)
{
	if (should_fail()) { errno = ENOMEM; return NULL; }
	return account(__libc_malloc(n));
}

void *calloc(size_t a, size_t b)
{
	if (should_fail()) { errno = ENOMEM; return NULL; }
	return account(__libc_calloc(a, b));
}

void *realloc(void *p, size_t n)
{
	void *q;
	if (should_fail()) { errno = ENOMEM; return NULL; }
	if (p) {
		long old = (long)malloc_usable_size(p);
		q = __libc_realloc(p, n);
		if (q || n == 0) {
			__atomic_sub_fetch(&live_blocks, 1, __ATOMIC_RELAXED);
			__atomic_sub_fetch(&live_bytes, old, __ATOMIC_RELAXED);
			account(q);
		}
		return q;
	}
	return account(__libc_realloc(NULL, n));
}

void *memalign(size_t al, size_t n) { return account(__libc_memalign(al, n)); }
void *aligned_alloc(size_t al, size_t n) { return account(__libc_memalign(al, n)); }
int posix_memalign(void **out, size_t al, size_t n)
{
	void *p = __libc_memalign(al, n);
	if (!p) return ENOMEM;
	*out = account(p);
	return 0;
}

void free(void *p)
{
	unaccount(p);
	__libc_free(p);
}

long vf_heap_live_blocks(void) { return __atomic_load_n(&live_blocks, __ATOMIC_RELAXED); }
long vf_heap_live_bytes(void) { return __atomic_load_n(&live_bytes, __ATOMIC_RELAXED); }
int  vf_heap_available(void) { return 1; }
void vf_heap_fail_after(long n) { __atomic_store_n(&fail_countdown, n, __ATOMIC_SEQ_CST); }
