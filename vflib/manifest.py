"""Regenerates /verif/MANIFEST.json from the check specs (checks/cNN.py) and
checks/not_applicable.json.  Run: ./check --manifest"""
import importlib, json, os, subprocess

VERIF = os.path.dirname(os.path.dirname(os.path.abspath(__file__)))


def hook_commits():
    try:
        out = subprocess.run(["git", "-C", "/repo", "log", "--format=%H %s"], capture_output=True, text=True).stdout
    except Exception:
        return []
    return [ln.split()[0] for ln in out.splitlines() if " hook:" in ln or ln.split(" ", 1)[1].startswith("hook")]


def write():
    checks = []
    engines = {}
    claimed = set()
    regp = os.path.join(VERIF, "checks", "registered.json")
    registered = set(json.load(open(regp))) if os.path.exists(regp) else None
    for f in sorted(os.listdir(os.path.join(VERIF, "checks"))):
        if not (f.startswith("c") and f.endswith(".py") and f[1:-3].isdigit()):
            continue
        spec = importlib.import_module("checks." + f[:-3]).SPEC
        if spec.get("disabled"):
            continue
        pid = spec["id"]
        if registered is not None and pid not in registered:
            continue
        claimed.add(pid)
        c = {
            "property_id": pid,
            "quick_cmd": "./check %s --tier quick" % pid,
            "thorough_cmd": "./check %s --tier thorough" % pid,
            "evidence_file": "/verif/evidence/%s.json" % pid,
            "replay_cmd_template": "./check %s --replay {path}" % pid,
            "engine": spec.get("engine", "harness"),
            "level_claimed": {
                "category": spec.get("level", "exploration"),
                "text": spec["level_text"],
                "design_ref": spec.get("design_ref", "DESIGN.md section 3, " + pid),
            },
            "level_note": spec["level_note"],
            "technique": spec.get("technique", "runtime monitoring: sanitizers + reference-model oracle over generated workloads"),
        }
        checks.append(c)
        e = engines.setdefault(c["engine"], {"name": c["engine"], "path": spec.get("engine_path", "/verif/check"),
                                             "serves_properties": [], "kind_free_text": spec.get("engine_kind", "")})
        e["serves_properties"].append(pid)
    na = []
    nap = os.path.join(VERIF, "checks", "not_applicable.json")
    if os.path.exists(nap):
        na = [x for x in json.load(open(nap)) if x["property_id"] not in claimed]
    all_ids = [json.loads(l)["id"] for l in open(os.path.join(VERIF, "properties.jsonl"))]
    for pid in all_ids:
        if pid not in claimed and pid not in [x["property_id"] for x in na]:
            na.append({"property_id": pid, "reason": "check not yet built in this tree (work in progress); see DESIGN.md section 3"})
    man = {
        "version": 1,
        "setup_cmd": "python3 build.py asan plain tsan",
        "hooks": {
            "guard": "ZVBI_VERIF",
            "enable": "checks compile /repo/src/*.c and /repo/daemon/proxyd.c directly with -DZVBI_VERIF=1 (build.py); the autotools build never defines it",
            "baseline_off_cmd": "cd /repo && make -j8 >/dev/null && make check",
            "source_commits": hook_commits(),
            "add_only": True,
        },
        "engines": list(engines.values()),
        "checks": checks,
        "notes": "Runtime monitoring only: real code under generated/hostile workloads with sanitizers, guard pages, watchdogs and reference-model / relational / invariant monitors. See DESIGN.md. known-findings.json lists genuine defects (open) and repaired ones (fixed).",
        "not_applicable": na,
    }
    with open(os.path.join(VERIF, "MANIFEST.json"), "w") as f:
        json.dump(man, f, indent=1)
    print("MANIFEST.json: %d checks, %d not_applicable" % (len(checks), len(na)))
