"""Driver side of the runtime-monitoring checks: fan-out of harness workers,
sanitizer-log parsing, violation keys, known-finding matching, replay files,
evidence.  See DESIGN.md sections 1.2 - 1.7."""
import fnmatch, json, os, re, shutil, signal, subprocess, sys, tempfile, time

VERIF = os.path.dirname(os.path.dirname(os.path.abspath(__file__)))
sys.path.insert(0, VERIF)
import build  # noqa: E402

KNOWN = os.path.join(VERIF, "known-findings.json")
IDIOMS = os.path.join(VERIF, "support", "ubsan-idioms.txt")
NCPU = int(os.environ.get("VERIF_JOBS", "16"))

ASAN_OPTS = ("abort_on_error=1:detect_leaks=1:allocator_may_return_null=1:"
             "handle_abort=0:detect_stack_use_after_return=0:malloc_context_size=12")
UBSAN_OPTS = "print_stacktrace=1:halt_on_error=0"
LSAN_OPTS = "report_objects=0:max_leaks=8"


def log(msg):
    sys.stdout.write(msg + "\n")
    sys.stdout.flush()


class Violation:
    def __init__(self, key, detail, job=None, case=None, sample=None, stderr=None, extra=None):
        self.key, self.detail, self.job, self.case = key, detail, job, case
        self.sample, self.stderr, self.extra = sample, stderr, extra or {}


class Result:
    """Accumulates what the monitors observed during one run of one check."""

    def __init__(self, pid, tier, seed):
        self.pid, self.tier, self.seed = pid, tier, seed
        self.t0 = time.time()
        self.cases = 0
        self.trivial = 0
        self.sigs = set()
        self.counters = {}
        self.samples = []
        self.violations = []
        self.inconclusive = []
        self.harness_errors = []
        self.exhaustive = None
        self.extra = {}

    def count(self, name, n=1):
        self.counters[name] = self.counters.get(name, 0) + n

    def sample(self, obj):
        if len(self.samples) < 8:
            self.samples.append(obj)

    def violation(self, key, detail, **kw):
        self.violations.append(Violation(key, detail, **kw))


# ----------------------------------------------------------------------------
# sanitizer / crash log parsing

_FRAME = re.compile(r"^\s*#(\d+) 0x[0-9a-f]+ (?:in )?(\S+)(?: (\S+))?")
_UB_KIND = [
    ("signed integer overflow", "signed-integer-overflow"),
    ("shift exponent", "shift-exponent"),
    ("division by zero", "integer-divide-by-zero"),
    ("null pointer", "null"),
    ("member access within null", "null"),
    ("pointer index expression", "pointer-overflow"),
    ("applying non-zero offset", "pointer-overflow"),
    ("applying zero offset to null", "null"),
    ("is outside the range of representable values", "float-cast-overflow"),
    ("not a valid value for type", "enum-or-bool"),
    ("out of bounds for type", "bounds"),
    ("object-size", "object-size"),
    ("insufficient space", "object-size"),
    ("negation of", "signed-integer-overflow"),
    ("unreachable", "unreachable"),
    ("variable length array", "vla-bound"),
    ("left shift of", "shift-base"),
]


def _repo_frame(frames, repo):
    """innermost frame whose file lies in the tree under test, else innermost
    frame that is not a sanitizer/libc interceptor."""
    for fn, loc in frames:
        if loc and (repo + "/" in loc or "/repo/" in loc) and "/verif/" not in loc:
            return fn
    for fn, loc in frames:
        if loc and "/verif/" in loc:
            return "harness:" + fn
    for fn, loc in frames:
        if not fn.startswith("__") and fn not in ("malloc", "calloc", "realloc", "free", "strdup"):
            return fn
    return frames[0][0] if frames else "?"


def _frames_after(lines, i, limit=40):
    frames = []
    j = i
    while j < len(lines) and j < i + limit:
        m = _FRAME.match(lines[j])
        if m:
            frames.append((m.group(2), m.group(3) or ""))
        elif frames:
            break
        j += 1
    return frames


def load_idioms():
    idioms = []
    if os.path.exists(IDIOMS):
        for ln in open(IDIOMS):
            ln = ln.split("#")[0].strip()
            if not ln:
                continue
            parts = ln.split(None, 1)
            if len(parts) == 2:
                idioms.append((parts[0], parts[1].strip()))
    return idioms


def parse_sanitizer_text(text, repo, res=None, idioms=None):
    """Returns list of (key, detail) found in a chunk of stderr."""
    out = []
    idioms = idioms if idioms is not None else load_idioms()
    lines = text.split("\n")
    i = 0
    while i < len(lines):
        ln = lines[i]
        m = re.search(r"ERROR: AddressSanitizer: (\S+)", ln)
        if m:
            kind = m.group(1)
            if kind == "SEGV":
                kind = "SEGV"
            frames = _frames_after(lines, i + 1)
            fn = _repo_frame(frames, repo)
            out.append(("asan:%s:%s" % (kind, fn), ln.strip()[:300] + " | " + " < ".join(f[0] for f in frames[:6])))
            i += 1
            continue
        if "ERROR: LeakSanitizer: detected memory leaks" in ln:
            # each "Direct leak" block
            j = i + 1
            found = False
            while j < len(lines) and "SUMMARY:" not in lines[j]:
                if lines[j].startswith("Direct leak of") or lines[j].startswith("Indirect leak of"):
                    frames = _frames_after(lines, j + 1)
                    fn = _repo_frame(frames, repo)
                    if lines[j].startswith("Direct"):
                        out.append(("leak:%s" % fn, lines[j].strip() + " | " + " < ".join(f[0] for f in frames[:8])))
                        found = True
                j += 1
            if not found:
                out.append(("leak:?", "LeakSanitizer report without direct leak block"))
            i = j
            continue
        m = re.search(r"^(\S+?):(\d+):(\d+): runtime error: (.*)$", ln)
        if m:
            msg = m.group(4)
            kind = "other"
            for pat, k in _UB_KIND:
                if pat in msg:
                    kind = k
                    break
            frames = _frames_after(lines, i + 1)
            fn = _repo_frame(frames, repo) if frames else os.path.basename(m.group(1))
            if kind == "bounds":
                tm = re.search(r"for type '([^']+)'", msg)
                ty = tm.group(1) if tm else "?"
                key = "ubsan:bounds:%s:%s" % (fn, ty.replace(" ", ""))
                allowed = any(fnmatch.fnmatch(fn, f) and t.replace(" ", "") == ty.replace(" ", "") for f, t in idioms)
                if allowed:
                    if res is not None:
                        res.count("ubsan_bounds_idiom_reports")
                    i += 1
                    continue
                out.append((key, "%s:%s: %s" % (os.path.basename(m.group(1)), m.group(2), msg)))
            else:
                out.append(("ubsan:%s:%s" % (kind, fn), "%s:%s: %s" % (os.path.basename(m.group(1)), m.group(2), msg)))
            i += 1
            continue
        m = re.search(r"^\S+: (\S+?):(\d+): (\S+): Assertion `(.*)' failed", ln)
        if m:
            expr = re.sub(r"[^A-Za-z0-9_<>=!&|+\-*/.\[\]() ]", "", m.group(4))[:60]
            out.append(("abort:%s:%s" % (m.group(3), expr.replace(" ", "")), ln.strip()[:300]))
            i += 1
            continue
        i += 1
    # dedupe within the chunk, keep order
    seen, ded = set(), []
    for k, d in out:
        if k not in seen:
            seen.add(k)
            ded.append((k, d))
    return ded


_VG_KIND = [
    ("Conditional jump or move depends on uninitialised value", "uninitialised-condition"),
    ("Use of uninitialised value", "uninitialised-use"),
    ("Syscall param", "uninitialised-syscall-param"),
    ("Invalid read of size", "invalid-read"),
    ("Invalid write of size", "invalid-write"),
    ("Invalid free", "invalid-free"),
    ("Mismatched free", "mismatched-free"),
    ("Source and destination overlap", "overlap"),
    ("Argument", "fishy-argument"),
    ("Process terminating with default action of signal", None),
]
_VG_FRAME = re.compile(r"^==\d+==\s+(?:at|by) 0x[0-9A-Fa-f]+: (\S+) \(([^)]*)\)")


def parse_valgrind_text(text, repo):
    """memcheck reports in a chunk of stderr -> list of (key, detail); key = memcheck:<kind>:<innermost frame in the tree>"""
    out, seen = [], set()
    lines = text.split("\n")
    i = 0
    while i < len(lines):
        m = re.match(r"^==\d+== (\S.*)$", lines[i])
        kind = None
        if m:
            for pat, k in _VG_KIND:
                if m.group(1).startswith(pat):
                    kind = k
                    break
        if not kind:
            i += 1
            continue
        frames = []
        j = i + 1
        while j < len(lines):
            fm = _VG_FRAME.match(lines[j])
            if not fm:
                break
            frames.append((fm.group(1), fm.group(2)))
            j += 1
        fn = None
        srcs = set(os.path.basename(x) for x in os.listdir(os.path.join(repo, "src"))) if os.path.isdir(os.path.join(repo, "src")) else set()
        for f, loc in frames:
            base = loc.split(":")[0]
            if base in srcs or base == "proxyd.c":
                fn = f
                break
        if fn is None:
            # no frame of the tree under test: a harness frame makes it the harness' problem, anything else
            # (dynamic loader, libc start-up, iconv module loading) is not what the check is about
            hf = [f for f, loc in frames if loc.split(":")[0].startswith("c") and loc.split(":")[0].endswith((".c", ".h")) and re.match(r"c\d\d_", loc.split(":")[0])]
            if not hf:
                i = j
                continue
            fn = "harness:" + hf[0]
        key = "memcheck:%s:%s" % (kind, fn)
        if key not in seen:
            seen.add(key)
            out.append((key, m.group(1).strip()[:200] + " | " + " < ".join("%s (%s)" % f for f in frames[:6])))
        i = j
    return out


def split_by_case(stderr_text):
    """-> list of (case_idx or None, text)"""
    parts = re.split(r"^@case (-?\d+)\n", stderr_text, flags=re.M)
    out = []
    if parts[0].strip():
        out.append((None, parts[0]))
    for k in range(1, len(parts), 2):
        out.append((int(parts[k]), parts[k + 1]))
    return out


# ----------------------------------------------------------------------------
# running harness workers

def harness_env(flavour, extra_env=None):
    env = dict(os.environ)
    env["ASAN_OPTIONS"] = ASAN_OPTS
    env["UBSAN_OPTIONS"] = UBSAN_OPTS
    env["LSAN_OPTIONS"] = LSAN_OPTS
    env["TSAN_OPTIONS"] = "halt_on_error=0:second_deadlock_stack=1:history_size=4"
    env["MALLOC_PERTURB_"] = "165"
    env.pop("LANG", None)
    env["LC_ALL"] = "C"
    if extra_env:
        env.update(extra_env)
    return env


BLOCK_S = float(os.environ.get("VERIF_BLOCK_S", "20"))


def _proc_cpu_state(pid):
    """(utime+stime in clock ticks of the whole process, state letter of its main thread) or None"""
    try:
        with open("/proc/%d/stat" % pid, "rb") as f:
            b = f.read().decode("ascii", "replace")
        rest = b[b.rindex(")") + 2:].split()
        return int(rest[11]) + int(rest[12]), rest[0]
    except Exception:
        return None


class BlockDetector:
    """DESIGN 1.3: a worker that is inside one case, consumes no CPU and is not runnable for BLOCK_S seconds is
    blocked (deadlock, lost wake-up), not slow.  It gets SIGALRM, which its harness runtime turns into a
    'stall:<phase>' witness and exit 98 - the same path as the harness' own (much longer, load tolerant) wall
    clock alarm.  A starved or busy process (state R, or CPU time advancing) is never touched."""

    def __init__(self):
        self.last = {}   # pid -> (idx, cpu, t_since)

    def poll(self, pid, idx, now):
        cs = _proc_cpu_state(pid)
        if cs is None:
            return False
        cpu, st = cs
        prev = self.last.get(pid)
        if prev is None or prev[0] != idx or cpu - prev[1] >= 2 or st == "R":
            self.last[pid] = (idx, cpu, now)
            return False
        return now - prev[2] >= BLOCK_S


class Worker:
    def __init__(self, exe, job, tier, seed, start, n, workdir, tag, env):
        self.exe, self.job, self.tier, self.seed = exe, job, tier, seed
        self.cur, self.end = start, start + n
        self.workdir, self.tag, self.env = workdir, tag, env
        self.outp = os.path.join(workdir, tag + ".jsonl")
        self.errp = os.path.join(workdir, tag + ".stderr")
        self.stp = os.path.join(workdir, tag + ".status")
        self.proc = None
        self.events = []   # (rc, last_idx, stderr_offset)
        self.err_off = 0
        self.t_spawn = 0

    def spawn(self, budget=None):
        cmd = [self.exe, "--seed", str(self.seed), "--start", str(self.cur), "--cases", str(self.end - self.cur),
               "--tier", self.tier, "--out", self.outp, "--status", self.stp]
        if self.job.get("mode"):
            cmd += ["--mode", self.job["mode"]]
        b = budget or self.job.get("budget")
        if b:
            cmd += ["--budget", str(b)]
        for k, v in (self.job.get("params") or {}).items():
            cmd += ["--" + k, str(v[self.tier] if isinstance(v, dict) else v)]
        if self.job.get("valgrind"):
            cmd = ["valgrind", "--tool=memcheck", "-q", "--track-origins=yes", "--leak-check=no", "--num-callers=14",
                   "--error-limit=no", "--undef-value-errors=yes"] + cmd
        self.cmd = cmd
        ef = open(self.errp, "ab")
        self.proc = subprocess.Popen(cmd, stdout=ef, stderr=ef, env=self.env, cwd=self.workdir)
        ef.close()
        self.t_spawn = time.time()

    def status_idx(self):
        try:
            with open(self.stp, "rb") as f:
                b = f.read(16)
            import struct
            idx, done = struct.unpack("ll", b)
            return idx
        except Exception:
            return self.cur


def run_job(spec, job, tier, seed, res, repo, only_case=None, verbose=False):
    """Build the job's harness and run its cases on NCPU workers."""
    flavour = job["flavour"]
    srcs = list(job["srcs"]) + ["lib/vf.c"]
    if job.get("heap"):
        srcs.append("lib/vf_heap.c")
    exe = build.build_binary(job["harness"], srcs, flavour,
                             extra_c=job.get("cflags", ()), extra_ld=job.get("ldflags", ()),
                             lib_extra=job.get("lib_cflags", ()), repo=repo)
    total = job["cases"][tier] if isinstance(job["cases"], dict) else job["cases"]
    nworkers = min(job.get("workers", NCPU), NCPU, max(1, total))
    env = harness_env(flavour, job.get("env"))
    workdir = tempfile.mkdtemp(prefix="vf-%s-%s-" % (spec["id"], job["name"]), dir=os.environ.get("VERIF_TMP", "/tmp"))
    idioms = load_idioms()
    try:
        if only_case is not None:
            cmd = [exe, "--seed", str(seed), "--start", str(only_case), "--cases", "1", "--tier", tier, "-v"]
            if job.get("mode"):
                cmd += ["--mode", job["mode"]]
            if job.get("budget"):
                cmd += ["--budget", str(job["budget"] * 10)]
            for k, v in (job.get("params") or {}).items():
                cmd += ["--" + k, str(v[tier] if isinstance(v, dict) else v)]
            outp = os.path.join(workdir, "replay.jsonl")
            cmd += ["--out", outp]
            if job.get("valgrind"):
                cmd = ["valgrind", "--tool=memcheck", "-q", "--track-origins=yes", "--leak-check=no", "--num-callers=14",
                       "--error-limit=no"] + cmd
            log("replay: " + " ".join(cmd))
            errp = os.path.join(workdir, "replay.stderr")
            stp = os.path.join(workdir, "replay.status")
            with open(errp, "wb") as ef:
                pr = subprocess.Popen(cmd + ["--status", stp], env=env, cwd=workdir, stderr=ef)
                bd = BlockDetector()
                while pr.poll() is None:
                    time.sleep(1.0)
                    if pr.poll() is None and bd.poll(pr.pid, 0, time.time()):
                        bd.last.pop(pr.pid, None)
                        pr.send_signal(signal.SIGALRM)
            class _P:
                pass
            p = _P()
            p.returncode = pr.returncode
            p.stderr = open(errp, "r", errors="replace").read()
            sys.stdout.write(p.stderr[-6000:])
            _collect(outp, job, res)
            for case, text in split_by_case(p.stderr):
                for k, d in parse_sanitizer_text(text, repo, res, idioms):
                    res.violation(k, d, job=job["name"], case=case)
                if job.get("valgrind"):
                    for k, d in parse_valgrind_text(text, repo):
                        if k.startswith("memcheck:uninitialised") and not job.get("uninitialised_is_violation"):
                            log("  (informational) %s %s" % (k, d))
                            continue
                        res.violation(k, d, job=job["name"], case=case)
            if p.returncode not in (0, 96, 97, 98) and not res.violations:
                res.violation("crash:exit%d" % p.returncode, "replay exited with %d" % p.returncode, job=job["name"], case=only_case)
            res.cases += 1
            return
        chunk = (total + nworkers - 1) // nworkers
        workers = []
        for w in range(nworkers):
            s = w * chunk
            n = min(chunk, total - s)
            if n <= 0:
                break
            wk = Worker(exe, job, tier, seed, s, n, workdir, "w%02d" % w, env)
            wk.spawn()
            workers.append(wk)
        deadline = time.time() + job.get("wall_limit", {"quick": 900, "thorough": 6 * 3600}[tier])
        active = list(workers)
        fatal_events = []  # (worker, rc, idx)
        restarts = 0
        slow_deaths = 0
        stopped_early = False
        bd = BlockDetector()
        t_bd = time.time()
        while active:
            time.sleep(0.05)
            check_blocked = time.time() - t_bd >= 1.0
            if check_blocked:
                t_bd = time.time()
            for wk in list(active):
                rc = wk.proc.poll()
                if rc is None:
                    if check_blocked and bd.poll(wk.proc.pid, wk.status_idx(), t_bd):
                        bd.last.pop(wk.proc.pid, None)
                        res.count("workers_found_blocked_by_driver")
                        try:
                            wk.proc.send_signal(signal.SIGALRM)
                        except Exception:
                            pass
                        continue
                    if time.time() > deadline:
                        wk.proc.kill()
                        wk.proc.wait()
                        res.inconclusive.append("job %s worker %s: wall limit reached at case %d" % (job["name"], wk.tag, wk.status_idx()))
                        active.remove(wk)
                    continue
                if rc == 0:
                    active.remove(wk)
                    continue
                idx = wk.status_idx()
                fatal_events.append((wk, rc, idx))
                if rc == 3:
                    res.harness_errors.append("job %s: harness self-test failed (see %s)" % (job["name"], wk.errp))
                    active.remove(wk)
                    continue
                if rc == 2:
                    res.harness_errors.append("job %s: harness usage/setup error rc=2" % job["name"])
                    active.remove(wk)
                    continue
                restarts += 1
                wk.cur = max(wk.cur, idx) + 1
                if rc in (97, 98):
                    slow_deaths += 1
                if slow_deaths >= job.get("max_watchdog_deaths", 24):
                    # every watchdog expiry costs its whole budget (20 s wall for a stall): on a tree where most
                    # cases hang the job would take hours and the verdict (violation, after reproduction) is
                    # already decided by the witnesses recorded so far
                    if not stopped_early:
                        stopped_early = True
                        res.count("jobs_stopped_after_watchdog_expiries")
                        res.inconclusive.append("job %s: stopped after %d watchdog expiries, remaining cases not run" % (job["name"], slow_deaths))
                        log("job %s: %d watchdog expiries (hang/stall), remaining cases not run" % (job["name"], slow_deaths))
                    active.remove(wk)
                    continue
                if wk.cur >= wk.end or restarts > job.get("max_restarts", 400):
                    if restarts > job.get("max_restarts", 400):
                        res.inconclusive.append("job %s: too many worker restarts" % job["name"])
                    active.remove(wk)
                else:
                    wk.spawn()
        # collect
        for wk in workers:
            _collect(wk.outp, job, res)
            try:
                text = open(wk.errp, "r", errors="replace").read()
            except OSError:
                text = ""
            had = set()
            for case, seg in split_by_case(text):
                for k, d in parse_sanitizer_text(seg, repo, res, idioms):
                    res.violation(k, d, job=job["name"], case=case, stderr=seg[-3000:])
                    had.add(case)
                if job.get("valgrind"):
                    for k, d in parse_valgrind_text(seg, repo):
                        if k.startswith("memcheck:uninitialised") and not job.get("uninitialised_is_violation"):
                            # reads of uninitialised memory inside an object: reported in evidence, a violation
                            # only where the property speaks about them
                            res.count("informational:" + k)
                            continue
                        res.violation(k, d, job=job["name"], case=case, stderr=seg[-3000:])
                        had.add(case)
                    res.count("memcheck_cases_scanned")
            # deaths that left neither a viol line nor a sanitizer report
            for (w2, rc, idx) in fatal_events:
                if w2 is not wk or rc in (96, 97, 98, 2, 3):
                    continue
                if idx in had:
                    continue
                signame = ""
                if rc < 0:
                    try:
                        signame = signal.Signals(-rc).name
                    except Exception:
                        signame = "SIG%d" % -rc
                phase = _phase_of(wk.stp)
                seg = ""
                for case, s in split_by_case(text):
                    if case == idx:
                        seg = s
                res.violation("crash:%s:%s" % (signame or ("exit%d" % rc), phase),
                              "worker died with %s in case %d" % (signame or rc, idx), job=job["name"], case=idx,
                              stderr=seg[-3000:])
        if os.environ.get("VERIF_KEEP"):
            log("kept workdir " + workdir)
    finally:
        if not os.environ.get("VERIF_KEEP"):
            shutil.rmtree(workdir, ignore_errors=True)


def _phase_of(stp):
    try:
        with open(stp, "rb") as f:
            b = f.read(4096)
        ph = b[16:216].split(b"\0")[0].decode("ascii", "replace")
        return re.sub(r"[^A-Za-z0-9_.:-]", "_", ph) or "?"
    except Exception:
        return "?"


def _collect(outp, job, res):
    if not os.path.exists(outp):
        return
    with open(outp, "r", errors="replace") as f:
        for ln in f:
            ln = ln.strip()
            if not ln or not ln.startswith("{"):
                continue
            try:
                o = json.loads(ln)
            except ValueError:
                continue
            t = o.get("t")
            if t == "sig":
                res.sigs.add(job["name"] + ":" + o["s"] if job.get("sig_prefix", False) else o["s"])
            elif t == "cnt":
                res.cases += o.get("cases", 0)
                res.trivial += o.get("trivial", 0)
                for k, v in o.get("k", {}).items():
                    res.count(k, v)
            elif t == "sample":
                res.sample({"job": job["name"], "case": o.get("i"), "desc": o.get("s")})
            elif t == "viol":
                key = o.get("key", "?")
                res.violation(key, o.get("detail", ""), job=job["name"], case=o.get("i"), sample=o.get("sample"))


# ----------------------------------------------------------------------------
# known findings, replay files, evidence, verdict

def load_known(pid):
    if not os.path.exists(KNOWN):
        return []
    data = json.load(open(KNOWN))
    return [f for f in data.get("findings", []) if f.get("property") == pid]


def match_known(v, known):
    for f in known:
        if f.get("status") != "open":
            continue  # a fixed entry suppresses nothing
        if not fnmatch.fnmatchcase(v.key, f["key"]):
            continue
        if f.get("job") and f["job"] != v.job:
            continue
        if f.get("match") and not re.search(f["match"], (v.detail or "") + "\n" + (v.sample or "")):
            continue
        return f
    return None


def safe(s):
    return re.sub(r"[^A-Za-z0-9_.-]", "_", s)[:80]


def write_replay(spec, res, v):
    d = os.path.join(VERIF, "replays", spec["id"])
    os.makedirs(d, exist_ok=True)
    path = os.path.join(d, "%s-%s-%s.json" % (safe(v.key), res.seed, v.case if v.case is not None else "x"))
    obj = {"property": spec["id"], "key": v.key, "detail": v.detail, "job": v.job, "case": v.case,
           "seed": res.seed, "tier": res.tier, "sample": v.sample, "stderr_tail": v.stderr, "extra": v.extra,
           "replay": "./check %s --replay %s" % (spec["id"], path)}
    with open(path, "w") as f:
        json.dump(obj, f, indent=1)
    return path


def finish(spec, res):
    """Known-finding matching, output lines, evidence file, exit status."""
    pid = spec["id"]
    known = load_known(pid)
    unknown = {}
    known_hit = {}
    for v in res.violations:
        # stall = wall-clock watchdog: inconclusive unless reproduced (the
        # generic runner re-runs it; a reproduced one is re-keyed deadlock:)
        f = match_known(v, known)
        if f is not None:
            known_hit.setdefault(f["key"] + "|" + f.get("match", ""), (f, []))[1].append(v)
        else:
            unknown.setdefault(v.key, []).append(v)
    for (f, vs) in known_hit.values():
        log("KNOWN-FINDING: property=%s %s (key=%s, seen %d times this run)" % (pid, f["what"], f["key"], len(vs)))
    nviol = 0
    for key, vs in list(unknown.items())[:25]:
        v = vs[0]
        path = write_replay(spec, res, v)
        log("VIOLATION property=%s replay=%s" % (pid, path))
        log("  key=%s cases=%d first: job=%s case=%s %s" % (key, len(vs), v.job, v.case, (v.detail or "")[:400]))
        nviol += 1
    for msg in res.inconclusive[:20]:
        log("INCONCLUSIVE property=%s %s" % (pid, msg))
    for msg in res.harness_errors[:20]:
        log("HARNESS-ERROR property=%s %s" % (pid, msg))

    nontrivial = len(res.sigs)
    wall = time.time() - res.t0
    cov = {
        "evaluations": int(res.cases),
        "distinct_nontrivial": int(nontrivial),
        "rule": spec.get("rule", ""),
        "samples": res.samples[:8] if res.samples else [],
        "trivial_cases": int(res.trivial),
        "counters": dict(sorted(res.counters.items())),
        "signatures_sample": sorted(res.sigs)[:12],
        "known_findings_hit": [{"key": f["key"], "what": f["what"], "times": len(vs)} for (f, vs) in known_hit.values()],
        "inconclusive": res.inconclusive[:20],
        "jobs": [j["name"] for j in spec.get("jobs", [])],
        "repo": build.repo_dir(),
    }
    if res.exhaustive is not None:
        cov["exhaustive"] = bool(res.exhaustive)
    cov.update(res.extra)
    ev = {
        "property_id": pid, "tier": res.tier, "seed": int(res.seed), "level": spec.get("level", "exploration"),
        "coverage": cov, "assumptions": spec.get("assumptions", []), "wall_s": round(wall, 2),
        "violations": nviol,
    }
    rc = 0
    if nviol:
        rc = 1
    elif res.harness_errors:
        rc = 2
    else:
        need_ev = spec.get("min_evaluations", {"quick": 1, "thorough": 1}).get(res.tier, 1)
        need_sig = spec.get("min_distinct", 2)
        if res.cases < need_ev or nontrivial < need_sig:
            log("HARNESS-ERROR property=%s monitors observed too little: %d cases, %d distinct non-trivial (need %d/%d)"
                % (pid, res.cases, nontrivial, need_ev, need_sig))
            rc = 2
        for cname, cmin in spec.get("min_counters", {}).items():
            if res.counters.get(cname, 0) < cmin:
                log("HARNESS-ERROR property=%s required event kind never/too rarely observed: %s=%d < %d"
                    % (pid, cname, res.counters.get(cname, 0), cmin))
                rc = 2
    if not ev["coverage"]["samples"]:
        ev["coverage"]["samples"] = ["(no sample recorded)"]
    os.makedirs(os.path.join(VERIF, "evidence"), exist_ok=True)
    if os.environ.get("VERIF_REPO") and not os.environ.get("VERIF_EVIDENCE_ANYWAY"):
        evp = os.path.join(os.environ.get("VERIF_TMP", "/tmp"), "evidence-%s-%d.json" % (pid, os.getpid()))
    else:
        evp = os.path.join(VERIF, "evidence", pid + ".json")
    with open(evp, "w") as f:
        json.dump(ev, f, indent=1)
    log("%s %s seed=%s: %d cases (%d trivial), %d distinct non-trivial signatures, %d violation key(s), %d known finding(s), %.1fs -> exit %d"
        % (pid, res.tier, res.seed, res.cases, res.trivial, nontrivial, nviol, len(known_hit), wall, rc))
    return rc


def run_check(spec, tier, seed, replay=None):
    repo = build.repo_dir()
    res = Result(spec["id"], tier, seed)
    if replay:
        rp = json.load(open(replay))
        res.tier = tier = rp.get("tier", tier)
        res.seed = seed = rp.get("seed", seed)
        if spec.get("custom_replay"):
            spec["custom_replay"](spec, rp, res, repo)
        else:
            job = [j for j in spec["jobs"] if j["name"] == rp["job"]][0]
            run_job(spec, job, tier, seed, res, repo, only_case=rp["case"], verbose=True)
        hit = [v for v in res.violations if v.key == rp["key"]]
        for v in res.violations:
            log("  reproduced: key=%s %s" % (v.key, (v.detail or "")[:500]))
        if hit:
            log("VIOLATION property=%s replay=%s" % (spec["id"], replay))
            return 1
        log("replay did not reproduce key %s (%d other violation(s))" % (rp["key"], len(res.violations)))
        return 1 if res.violations else 0
    for job in spec.get("jobs", []):
        if tier not in job.get("tiers", ("quick", "thorough")):
            continue
        run_job(spec, job, tier, seed, res, repo)
    # stalls (wall-clock watchdog) are inconclusive unless reproduced in isolation
    stalls = [v for v in res.violations if v.key.startswith("stall:")]
    res.violations = [v for v in res.violations if not v.key.startswith("stall:")]
    redone = set()
    for v in stalls[:4]:
        if (v.job, v.case) in redone:
            continue
        redone.add((v.job, v.case))
        job = [j for j in spec["jobs"] if j["name"] == v.job][0]
        r2 = Result(spec["id"], tier, seed)
        run_job(spec, job, tier, seed, r2, repo, only_case=v.case)
        again = [x for x in r2.violations if x.key.startswith("stall:") or x.key.startswith("hang:")]
        if again:
            res.violation("deadlock:" + v.key.split(":", 1)[1], "reproduced in isolation with 10x budget: " + v.detail,
                          job=v.job, case=v.case)
        else:
            res.inconclusive.append("stall in job %s case %s not reproduced in isolation" % (v.job, v.case))
    if spec.get("custom"):
        spec["custom"](spec, tier, seed, res, repo)
    return finish(spec, res)
